# C12 — Primality tests and integer factorisation return correct, complete answers.   (DESIGN 5/C12)
# proof:  coq/C12.  gen/Tables.v is regenerated from /repo's CURRENT source text on every run (translator
#         tie for the data: prime tables, table sizes, dispatch boundaries, low-end constants of
#         next/prevprime, the trial-division macros and primorial constants of factor(), the small-prime
#         table of isprimepower, givprimes16.C).  Theorems are re-checked against what the source says now.
# tie:    correspondence: extracted model vs the implementation compiled from the current tree
#         (exhaustive for n < 2^16 on isprime/isprime_Tabule/isprime_Tabule2/next/prev; generated beyond).
# search: sieve of Eratosthenes, deterministic Miller-Rabin (bases 2..41 and more), re-multiplication of factor
#         lists with independent primality of each factor, brute-force divisor lists.
import json, math, os, re, sys

if __name__ == "__main__":
    sys.path.insert(0, os.path.join(os.path.dirname(os.path.dirname(os.path.abspath(__file__))), "lib"))
import vf

if hasattr(sys, "set_int_max_str_digits"):
    sys.set_int_max_str_digits(0)          # isprimepower cases have 10^4-digit arguments

AREA = "C12"
SRC = {
    "prime_h": "src/kernel/integer/givintprime.h",
    "prime_C": "src/kernel/integer/givintprime.C",
    "prime_inl": "src/kernel/integer/givintprime.inl",
    "factor_h": "src/kernel/integer/givintfactor.h",
    "factor_inl": "src/kernel/integer/givintfactor.inl",
    "misc_C": "src/kernel/gmp++/gmp++_int_misc.C",
    "primes16_C": "src/kernel/field/givprimes16.C",
}


# ------------------------------------------------------------------ translator for the data part

class GenError(Exception):
    pass


def strip_comments(txt):
    txt = re.sub(r"/\*.*?\*/", " ", txt, flags=re.S)
    txt = re.sub(r"//[^\n]*", " ", txt)
    return txt


def read_src(key):
    p = os.path.join(vf.REPO, SRC[key])
    try:
        return strip_comments(open(p, errors="replace").read())
    except OSError as e:
        raise GenError("cannot read %s: %s" % (p, e))


def macros_of(txt):
    """object-like #define NAME value  (value = integer literal or another macro)"""
    m = {}
    for name, val in re.findall(r"^[ \t]*#[ \t]*define[ \t]+([A-Za-z_]\w*)[ \t]+([A-Za-z_0-9]+)[ \t]*$", txt, flags=re.M):
        m.setdefault(name, val)
    return m


def int_lit(tok):
    t = tok.strip()
    t = re.sub(r"[uUlL]+$", "", t)
    if re.fullmatch(r"-?\d+", t):
        return int(t)
    if re.fullmatch(r"-?0[xX][0-9a-fA-F]+", t):
        return int(t, 16)
    return None


def ev(tok, macros, depth=0):
    """value of an integer token / macro name / simple 'A+5' or 'A>>1' expression"""
    tok = tok.strip()
    while tok.startswith("(") and tok.endswith(")"):
        tok = tok[1:-1].strip()
    v = int_lit(tok)
    if v is not None:
        return v
    if depth > 8:
        raise GenError("macro recursion on " + tok)
    m = re.fullmatch(r"(.+?)\s*(\+|-|>>|<<)\s*(\w+)", tok)
    if m:
        a, b = ev(m.group(1), macros, depth + 1), ev(m.group(3), macros, depth + 1)
        return {"+": a + b, "-": a - b, ">>": a >> b, "<<": a << b}[m.group(2)]
    if tok in macros:
        return ev(macros[tok], macros, depth + 1)
    raise GenError("cannot evaluate constant expression '%s'" % tok)


def array_init(txt, decl_re, macros, what):
    m = re.search(decl_re + r"\s*=\s*\{(.*?)\}\s*;", txt, flags=re.S)
    if not m:
        raise GenError("cannot find the initialiser of " + what)
    body = m.group(m.lastindex)
    toks = [t for t in (x.strip() for x in body.split(",")) if t != ""]
    return m, [ev(t, macros) for t in toks]


def func_body(txt, header_re, what):
    m = re.search(header_re, txt, flags=re.S)
    if not m:
        raise GenError("cannot find " + what)
    i = txt.index("{", m.end() - 1) if txt[m.end() - 1] != "{" else m.end() - 1
    depth, j = 0, i
    while j < len(txt):
        if txt[j] == "{":
            depth += 1
        elif txt[j] == "}":
            depth -= 1
            if depth == 0:
                return txt[i + 1:j]
        j += 1
    raise GenError("unbalanced braces in " + what)


def _walk(n):
    yield n
    for ch in n.get("inner", []) or []:
        yield from _walk(ch)


def read_domain_ast():
    """clang AST of harness/c12_ast.C against the current tree: for IntFactorDom<GivRandom> (the instantiation) the non-static data
    members, what the value constructor gives them, and what the COPY constructor (implicit or hand-written) and operator= do with
    each of them.  -> dict; raises GenError when clang fails or the class is not found."""
    import subprocess
    src = os.path.join(vf.ROOT, "harness", "c12_ast.C")
    cmd = ["clang++", "-std=gnu++11", "-fsyntax-only", "-w", "-DHAVE_CONFIG_H", "-DGIVARO_VERIF"] + vf.inc_flags() + \
          ["-Xclang", "-ast-dump=json", "-Xclang", "-ast-dump-filter=IntFactorDom", src]
    try:
        p = subprocess.run(cmd, stdout=subprocess.PIPE, stderr=subprocess.PIPE, universal_newlines=True, timeout=900)
    except (OSError, subprocess.TimeoutExpired) as e:
        raise GenError("clang AST dump of harness/c12_ast.C did not run: %s" % e)
    if p.returncode != 0:
        raise GenError("clang AST dump of harness/c12_ast.C failed: " + p.stderr[-600:])
    out, dec, i, spec = p.stdout, json.JSONDecoder(), 0, None
    while i < len(out):
        while i < len(out) and out[i].isspace():
            i += 1
        if i >= len(out):
            break
        o, i = dec.raw_decode(out, i)
        if o.get("kind") == "ClassTemplateSpecializationDecl" and o.get("name") == "IntFactorDom":
            spec = o
    if spec is None:
        raise GenError("the instantiation IntFactorDom<GivRandom> is not in the clang AST")
    D = {"fields": [], "types": {}, "value_ctor": {}, "copy_ctor": {}, "copy_ctor_user": None, "assign_user": None, "assign": {}}
    for ch in spec.get("inner", []):
        if ch.get("kind") == "FieldDecl":
            D["fields"].append(ch["name"]); D["types"][ch["name"]] = ch["type"]["qualType"]

    def inits(ctor):
        r = {}
        for x in ctor.get("inner", []):
            if x.get("kind") != "CXXCtorInitializer":
                continue
            tgt = (x.get("anyInit") or {}).get("name") or "base:" + (x.get("baseInit") or {}).get("qualType", "?")
            how = ("default", None)
            for n in _walk(x):
                k = n.get("kind")
                if k == "MemberExpr":
                    how = ("from_source", n.get("name")); break
                if k == "IntegerLiteral":
                    how = ("literal", int(n.get("value"))); break
                if k == "StringLiteral":
                    how = ("literal", int_lit(n.get("value", "").strip('"'))); break
                if k == "DeclRefExpr" and tgt.startswith("base:"):
                    how = ("from_source", "base"); break
                if k == "DeclRefExpr" and (n.get("referencedDecl") or {}).get("kind") == "ParmVarDecl":
                    how = ("parameter", (n.get("referencedDecl") or {}).get("name")); break
            r[tgt] = how
        return r
    for ch in spec.get("inner", []):
        if ch.get("kind") == "CXXConstructorDecl":
            q = ch.get("type", {}).get("qualType", "")
            if re.match(r"void \(const [^)]*IntFactorDom<[^)]*> &\)", q):
                D["copy_ctor_user"] = not ch.get("isImplicit", False)
                D["copy_ctor"] = inits(ch)
                D["copy_ctor_has_body"] = any(x.get("kind") == "CompoundStmt" for x in ch.get("inner", []))
            elif "&&" not in q and not ch.get("isImplicit", False):
                D["value_ctor"] = inits(ch)
        if ch.get("kind") == "CXXMethodDecl" and ch.get("name") == "operator=" and "&&" not in ch.get("type", {}).get("qualType", ""):
            D["assign_user"] = not ch.get("isImplicit", False)
            if D["assign_user"]:
                for n in _walk(ch):        # members assigned in a hand-written operator=:  m = F.m
                    if n.get("kind") in ("BinaryOperator", "CXXOperatorCallExpr") and (n.get("opcode") == "=" or n.get("kind") == "CXXOperatorCallExpr"):
                        ms = [m.get("name") for m in _walk(n) if m.get("kind") == "MemberExpr"]
                        if len(ms) >= 2 and ms[0] == ms[1]:
                            D["assign"][ms[0]] = ("from_source", ms[0])
    if D["copy_ctor_user"] is None or not D["copy_ctor"]:
        raise GenError("no copy constructor of IntFactorDom<GivRandom> in the clang AST (is it deleted?)")
    return D


def gen_tables():
    """-> (coq text, dict of constants).  Raises GenError when the source left the translated shape."""
    K = {}
    K["DOM"] = read_domain_ast()
    if sorted(K["DOM"]["fields"]) != sorted(["PROD_first_primes", "PROD_second_primes", "_g"]):
        raise GenError("IntFactorDom<> has data members the model does not carry: %s" % K["DOM"]["fields"])
    ph, pc = read_src("prime_h"), read_src("prime_C")
    mac = macros_of(ph)
    mac.update(macros_of(pc))
    for n in ("LOGMAX", "TABMAX", "LOGMAX2", "TABMAX2", "BOUNDARY_isprime", "BOUNDARY_2_isprime"):
        K[n] = ev(n, mac)
    # --- the two tables, their declared sizes and the shifted pointers
    for tab, tp in (("IP", "TP"), ("IP2", "TP2")):
        m, vals = array_init(pc, r"[\w:\s]*?\bIntPrimeDom::%s\s*\[([^\]]*)\]" % tab, mac, tab + "[]")
        size = ev(re.search(r"IntPrimeDom::%s\s*\[([^\]]*)\]" % tab, pc).group(1), mac)
        if len(vals) > size:
            raise GenError("%s[] has more initialisers (%d) than its declared size (%d)" % (tab, len(vals), size))
        vals = vals + [0] * (size - len(vals))       # C++: the rest is zero-initialised
        K[tab] = vals
        m2 = re.search(r"IntPrimeDom::%s\s*=\s*&\s*\(?\s*(?:IntPrimeDom::)?%s\s*\)?\s*\[\s*(\w+)\s*\]" % (tp, tab), pc)
        if not m2:
            raise GenError("cannot find the definition of the shifted table pointer " + tp)
        K[tp + "_OFFSET"] = ev(m2.group(1), mac)
    # --- the searches: initial step, loop counter, table pointer
    for fn, key in (("isprime_Tabule", "T1"), ("isprime_Tabule2", "T2")):
        msig = re.search(r"int\s+IntPrimeDom::%s\s*\(\s*(?:const\s+)?\w+\s+(\w+)\s*\)\s*const\s*\{" % fn, pc)
        if not msig:
            raise GenError("cannot find " + fn)
        arg = msig.group(1)
        b = func_body(pc, r"int\s+IntPrimeDom::%s\s*\(\s*(?:const\s+)?\w+\s+\w+\s*\)\s*const\s*\{" % fn, fn)
        # local names are free: plus / here / loop / a are recognised by their roles
        mn = re.search(r"int\s+(\w+)\s*=\s*([^;]+);\s*int\s+(\w+)\s*=\s*([^;]+);", b)
        if mn:
            for old, new in ((mn.group(1), "plus"), (mn.group(3), "here")):
                b = re.sub(r"\b%s\b" % re.escape(old), new, b)
        ml0 = re.search(r"for\s*\(\s*int\s+(\w+)\s*=", b)
        if ml0:
            b = re.sub(r"\b%s\b" % re.escape(ml0.group(1)), "loop", b)
        b = re.sub(r"\b%s\b" % re.escape(arg), "n", b)
        ma0 = re.search(r"(\w+)\s*=\s*\(?\s*\w+\s*\[\s*here\s*\]\s*-\s*n", b)
        if ma0:
            b = re.sub(r"\b%s\b" % re.escape(ma0.group(1)), "a", b)
        m = re.search(r"int\s+plus\s*=\s*([^;]+);\s*int\s+here\s*=\s*([^;]+);", b)
        ml = re.search(r"for\s*\(\s*int\s+loop\s*=\s*([^;]+);\s*loop\s*;\s*\(?\s*loop\s*>>=\s*(\w+)\s*\)?\s*\)", b)
        mt = re.search(r"\(\s*(\w+)\s*\[\s*here\s*\]\s*-\s*n\s*\)", b)
        if not (m and ml and mt):
            raise GenError("%s left the translated shape (plus/here initialisation, for(loop...; loop; loop >>= k), TP[here] - n)" % fn)
        K[key + "_PLUS0"] = ev(m.group(1), mac)
        K[key + "_HERE0"] = K[key + "_PLUS0"] if m.group(2).strip() == "plus" else ev(m.group(2), mac)
        K[key + "_LOOP0"] = ev(ml.group(1), mac)
        K[key + "_LOOPSHIFT"] = ev(ml.group(2), mac)
        K[key + "_TABLE"] = mt.group(1)
        steps = re.findall(r"here\s*(-=|\+=)\s*\(\s*\+\+plus\s*>>=\s*(\w+)\s*\)", b)
        if [s[0] for s in steps] != ["-=", "+="] or not re.search(r"if\s*\(\s*a\s*>\s*0\s*\)\s*here\s*-=", b):
            raise GenError("%s left the translated shape (if (a > 0) here -= (++plus >>= k); else here += (++plus >>= k))" % fn)
        K[key + "_STEPSHIFT"] = ev(steps[0][1], mac)
        if steps[0][1] != steps[1][1]:
            raise GenError("%s: the two step shifts differ" % fn)
    if K["T1_TABLE"] != "TP" or K["T2_TABLE"] != "TP2":
        raise GenError("isprime_Tabule/Tabule2 do not read TP/TP2 any more (%s/%s)" % (K["T1_TABLE"], K["T2_TABLE"]))
    # --- dispatch of isprime (givintprime.h)
    msig = re.search(r"int\s+isprime\s*\(\s*const\s+Rep\s*&\s*(\w+)\s*,\s*int\s+(\w+)\s*=\s*\w+\s*\)\s*const\s*\{", ph)
    if not msig:
        raise GenError("cannot find IntPrimeDom::isprime(const Rep&, int = ...)")
    b = func_body(ph, r"int\s+isprime\s*\(\s*const\s+Rep\s*&\s*\w+\s*,\s*int\s+\w+\s*=\s*\w+\s*\)\s*const\s*\{", "IntPrimeDom::isprime")
    b = re.sub(r"\b%s\b" % re.escape(msig.group(1)), "n", b)
    b = re.sub(r"\b%s\b" % re.escape(msig.group(2)), "r", b)
    b = re.sub(r"convert\s*\(\s*\w+\s*,\s*n\s*\)", "convert(l,n)", b)
    md = re.search(r"(?:(GIVARO_IS\w+)\s*\(\s*n\s*,\s*(\w+)\s*\)\s*\?\s*0\s*:\s*)?"
                   r"(GIVARO_IS\w+)\s*\(\s*n\s*,\s*(\w+)\s*\)\s*\?\s*isprime_Tabule\s*\(\s*\(int32_t\)\s*convert\s*\(\s*l\s*,\s*n\s*\)\s*\)\s*:\s*"
                   r"(GIVARO_IS\w+)\s*\(\s*n\s*,\s*(\w+)\s*\)\s*\?\s*isprime_Tabule2\s*\(\s*\(int32_t\)\s*convert\s*\(\s*l\s*,\s*n\s*\)\s*\)\s*:\s*"
                   r"local_prime\s*\(\s*n\s*,\s*r\s*\)", b)
    if not md:
        raise GenError("IntPrimeDom::isprime left the translated shape (n < B1 ? Tabule : n < B2 ? Tabule2 : local_prime)")
    cmpmac = {}
    for name, op in re.findall(r"#\s*define\s+(GIVARO_IS\w+)\s*\(\s*a\s*,\s*b\s*\)\s*\(\s*\(a\)\s*(<=|>=|<|>)\s*\(b\)\s*\)", ph):
        cmpmac[name] = op
    # optional leading guard  n < k ? 0 :   (present once isprime rejects n < 2 before looking at the tables)
    if md.group(1):
        if cmpmac.get(md.group(1)) not in ("<", "<="):
            raise GenError("isprime guard uses comparison %s = '%s'" % (md.group(1), cmpmac.get(md.group(1))))
        K["ISPRIME_HAS_GUARD"] = True
        K["ISPRIME_GUARD"] = ev(md.group(2), mac) + (1 if cmpmac[md.group(1)] == "<=" else 0)
    else:
        K["ISPRIME_HAS_GUARD"], K["ISPRIME_GUARD"] = False, 0
    for i, (cm, bd) in enumerate(((md.group(3), md.group(4)), (md.group(5), md.group(6)))):
        if cmpmac.get(cm) not in ("<", "<="):
            raise GenError("isprime dispatch uses comparison %s = '%s'" % (cm, cmpmac.get(cm)))
        # normalise n <= b to n < b+1
        K["DISPATCH%d" % (i + 1)] = ev(bd, mac) + (1 if cmpmac[cm] == "<=" else 0)
    # --- low ends of next/prevprime
    def low_end(fn, sig, var):
        b = func_body(pc, sig, fn)
        m = re.match(r"\s*if\s*\(\s*(GIVARO_IS\w+)\s*\(\s*\w+\s*,\s*(\w+)\s*\)\s*\)\s*return\s*\(?\s*\w+\s*=\s*(\w+)\s*\)?\s*;", b)      # names free
        if not m or cmpmac.get(m.group(1)) not in ("<", "<="):
            raise GenError("%s left the translated shape (if (%s <= k) return n = v;)" % (fn, var))
        bound = ev(m.group(2), mac) + (0 if cmpmac[m.group(1)] == "<=" else -1)
        return bound, ev(m.group(3), mac), b
    K["NEXTIN_LOW"], K["NEXTIN_LOWVAL"], b1 = low_end("nextprimein", r"IntPrimeDom::nextprimein\s*\([^)]*\)\s*const\s*\{", "n")
    K["NEXT_LOW"], K["NEXT_LOWVAL"], b2 = low_end("nextprime", r"IntPrimeDom::nextprime\s*\([^)]*\)\s*const\s*\{", "p")
    K["PREVIN_LOW"], K["PREVIN_LOWVAL"], b3 = low_end("prevprimein", r"IntPrimeDom::prevprimein\s*\([^)]*\)\s*const\s*\{", "n")
    K["PREV_LOW"], K["PREV_LOWVAL"], b4 = low_end("prevprime", r"IntPrimeDom::prevprime\s*\([^)]*\)\s*const\s*\{", "p")
    # first step and loop step of the four functions:  (x&1u) ? A : B  and  addin/subin(n, S)
    def steps(fn, body, var, op):
        m = re.search(r"\(\s*\w+\s*&\s*1[uU]?[lL]*\s*\)\s*\?\s*(\w+)\s*:\s*(\w+)", body)
        ms = re.search(r"while\s*\(\s*!\s*isprime\s*\(\s*(\w+)\s*,\s*\w+\s*\)\s*\)\s*\{?\s*%sin\s*\(\s*\1\s*,\s*(\w+)\s*\)" % op, body)
        ms = ms and re.match(r"()(.*)", ms.group(2))
        if not m or not ms:
            raise GenError("%s left the translated shape (first step (x&1u)?a:b, loop while(!isprime(n,r)) %sin(n,s))" % (fn, op))
        return ev(m.group(1), mac), ev(m.group(2), mac), ev(ms.group(2), mac)
    K["NEXTIN_ODD"], K["NEXTIN_EVEN"], K["NEXTIN_STEP"] = steps("nextprimein", b1, "n", "add")
    K["NEXT_ODD"], K["NEXT_EVEN"], K["NEXT_STEP"] = steps("nextprime", b2, "p", "add")
    K["PREVIN_ODD"], K["PREVIN_EVEN"], K["PREVIN_STEP"] = steps("prevprimein", b3, "n", "sub")
    K["PREV_ODD"], K["PREV_EVEN"], K["PREV_STEP"] = steps("prevprime", b4, "p", "sub")
    # --- Protected::prevprime (gmp++_int_misc.C)
    mc = read_src("misc_C")
    msig = re.search(r"Integer\s*&\s*prevprime\s*\(\s*Integer\s*&\s*(\w+)\s*,\s*const\s+Integer\s*&\s*(\w+)\s*\)\s*\{", mc)
    if not msig:
        raise GenError("cannot find Protected::prevprime(Integer&, const Integer&)")
    b = func_body(mc, r"Integer\s*&\s*prevprime\s*\(\s*Integer\s*&\s*\w+\s*,\s*const\s+Integer\s*&\s*\w+\s*\)\s*\{", "Protected::prevprime")
    b = re.sub(r"\b%s\b" % re.escape(msig.group(1)), "r", b)
    b = re.sub(r"\b%s\b" % re.escape(msig.group(2)), "p", b)
    m = re.match(r"\s*if\s*\(\s*p\s*(<=|<)\s*(\w+)\s*\)\s*return\s*\(?\s*r\s*=\s*(\w+)\s*\)?\s*;", b)
    subs = re.findall(r"mpz_sub_ui\s*\([^;]*?,\s*(\w+)\s*\)\s*;", b)
    if not m or len(subs) != 3 or not re.search(r"if\s*\(\s*isOdd\s*\(\s*p\s*\)\s*\)", b):
        raise GenError("Protected::prevprime left the translated shape")
    K["PPREV_LOW"] = ev(m.group(2), mac) - (1 if m.group(1) == "<" else 0)
    K["PPREV_LOWVAL"] = ev(m.group(3), mac)
    K["PPREV_ODD"], K["PPREV_EVEN"], K["PPREV_STEP"] = [ev(s, mac) for s in subs]
    # --- isprimepower: small primes
    m, vals = array_init(pc, r"static\s+const\s+[\w\s]*?\bprimes\s*\[\s*\]()", mac, "isprimepower's primes[]")
    K["PP_PRIMES"] = vals
    K["SMALLEST_OMITTED_PRIME"] = ev("SMALLEST_OMITTED_PRIME", mac)
    b = func_body(pc, r"unsigned\s+int\s+IntPrimeDom::isprimepower\s*\([^)]*\)\s*const\s*\{", "IntPrimeDom::isprimepower")
    msig = re.search(r"IntPrimeDom::isprimepower\s*\(\s*Rep\s*&\s*(\w+)\s*,\s*const\s+Rep\s*&\s*(\w+)\s*\)", pc)
    if msig:
        b = re.sub(r"\b%s\b" % re.escape(msig.group(2)), "u", re.sub(r"\b%s\b" % re.escape(msig.group(1)), "q", b))
    msz = re.search(r"int\s+(\w+)\s*=\s*(?:int\s*\(|\(\s*int\s*\))?\s*u\s*\.\s*size\s*\(", b)
    if msz:
        b = re.sub(r"\b%s\b" % re.escape(msz.group(1)), "usize", b)
    K["IPP_NEG_GUARD"] = bool(re.search(r"if\s*\(\s*u\s*<\s*0\s*\)\s*return\s+0\s*;", b))
    K["IPP_RECURSE"] = bool(re.search(r"isprimepower\s*\(", b))
    K["IPP_ZERO_RET"] = None
    m = re.search(r"if\s*\(\s*usize\s*==\s*0\s*\)\s*return\s+(\w+)\s*;", b)
    if not m:
        raise GenError("isprimepower left the translated shape (if (usize == 0) return k;)")
    K["IPP_ZERO_RET"] = ev(m.group(1), mac)
    # --- factor(): primorials and the two trial-division macros
    fh = open(os.path.join(vf.REPO, SRC["factor_h"]), errors="replace").read()
    fhc = strip_comments(fh)
    m1 = re.search(r"PROD_first_primes\s*\(\s*(\d+)\s*\)", fhc)
    m2 = re.search(r"PROD_second_primes\s*\(\s*\"?(\d+)\"?\s*\)", fhc)
    if not m1 or not m2:
        raise GenError("cannot find PROD_first_primes / PROD_second_primes initialisers")
    K["PROD_FIRST"], K["PROD_SECOND"] = int(m1.group(1)), int(m2.group(1))
    vc = K["DOM"]["value_ctor"]
    if vc.get("PROD_first_primes") != ("literal", K["PROD_FIRST"]) or vc.get("PROD_second_primes") != ("literal", K["PROD_SECOND"]):
        raise GenError("the constructor initialisers of the primorials in the clang AST (%s, %s) differ from the source text" % (vc.get("PROD_first_primes"), vc.get("PROD_second_primes")))
    for name, key in (("factor_first_primes", "FIRST"), ("factor_second_primes", "SECOND")):
        m = re.search(r"#\s*define\s+%s\s*\(\s*(\w+)\s*,\s*(\w+)\s*\)\s*\(\s*\1\s*=(.*)$" % name, fhc, flags=re.M)
        if not m:
            raise GenError("cannot find macro " + name)
        body = re.sub(r"\b%s\b" % re.escape(m.group(2)), "n", re.sub(r"\b%s\b" % re.escape(m.group(1)), "tmp", m.group(3)))
        pairs = re.findall(r"isZero\s*\(\s*mod\s*\(\s*tmp\s*,\s*n\s*,\s*(\d+)\s*\)\s*\)\s*\?\s*(\d+)\s*:", body)
        rest = re.sub(r"isZero\s*\(\s*mod\s*\(\s*tmp\s*,\s*n\s*,\s*\d+\s*\)\s*\)\s*\?\s*\d+\s*:", "", body)
        md = re.fullmatch(r"[\s(]*(\d+)[\s)]*", rest)
        if not pairs or not md:
            raise GenError("macro %s left the translated shape (chain of isZero(mod(tmp,n,p))?p: ... :d)" % name)
        K[key + "_TESTS"] = [(int(a), int(b)) for a, b in pairs]
        K[key + "_DEFAULT"] = int(md.group(1))
    b = func_body(fhc, r"Rep\s*&\s*primefactor\s*\([^)]*\)\s*const\s*\{", "IntFactorDom::primefactor")
    if not re.search(r"while\s*\(\s*\(?\s*iffactorprime\s*\(\s*\w+\s*,\s*\w+\s*,\s*0\s*\)\s*==\s*1\s*\)?", b):
        raise GenError("primefactor left the translated shape (while ((iffactorprime(r,n,0) == 1) && ...) {})")
    K["PRIMEFACTOR_GUARD"] = bool(re.search(r"GIVARO_ISGT\s*\(\s*\w+\s*,\s*1\s*\)|\(\s*\w+\s*>\s*1\s*\)|&&\s*\w+\s*>\s*1\b", b))
    fi = read_src("factor_inl")
    b = func_body(fi, r"void\s+IntFactorDom<\w+>::set\s*\(\s*Container\s*&\s*\w+\s*,\s*const\s+Rep\s*&\s*\w+\s*\)\s*const\s*\{", "IntFactorDom::set(Lf, n)")
    K["SET1_ABS"] = bool(re.search(r"\bneg(?:in)?\s*\(|\babs\s*\(|=\s*-\s*\w+\s*;", b))          # any negation / absolute value of the argument
    # --- the random walk: Pollard_cst, and whether factor / Pollard / Lenstra copy their argument when called in place
    K["POLLARD_CST"] = ev("Pollard_cst", macros_of(fhc))
    inplace = r"if\s*\(\s*&\s*\w+\s*==\s*&\s*\w+\s*\)%.0s"          # the guard, whatever the parameters are called
    b = func_body(fhc, r"Rep\s*&\s*factor\s*\(\s*Rep\s*&\s*\w+\s*,\s*const\s+Rep\s*&\s*\w+\s*,[^)]*\)\s*const\s*\{", "IntFactorDom::factor")
    K["FACTOR_INPLACE_GUARD"] = bool(re.search(inplace % "r", b))
    b = func_body(fi, r"IntFactorDom<\w+>::Pollard\s*\(\s*const\s+\w+\s*&\s*\w+\s*,\s*Rep\s*&\s*\w+\s*,\s*const\s+Rep\s*&\s*\w+\s*,[^)]*\)\s*const\s*\{", "IntFactorDom::Pollard")
    K["POLLARD_INPLACE_GUARD"] = bool(re.search(inplace % "g", b))
    if not re.search(r"\brandom\s*\(\s*\w+\s*,\s*\w+\s*,\s*\w+\s*\)", b) or not re.search(r"Pollard\s*\(\s*\w+\s*,\s*\w+\s*,\s*\w+\s*,\s*\w+\s*-\s*\w+\s*\)", b):
        raise GenError("IntFactorDom::Pollard left the translated shape (this->random(gen, y, n); restart Pollard(gen, g, n, threshold-c))")
    b = func_body(fi, r"IntFactorDom<\w+>::Lenstra\s*\(\s*const\s+\w+\s*&\s*\w+\s*,\s*Rep\s*&\s*\w+\s*,\s*const\s+Rep\s*&\s*\w+\s*,[^)]*\)\s*const\s*\{", "IntFactorDom::Lenstra")
    K["LENSTRA_INPLACE_GUARD"] = bool(re.search(inplace % "g", b))
    # --- Miller: where the witness comes from
    pi = read_src("prime_inl")
    b = func_body(pi, r"IntPrimeDom::Miller\s*\(\s*\w+\s*&\s*\w+\s*,\s*const\s+\w+\s*&\s*\w+\s*\)\s*const\s*\{", "IntPrimeDom::Miller")
    mw = re.search(r"\b(nonzerorandom|random)\s*\(\s*\w+\s*,\s*\w+\s*,\s*\w+\s*\)\s*;", b)
    if not mw:
        raise GenError("IntPrimeDom::Miller left the translated shape (random(g, a, n) / nonzerorandom(g, a, n))")
    K["MILLER_NONZERO"] = mw.group(1) == "nonzerorandom"
    # --- FermatDom: fermat(f, n) = (1 << (1u << n)) + c, pepin: 3^((fn-1)/2) == fn - 1
    b = func_body(pc, r"FermatDom::fermat\s*\([^)]*\)\s*const\s*\{", "FermatDom::fermat")
    m = re.search(r"assign\s*\(\s*(\w+)\s*,\s*one\s*\)\s*<<=\s*\(\s*1[uU]?[lL]*\s*<<\s*\w+\s*\)\s*;\s*return\s+addin\s*\(\s*\1\s*,\s*(\w+)\s*\)", b)
    m = m and re.match(r"(.*)", m.group(2))
    if not m:
        raise GenError("FermatDom::fermat left the translated shape (assign(f,one) <<= (1u << n); return addin(f, c);)")
    K["FERMAT_ADD"] = ev(m.group(1), mac)
    b = func_body(pc, r"bool\s+FermatDom::pepin\s*\(\s*const\s+Rep\s*&\s*\w+\s*\)\s*const\s*\{", "FermatDom::pepin")
    m = re.search(r"sub\s*\(\s*(?P<z>\w+)\s*,\s*(?P<fn>\w+)\s*,\s*(\w+)\s*\)\s*;\s*divin\s*\(\s*(?P=z)\s*,\s*(\w+)\s*\)\s*;\s*powmod\s*\(\s*(?P<y>\w+)\s*,\s*(\w+)\s*,\s*(?P=z)\s*,\s*(?P=fn)\s*\)\s*;"
                  r"\s*subin\s*\(\s*(?P=y)\s*,\s*(?P=fn)\s*\)\s*;\s*negin\s*\(\s*(?P=y)\s*\)\s*;\s*return\s+isOne\s*\(\s*(?P=y)\s*\)", b)
    m = m and re.match(r"(\w+) (\w+) (\w+)", "%s %s %s" % (m.group(3), m.group(4), m.group(6)))
    if not m:
        raise GenError("FermatDom::pepin left the translated shape (sub(z,fn,a); divin(z,b); powmod(y,c,z,fn); subin(y,fn); negin(y); return isOne(y);)")
    K["PEPIN_SUB"], K["PEPIN_DIV"], K["PEPIN_BASE"] = ev(m.group(1), mac), ev(m.group(2), mac), ev(m.group(3), mac)
    # --- givprimes16.C
    pt = read_src("primes16_C")
    m = re.search(r"Primes16::_size\s*=\s*(\w+)\s*;", pt)
    if not m:
        raise GenError("cannot find Primes16::_size")
    K["PRIMES16_SIZE"] = ev(m.group(1), {})
    _, K["PRIMES16"] = array_init(pt, r"Primes16::_primes\s*\[\s*\]()", {}, "Primes16::_primes[]")
    return coq_of_tables(K), K


def coq_list(vals, per=16):
    out = []
    for i in range(0, len(vals), per):
        out.append("; ".join("(%d)" % v if v < 0 else "%d" % v for v in vals[i:i + per]))
    return "[" + ";\n  ".join(out) + "]"


def coq_of_tables(K):
    L = ["(* GENERATED by checks/C12.py from the current source text of /repo — do not edit. *)",
         "From Coq Require Import ZArith List.", "Import ListNotations.", "Local Open Scope Z_scope.", ""]
    scal = ["LOGMAX", "TABMAX", "LOGMAX2", "TABMAX2", "BOUNDARY_isprime", "BOUNDARY_2_isprime", "TP_OFFSET", "TP2_OFFSET",
            "T1_PLUS0", "T1_HERE0", "T1_LOOP0", "T1_LOOPSHIFT", "T1_STEPSHIFT", "T2_PLUS0", "T2_HERE0", "T2_LOOP0", "T2_LOOPSHIFT",
            "T2_STEPSHIFT", "DISPATCH1", "DISPATCH2",
            "NEXTIN_LOW", "NEXTIN_LOWVAL", "NEXTIN_ODD", "NEXTIN_EVEN", "NEXTIN_STEP",
            "NEXT_LOW", "NEXT_LOWVAL", "NEXT_ODD", "NEXT_EVEN", "NEXT_STEP",
            "PREVIN_LOW", "PREVIN_LOWVAL", "PREVIN_ODD", "PREVIN_EVEN", "PREVIN_STEP",
            "PREV_LOW", "PREV_LOWVAL", "PREV_ODD", "PREV_EVEN", "PREV_STEP",
            "PPREV_LOW", "PPREV_LOWVAL", "PPREV_ODD", "PPREV_EVEN", "PPREV_STEP",
            "SMALLEST_OMITTED_PRIME", "PROD_FIRST", "PROD_SECOND", "FIRST_DEFAULT", "SECOND_DEFAULT", "PRIMES16_SIZE", "POLLARD_CST", "FERMAT_ADD", "PEPIN_SUB", "PEPIN_DIV", "PEPIN_BASE"]
    for s in scal:
        L.append("Definition %s : Z := %s." % (s, "(%d)" % K[s] if K[s] < 0 else "%d" % K[s]))
    for s in ("ISPRIME_GUARD", "IPP_ZERO_RET"):
        L.append("Definition %s : Z := %s." % (s, "(%d)" % K[s] if K[s] < 0 else "%d" % K[s]))
    for s in ("ISPRIME_HAS_GUARD", "IPP_NEG_GUARD", "IPP_RECURSE", "PRIMEFACTOR_GUARD", "SET1_ABS",
              "FACTOR_INPLACE_GUARD", "POLLARD_INPLACE_GUARD", "LENSTRA_INPLACE_GUARD", "MILLER_NONZERO"):
        L.append("Definition %s : bool := %s." % (s, "true" if K[s] else "false"))
    L.append("Inductive copy_how : Set := FromSource | Literal (z : Z) | DefaultInit | Untouched.")
    D = K["DOM"]

    def how(h):
        return {"from_source": "FromSource", "default": "DefaultInit", "parameter": "DefaultInit"}.get(h[0]) or ("Literal (%d)" % h[1] if h[1] is not None and h[1] >= 0 else "DefaultInit")
    for fld, nm in (("PROD_first_primes", "FIRST"), ("PROD_second_primes", "SECOND"), ("_g", "GEN")):
        L.append("Definition COPY_%s : copy_how := %s." % (nm, how(D["copy_ctor"].get(fld, ("default", None)))))
        L.append("Definition ASSIGN_%s : copy_how := %s." % (nm, "FromSource" if (not D["assign_user"] or fld in D["assign"]) else "Untouched"))
    L.append("Definition COPY_CTOR_USER_PROVIDED : bool := %s." % ("true" if D["copy_ctor_user"] else "false"))
    for s in ("IP", "IP2", "PP_PRIMES", "PRIMES16"):
        L.append("Definition %s : list Z :=\n  %s." % (s, coq_list(K[s])))
    for s in ("FIRST_TESTS", "SECOND_TESTS"):
        L.append("Definition %s : list (Z * Z) := [%s]." % (s, "; ".join("(%d, %d)" % p for p in K[s])))
    return "\n".join(L) + "\n"


def write_tables():
    """regenerate coq/C12/gen/Tables.v; returns (K, error string or None)"""
    path = os.path.join(vf.coq_dir(AREA), "gen", "Tables.v")
    try:
        txt, K = gen_tables()
    except GenError as e:
        return None, str(e)
    vf.write_if_changed(path, txt)
    return K, None


# ------------------------------------------------------------------ specification oracles (python integers)

MR_BASES = (2, 3, 5, 7, 11, 13, 17, 19, 23, 29, 31, 37, 41, 43, 47, 53, 59, 61, 67, 71)     # bases 2..41 are deterministic below 3.3e24 (psi_13)
SMALLP = [p for p in range(2, 2000) if all(p % d for d in range(2, int(p ** 0.5) + 1))]


def is_prime(n):
    if n < 2:
        return False
    for p in SMALLP[:40]:
        if n % p == 0:
            return n == p
    d, s = n - 1, 0
    while d % 2 == 0:
        d //= 2; s += 1
    for a in MR_BASES:
        if a % n == 0:
            continue
        x = pow(a, d, n)
        if x in (1, n - 1):
            continue
        for _ in range(s - 1):
            x = x * x % n
            if x == n - 1:
                break
        else:
            return False
    return True


def sieve(n):
    b = bytearray([1]) * n
    b[0:2] = b"\0\0"
    for i in range(2, int(n ** 0.5) + 1):
        if b[i]:
            b[i * i::i] = bytearray(len(range(i * i, n, i)))
    return b


def next_prime(p):
    n = max(p + 1, 2)
    while not is_prime(n):
        n += 1
    return n


def prev_prime(p):          # documented value 2 at the low end
    if p <= 2:
        return 2
    n = p - 1
    while not is_prime(n):
        n -= 1
    return n


def iroot(n, k):
    """floor(n^(1/k)) for n >= 0, k >= 1: float estimate from the top 53 bits, corrected exactly (small roots),
    or integer Newton started just above the root (large roots)"""
    if n < 2 or k == 1:
        return n
    bl = n.bit_length()
    if k >= bl:
        return 1
    sh = max(0, bl - 64)
    lg = sh + math.log2(n >> sh)              # log2(n) to ~1e-15 relative
    if lg / k < 40:
        r = int(2.0 ** (lg / k))
        while r ** k > n:
            r -= 1
        while (r + 1) ** k <= n:
            r += 1
        return r
    x = 1 << (int(lg / k) + 1)                # >= the root
    while True:
        y = ((k - 1) * x + n // x ** (k - 1)) // k
        if y >= x:
            return x
        x = y


_RESMOD = {}


def residue_moduli(k):
    if k not in _RESMOD:
        ms, m = [], k + 1
        while len(ms) < 4:
            if is_prime(m):
                ms.append(m)
            m += k
        _RESMOD[k] = ms
    return _RESMOD[k]


def exact_root(n, k):
    """r with r^k = n, or None; candidates are screened modulo 2^64 before the full power is computed"""
    bl = n.bit_length()
    sh = max(0, bl - 64)
    lg = sh + math.log2(n >> sh)
    if lg / k >= 40:
        for m in residue_moduli(k):           # n must be a k-th power residue modulo primes m = 1 (mod k)
            t = n % m
            if t and pow(t, (m - 1) // k, m) != 1:
                return None
        r = iroot(n, k)
        return r if r ** k == n else None
    r0 = int(round(2.0 ** (lg / k)))
    M = (1 << 64) - 1
    for r in (r0, r0 - 1, r0 + 1):
        if r >= 2 and pow(r, k, M + 1) == (n & M) and r ** k == n:
            return r
    return None


_PRIMES_TO = {}


def primes_upto(m):
    if m not in _PRIMES_TO:
        sv = sieve(m + 1)
        _PRIMES_TO[m] = [i for i in range(2, m + 1) if sv[i]]
    return _PRIMES_TO[m]


def prime_power(n):
    """(e, r) with r prime, e >= 1 and r^e = n, or None.  Integer roots for every prime exponent, then deterministic
    Miller-Rabin on the root: independent of how n was built."""
    if n < 2:
        return None
    if n % 2 == 0:
        k = (n & -n).bit_length() - 1
        return (k, 2) if n == 1 << k else None
    for p in SMALLP:                            # a small prime factor decides at once
        if n % p == 0:
            k = 0
            while n % p == 0:
                n //= p; k += 1
            return (k, p) if n == 1 else None
    e = 1
    again = True
    while again:
        again = False
        for k in primes_upto(max(2, n.bit_length() // 10)):      # the root is >= 2000 > 2^10
            if k > n.bit_length() // 10:
                break
            r = exact_root(n, k)
            if r is not None:
                n, e, again = r, e * k, True
                break
    if e == 1 and n.bit_length() > 3000:
        return None                           # not a PROPER power; whether this huge n is prime is not asked (callers want e >= 2)
    return (e, n) if is_prime(n) else None


def rand_prime(rng, bits):
    while True:
        n = rng.bits(bits) | 1 | (1 << (bits - 1))
        if is_prime(n):
            return n


def all_divisors(fac):
    ds = [1]
    for p, e in fac.items():
        ds = [d * p ** k for d in ds for k in range(e + 1)]
    return sorted(ds)


def prod_fac(fac):
    v = 1
    for p, e in fac.items():
        v *= p ** e
    return v


CARMICHAEL = [561, 1105, 1729, 2465, 2821, 6601, 8911, 10585, 15841, 29341, 41041, 46657, 52633, 62745, 63973, 75361,
              101101, 115921, 126217, 162401, 172081, 188461, 252601, 278545, 294409, 314821, 334153, 340561, 399001, 410041,
              449065, 488881, 512461, 9746347772161, 1436697831295441, 60977817398996785, 7156857700403137441,
              1791562810662585767521, 87674969936234821377601]
# strong pseudoprimes to the first k prime bases (psi_k), and other classical hard composites
PSEUDO = [2047, 1373653, 25326001, 3215031751, 2152302898747, 3474749660383, 341550071728321, 3825123056546413051,
          318665857834031151167461, 4759123141, 1122004669633, 4295098369, 4294967297, 18446744073709551617,
          1194649, 12327121, 3277, 4033, 4681, 8321, 341, 1387, 2701, 5461, 7957, 31621, 42799]
CARM_FAC = {561: {3: 1, 11: 1, 17: 1}, 1105: {5: 1, 13: 1, 17: 1}, 1729: {7: 1, 13: 1, 19: 1}, 2821: {7: 1, 13: 1, 31: 1},
            8911: {7: 1, 19: 1, 67: 1}, 41041: {7: 1, 11: 1, 13: 1, 41: 1}, 101101: {7: 1, 11: 1, 13: 1, 101: 1},
            294409: {37: 1, 73: 1, 109: 1}, 512461: {31: 1, 61: 1, 271: 1}, 9746347772161: {7: 1, 11: 1, 13: 1, 17: 1, 19: 1, 31: 1, 37: 1, 41: 1, 641: 1},
            3215031751: {151: 1, 751: 1, 28351: 1}, 4294967297: {641: 1, 6700417: 1}, 2047: {23: 1, 89: 1},
            1373653: {829: 1, 1657: 1}, 25326001: {2251: 1, 11251: 1}, 4295098369: {65537: 2}, 1194649: {1093: 2}, 12327121: {3511: 2}}
GAP_STARTS = [1425172824437699411, 18361375334787046697, 804212830686677669, 1693182318746371, 360653, 31397, 19609, 1327, 113,
              2010733, 20831323, 436273009, 4302407359, 10726904659, 25056082087]


# ------------------------------------------------------------------ scripted random walks
# The harness compiles IntFactorDom<ScriptRand>, whose random numbers come from the input line.  To CHOOSE scripts that
# drive a wanted path (Pollard answers with a composite factor k times in a row, restarts after g == n, exhausts its
# loop budget) the check needs to know what the walk does with a start value: rho_sim is that walk (Brent's variant as
# coded in givintfactor.inl, third implementation next to the C++ and the extracted Coq model; used ONLY to pick
# scripts and to name the path -- verdicts come from the specification oracle and from the model correspondence).

def rho_sim(n, y0, thr, cst):
    """-> (g, c) on leaving the loop of Pollard(gen, g, n, thr) started at y0"""
    x, y, m, p, c = 0, y0 % n, 0, 1, 0
    while True:
        c += 1
        if thr and not c < thr:
            return 1, c
        m += 1
        if p == m:
            x = y; p *= 2
        y = (y * y + cst) % n
        g = math.gcd(y - x, n)
        if g != 1:
            return g, c


def small_prime_factors(n):
    """distinct prime factors of n when all of them are below 2000 and n is square-free, else None"""
    ps = []
    for p in SMALLP:
        if p * p > n and n > 1:
            break
        if n % p == 0:
            n //= p
            if n % p == 0:
                return None
            ps.append(p)
    if n > 1:
        if n >= 2000:
            return None
        ps.append(n)
    return ps


def crt(pairs):
    y, m = 0, 1
    for r, p in pairs:
        y += m * ((r - y) * pow(m, -1, p) % p)
        m *= p
    return y


def fixed_point_start(n, thr, want, base, cst):
    """A start value built by the Chinese remainder theorem: modulo the primes of a chosen subset S it is a FIXED POINT of
    y -> y^2 + cst, modulo the other primes it is not.  The first step of the walk then has y1 - y0 = 0 exactly modulo the
    primes of S, so the gcd is their product: a composite factor of our choice (all primes with a fixed point but one),
    or n itself (restart).  The value is checked with rho_sim before it is used."""
    if thr == 1:
        return None
    ps = small_prime_factors(n)
    if not ps or len(ps) < 2:
        return None
    fp = {p: [y for y in range(p) if (y * y + cst - y) % p == 0] for p in ps}
    have = [p for p in ps if fp[p]]
    if want == "restart":
        if len(have) != len(ps):
            return None
        S = ps
    else:
        if len(have) < 2:
            return None
        S = have if len(have) < len(ps) else have[:base % len(have)] + have[base % len(have) + 1:]
    pairs = []
    for k, p in enumerate(ps):
        if p in S:
            pairs.append((fp[p][base % len(fp[p])], p))
        else:
            r = (base + k) % p
            while (r * r + cst - r) % p == 0:
                r = (r + 1) % p
            pairs.append((r, p))
    y = crt(pairs)
    g, c = rho_sim(n, y, thr, cst)
    restart = g == n and (thr == 0 or c < thr)
    if want == "restart":
        return y if restart else None
    return y if (not restart and g not in (1, n) and not is_prime(g)) else None


def pick_start(n, thr, want, base, cst, limit=1500):
    """a start value whose walk modulo n ends as wanted: 'composite' / 'prime' (a proper factor of that kind),
    'restart' (g == n: failure with the initial value), 'one' (budget exhausted).  Composite / restart: by construction
    (fixed_point_start) when the primes of n allow it; otherwise the least y >= base found by trying; None when there is none"""
    if want in ("composite", "restart"):
        y = fixed_point_start(n, thr, want, base, cst)
        if y is not None:
            return y
        ps = small_prime_factors(n)
        if want == "composite" and ps is not None and len(ps) < 3:
            return None                      # a square-free n with two prime factors has no composite proper factor
    for y in range(base, base + limit):
        g, c = rho_sim(n, y, thr, cst)
        restart = g == n and (thr == 0 or c < thr)
        if want == "restart":
            if restart:
                return y
        elif want == "one":
            if g == 1:
                return y
        elif not restart and g not in (1, n):
            if (want == "composite") != is_prime(g):
                return y
    return None


class ScriptSim:
    """simulates factor / iffactorprime / primefactor / set on n, choosing each random start according to a plan"""

    def __init__(self, K, plan, base, greedy=False):
        self.K, self.plan, self.base, self.greedy = K, list(plan), base, greedy
        self.ys, self.events, self.unsat = [], [], 0

    def draw(self, n, thr):
        want = self.plan.pop(0) if self.plan else ("composite" if self.greedy else "prime")
        y = pick_start(n, thr, want, self.base, self.K["POLLARD_CST"])
        if y is None and want == "composite":
            y = pick_start(n, thr, "prime", self.base, self.K["POLLARD_CST"])
        if y is None:
            self.unsat += 1; y = self.base
        self.base += 1
        self.ys.append(y)
        return y

    def pollard(self, n, thr):
        while True:
            if n < 3 or is_prime(n):
                return n
            g, c = rho_sim(n, self.draw(n, thr), thr, self.K["POLLARD_CST"])
            if g == n and (thr == 0 or c < thr):
                self.events.append("restart")
                thr = thr - c if thr else 0
                continue
            self.events.append("one" if g == 1 else ("prime" if is_prime(g) else "composite"))
            return g

    def factor(self, n, thr):
        K = self.K
        if math.gcd(n, K["PROD_FIRST"]) != 1:
            return next((r for t, r in K["FIRST_TESTS"] if n % t == 0), K["FIRST_DEFAULT"])
        if math.gcd(n, K["PROD_SECOND"]) != 1:
            return next((r for t, r in K["SECOND_TESTS"] if n % t == 0), K["SECOND_DEFAULT"])
        return self.pollard(n, thr)

    def iffactorprime(self, n, thr):
        r = self.factor(n, thr)
        if r == 1:
            return r
        if not is_prime(r):
            r = self.factor(r, thr)
        while not is_prime(r):
            nn = r
            r = self.factor(nn, thr)
            self.events.append("loop")
            if r == nn:
                break
        return r

    def set2(self, n, thr):
        nn = abs(n)
        while nn > 1:
            g = self.iffactorprime(nn, thr)
            if g in (0, 1) or nn % g:
                g = nn
            while nn % g == 0:
                nn //= g


def path_name(events):
    k = events.count("composite")
    s = "walk answered composite %dx" % k
    if "restart" in events:
        s += ", restart after g == n"
    if "one" in events:
        s += ", loop budget exhausted -> 1"
    if "loop" in events:
        s += ", %d pass(es) through the re-split loop" % events.count("loop")
    return s


def multilimb_cases(rng, K, add, thorough):
    """Every operation of the property on MULTI-LIMB n (|n| >= 2^64), deterministically: n is built from known primes (so "the
    returned factor divides n and is > 1" needs no factoring), just above 2^64, 2^65, 2^80, 2^127, 2^128, with the LOW 64-bit limb chosen
    (a) coprime / (b) not coprime to each of the two primorials of factor(), n itself sharing a factor with the first primorial only /
    the second only / neither; primes of those sizes with both kinds of low limb; prime powers.  Factors stay <= 2^40 (Pollard ~2^20 steps)."""
    P1, P2, M = K["PROD_FIRST"], K["PROD_SECOND"], (1 << 64) - 1
    done = {}

    def limb_class(n):
        return (math.gcd(n & M, P1) == 1, math.gcd(n & M, P2) == 1)

    def search(make, want, tries=400):
        """first candidate from make(k), k = 0, 1, ... whose low limb has the wanted coprimality pattern (None = any)"""
        for k in range(tries):
            c = make(k)
            if c is not None and (want is None or limb_class(c[0]) == want):
                return c
        return None
    FORMS1 = ["factor", "iffactorprime", "primefactor"]
    FORMS2 = ["set2.vec", "set2.list", "set1.vec", "write", "divisors.n"]
    sizes = [(64, 33, 32), (65, 33, 33), (80, 45, 35)] + ([(72, 37, 36), (81, 41, 40)] if thorough else [])
    seedoff = rng.range(0, 1000)
    for bits, b1, b2 in sizes:
        for want in ((True, True), (False, True), (True, False), (False, False)):
            for small, cl in ((1, "neither primorial"), (7, "first primorial"), (31, "second primorial only")):
                for off, tag in ((0, "fixed"), (seedoff, "seed-dependent")):
                    if small != 1 and (tag != "fixed" or bits not in (64, 80)):
                        continue
                    if not thorough and tag != "fixed" and bits != 64:
                        continue
                    p0 = next_prime((1 << b1) + 1000 * off)

                    def make(k, p0=p0, b2=b2, small=small, bits=bits):
                        q = next_prime((1 << b2) + 7919 * k + 13)
                        n = small * p0 * q
                        return (n, {p0: 1, q: 1} if small == 1 else {small: 1, p0: 1, q: 1}) if n >> 64 and q != p0 else None
                    c = search(make, want)
                    if c is None:
                        continue
                    n, f = c
                    kl = "multi-limb n ~2^%d, %s, low limb %scoprime to the first primorial, %scoprime to the second" % (n.bit_length(), cl, "" if want[0] else "NOT ", "" if want[1] else "NOT ")
                    heavy = bits >= 81 and not thorough and small == 1        # two ~2^40 factors: ~2^20 Pollard steps per call, fewer forms in quick
                    for v in (FORMS1 if not heavy else ["factor", rng.choice(["iffactorprime", "primefactor"])]):
                        add(v, [n], "factor1", f, kl)
                    for v in (FORMS2 if tag == "fixed" and not heavy else [rng.choice(FORMS2), rng.choice(FORMS2)]):
                        add(v, [n if v != "write" else -n], "set", f, kl)
                    add("ipp", [n], "ipp", f, kl)
                    if small == 1 and tag == "fixed" and not heavy:
                        add("factor.loops", [n, 1000000], "factor1", f, kl)
                        add("set2.loops", [n, 1000000], "set", f, kl)
                        add("pollard", [n], "factor1", f, kl)
    # four primes of ~2^32: n above 2^127 and above 2^128
    for lo, want in ((127, (True, True)), (127, (False, True)), (128, (True, False)), (128, (False, False)), (128, (False, True))):
        ps3 = [next_prime((1 << 32) + 100000 * i + 7) for i in (1, 2, 3)]

        def make4(k, ps3=ps3, lo=lo):
            q = next_prime((1 << (lo - 96 + 1)) + 104729 * k)
            n = ps3[0] * ps3[1] * ps3[2] * q
            return (n, {ps3[0]: 1, ps3[1]: 1, ps3[2]: 1, q: 1}) if n.bit_length() > lo and q not in ps3 else None
        c = search(make4, want)
        if c:
            n, f = c
            kl = "multi-limb n ~2^%d, four primes, low limb %scoprime to the first primorial, %scoprime to the second" % (n.bit_length(), "" if want[0] else "NOT ", "" if want[1] else "NOT ")
            for v in FORMS1 + ["set2.vec", "divisors.n", "write", "set1.list"]:
                add(v, [n], "factor1" if v in FORMS1 else "set", f, kl)
    # primes just above 2^64, 2^65, 2^80, 2^127, 2^128 with both kinds of low limb; their squares / cubes for isprimepower
    for e in (64, 65, 80, 127, 128):
        for want0 in (True, False):
            def makep(k, e=e):
                q = next_prime((1 << e) + 1000 * k)
                return (q, {q: 1})
            c = search(makep, None if False else (want0, True)) or search(makep, (want0, False))
            if not c:
                continue
            n, f = c
            kl = "multi-limb prime ~2^%d, low limb %scoprime to the first primorial" % (e, "" if want0 else "NOT ")
            for v in FORMS1 + ["set2.vec", "set1.vec", "write", "divisors.n", "pollard"]:
                add(v, [n], "factor1" if v in FORMS1 + ["pollard"] else "set", f, kl)
            add("isprime", [n], "isprime", klass="n>=2^16")
            add("ipp", [n], "ipp", f, kl)
    for b in ((33, 34, 22) if not thorough else (33, 34, 43, 22)):
        for want0 in (True, False):
            def makesq(k, b=b):
                q = next_prime((1 << b) + 997 * k)
                ex = 2 if b > 30 else 3
                return (q ** ex, {q: ex}) if (q ** ex) >> 64 else None
            c = search(makesq, (want0, True)) or search(makesq, (want0, False))
            if c:
                n, f = c
                kl = "multi-limb prime power, low limb %scoprime to the first primorial" % ("" if want0 else "NOT ")
                add("ipp", [n], "ipp", f, kl)
                add("ipp.alias", [n], "ipp", f, kl)
                for v in FORMS1 + ["set2.vec", "divisors.n", "write"]:
                    add(v, [n], "factor1" if v in FORMS1 else "set", f, kl)
    # next / prev prime across 2^64, 2^65, 2^127, 2^128 (every form)
    for e in (64, 65, 127, 128):
        for d in (-60, -1, 0, 1, 2, 59):
            for v in ("next.na", "next.alias", "next.in", "prev.na", "prev.alias", "prev.in", "pnext", "pprev", "pnext.alias", "pprev.alias"):
                add(v, [(1 << e) + d], "np", klass="large p")
    # scripted walks on multi-limb n made of small primes (the model's own walk on several limbs), both kinds of low limb
    Pm = [x for x in SMALLP if 101 <= x <= 499]
    for want0 in (True, False):
        def makes(k):
            ps = Pm[k % 7:k % 7 + 22:2]
            return (prod_fac({q: 1 for q in ps}) * Pm[(k * 5 + 40) % len(Pm)], None)
        c = search(makes, (want0, True)) or search(makes, (want0, False))
        if c and c[0] >> 64:
            n = c[0]
            f, m = {}, n
            for q in Pm:
                while m % q == 0:
                    f[q] = f.get(q, 0) + 1; m //= q
            ys = [rng.range(0, n - 1) for _ in range(40)]
            kl = "multi-limb n of small primes, random start values, low limb %scoprime to the first primorial" % ("" if want0 else "NOT ")
            for v in ("s.factor", "s.iffactorprime", "s.primefactor", "s.pollard", "s.set2", "s.divisors" if len(all_divisors(f)) <= 5000 else "s.set2.list"):
                add(v, [n, 0] + ys + list(range(900, 940)), "scripted", f, kl)


def scripted_grid(rng, K, add):
    """the scripted Pollard paths of the operation grid that is run on every copy of the domain"""
    M7 = {103: 1, 109: 1, 127: 1, 139: 1, 151: 1, 157: 1, 163: 1}
    N6 = {101: 1, 103: 1, 107: 1, 109: 1, 113: 1, 127: 1}
    for f in (N6, M7, {101: 1, 103: 1}):
        n = prod_fac(f)
        for d in range(0, min(len(f) - 1, 4)):
            for v in ("s.iffactorprime", "s.primefactor", "s.set2", "s.divisors"):
                sim = ScriptSim(K, ["composite"] * d + ["prime"], 3, greedy=v in ("s.set2", "s.divisors"))
                (sim.iffactorprime if v in ("s.iffactorprime", "s.primefactor") else sim.set2)(n, 0)
                add(v, [n, 0] + sim.ys + list(range(900, 912)), "scripted", f, path_name(sim.events))
    sim = ScriptSim(K, ["restart", "prime"], 0)
    sim.iffactorprime(103 * 109, 0)
    add("s.iffactorprime", [103 * 109, 0] + sim.ys + list(range(900, 912)), "scripted", {103: 1, 109: 1}, path_name(sim.events))
    sim = ScriptSim(K, ["one"], 0)
    sim.iffactorprime(prod_fac(N6), 7)
    add("s.iffactorprime", [prod_fac(N6), 7] + sim.ys + list(range(900, 912)), "scripted", N6, path_name(sim.events))


def scripted_cases(rng, K, add, thorough):
    """deterministic part: every path class on fixed n, for every seed; plus the same plans on seed-dependent n"""
    P = [x for x in SMALLP if 101 <= x <= 499]
    N6 = 101 * 103 * 107 * 109 * 113 * 127
    M7 = {103: 1, 109: 1, 127: 1, 139: 1, 151: 1, 157: 1, 163: 1}      # all = 1 (mod 3): y^2 + 1 has fixed points modulo each
    fixed = [(N6, {101: 1, 103: 1, 107: 1, 109: 1, 113: 1, 127: 1}), (N6 * 131, {101: 1, 103: 1, 107: 1, 109: 1, 113: 1, 127: 1, 131: 1}), (prod_fac(M7), M7)]
    P1 = [x for x in P if x % 3 == 1]
    rnd = []
    for k in range(3 if not thorough else 40):
        ps = set()
        while len(ps) < 4 + k % 3:
            ps.add(rng.choice(P1))
        while len(ps) < 5 + k % 3 + k % 2:
            ps.add(rng.choice(P))
        rnd.append((prod_fac({p: 1 for p in ps}), {p: 1 for p in ps}))
    extra = " ".join(str(x) for x in range(900, 912))        # spare script values: a mutant may draw more than the plan

    def emit(v, n, thr, plan, f, greedy=False, base=0):
        sim = ScriptSim(K, plan, base, greedy)
        if v in ("s.pollard", "s.pollard.ip"):
            sim.pollard(n, thr)
        elif v in ("s.factor", "s.factor.ip"):
            sim.factor(n, thr)
        elif v in ("s.iffactorprime", "s.primefactor", "s.iffactorprime.ip", "s.primefactor.ip"):
            sim.iffactorprime(n, thr)
        else:
            sim.set2(n, thr)
        add(v, [n, thr] + sim.ys + list(range(900, 912)), "scripted", f, path_name(sim.events) + (" (plan not satisfiable)" if sim.unsat else ""))

    for n, f in fixed + rnd:
        depth_max = min(len(f) - 2, 5)
        for d in range(depth_max + 1):
            plan = ["composite"] * d + ["prime"]
            for v in ("s.iffactorprime", "s.primefactor"):
                emit(v, n, 0, plan, f, base=rng.range(0, 50))
            for v in ("s.set2", "s.divisors", "s.set1", "s.write", "s.set2.list"):
                if d >= 1 and (v in ("s.set2", "s.divisors") or (n, f) in fixed or d == 2):
                    emit(v, n if v != "s.write" else -n, 0, plan, f, greedy=True, base=rng.range(0, 50))
        emit("s.pollard", n, 0, ["composite"], f, base=rng.range(0, 50))
        emit("s.factor", n, 0, ["composite"], f, base=rng.range(0, 50))
        emit("s.pollard", n, 0, ["prime"], f, base=rng.range(0, 50))
    # random start values (no plan): n that pass the trial-division cascade, so that every answer is tied through the model's own walk
    # and not through an echo of the implementation's answer
    for k in range(160 if not thorough else 4000):
        ps = [rng.choice(P) for _ in range(rng.range(2, 4))]
        if k % 5 == 0:
            ps.append(rand_prime(rng, rng.range(11, 16)))
        f = {}
        for q in ps:
            f[q] = f.get(q, 0) + 1
        n = prod_fac(f)
        ys = [rng.range(0, n - 1) for _ in range(14)]
        for v in ("s.factor", "s.iffactorprime", rng.choice(["s.pollard", "s.primefactor"]), rng.choice(["s.set2", "s.divisors", "s.set2.list", "s.set1", "s.write"])):
            add(v, [n, 0] + ys + list(range(900, 912)), "scripted", f, "random start values")
        if k % 4 == 0:
            thr = rng.choice([2, 3, 5, 9, 17, 40])
            for v in ("s.pollard", "s.iffactorprime", "s.set2"):
                add(v, [n, thr] + ys + list(range(900, 912)), "scripted", f, "random start values, loops = %d" % thr)
    # restart (g == n): at the first call, in the one-shot re-split, inside the loop
    for ps, plan in (((103, 109), ["restart", "prime"]), ((103, 109, 127), ["composite", "restart", "prime"]),
                     ((103, 109, 127, 139), ["composite", "composite", "restart", "prime"]), ((211, 223), ["restart", "restart", "prime"])):
        f = {p: 1 for p in ps}
        n = prod_fac(f)
        for v in ("s.iffactorprime", "s.primefactor", "s.set2", "s.divisors", "s.pollard", "s.factor"):
            emit(v, n, 0, plan[:2] if v in ("s.pollard", "s.factor") and plan[0] == "restart" else plan, f, base=rng.range(0, 20))
    # bounded walks (loops > 0): budget exhausted at the first call / in the one-shot re-split / inside the loop; restart with a budget
    f6 = fixed[0][1]
    for thr, plan in ((1, ["one"]), (2, ["one"]), (7, ["one"]), (7, ["composite", "one"]), (7, ["composite", "composite", "one"]), (8, ["composite", "composite", "prime"]),
                      (40, ["composite", "prime"]), (9, ["prime"])):
        for v in ("s.iffactorprime", "s.set2", "s.factor", "s.pollard"):
            if v in ("s.factor", "s.pollard") and len(plan) > 1:
                continue
            emit(v, N6, thr, plan, f6, base=rng.range(0, 20))
    for thr in (30, 12):
        emit("s.iffactorprime", 103 * 109, thr, ["restart", "prime"], {103: 1, 109: 1}, base=rng.range(0, 20))
        emit("s.pollard", 103 * 109, thr, ["restart", "one"], {103: 1, 109: 1}, base=rng.range(0, 20))
    # in-place call forms (result object == argument): cascade-only n, n that needs the walk, primes, 1, 2
    smalls = [4, 6, 9, 25, 49, 121, 13 * 13, 23 * 23, 2 * 23, 3 * 19, 29 * 31, 31 * 31, 97 * 97, 73 * 97, 2 * 101, 9 * 10007, 97 * 10007, 223092870, 1, 2, 3, 13, 97, 101, 10007]
    for n in smalls:
        f = {}
        m = n
        for p in SMALLP:
            while m % p == 0:
                f[p] = f.get(p, 0) + 1; m //= p
        if m > 1:
            f[m] = 1
        for v in ("s.factor.ip", "s.iffactorprime.ip", "s.primefactor.ip", "s.pollard.ip"):
            if v == "s.pollard.ip" and n > 3 and not is_prime(n) and n not in (9 * 10007,):
                continue
            emit(v, n, 0, ["prime"], f, base=rng.range(0, 20))
    for ps in ((101, 103), (101, 103, 107, 109), (10007, 10009)):
        f = {p: 1 for p in ps}
        n = prod_fac(f)
        for v in ("s.factor.ip", "s.iffactorprime.ip", "s.primefactor.ip"):
            emit(v, n, 0, ["composite", "composite", "prime"], f, base=rng.range(0, 20))
        emit("s.pollard.ip", n, 9, ["prime"], f, base=rng.range(0, 20))
    # Lenstra called directly: its front end (n < 3, prime n, multiples of 2 and 3) before any curve is used
    for n in (1, 2, 3, 4, 6, 9, 15, 21, 27, 33, 3 * 10007, 2 * 10007, 6 * 10007, 9 * 101, 101, 10007):
        f = {}
        m = n
        for q in SMALLP + [10007]:
            while m % q == 0:
                f[q] = f.get(q, 0) + 1; m //= q
        add("lenstra", [n], "factor1", f, "Lenstra front end")
    emit("s.lenstra.ip", 10403, 0, [], {101: 1, 103: 1})
    emit("s.lenstra.ip", 6 * 10007, 0, [], {2: 1, 3: 1, 10007: 1})
    emit("s.lenstra.ip", 9 * 101, 0, [], {3: 2, 101: 1})
    emit("s.lenstra.ip", 10007, 0, [], {10007: 1})
    emit("s.lenstra.ip", 4 * 10007, 0, [], {2: 2, 10007: 1})
    # Miller with a chosen witness: 0, 1, n-1, small and random witnesses for primes; strong liars and witnesses for composites
    for n in [5, 7, 11, 13, 17, 97, 257, 65537, 1009, 2147483647, 18446744073709551557] + [rand_prime(rng, rng.range(5, 90)) for _ in range(6)]:
        for a in [0, 1, n - 1, 2, 3, n // 2, rng.range(2, n - 2), n, 2 * n + 3]:
            add("s.miller", [n, 0, a, 2, 3], "smiller", {n: 1}, "witness 0" if a % n == 0 else "prime n")
    # Lehmann's test with a chosen base (the definition: A^((n-1)/2) == n - 1), FermatDom
    for n in [5, 7, 13, 97, 65537, 2147483647, 561, 1105, 9, 15, 4, 3, 2, 1, 0] + [rand_prime(rng, rng.range(5, 70)) for _ in range(4)]:
        for a in [0, 1, 2, 3, 5, max(n - 1, 0), rng.range(2, max(n, 4))]:
            add("s.lehmann", [n, 0, a, 2], "slehmann", None, "chosen base")
            if n >= 2:                    # the helper divides by n: Lehmann() rejects n < 2 before it calls it
                add("s.test_lehmann", [n, 0, a, 2], "slehmann", None, "chosen base")
    for k in range(0, 12 if not thorough else 15):
        add("fermat", [k], "fermat", None, "F_k")
        add("pepin", [k], "fermat", None, "F_k")
    for n, a in ((2047, 2), (2047, 3), (9, 8), (9, 2), (15, 4), (15, 14), (561, 50), (561, 2), (1373653, 2), (1373653, 3), (1373653, 5), (25, 7), (91, 10), (4, 3), (4, 2), (4, 1), (1, 0), (0, 0), (2, 1), (3, 2), (-7, 3)):
        add("s.miller", [n, 0, a, 2, 3], "smiller", None, "composite / edge n")


# ------------------------------------------------------------------ case generation
# a case: dict(v=variant, args=[ints], kind=..., fac={p:e} or None, klass=str)

FACTOR_OPS1 = ["factor", "iffactorprime", "primefactor"]
SET_OPS = ["set2.vec", "set2.list", "set2.deque", "set1.vec", "set1.list", "write", "write.L", "divisors.n"]


def small_smooth(rng, maxp_idx, maxfac, maxexp):
    fac = {}
    for _ in range(rng.range(1, maxfac)):
        p = SMALLP[rng.below(maxp_idx)]
        fac[p] = fac.get(p, 0) + rng.range(1, maxexp)
    return fac


def gen_cases(rng, tier, chk, K=None):
    thorough = tier != "quick"
    C = []

    def add(v, args, kind, fac=None, klass="", way=None):
        C.append({"v": v, "args": list(args), "kind": kind, "fac": fac, "klass": klass, "way": way})

    # ---- A. exhaustive over the tabulated range (one line each)
    add("range", [0, 65536], "range", klass="exhaustive [0,65536)")
    add("range.tab1", [0, 32768], "range", klass="exhaustive [0,32768)")
    add("range.tab2", [32768, 65536], "range", klass="exhaustive [32768,65536)")
    add("range", [65536, 65536 + (4000 if not thorough else 400000)], "range", klass="above the tables")
    add("range", [-3000, 0], "range", klass="n<0")
    add("range.tab1", [32768, 33500], "range", klass="tab1 outside its range")
    add("range.tab2", [65536, 66000], "range", klass="tab2 outside its range")
    add("range.tab2", [32000, 32768], "range", klass="tab2 outside its range")
    add("primes16", [], "primes16", klass="table")
    hi = 66100
    for v in ("nextrange", "nextrange.in"):
        add(v, [-6, hi], "nprange", klass="exhaustive")
    for v in ("prevrange", "prevrange.in", "pprevrange"):
        add(v, [4, hi], "nprange", klass="exhaustive")
    # ---- B. isprime on structured 64-bit (and some larger) n
    ns = set()
    for x in CARMICHAEL + PSEUDO:
        ns.add(x)
    for e in (15, 16, 17, 31, 32, 33, 62, 63, 64, 65):
        for d in range(-40, 41):
            ns.add((1 << e) + d)
    for k in range(60 if not thorough else 2000):
        b = rng.range(9, 32)
        p = rand_prime(rng, b); q = next_prime(p)
        ns.update([p * p, p * q, p, q, p * next_prime(q)])
        ns.add(rand_prime(rng, rng.range(17, 64)))
        ns.add(rng.bits(64) | 1)
        ns.add(rng.bits(rng.range(17, 64)))
        p3 = rand_prime(rng, rng.range(6, 21))
        ns.add(p3 ** 3)
    for p in (65521, 65537, 65539, 32749, 32771, 4294967291, 4294967311, 18446744073709551557, 18446744073709551629, 9223372036854775783, 9223372036854775837):
        ns.update([p, p * p, p + 2, p - 2])
    negs = [-1, -2, -3, -5, -7, -32749, -32771, -65521, -65537, -4294967289, -4294967291, -(1 << 32) + 2, -(1 << 32) + 32771, -(1 << 32) + 65521,
            -(1 << 33) + 7, -(1 << 64) + 7, -(1 << 64) - 7, -(1 << 31), -(1 << 31) - 1, -(1 << 31) + 1, -(1 << 63), -(1 << 63) + 25, -(1 << 32), -(1 << 32) - 1,
            -4294967295, -(3 << 32) + 65519, -(5 << 32) + 2]
    for k in range(40):
        negs.append(-rng.bits(rng.range(2, 66)))
        negs.append(-(rng.range(1, 1 << 31) << 32) + SMALLP[rng.below(len(SMALLP))])
    ivars = ["isprime", "isprime.fd"]
    for n in sorted(ns):
        if n < 0:
            continue
        add(rng.choice(ivars) if n > 70000 else "isprime", [n], "isprime", klass="n>=2^16" if n >= 65536 else "n<2^16")
        if n >= 65536 and rng.chance(1, 3):
            add(rng.choice(["isprime.r", "local_prime.r", "probab_prime.r"]), [n, rng.choice([1, 2, 5, 10, 25])], "isprime", klass="n>=2^16")
        if n >= 65536 and rng.chance(1, 6):
            add(rng.choice(["local_prime", "probab_prime"]), [n], "isprime", klass="n>=2^16")
        if n > (1 << 32) and is_prime(n) and rng.chance(1, 4):
            add("miller", [n], "miller", klass="prime n>2^32")
    for n in negs:
        add(rng.choice(["isprime", "isprime.fd", "isprime"]), [n], "isprime", klass="n<0")
    add("isprime.r", [-7, 5], "isprime", klass="n<0")
    for n in (-5, -1, 0, 1, 2, 3, 4, 32767, 32768, 32749, 32771, 65535, 65521):
        add("tab1" if n < 32768 else "tab2", [n], "tab", klass="single")
    # ---- C. next / prev prime, every call form
    ps = set(range(-4, 12)) | set(range(32740, 32780)) | set(range(65515, 65545))
    for e in (31, 32, 63, 64):
        for d in range(-6, 7):
            ps.add((1 << e) + d)
    ps.update(GAP_STARTS)
    ps.update([g + 1 for g in GAP_STARTS[:4]] + [next_prime(g) for g in GAP_STARTS[:6]] + [next_prime(g) + 1 for g in GAP_STARTS[:6]])
    for k in range(40 if not thorough else 3000):
        ps.add(rng.bits(rng.range(3, 64)))
        ps.add(rand_prime(rng, rng.range(4, 64)))
    for k in range(6 if not thorough else 100):
        ps.add(rng.bits(rng.range(65, 200)))
    ps.update([-(1 << 40), -17, -(1 << 64) - 3])
    nforms = ["next.na", "next.alias", "next.in", "next.na.r", "next.in.r", "next.ret", "pnext", "pnext.alias"]
    pforms = ["prev.na", "prev.alias", "prev.in", "prev.na.r", "prev.in.r", "prev.ret", "pprev", "pprev.alias"]
    for p in sorted(ps):
        small = -4 <= p <= 12 or 65515 <= p <= 65545
        for forms in (nforms, pforms):
            use = forms if small else [rng.choice(forms), rng.choice(forms)]
            for v in dict.fromkeys(use):
                a = [p, rng.choice([1, 5, 12])] if v.endswith(".r") else [p]
                add(v, a, "np", klass="p<=3" if p <= 3 else ("p<2^16+" if p < 65600 else "large p"))
    # ---- D. factorisation
    facs = []
    for n, f in CARM_FAC.items():
        facs.append((f, "carmichael/pseudoprime"))
    for k in range(50 if not thorough else 1500):
        facs.append((small_smooth(rng, 25, 5, 4), "smooth<=97"))                      # primes of both primorials
        facs.append((small_smooth(rng, 9, 4, 6), "smooth<=23"))
        f = small_smooth(rng, 25, 3, 2); f[rand_prime(rng, rng.range(8, 30))] = rng.range(1, 2); facs.append((f, "smooth*prime"))
    for k in range(30 if not thorough else 800):
        b1 = rng.range(7, 30 if not thorough else 40); b2 = rng.range(7, 30 if not thorough else 40)
        p, q = rand_prime(rng, b1), rand_prime(rng, b2)
        facs.append(({p: 1, q: 1} if p != q else {p: 2}, "semiprime"))
        p = rand_prime(rng, rng.range(7, 24)); q = next_prime(p)
        facs.append(({p: 1, q: 1}, "semiprime close"))
        p = rand_prime(rng, rng.range(7, 20))
        facs.append(({p: rng.range(2, 4)}, "prime power"))
        f = {}
        for _ in range(3):
            f[rand_prime(rng, rng.range(7, 18))] = rng.range(1, 2)
        facs.append((f, "three primes >97"))
        facs.append(({rand_prime(rng, rng.range(7, 64)): 1}, "prime"))
        f = {SMALLP[rng.range(9, 24)]: rng.range(1, 3)}; f[SMALLP[rng.range(9, 24)]] = 1; facs.append((f, "second primorial only"))
    for p in (2, 3, 13, 23, 29, 73, 97, 101, 1009, 32749, 32771, 65521, 65537):
        facs.append(({p: 1}, "prime"))
        facs.append(({p: 2}, "prime power"))
    # every prime of the two primorials alone, squared, with a large cofactor, and every pair of them (order of the cascades)
    for i, p in enumerate(SMALLP[:25]):
        facs.append(({p: 1, 10007: 1}, "primorial prime * 10007"))
        facs.append(({p: 3}, "primorial prime cubed"))
        for q in SMALLP[i + 1:25]:
            f = {p: 1, q: 1}
            n = p * q
            add("factor", [n], "factor1", f, "pair of primorial primes")
            add(rng.choice(["iffactorprime", "primefactor"]), [n], "factor1", f, "pair of primorial primes")
            add(rng.choice(["set2.vec", "set2.list", "set1.vec", "write", "divisors.n"]), [n], "set", f, "pair of primorial primes")
    facs.append(({}, "n=1"))
    if thorough:
        for k in range(12):
            p, q = rand_prime(rng, 38 + k % 3), rand_prime(rng, 39 + k % 2)
            facs.append(({p: 1, q: 1}, "semiprime ~2^80"))
    for f, cl in facs:
        n = prod_fac(f)
        for v in (FACTOR_OPS1 if (thorough or rng.chance(2, 3)) else [rng.choice(FACTOR_OPS1)]):
            add(v, [n], "factor1", f, cl)
        for v in ([rng.choice(SET_OPS), rng.choice(SET_OPS), rng.choice(SET_OPS)] if not thorough else SET_OPS):
            add(v, [n if rng.chance(3, 4) else -n], "set", f, cl)
        if rng.chance(1, 4):
            add("factor.loops", [n, rng.choice([1, 2, 5, 100, 100000])], "factor1", f, cl)
            add("iffactorprime.loops", [n, rng.choice([1, 2, 5, 100, 100000])], "factor1", f, cl)
            add("set2.loops", [n, rng.choice([1, 2, 3, 10, 1000, 1000000])], "set", f, cl)
        if n > 3 and not (len(f) == 1 and list(f.values()) == [1]) and all(p > 97 for p in f) and rng.chance(1, 2):
            add("pollard", [n], "factor1", f, cl)
        if len(f) == 2 and all(e == 1 for e in f.values()) and all(p > 100000 for p in f) and n < (1 << 46) and rng.chance(1, 2):
            add("lenstra", [n], "factor1", f, cl)
        if n < (1 << 20):
            add("erat", [n], "set", f, cl)
        add("ipp", [n], "ipp", f, cl)
        if f and len(all_divisors(f)) <= 4000:
            a = []
            items = list(f.items()); rng.shuffle(items)
            for p, e in items:
                a += [p, e]
            add(rng.choice(["divisors.lf", "divisors.lf.list"]), a, "divlf", f, cl)
    # edge values, every form
    for n in (0, 1, 2, 3, 4, -1, -2, -4, -6, -360, 6, 12, 360, 2 * 3 * 5 * 7 * 11 * 13 * 17 * 19 * 23, 223092870 * 29, 10334565887047481278774629361):
        f = None
        if n != 0:
            f = {}
            m = abs(n)
            for p in SMALLP:
                while m % p == 0:
                    f[p] = f.get(p, 0) + 1; m //= p
        for v in FACTOR_OPS1 + SET_OPS + ["set2.loops"]:
            add(v, [n] + ([3] if v == "set2.loops" else []), "factor1" if v in FACTOR_OPS1 else "set", f, "edge n=%d" % n if abs(n) < 1000 else "edge primorial")
        add("ipp", [n], "ipp", f, "edge")
    # prime powers for isprimepower: small and large bases, prime and composite exponents, negatives
    for p in (2, 3, 5, 7, 31, 997, 1009, 1013, 65537, 4294967311):
        for e in (1, 2, 3, 4, 5, 6, 7, 8, 9, 11, 12):
            if p ** e < (1 << 400):
                add("ipp", [p ** e], "ipp", {p: e}, "p^e p%s1009 e %s" % ("<" if p < 1009 else ">=", "prime" if is_prime(e) or e == 1 else "composite"))
                if e in (2, 3, 5) or rng.chance(1, 4):
                    add("ipp", [-(p ** e)], "ipp", {p: e}, "n<0")
    for k in range(20 if not thorough else 400):
        p = rand_prime(rng, rng.range(11, 40)); e = rng.choice([2, 3, 4, 5, 6, 7, 9, 10])
        add("ipp", [p ** e], "ipp", {p: e}, "p^e p>=1009 e %s" % ("prime" if is_prime(e) else "composite"))
        q = next_prime(p)
        add("ipp", [p ** e * q], "ipp", {p: e, q: 1}, "not a prime power")
        add("ipp", [p ** 2 * q ** 2], "ipp", {p: 2, q: 2}, "perfect square, two primes")
        add("ipp", [4 * p], "ipp", {2: 2, p: 1}, "4p")
        add("ipp", [(1 << rng.range(2, 70)) * (p if rng.chance(1, 2) else 1)], "ipp", None, "power of two times")
    # isprimepower at every bound of the file's tables: bases around the last table prime 997 / SMALLEST_OMITTED_PRIME 1009 /
    # TABMAX / TABMAX2, exponents (prime, composite with such a factor) around the same bounds -- numbers of up to ~40000 bits,
    # which the real code answers in milliseconds -- and non-powers next to them
    if thorough:
        bases = [2, 3, 5, 991, 997, 1009, 1013, 10007, 32749, 32771, 65521, 65537]
        exps = [2, 3, 4, 6, 9, 25, 49, 121, 991, 997, 1009, 1013, 1019, 2 * 997, 2 * 1009, 3 * 1009, 3 * 1013, 2 * 1021, 997 * 2 * 2, 1031, 1499, 2003]
    else:
        bases = [3, 991, 997, 1009, 1013, 10007, 65537]
        exps = [2, 3, 4, 6, 9, 997, 1009, 1013, 2 * 1009]
    for p in bases:
        for e in exps:
            if p.bit_length() * e > ((45000 if thorough else 36000) if p >= 991 else 6000):
                continue
            if not thorough and p > 1013 and e >= 991 and e != 1009:
                continue
            if not thorough and p < 1009 and e >= 991 and (p, e) not in ((997, 1009), (991, 997), (997, 997)):
                continue                  # table bases: the model's multiplicity loop is quadratic (2.5 s at 10^4 bits, 10 s at 2*10^4)                  # the extracted model needs ~1 s per 10^4 bits here: one exponent for the larger bases
            n = p ** e
            cl = "huge p^e, p %s 1009, e %s" % ("<" if p < 1009 else ">=", "prime" if is_prime(e) else "composite")
            add("ipp", [n], "ipp", {p: e}, cl if e >= 991 else "table-bound base, small e")
            if e >= 991 and (thorough or (p, e) in ((997, 1009), (1009, 1009), (1009, 2018))):
                q = next_prime(p)
                add("ipp", [n + 2], "ipp", None, "huge non-power p^e+2")
                add("ipp", [n * q], "ipp", {p: e, q: 1}, "huge non-power p^e*q")
                add("ipp", [p ** (e - 1) * q], "ipp", {p: e - 1, q: 1}, "huge non-power p^(e-1)*q")
                add("ipp", [-n], "ipp", {p: e}, "n<0")
    for p in ((1009, 1013, 65537) if thorough else (1009,)):        # perfect powers of composites with large prime-power shape
        q = next_prime(p)
        add("ipp", [(p * q) ** 1009], "ipp", {p: 1009, q: 1009}, "huge (pq)^1009")
        add("ipp", [(p * q) ** 2], "ipp", {p: 2, q: 2}, "(pq)^2")
    # small semiprimes of primes just above the primorial bound 97: Pollard's "failure with the initial value" branch
    # (all cycles close at once) is taken about once in a hundred calls here
    p101 = [x for x in SMALLP if 101 <= x <= 499]
    for k in range(150 if not thorough else 3000):
        p, q = rng.choice(p101), rng.choice(p101)
        f = {p: 1, q: 1} if p != q else {p: 2}
        n = p * q
        for v in ("factor", "iffactorprime", rng.choice(["set2.vec", "set2.list", "set2.deque"]), "divisors.n", rng.choice(["primefactor", "set1.vec", "write", "pollard"])):
            add(v, [n], "factor1" if v in ("factor", "iffactorprime", "primefactor", "pollard") else "set", f, "semiprime 101..499")
    # a few semiprimes whose factors need far more than TABMAX2 = 65536 Pollard iterations, through every complete-factorisation form
    for k in range(2 if not thorough else 6):
        p, q = rand_prime(rng, 37), rand_prime(rng, 38)
        f = {p: 1, q: 1}
        for v in ("divisors.n", "set2.vec", "write", "set1.vec", "primefactor"):
            add(v, [p * q if v != "write" else -p * q], "factor1" if v == "primefactor" else "set", f, "semiprime ~2^75")
    # Erathostene beyond 2^20 (the array is n+1 shorts): the documented domain is "p < BOUNDARY_factor"; the int variables i, j, ii hold up to
    # 2^31 - 2 - 2*sqrt(n).  A few larger n (oracle only; the model sieve is sampled): 2^22..2^24 in quick, up to 2^27 in thorough
    for e in ((22, 23, 24) if not thorough else (22, 24, 26, 27)):
        p1 = prev_prime(1 << e)
        add("erat", [p1], "set", {p1: 1}, "large n")
        q = prev_prime(1 << (e // 2)); q2 = prev_prime(q)
        add("erat", [q * q2], "set", {q: 1, q2: 1}, "large n")
        add("erat", [q * q], "set", {q: 2}, "large n")
        m, fz, d = (1 << e) - 2, {}, 2
        while d * d <= m:
            while m % d == 0:
                fz[d] = fz.get(d, 0) + 1; m //= d
            d += 1
        if m > 1:
            fz[m] = 1
        add("erat", [(1 << e) - 2], "set", fz, "large n")
    # ---- E. scripted random walks, in-place call forms, Miller with a chosen witness
    if K:
        scripted_cases(rng, K, add, thorough)
    # ---- E2. multi-limb n
    if K:
        multilimb_cases(rng, K, add, thorough)
    # ---- F. every operation with an output parameter, called with the output being the input object: exhaustive sweeps
    add("nextrange.alias", [-6, hi], "nprange", klass="exhaustive, in place")
    add("prevrange.alias", [4, hi], "nprange", klass="exhaustive, in place")
    add("pprevrange.alias", [4, hi], "nprange", klass="exhaustive, in place")
    add("pnextrange", [-6, 20000], "nprange", klass="exhaustive")
    add("pnextrange.alias", [-6, 20000], "nprange", klass="exhaustive, in place")
    for p in (2, 3, 7, 31, 997, 1009, 1013, 65537):
        for e in (1, 2, 3, 4, 6, 9):
            add("ipp.alias", [p ** e], "ipp", {p: e}, "in place")
        add("ipp.alias", [p ** 2 * 1019], "ipp", {p: 2, 1019: 1}, "in place")
        add("ipp.alias", [-(p ** 3)], "ipp", {p: 3}, "n<0")
    add("ipp.alias", [1009 ** 1009], "ipp", {1009: 1009}, "in place")
    add("ipp.alias", [0], "ipp", None, "edge")
    add("ipp.alias", [1], "ipp", {}, "edge")
    for fz in ({2: 2, 3: 1}, {2: 1}, {3: 3, 5: 2, 7: 1}, {101: 1, 103: 2}, {2: 5, 65537: 1}):
        a = []
        for p, e in fz.items():
            a += [p, e]
        add("divisors.lf.alias", a, "divlf", fz, "in place")
    # ---- G. every domain object of the property obtained in every way, run through the deterministic operation grid
    if K:
        grid = []

        def gadd(v, args, kind, fac=None, klass=""):
            grid.append((v, list(args), kind, fac, klass))
        for n in (-1, 0, 1, 2, 3, 4, 32749, 32767, 32768, 32771, 65521, 65535, 65536, 65537, 4294967291, (1 << 61) - 1, 561, 4295098369):
            gadd("isprime", [n], "isprime", klass="n>=2^16" if n >= 65536 else ("n<0" if n < 0 else "n<2^16"))
            gadd("isprime.fd", [n], "isprime", klass="n>=2^16" if n >= 65536 else ("n<0" if n < 0 else "n<2^16"))
        gadd("range", [32700, 32800], "range", klass="table boundary")
        gadd("range", [65480, 65600], "range", klass="table boundary")
        for p in (0, 1, 2, 3, 4, 10, 32749, 32768, 65521, 65536, 1 << 32):
            for v in ("next.na", "next.alias", "next.in", "prev.na", "prev.alias", "prev.in"):
                gadd(v, [p], "np", klass="p<=3" if p <= 3 else ("p<2^16+" if p < 65600 else "large p"))
        fgrid = [({2: 1, 3: 1}, "first primorial"), ({7: 2}, "first primorial"), ({23: 1, 10007: 1}, "first primorial"),
                 ({29: 1, 31: 1}, "second primorial only"), ({97: 1, 10007: 1}, "second primorial only"), ({73: 1, 101: 1}, "second primorial only"),
                 ({101: 1, 103: 1}, "neither primorial"), ({101: 1}, "neither primorial"), ({101: 3}, "neither primorial"), ({10007: 1}, "neither primorial"),
                 ({1000003: 1, 1000033: 1}, "neither primorial"), ({101: 1, 103: 1, 107: 1}, "neither primorial"), ({2: 3, 3: 2, 5: 1}, "first primorial")]
        for f, cl in fgrid:
            n = prod_fac(f)
            for v in ("factor", "iffactorprime", "primefactor"):
                gadd(v, [n], "factor1", f, cl)
            for v in ("set2.vec", "set2.list", "set1.vec", "write", "divisors.n"):
                gadd(v, [n], "set", f, cl)
            gadd("set2.loops", [n, 100000], "set", f, cl)
            gadd("ipp", [n], "ipp", f, cl)
        gadd("pollard", [10403], "factor1", {101: 1, 103: 1}, "neither primorial")
        gadd("erat", [360], "set", {2: 3, 3: 2, 5: 1}, "first primorial")
        for pw in ((7, 2), (1009, 2), (1013, 4), (2, 10)):
            gadd("ipp", [pw[0] ** pw[1]], "ipp", {pw[0]: pw[1]}, "p^e")
        gadd("s.miller", [65537, 0, 2, 3], "smiller", {65537: 1}, "prime n")
        sgrid = []
        scripted_grid(rng, K, lambda v, a, k, f=None, kl="": sgrid.append((v, list(a), k, f, kl)))
        ways = ["copy", "copy0", "assign", "byvalue", "heap", "copycopy", "srcgone"]
        for w in ways:
            for v, a, k, f, kl in grid + sgrid:
                add(v, a, k, f, kl, way=w)
        chk.cov["domain_ways"] = {"ways": ["orig (everything above)"] + ways, "grid_cases_per_way": len(grid) + len(sgrid)}
    chk.cov["cases_by_kind"] = {}
    for c in C:
        chk.cov["cases_by_kind"][c["kind"]] = chk.cov["cases_by_kind"].get(c["kind"], 0) + 1
    return C


# ------------------------------------------------------------------ model input from a case + what the implementation printed

def to_int(t):
    try:
        return int(t)
    except (ValueError, TypeError):
        return None


def parse_pairs(toks):
    out = []
    for t in toks:
        a, _, b = t.partition(":")
        if to_int(a) is None or to_int(b) is None:
            return None
        out.append((int(a), int(b)))
    return out


def parse_write(s):
    """'[-2^3*3*5]' -> (sign, [(g, c)] or single value)"""
    m = re.fullmatch(r"\[(-?)(.*)\]", s)
    if not m:
        return None
    neg, body = m.group(1) == "-", m.group(2)
    items = []
    for part in body.split("*"):
        g, _, c = part.partition("^")
        if to_int(g) is None or (c != "" and to_int(c) is None):
            return None
        items.append((int(g), int(c) if c != "" else 1))
    return neg, items


QUICK_TIER = False


WAY_COPIES = {"copy": 1, "copy0": 1, "assign": 3, "byvalue": 2, "heap": 2, "copycopy": 2, "srcgone": 1}


def model_line(c, out):
    """line for the model driver, or None when the op has no model (GMP wrappers, Erathostene, Miller)"""
    v, a = c["v"], c["args"]
    if c.get("way") and v == "factor":
        # factor() of the copied OBJECT: the model copies the domain record with the copy constructor read from the source
        t = out.split()
        return "d.factor %d %d %s" % (WAY_COPIES.get(c["way"], 1), a[0], t[0] if t and to_int(t[0]) is not None else "1")
    base = v.split(".")[0]
    toks = out.split()
    bad = out.startswith("HANG") or out.startswith("CRASH")
    if c["kind"] == "range":
        return "%s %d %d" % (v, a[0], a[1])
    if c["kind"] == "nprange":
        return None if v.startswith("pnext") else "%s %d %d" % (v, a[0], a[1])       # Protected::nextprime is GMP's mpz_nextprime: no model
    if v.startswith("s."):
        if v in ("s.primefactor.ip", "s.lenstra.ip", "s.lehmann", "s.test_lehmann"):
            return None                                                              # specification only
        return "%s %s" % (v, " ".join(str(x) for x in a))
    if v in ("fermat", "pepin"):
        return None if (v == "pepin" and a[0] > 8) else "%s %d" % (v, a[0])      # the model's powmod on 2^k-bit numbers: k <= 8
    if v == "erat":
        return "erat %d" % a[0] if (a[0] < (1 << 16) or (a[0] % 29 == 3 and a[0] < (1 << 21))) else None      # the model sieve needs ~0.5 s near 2^20: a sample of the large ones
    if v == "ipp.alias":
        return "ipp.alias %d" % a[0]
    if v == "divisors.lf.alias":
        return "divisors.lf.alias " + " ".join(map(str, a))
    if v in ("isprime", "isprime.r", "isprime.fd"):
        return "isprime %d" % a[0]
    if v in ("local_prime", "local_prime.r", "probab_prime", "probab_prime.r"):
        return "lp %d" % a[0]
    if v in ("tab1", "tab2"):
        return "%s %d" % (v, a[0])
    if base in ("next", "prev"):
        form = v.split(".")[1]
        form = {"na": "na", "alias": "alias", "in": "in", "ret": "na"}[form]
        return "%s.%s %d" % (base, form, a[0])
    if v in ("pprev", "pprev.alias"):
        return "pprev %d" % a[0]
    if base in ("factor", "iffactorprime", "primefactor", "pollard", "lenstra"):
        obs = to_int(toks[0]) if toks and not bad else None
        return "%s %d %d" % (base, a[0], obs if obs is not None else 1)
    if base == "set2":
        if bad or not toks:
            return "set2 %d" % a[0]
        prs = parse_pairs(toks[1:]) or []
        gs = [g for g, e in prs]
        if toks[0] == "0" and gs:
            gs[-1] = 1
        return "set2 %d %s" % (a[0], " ".join(map(str, gs)))
    if base == "set1":
        gs = [t for t in toks if to_int(t) is not None] if not bad else []
        return "set1 %d %s" % (a[0], " ".join(gs))
    if base == "write":
        w = parse_write(toks[0]) if toks and not bad else None
        gs = [g for g, e in w[1]] if w and abs(a[0]) > 1 else []
        return "%s %d %s" % (v, a[0], " ".join(map(str, gs)))
    if v == "divisors.n":
        L = [to_int(t) for t in toks] if not bad else []
        gs = []
        if L and None not in L and a[0] != 0:
            idx, m = 1, abs(a[0])
            while idx < len(L):
                g = L[idx]
                if g is None or g < 2 or m % g:
                    break
                e = 0
                while m % g == 0:
                    m //= g; e += 1
                gs.append(g); idx *= (e + 1)
        return "divisors.n %d %s" % (a[0], " ".join(map(str, gs)))
    if v in ("divisors.lf", "divisors.lf.list"):
        return "divisors.lf " + " ".join(map(str, a))
    if v == "ipp":
        f = c.get("fac")
        if QUICK_TIER and a[0].bit_length() > 9000 and f and min(f) < 1009 and f != {997: 1009}:
            return None      # quick tier: the model's multiplicity loop is quadratic (3 s per 10^4-bit power of a table prime): one of them, the others in thorough
        return "ipp %d" % a[0]
    return None


def norm_impl(c, out):
    """implementation output in the format of the model driver (for the correspondence comparison)"""
    v = c["v"]
    if out.startswith("HANG") or out.startswith("CRASH"):
        return "NONE"
    if v == "s.miller":
        return out.split("|")[0].strip()
    if v in ("next.ret", "prev.ret"):
        return out.split()[0] if out.split() else out
    if v == "divisors.lf":
        return out.split(" ; ")[0].strip()
    if v in ("ipp", "ipp.alias"):
        t = out.split()
        if len(t) == 2 and t[0] == "0":
            return "0"                      # q is unspecified when the return value is 0
    return out.strip()


def norm_model(c, out):
    if c["v"].startswith("s."):
        return out.split("#")[0].strip()    # the tail "# passes" is evidence (how often the re-split loop ran), not output
    if c["v"] in ("ipp", "ipp.alias"):
        t = out.split()
        if len(t) == 2 and t[0] == "0":
            return "0"
    return out.strip()


# ------------------------------------------------------------------ the specification, case by case

SITE = {"isprime": "IntPrimeDom::isprime", "isprime.r": "IntPrimeDom::isprime", "isprime.fd": "IntPrimeDom::isprime",
        "range": "IntPrimeDom::isprime", "range.tab1": "IntPrimeDom::isprime_Tabule", "range.tab2": "IntPrimeDom::isprime_Tabule2",
        "tab1": "IntPrimeDom::isprime_Tabule", "tab2": "IntPrimeDom::isprime_Tabule2",
        "local_prime": "IntPrimeDom::local_prime", "local_prime.r": "IntPrimeDom::local_prime",
        "probab_prime": "Protected::probab_prime", "probab_prime.r": "Protected::probab_prime", "miller": "IntPrimeDom::Miller",
        "next.na": "IntPrimeDom::nextprime", "next.na.r": "IntPrimeDom::nextprime", "next.ret": "IntPrimeDom::nextprime", "next.alias": "IntPrimeDom::nextprime(aliased)",
        "next.in": "IntPrimeDom::nextprimein", "next.in.r": "IntPrimeDom::nextprimein",
        "prev.na": "IntPrimeDom::prevprime", "prev.na.r": "IntPrimeDom::prevprime", "prev.ret": "IntPrimeDom::prevprime", "prev.alias": "IntPrimeDom::prevprime(aliased)",
        "prev.in": "IntPrimeDom::prevprimein", "prev.in.r": "IntPrimeDom::prevprimein",
        "pprev": "Protected::prevprime", "pprev.alias": "Protected::prevprime", "pnext": "Protected::nextprime", "pnext.alias": "Protected::nextprime",
        "nextrange": "IntPrimeDom::nextprime", "nextrange.in": "IntPrimeDom::nextprimein", "prevrange": "IntPrimeDom::prevprime",
        "prevrange.in": "IntPrimeDom::prevprimein", "pprevrange": "Protected::prevprime",
        "factor": "IntFactorDom::factor", "factor.loops": "IntFactorDom::factor", "iffactorprime": "IntFactorDom::iffactorprime",
        "iffactorprime.loops": "IntFactorDom::iffactorprime", "primefactor": "IntFactorDom::primefactor",
        "pollard": "IntFactorDom::Pollard", "lenstra": "IntFactorDom::Lenstra",
        "set2.vec": "IntFactorDom::set(Lf,Lo,n)", "set2.list": "IntFactorDom::set(Lf,Lo,n)", "set2.deque": "IntFactorDom::set(Lf,Lo,n)",
        "set2.loops": "IntFactorDom::set(Lf,Lo,n,loops)", "set1.vec": "IntFactorDom::set(Lf,n)", "set1.list": "IntFactorDom::set(Lf,n)",
        "write": "IntFactorDom::write", "write.L": "IntFactorDom::write", "divisors.n": "IntFactorDom::divisors(L,n)",
        "divisors.lf": "IntFactorDom::divisors(L,Lf,Le)", "divisors.lf.list": "IntFactorDom::divisors(L,Lf,Le)",
        "erat": "IntFactorDom::Erathostene(Lf,n)", "ipp": "IntPrimeDom::isprimepower", "primes16": "Primes16",
        "ipp.alias": "IntPrimeDom::isprimepower(in place)", "divisors.lf.alias": "IntFactorDom::divisors(L,Lf,Le)(in place)",
        "nextrange.alias": "IntPrimeDom::nextprime(aliased)", "prevrange.alias": "IntPrimeDom::prevprime(aliased)",
        "pprevrange.alias": "Protected::prevprime(in place)", "pnextrange": "Protected::nextprime", "pnextrange.alias": "Protected::nextprime(in place)",
        "s.pollard": "IntFactorDom::Pollard", "s.factor": "IntFactorDom::factor", "s.iffactorprime": "IntFactorDom::iffactorprime",
        "s.primefactor": "IntFactorDom::primefactor", "s.set2": "IntFactorDom::set(Lf,Lo,n)", "s.set2.list": "IntFactorDom::set(Lf,Lo,n)",
        "s.set1": "IntFactorDom::set(Lf,n)", "s.write": "IntFactorDom::write", "s.divisors": "IntFactorDom::divisors(L,n)",
        "s.pollard.ip": "IntFactorDom::Pollard(in place)", "s.lenstra.ip": "IntFactorDom::Lenstra(in place)", "s.factor.ip": "IntFactorDom::factor(in place)",
        "s.iffactorprime.ip": "IntFactorDom::iffactorprime(in place)", "s.primefactor.ip": "IntFactorDom::primefactor(in place)",
        "s.miller": "IntPrimeDom::Miller", "s.lehmann": "IntPrimeDom::Lehmann", "s.test_lehmann": "IntPrimeDom::test_Lehmann",
        "fermat": "FermatDom::fermat", "pepin": "FermatDom::pepin"}
# scripted call form -> the call form whose specification it shares
S_MAP = {"s.pollard": "pollard", "s.factor": "factor", "s.iffactorprime": "iffactorprime", "s.primefactor": "primefactor",
         "s.set2": "set2.vec", "s.set2.list": "set2.list", "s.set1": "set1.vec", "s.write": "write", "s.divisors": "divisors.n",
         "s.pollard.ip": "pollard", "s.lenstra.ip": "lenstra", "s.factor.ip": "factor", "s.iffactorprime.ip": "iffactorprime", "s.primefactor.ip": "primefactor"}


def miller_spec(n, a):
    """one round of the strong probable-prime test to the base a (the definition)"""
    if n < 2:
        return 0
    if n <= 3:
        return 1
    t, sft = n - 1, 0
    while t % 2 == 0:
        t //= 2; sft += 1
    q = pow(a % n, t, n)
    if q in (1, n - 1):
        return 1
    for _ in range(sft - 1):
        q = q * q % n
        if q == n - 1:
            return 1
    return 0


def ipp_class(c):
    n = c["args"][0]
    if n < 0:
        return "n<0"
    if n == 0:
        return "n=0"
    f = c["fac"]
    if f is not None and len(f) == 1:
        (p, e), = f.items()
        if e >= 2 and p >= 1009 and not is_prime(e) and c["klass"].startswith("p^e"):
            return "n=p^e, p>=1009, e composite"
    return c["klass"] or "other"


def spec_check(chk, c, out, K, sv):
    """compare the implementation's answer with the specification; returns True when it is wrong
    (and has been reported through chk.fail_input)"""
    v, a, f = c["v"], c["args"], c["fac"]
    site = SITE.get(v, v)
    toks = out.split()
    hang = out.startswith("HANG") or out.startswith("CRASH")

    def fail(klass, exp, detail=""):
        chk.fail_input(site, klass, {"variant": v, "args": [str(x) for x in a]}, exp, out[:300], detail)
        return True

    kind = c["kind"]
    if kind == "scripted":
        # "<answer> | <script values used> <draws beyond the script>"; the answer obeys the specification of the plain call form
        body, _, tail = out.partition("|")
        inplace = v.endswith(".ip")
        kl = "in place" if inplace else c["klass"]
        if hang:
            if v == "s.lenstra.ip" and out.startswith("HANG") and K and K.get("LENSTRA_INPLACE_GUARD"):
                return False
            return fail(kl, "an answer", "the call did not return within its time budget / raised a signal (%s)" % out)
        body = body.strip()
        if inplace:
            bt = body.split()
            if len(bt) != 2 or bt[1] != "1":
                return fail(kl, "returns its first argument", "returned reference is not the destination")
            body = bt[0]
        thr = a[1]
        mapped = S_MAP[v]
        if thr and mapped in ("pollard", "factor", "iffactorprime"):
            mapped += ".loops"
        if thr and mapped in ("set2.vec", "set2.list"):
            mapped = "set2.loops"
        c2 = {"v": mapped, "args": [a[0], thr] if thr else [a[0]], "kind": "factor1" if mapped.split(".")[0] in ("pollard", "factor", "iffactorprime", "primefactor", "lenstra") else "set",
              "fac": f, "klass": kl}
        sub = vf.Check.__new__(vf.Check)
        sub.failing, sub.cov, sub.broken = [], chk.cov, chk.broken
        wrong = spec_check(sub, c2, body, K, sv)
        for fi in sub.failing:
            chk.fail_input(site, kl, {"variant": v, "args": [str(x) for x in a]}, fi["expected"], out[:300], fi["detail"])
        return wrong
    if kind == "slehmann":
        n, aw = a[0], a[2]
        body = out.split("|")[0].split()
        if hang or not body:
            return fail(c["klass"], "an answer", out)
        if v == "s.lehmann":
            want = 0 if n < 2 else (1 if n <= 3 else int(pow(aw % n, (n - 1) // 2, n) == n - 1))
            if to_int(body[0]) != want:
                return fail(c["klass"], want, "Lehmann(g, n) with the base %d: 1 iff base^((n-1)/2) = n - 1 (mod n)" % aw)
            return False
        if n >= 2:
            want = pow(aw % n, (n - 1) // 2, n)
            if to_int(body[0]) != want or body[1:] != ["1"]:
                return fail(c["klass"], "%d 1" % want, "test_Lehmann(g, r, n) = base^((n-1)/2) mod n, returned in r")
        return False
    if kind == "fermat":
        k = a[0]
        fk = (1 << (1 << k)) + 1
        if hang:
            return fail(c["klass"], "an answer", out)
        if v == "fermat":
            if toks != [str(fk), "1"]:
                return fail(c["klass"], "%d 1" % fk if k < 8 else "2^(2^%d)+1" % k, "fermat(f, k) = 2^(2^k) + 1")
            return False
        if k == 0:
            return False                     # Pepin's test is stated for k >= 1 (F_0 = 3 divides the base): correspondence only
        want = 1 if k <= 4 else 0            # F_1..F_4 are prime, F_5..F_32 are composite
        if toks[:1] != [str(want)]:
            return fail(c["klass"], want, "pepin(k): F_%d is %s" % (k, "prime" if want else "composite"))
        return False
    if kind == "smiller":
        n, aw = a[0], a[2]
        got = to_int(out.split("|")[0].strip()) if not hang else None
        nonzero = bool(K and K.get("MILLER_NONZERO"))
        w = next((x % n for x in a[2:] if not (nonzero and x % n == 0)), None) if n > 3 else 0
        want = miller_spec(n, w) if w is not None else None
        if n >= 2 and is_prime(n):
            want = 1                                   # a prime passes whatever the witness
        if got is None or (want is not None and got != want):
            return fail(c["klass"], want, "Miller(g, n) with the witness sequence %s" % a[2:5])
        return False
    if kind == "range":
        lo, hi = a
        if hang or len(out) != hi - lo:
            return fail(c["klass"], "%d characters" % (hi - lo), "range call did not complete")
        tab = v != "range"
        if "outside" in c["klass"]:
            return False          # isprime_Tabule(2) outside the range the dispatch uses it for: correspondence only
        bad = False
        for i, ch in enumerate(out):
            n = lo + i
            pr = (sv[n] == 1) if 0 <= n < len(sv) else is_prime(n)
            if (ch == "1") != pr:
                chk.fail_input(site, "n<0" if n < 0 else ("n<2^16" if n < 65536 else "n>=2^16"), {"variant": v.replace("range", "isprime") if not tab else v, "args": [str(n)]},
                               int(pr), ch, "isprime(n) differs from the sieve / deterministic Miller-Rabin")
                bad = True
        return bad
    if kind == "primes16":
        want = [i for i in range(65536) if sv[i]]
        got = [to_int(t) for t in toks]
        if hang or not got or got[0] != len(want) or got[1:] != want:
            return fail("table", "count %d and the primes below 65536 in order" % len(want), "Primes16 table differs from the sieve")
        return False
    if kind == "nprange":
        lo, hi = a
        got = [to_int(t) for t in toks]
        if hang or len(got) != hi - lo:
            return fail(c["klass"], "%d values" % (hi - lo), "range call did not complete")
        bad = False
        nxt = "next" in v
        for i, g in enumerate(got):
            p = lo + i
            want = next_small(p, sv) if nxt else prev_small(p, sv)
            if g != want:
                chk.fail_input(site, "p=%d" % p if p <= 3 else "p<2^16+", {"variant": {"nextrange.alias": "next.alias", "prevrange.alias": "prev.alias", "pprevrange.alias": "pprev.alias", "pnextrange": "pnext", "pnextrange.alias": "pnext.alias", "pprevrange": "pprev"}.get(v, v.replace("range", ".na") if "." not in v else v), "args": [str(p)]}, want, g,
                               "not the closest prime %s p" % ("above" if nxt else "below"))
                bad = True
        return bad
    if hang and v == "lenstra" and out.startswith("HANG"):
        chk.cov["lenstra_timeouts"] = chk.cov.get("lenstra_timeouts", 0) + 1      # ECM with B1 = 10^7 may simply be slow
        return False
    if hang:
        kl = c["klass"]
        if v == "ipp":
            kl = ipp_class(c)
        elif v == "primefactor" and a[0] == 1:
            kl = "n=1"
        elif SITE.get(v, "").find("prevprime") >= 0 and a[0] == 3:
            kl = "p=3"
        return fail(kl, "an answer", "the call did not return within its time budget / raised a signal (%s)" % out)
    if kind in ("isprime", "tab"):
        n = a[0]
        if kind == "tab" and n < 0:
            return False          # direct call of the table search below its range: correspondence only
        want = is_prime(n)
        if v.startswith("local_prime") or v.startswith("probab_prime"):
            want = is_prime(abs(n))                     # GMP's convention; only called with n >= 0 here
        if not toks or (toks[0] != "0") != want:
            return fail("n<0" if n < 0 else c["klass"], int(want), "primality answer differs from deterministic Miller-Rabin (bases 2..41 and more)")
        return False
    if kind == "miller":
        if toks[:1] != ["1"]:
            return fail(c["klass"], 1, "Miller rejected a prime")
        return False
    if kind == "np":
        p = a[0]
        nxt = v.startswith("next") or v.startswith("pnext")
        want = next_prime(p) if nxt else prev_prime(p)
        g = to_int(toks[0]) if toks else None
        if g != want:
            return fail("p=%d" % p if -4 <= p <= 3 else c["klass"], want, "not the closest prime %s p (2 at the low end)" % ("above" if nxt else "below"))
        if v.endswith(".ret") and toks[1:] != ["1"]:
            return fail(c["klass"], "returns its first argument", "returned reference is not the destination")
        return False
    if kind == "factor1":
        n = a[0]
        g = to_int(toks[0]) if toks else None
        if g is None:
            return fail(c["klass"], "an integer")
        loops = len(a) > 1 and a[1] != 0
        if n == 0:
            return fail("n=0", "non-zero") if g == 0 else False
        if g == 0 or (n % g != 0 and not (v == "lenstra" and g == -1)):
            return fail(c["klass"], "a divisor of n", "returned value does not divide n")
        composite = n >= 4 and not is_prime(n)
        base = v.split(".")[0]
        if base == "lenstra":        # a probabilistic fallback that may report failure: only "what it returns divides n" is required
            chk.cov["lenstra_nontrivial"] = chk.cov.get("lenstra_nontrivial", 0) + (1 if 1 < g < n else 0)
            if c["klass"] in ("Lenstra front end", "in place") and n >= 1:
                if (n < 3 or is_prime(n)) and g != n:
                    return fail(c["klass"], n, "Lenstra of n < 3 / of a prime is n itself")
                if composite and (n % 2 == 0 or n % 3 == 0) and not (1 < g < n and is_prime(g)):
                    return fail(c["klass"], "2 or 3", "a multiple of 2 or 3 is split before any curve is tried")
            return False
        if composite and not loops and not (1 < g < n):
            return fail(c["klass"], "1 < g < n", "trivial factor for a composite n")
        if composite and loops and not (1 <= g <= n):
            return fail(c["klass"], "1 <= g <= n")
        if base in ("iffactorprime", "primefactor") and n >= 2 and not loops and not is_prime(g):
            return fail(c["klass"], "a prime factor", "returned factor is not prime")
        if n >= 2 and is_prime(n) and g != n:
            return fail(c["klass"], n, "factor of a prime must be the prime itself")
        return False
    if kind == "set":
        n = a[0]
        if n == 0:
            return False                                  # the property speaks about non-zero integers
        m = abs(n)
        base = v.split(".")[0]
        kl = "n<0" if n < 0 else c["klass"]
        if base == "set2":
            prs = parse_pairs(toks[1:]) if toks else None
            if prs is None or toks[0] not in ("0", "1"):
                return fail(kl, "flag and g:e pairs")
            complete = toks[0] == "1"
            gs = [g for g, e in prs]
            if len(set(gs)) != len(gs):
                return fail(kl, "distinct factors")
            if any(e < 1 for g, e in prs) or any(g < 2 for g in gs):
                return fail(kl, "factors >= 2 with exponents >= 1")
            pr = 1
            for g, e in prs:
                pr *= g ** e
            if pr != m:
                return fail(kl, "product = |n| = %d" % m, "product of the returned factorisation is %d" % pr)
            if complete and not all(is_prime(g) for g in gs):
                return fail(kl, "primes (factorisation flagged complete)")
            if v != "set2.loops" and not complete:
                return fail(kl, "complete factorisation (loops = 0)")
            return False
        if base in ("set1", "erat"):
            gs = [to_int(t) for t in toks]
            want = sorted(f.keys()) if f is not None else None
            if None in gs or len(set(gs)) != len(gs) or (want is not None and sorted(gs) != want):
                return fail(kl, "the distinct primes of |n|: %s" % want)
            return False
        if base == "write":
            w = parse_write(toks[0]) if toks else None
            if w is None:
                return fail(kl, "sign and g^c * ... ")
            neg, items = w
            pr = 1
            for g, e in items:
                pr *= g ** e
            if (-pr if neg else pr) != n:
                return fail(kl, "a product equal to n")
            if m > 1 and (not all(is_prime(g) for g, e in items) or len({g for g, e in items}) != len(items)):
                return fail(kl, "distinct primes")
            if v == "write.L":
                L = [to_int(t) for t in toks[1:]]
                if L != [g for g, e in items]:
                    return fail(kl, "Lf = the printed bases")
            return False
        if v == "divisors.n":
            L = [to_int(t) for t in toks]
            want = all_divisors(f) if f is not None else None
            if None in L or len(set(L)) != len(L) or (want is not None and sorted(L) != want):
                return fail(kl, "exactly the positive divisors of |n| (%d of them)" % (len(want) if want else -1))
            return False
    if kind == "divlf":
        body = out.split(" ; ")
        L = [to_int(t) for t in body[0].split()]
        want = all_divisors(f)
        if None in L or sorted(L) != want:
            return fail(c["klass"], "exactly the positive divisors (%d of them)" % len(want))
        if v == "divisors.lf" and (len(body) < 2 or body[1].strip() != "1"):
            return fail(c["klass"], "returns its first argument")
        return False
    if kind == "ipp":
        n = a[0]
        e = to_int(toks[0]) if toks else None
        q = to_int(toks[1]) if len(toks) > 1 else None
        if e is None:
            return fail(ipp_class(c), "an integer")
        want = None
        if n >= 2 and (n.bit_length() <= 50000):
            pp = prime_power(n)
            if pp is not None and pp[0] >= 2:
                want = pp
            if f is not None and len(f) == 1 and list(f.values())[0] >= 2 and want != (list(f.values())[0], list(f.keys())[0]):
                chk.broke("python prime-power oracle disagrees with the construction of the case %s" % str(f)[:80])
        if want is None:
            if e != 0:
                return fail(ipp_class(c), 0, "n is not a proper prime power")
            return False
        if (e, q) != want:
            return fail(ipp_class(c), "%d %d" % want, "n = %d^%d" % (want[1], want[0]))
        return False
    return False


def next_small(p, sv):
    n = max(p + 1, 2)
    while n < len(sv) and not sv[n]:
        n += 1
    return n if n < len(sv) else next_prime(p)


def prev_small(p, sv):
    if p <= 2:
        return 2
    n = p - 1
    while not sv[n]:
        n -= 1
    return n


# ------------------------------------------------------------------ known findings handed back in frag/ (until merged)

def install_frag_findings():
    """frag/C12.findings.json is the hand-back channel for findings (the coordinator merges it into
    known_findings.json).  Entries whose (site, klass) is not yet in known_findings.json under ANY status are
    honoured from the frag file, so that the check is green between hand-back and merge; once the coordinator
    has an entry for the site/klass (known or fixed), known_findings.json alone decides."""
    orig = vf.load_known
    fp = os.path.join(vf.ROOT, "frag", "C12.findings.json")

    def load():
        base = orig()
        try:
            extra = json.load(open(fp))
        except (OSError, ValueError):
            return base
        have = {(x.get("property"), x.get("site"), x.get("klass")) for x in base}
        return base + [x for x in extra if (x.get("property"), x.get("site"), x.get("klass")) not in have]
    vf.load_known = load


def run_harness(binary, text, budget, timeout=3000):
    """Feed the cases to the harness.  The harness leaves (exit 42) after a call it had to abandon (HANG / CRASH: jumping out of a signal
    handler may leave malloc's lock and library state behind); it is restarted on the remaining lines.  After 15 abandoned calls the tree
    is obviously broken and the remaining calls get 1 s of CPU each, so that the run stays short."""
    import time as _t
    lines = text.splitlines(True)
    out, pos, bad, t0, err = [], 0, 0, _t.time(), ""
    while pos < len(lines):
        b = budget if bad < 15 else "1"
        rc, o, err = vf.run_lines(binary, "".join(lines[pos:]), timeout=max(60, timeout - int(_t.time() - t0)), args=[b])
        out += o
        pos += len(o)
        if rc == 42 and o:
            bad += 1
            continue
        return rc, out, err
    return 0, out, err


def run_parallel(binary, lines, nproc, timeout=1500):
    """run the (stateless, line-by-line) model driver on round-robin chunks of the input in nproc processes"""
    from concurrent.futures import ThreadPoolExecutor
    chunks = [lines[i::nproc] for i in range(nproc)]
    with ThreadPoolExecutor(max_workers=nproc) as ex:
        res = list(ex.map(lambda ch: vf.run_lines(binary, "\n".join(ch) + "\n", timeout=timeout) if ch else (0, [], ""), chunks))
    rc = max(abs(r[0]) for r in res)
    out = [None] * len(lines)
    for i, (r, o, e) in enumerate(res):
        if len(o) != len(chunks[i]):
            return (rc or 1), [], "chunk %d: %d/%d lines\n%s" % (i, len(o), len(chunks[i]), e)
        out[i::nproc] = o
    return rc, out, "\n".join(r[2] for r in res)[-2000:]


# ------------------------------------------------------------------ main

def main(tier, replay=None):
    global QUICK_TIER
    QUICK_TIER = tier == "quick"
    chk = vf.Check("C12", tier, "proof")
    install_frag_findings()
    rng = vf.Rng(chk.seed)
    chk.cov["trusted_base"] = [
        "Coq 8.16.1 kernel + vm_compute (the complete sweeps of [0,65536) run inside the kernel's VM; no native_compute)",
        "checks/C12.py gen_tables(): regular-expression reader of the tables, table sizes, search constants, dispatch bounds, low-end constants, "
        "trial-division macros and primorials from the current source text (it refuses, and the check reports, any shape it does not recognise); "
        "validated on every run by the exhaustive correspondence run of the extracted model against the compiled code",
        "GMP: mpz_probab_prime_p (primality above 65536), mpz_root, mpz_nextprime are oracles of the model; in the model driver they are the same GMP functions through Zarith",
        "Pollard's rho walk is INSIDE the model (ModelScript.v) for the scripted call forms: only the random start values are inputs; for the unscripted call forms and for Lenstra's curves "
        "the random-walk answers are oracles of the model (replayed); what they return is checked per case against the specification oracle",
        "harness/c12_prime.C specialises the member template IntegerDom::random / nonzerorandom for its own iterator type ScriptRand (the library code is compiled unchanged): "
        "this is how IntFactorDom<ScriptRand> and Miller<ScriptRand> read their random numbers from the input line; checks/C12.py rho_sim / fixed_point_start only CHOOSE the scripts",
        "extraction: ExtrOcamlBasic only; Z/positive/nat kept as extracted inductives; OCaml 4.13.1",
        "harness/c12_prime.C, checks/C12.py (case generators; python oracle: sieve, deterministic Miller-Rabin bases 2..41 and more, re-multiplication, brute-force divisors)",
        "g++ / x86-64 / GMP for the implementation side",
    ]
    chk.assumptions = ["primality of n >= 65536 is delegated by the code to GMP; agreement with deterministic Miller-Rabin on 64-bit n is TESTED (structured inputs), not proved "
                       "(theorem C12_isprime_exact_for_all_n_given_gmp is conditional on exactly this)",
                       "factor/Pollard/iffactorprime/primefactor/set/write/divisors/isprimepower/Erathostene/Miller/pepin: hand model after the code, tied by correspondence "
                       "(deterministic on the scripted random walks); their specification is also checked per generated case by the python oracle",
                       "termination of Pollard's random walk is not a theorem (probabilistic algorithm): the statements are 'whenever it returns'"]
    import time as _t
    stage = {}
    t0 = _t.time()

    def lap(name):
        nonlocal t0
        stage[name] = round(_t.time() - t0, 1); t0 = _t.time()
    chk.cov["stage_seconds"] = stage
    # 0. tables and constants from the current source
    K, err = write_tables()
    if err:
        chk.broke("translation of the prime tables / constants from the source failed: " + err)
    if K:
        # The repaired state of the source is the only accepted one: every flag / low-end constant that belongs to a finding marked `fixed`
        # must read as its repaired value.  A regression is a broken obligation naming the theorem that is stated for the repaired state
        # (coq/C12/ProofsAccepted.v fails on it as well; this message says which repair went away even if the Coq build is not reached).
        ACCEPTED = [("ISPRIME_HAS_GUARD", True, "C12_isprime_below_2 / C12_isprime_exact_for_all_n_given_gmp (isprime(n) = 0 for n < 2)"),
                    ("ISPRIME_GUARD", 2, "C12_isprime_below_2"),
                    ("PREV_LOW", 3, "C12_prevprime_at_3 (prevprime(3) = 2)"), ("PREVIN_LOW", 3, "C12_prevprime_at_3 (prevprimein(3) = 2)"),
                    ("PPREV_LOW", 3, "C12_protected_prevprime_at_3"),
                    ("IPP_NEG_GUARD", True, "C12_isprimepower_decides / C12_isprimepower_zero_for_nonpositive"),
                    ("IPP_RECURSE", True, "C12_isprimepower_complete / C12_isprimepower_decides (recursion on a non-prime exact root)"),
                    ("IPP_ZERO_RET", 0, "C12_isprimepower_zero_for_nonpositive (isprimepower(0) = 0)"),
                    ("PRIMEFACTOR_GUARD", True, "ProofsAccepted.other_flags_ok (primefactor(r, 1) returns)"),
                    ("SET1_ABS", True, "C12_set_one_container_distinct_factors (set(Lf, n) of a negative n)"),
                    ("FACTOR_INPLACE_GUARD", True, "C12_factor_in_place"), ("POLLARD_INPLACE_GUARD", True, "C12_pollard_in_place"),
                    ("LENSTRA_INPLACE_GUARD", True, "ProofsAccepted.other_flags_ok (Lenstra in place)"),
                    ("MILLER_NONZERO", True, "C12_miller_witness_zero / C12_miller_accepts_every_prime")]
        chk.cov["accepted_source_state"] = {k: K[k] for k, _, _ in ACCEPTED}
        for k, want, thm in ACCEPTED:
            if K[k] != want:
                chk.broke("the source left the repaired state: %s reads as %r (accepted: %r) - regression of a repair marked `fixed`; theorem %s is stated for the repaired state and no longer holds"
                          % (k, K[k], want, thm))
        D = K["DOM"]
        chk.cov["domain_members_from_clang_ast"] = {"class": "IntFactorDom<GivRandom>", "fields": D["fields"], "copy_constructor_user_provided": D["copy_ctor_user"],
                                                   "copy_constructor": {k: list(v) for k, v in D["copy_ctor"].items()}, "operator=_user_provided": D["assign_user"],
                                                   "operator=": {k: list(v) for k, v in D["assign"].items()}}
        for fld in D["fields"]:
            h = D["copy_ctor"].get(fld, ("default", None))
            want = D["value_ctor"].get(fld)
            if not (h[0] == "from_source" or (h[0] == "literal" and want == h)):
                chk.broke("IntFactorDom's copy constructor does not carry the member %s over (clang AST: %s; the constructor gives it %s): "
                          "a copied domain differs from the original" % (fld, h, want))
    # 1. proofs
    inconclusive = chk.cov.setdefault("inconclusive_streams", [])      # time-outs of our own tooling (machine load): recorded, never a violation
    res = vf.coq_check_props(AREA, timeout=2700)
    if not res["ok"] and "[timeout after" in res.get("log", "") and not res["forbidden"]:
        # the Coq build did not finish within 45 minutes (a cold build takes ~3 minutes on an idle machine): inconclusive, not a broken proof
        inconclusive.append("coq build of coq/C12 timed out; the theorems were not re-checked in this run")
        chk.cov["obligations"] += len(res["theorems"])
    else:
        chk.proof_result(res, AREA)
        # never a silent "0 discharged": whatever the reason (build did not run, Properties.v without theorems, generated
        # files missing), theorems that are not discharged are a broken obligation
        if (chk.cov["discharged"] != chk.cov["obligations"] or chk.cov["obligations"] < 1) and not chk.broken:
            chk.broke("coq/C12: %d of %d theorems discharged" % (chk.cov["discharged"], chk.cov["obligations"]), res.get("log", ""))
    lap("coq")
    # 2. executables
    drv, l1 = vf.ocaml_build(AREA) if os.path.exists(os.path.join(vf.coq_dir(AREA), "ocaml", "model.ml")) else (None, "extraction did not run")
    if drv is None:
        chk.broke("extracted model driver does not build", l1)
    himpl, l2 = vf.build_harness("c12_prime.C")
    if himpl is None:
        chk.broke("implementation harness does not compile against /repo", l2)
        return chk.finish()
    # 3. cases
    if replay:
        rp = json.load(open(replay))
        cases = []
        for fi in rp.get("failing_inputs", []):
            cs = fi["case"]
            cases.append({"v": cs["variant"], "args": [int(x) for x in cs["args"]], "kind": "replay", "fac": None, "klass": fi.get("klass", "")})
        impl_in = "".join("%s %s\n" % (c["v"], " ".join(str(x) for x in c["args"])) for c in cases)
        rc, iout, ierr = run_harness(himpl, impl_in, "10", timeout=600)
        for c, o in zip(cases, iout):
            print("replay %s %s -> %s" % (c["v"], c["args"], o[:200]))
        return 0
    lap("build")
    sv = sieve(1 << 17)
    cases = gen_cases(rng, tier, chk, K)
    lap("generate")
    impl_in = "".join("%s%s %s\n" % ("@%s " % c["way"] if c.get("way") else "", c["v"], " ".join(str(x) for x in c["args"])) for c in cases)
    rc, iout, ierr = run_harness(himpl, impl_in, "5" if tier == "quick" else "60")
    if rc == 124 and "[timeout]" in ierr:
        inconclusive.append("the implementation harness did not finish %d cases within 50 minutes (machine load): no verdict from this run" % len(cases))
        chk.cov["inconclusive"], chk.cov["floor_missed"] = True, ["oracle_comparisons", "correspondence_comparisons", "scripted_walk_comparisons"]
        print("INCONCLUSIVE property=C12 streams=%s (nothing was compared in this run)" % inconclusive)
        return chk.finish()
    if rc != 0 or len(iout) != len(cases):
        bad = cases[len(iout)] if len(iout) < len(cases) else None
        chk.broke("implementation harness failed (rc=%s, %d/%d lines); next case: %s" % (rc, len(iout), len(cases), bad and (bad["v"], bad["args"])), ierr)
        return chk.finish()
    # a call that did not return within its CPU budget is re-run ALONE with 5x the budget before it is called a hang
    hung = [i for i, o in enumerate(iout) if o.startswith("HANG")]
    if hung:
        big = "25" if tier == "quick" else "300"
        redo = "".join("%s%s %s\n" % ("@%s " % cases[i]["way"] if cases[i].get("way") else "", cases[i]["v"], " ".join(str(x) for x in cases[i]["args"])) for i in hung[:6])
        rc2, o2, e2 = run_harness(himpl, redo, big)
        back = 0
        if rc2 == 0 and len(o2) == len(hung[:6]):
            for i, o in zip(hung[:6], o2):
                if not o.startswith("HANG"):
                    iout[i] = o; back += 1
        chk.cov["hang_rerun"] = {"first_pass_hangs": len(hung), "rerun_alone": min(len(hung), 6), "rerun_alone_with_budget_s": int(big), "returned_on_rerun": back}
    lap("implementation")
    # 4. model run on the same cases (+ the implementation's random-walk answers as oracle values)
    mlines, midx = [], []
    for i, c in enumerate(cases):
        ml = model_line(c, iout[i])
        if ml is not None:
            mlines.append(ml); midx.append(i)
    mout = {}
    if drv:
        rc, mo, merr = run_parallel(drv, mlines, min(12, vf.NCPU), timeout=3000)
        if rc == 124 and "[timeout]" in merr:
            inconclusive.append("the model driver did not finish within 50 minutes (machine load): no correspondence verdict from this run")
        elif rc != 0 or len(mo) != len(mlines):
            chk.broke("model driver failed (rc=%s, %d/%d lines)" % (rc, len(mo), len(mlines)), merr)
        else:
            mout = {i: o for i, o in zip(midx, mo)}
    lap("model")
    # 5. three-way comparison
    ncorr = 0
    dist = {}
    hangs = 0
    for i, c in enumerate(cases):
        out = iout[i]
        key = c["v"]
        if not c.get("way"):
            dist[key] = dist.get(key, 0) + 1
        units = (c["args"][1] - c["args"][0]) if c["kind"] in ("range", "nprange") else 1
        chk.cov["evaluations"] += units - 1
        chk.count((c.get("way"), c["v"], tuple(c["args"])), nontrivial=True)
        if c["kind"] in ("range", "nprange"):
            for n in range(c["args"][0], c["args"][1]):
                chk.distinct.add((c["v"], n))
        if i % 211 == 0:
            chk.sample({"variant": c["v"], "args": [str(x)[:60] for x in c["args"]][:4], "impl": out[:80], "class": c["klass"]})
        if out.startswith("HANG") or out.startswith("CRASH"):
            hangs += 1
        if c.get("way"):
            # same specification as on the original object; a failure is reported with the way the object was obtained
            sub = vf.Check.__new__(vf.Check)
            sub.failing, sub.cov, sub.broken = [], chk.cov, chk.broken
            wrong = spec_check(sub, c, out, K, sv)
            for fi in sub.failing:
                chk.fail_input(fi["site"], "domain obtained by: " + c["way"], {"variant": "@%s %s" % (c["way"], fi["case"]["variant"]), "args": fi["case"]["args"]},
                               fi["expected"], fi["observed"], fi["detail"])
            wy = chk.cov.setdefault("cases_by_domain_way", {})
            wy[c["way"]] = wy.get(c["way"], 0) + 1
        else:
            wrong = spec_check(chk, c, out, K, sv)
        if c["kind"] == "scripted" and not c.get("way"):
            sp = chk.cov.setdefault("scripted_paths", {})
            key = "%s: %s" % (SITE.get(c["v"], c["v"]).replace("IntFactorDom::", ""), c["klass"])
            sp[key] = sp.get(key, 0) + 1
            tail = out.partition("|")[2].split()
            if len(tail) == 2 and tail[1] != "0":
                chk.cov["scripted_draws_beyond_script"] = chk.cov.get("scripted_draws_beyond_script", 0) + 1
            if i in mout and "#" in mout[i]:
                hp = chk.cov.setdefault("resplit_loop_passes_per_iffactorprime_call(model)", {})
                for t in mout[i].split("#")[1].replace(",", " ").split():
                    hp[t] = hp.get(t, 0) + 1
        if i in mout:
            ncorr += units
            mi, mm = norm_impl(c, out), norm_model(c, mout[i])
            if mi != mm and not wrong:
                d = ""
                if c["kind"] in ("range", "nprange"):
                    xs, ys = (list(mi), list(mm)) if c["kind"] == "range" else (mi.split(), mm.split())
                    for j, (x, y) in enumerate(zip(xs, ys)):
                        if x != y:
                            d = " first difference at n=%d: impl=%s model=%s" % (c["args"][0] + j, x, y); break
                chk.broke("correspondence model/implementation differs on %s %s: model=%s impl=%s%s"
                          % (c["v"], [str(x)[:80] for x in c["args"]][:6], mm[:120], mi[:120], d))
    lap("compare")
    if os.environ.get("C12_DEBUG"):
        json.dump({"failing": chk.failing, "broken": chk.broken}, open(os.path.join(vf.BUILD, "logs", "C12.debug.json"), "w"), indent=1, default=str)
    if len(chk.broken) > 20:
        chk.broken = chk.broken[:20] + [{"what": "... %d more" % (len(chk.broken) - 20), "detail": ""}]
    # floors: what a run must have compared to count as a run of this check; below them (tooling problems) the evidence says so prominently
    floor = {"theorems_rechecked": chk.cov["obligations"], "oracle_comparisons": 9000 if tier == "quick" else 100000,
             "correspondence_comparisons": 600000 if tier == "quick" else 1000000, "scripted_walk_comparisons": 800}
    got = {"theorems_rechecked": chk.cov["discharged"], "oracle_comparisons": len(cases), "correspondence_comparisons": ncorr,
           "scripted_walk_comparisons": sum(1 for i, c in enumerate(cases) if c["v"].startswith("s.") and i in mout)}
    chk.cov["floor"], chk.cov["compared"] = floor, got
    chk.cov["floor_missed"] = [k for k in floor if got[k] < floor[k]] if not replay else []
    chk.cov["inconclusive"] = bool(inconclusive or chk.cov["floor_missed"])
    if chk.cov["inconclusive"] and not chk.failing and not chk.broken:
        print("INCONCLUSIVE property=C12 streams=%s floor_missed=%s (tooling time-out / machine load: this run is not a pass of the skipped probes)"
              % (inconclusive, chk.cov["floor_missed"]))
    chk.cov["rule"] = ("exhaustive n in [0,65536) for isprime / isprime_Tabule / isprime_Tabule2 and p in [-6,66100) for every next/prev form; "
                       "structured 64-bit n (Carmichael numbers, strong pseudoprimes, p^2, pq with close p and q, neighbours of 2^15..2^65, negatives); "
                       "factorisation inputs built from known prime factorisations (smooth, semiprime, prime power, Carmichael, second-primorial-only, n=0,1,2, negative); "
                       "distinct = (call form, arguments), one per n for range sweeps")
    chk.cov["traces_validated_against_impl"] = ncorr
    chk.cov["call_forms"] = len(dist)
    chk.cov["distribution_by_call_form"] = dist
    chk.cov["calls_that_did_not_return"] = hangs
    if K:
        chk.cov["source_constants"] = {k: K[k] for k in ("DISPATCH1", "DISPATCH2", "PREV_LOW", "PREVIN_LOW", "PPREV_LOW", "ISPRIME_HAS_GUARD", "ISPRIME_GUARD",
                                                      "IPP_NEG_GUARD", "IPP_RECURSE", "IPP_ZERO_RET", "PRIMEFACTOR_GUARD", "SET1_ABS", "PRIMES16_SIZE",
                                                      "POLLARD_CST", "FACTOR_INPLACE_GUARD", "POLLARD_INPLACE_GUARD", "LENSTRA_INPLACE_GUARD", "MILLER_NONZERO")}
        chk.cov["table_sizes"] = {"IP": len(K["IP"]), "IP2": len(K["IP2"]), "PRIMES16": len(K["PRIMES16"])}
    return chk.finish()



if __name__ == "__main__":
    if "--gen-tables" in sys.argv:
        K, err = write_tables()
        if err:
            print("C12 table generation failed: " + err)
            sys.exit(1)
        print("generated coq/C12/gen/Tables.v (IP %d, IP2 %d, primes16 %d entries)" % (len(K["IP"]), len(K["IP2"]), len(K["PRIMES16"])))
        sys.exit(0)
