# C12 — Primality tests and integer factorisation return correct, complete answers.   (DESIGN 5/C12)
# proof:  coq/C12.  gen/Tables.v is regenerated from /repo's CURRENT source text on every run (translator
#         tie for the data: prime tables, table sizes, dispatch boundaries, low-end constants of
#         next/prevprime, the trial-division macros and primorial constants of factor(), the small-prime
#         table of isprimepower, givprimes16.C).  Theorems are re-checked against what the source says now.
# tie:    correspondence: extracted model vs the implementation compiled from the current tree
#         (exhaustive for n < 2^16 on isprime/isprime_Tabule/isprime_Tabule2/next/prev; generated beyond).
# search: sieve of Eratosthenes, deterministic Miller-Rabin (bases 2..37), re-multiplication of factor
#         lists with independent primality of each factor, brute-force divisor lists.
import json, os, re, sys

if __name__ == "__main__":
    sys.path.insert(0, os.path.join(os.path.dirname(os.path.dirname(os.path.abspath(__file__))), "lib"))
import vf

AREA = "C12"
SRC = {
    "prime_h": "src/kernel/integer/givintprime.h",
    "prime_C": "src/kernel/integer/givintprime.C",
    "factor_h": "src/kernel/integer/givintfactor.h",
    "factor_inl": "src/kernel/integer/givintfactor.inl",
    "misc_C": "src/kernel/gmp++/gmp++_int_misc.C",
    "primes16_C": "src/kernel/field/givprimes16.C",
}


# ------------------------------------------------------------------ translator for the data part

class GenError(Exception):
    pass


def strip_comments(txt):
    txt = re.sub(r"/\*.*?\*/", " ", txt, flags=re.S)
    txt = re.sub(r"//[^\n]*", " ", txt)
    return txt


def read_src(key):
    p = os.path.join(vf.REPO, SRC[key])
    try:
        return strip_comments(open(p, errors="replace").read())
    except OSError as e:
        raise GenError("cannot read %s: %s" % (p, e))


def macros_of(txt):
    """object-like #define NAME value  (value = integer literal or another macro)"""
    m = {}
    for name, val in re.findall(r"^[ \t]*#[ \t]*define[ \t]+([A-Za-z_]\w*)[ \t]+([A-Za-z_0-9]+)[ \t]*$", txt, flags=re.M):
        m.setdefault(name, val)
    return m


def int_lit(tok):
    t = tok.strip()
    t = re.sub(r"[uUlL]+$", "", t)
    if re.fullmatch(r"-?\d+", t):
        return int(t)
    if re.fullmatch(r"-?0[xX][0-9a-fA-F]+", t):
        return int(t, 16)
    return None


def ev(tok, macros, depth=0):
    """value of an integer token / macro name / simple 'A+5' or 'A>>1' expression"""
    tok = tok.strip()
    while tok.startswith("(") and tok.endswith(")"):
        tok = tok[1:-1].strip()
    v = int_lit(tok)
    if v is not None:
        return v
    if depth > 8:
        raise GenError("macro recursion on " + tok)
    m = re.fullmatch(r"(.+?)\s*(\+|-|>>|<<)\s*(\w+)", tok)
    if m:
        a, b = ev(m.group(1), macros, depth + 1), ev(m.group(3), macros, depth + 1)
        return {"+": a + b, "-": a - b, ">>": a >> b, "<<": a << b}[m.group(2)]
    if tok in macros:
        return ev(macros[tok], macros, depth + 1)
    raise GenError("cannot evaluate constant expression '%s'" % tok)


def array_init(txt, decl_re, macros, what):
    m = re.search(decl_re + r"\s*=\s*\{(.*?)\}\s*;", txt, flags=re.S)
    if not m:
        raise GenError("cannot find the initialiser of " + what)
    body = m.group(m.lastindex)
    toks = [t for t in (x.strip() for x in body.split(",")) if t != ""]
    return m, [ev(t, macros) for t in toks]


def func_body(txt, header_re, what):
    m = re.search(header_re, txt, flags=re.S)
    if not m:
        raise GenError("cannot find " + what)
    i = txt.index("{", m.end() - 1) if txt[m.end() - 1] != "{" else m.end() - 1
    depth, j = 0, i
    while j < len(txt):
        if txt[j] == "{":
            depth += 1
        elif txt[j] == "}":
            depth -= 1
            if depth == 0:
                return txt[i + 1:j]
        j += 1
    raise GenError("unbalanced braces in " + what)


def gen_tables():
    """-> (coq text, dict of constants).  Raises GenError when the source left the translated shape."""
    K = {}
    ph, pc = read_src("prime_h"), read_src("prime_C")
    mac = macros_of(ph)
    mac.update(macros_of(pc))
    for n in ("LOGMAX", "TABMAX", "LOGMAX2", "TABMAX2", "BOUNDARY_isprime", "BOUNDARY_2_isprime"):
        K[n] = ev(n, mac)
    # --- the two tables, their declared sizes and the shifted pointers
    for tab, tp in (("IP", "TP"), ("IP2", "TP2")):
        m, vals = array_init(pc, r"int\s+IntPrimeDom::%s\s*\[([^\]]*)\]" % tab, mac, tab + "[]")
        size = ev(re.search(r"IntPrimeDom::%s\s*\[([^\]]*)\]" % tab, pc).group(1), mac)
        if len(vals) > size:
            raise GenError("%s[] has more initialisers (%d) than its declared size (%d)" % (tab, len(vals), size))
        vals = vals + [0] * (size - len(vals))       # C++: the rest is zero-initialised
        K[tab] = vals
        m2 = re.search(r"IntPrimeDom::%s\s*=\s*&\s*\(?\s*(?:IntPrimeDom::)?%s\s*\)?\s*\[\s*(\w+)\s*\]" % (tp, tab), pc)
        if not m2:
            raise GenError("cannot find the definition of the shifted table pointer " + tp)
        K[tp + "_OFFSET"] = ev(m2.group(1), mac)
    # --- the searches: initial step, loop counter, table pointer
    for fn, key in (("isprime_Tabule", "T1"), ("isprime_Tabule2", "T2")):
        b = func_body(pc, r"int\s+IntPrimeDom::%s\s*\(\s*const\s+int\s+n\s*\)\s*const\s*\{" % fn, fn)
        m = re.search(r"int\s+plus\s*=\s*([^;]+);\s*int\s+here\s*=\s*([^;]+);", b)
        ml = re.search(r"for\s*\(\s*int\s+loop\s*=\s*([^;]+);\s*loop\s*;\s*\(?\s*loop\s*>>=\s*(\w+)\s*\)?\s*\)", b)
        mt = re.search(r"\(\s*(\w+)\s*\[\s*here\s*\]\s*-\s*n\s*\)", b)
        if not (m and ml and mt):
            raise GenError("%s left the translated shape (plus/here initialisation, for(loop...; loop; loop >>= k), TP[here] - n)" % fn)
        K[key + "_PLUS0"] = ev(m.group(1), mac)
        K[key + "_HERE0"] = K[key + "_PLUS0"] if m.group(2).strip() == "plus" else ev(m.group(2), mac)
        K[key + "_LOOP0"] = ev(ml.group(1), mac)
        K[key + "_LOOPSHIFT"] = ev(ml.group(2), mac)
        K[key + "_TABLE"] = mt.group(1)
        steps = re.findall(r"here\s*(-=|\+=)\s*\(\s*\+\+plus\s*>>=\s*(\w+)\s*\)", b)
        if [s[0] for s in steps] != ["-=", "+="] or not re.search(r"if\s*\(\s*a\s*>\s*0\s*\)\s*here\s*-=", b):
            raise GenError("%s left the translated shape (if (a > 0) here -= (++plus >>= k); else here += (++plus >>= k))" % fn)
        K[key + "_STEPSHIFT"] = ev(steps[0][1], mac)
        if steps[0][1] != steps[1][1]:
            raise GenError("%s: the two step shifts differ" % fn)
    if K["T1_TABLE"] != "TP" or K["T2_TABLE"] != "TP2":
        raise GenError("isprime_Tabule/Tabule2 do not read TP/TP2 any more (%s/%s)" % (K["T1_TABLE"], K["T2_TABLE"]))
    # --- dispatch of isprime (givintprime.h)
    b = func_body(ph, r"int\s+isprime\s*\(\s*const\s+Rep\s*&\s*n\s*,\s*int\s+r\s*=\s*\w+\s*\)\s*const\s*\{", "IntPrimeDom::isprime")
    md = re.search(r"(?:(GIVARO_IS\w+)\s*\(\s*n\s*,\s*(\w+)\s*\)\s*\?\s*0\s*:\s*)?"
                   r"(GIVARO_IS\w+)\s*\(\s*n\s*,\s*(\w+)\s*\)\s*\?\s*isprime_Tabule\s*\(\s*\(int32_t\)\s*convert\s*\(\s*l\s*,\s*n\s*\)\s*\)\s*:\s*"
                   r"(GIVARO_IS\w+)\s*\(\s*n\s*,\s*(\w+)\s*\)\s*\?\s*isprime_Tabule2\s*\(\s*\(int32_t\)\s*convert\s*\(\s*l\s*,\s*n\s*\)\s*\)\s*:\s*"
                   r"local_prime\s*\(\s*n\s*,\s*r\s*\)", b)
    if not md:
        raise GenError("IntPrimeDom::isprime left the translated shape (n < B1 ? Tabule : n < B2 ? Tabule2 : local_prime)")
    cmpmac = {}
    for name, op in re.findall(r"#\s*define\s+(GIVARO_IS\w+)\s*\(\s*a\s*,\s*b\s*\)\s*\(\s*\(a\)\s*(<=|>=|<|>)\s*\(b\)\s*\)", ph):
        cmpmac[name] = op
    # optional leading guard  n < k ? 0 :   (present once isprime rejects n < 2 before looking at the tables)
    if md.group(1):
        if cmpmac.get(md.group(1)) not in ("<", "<="):
            raise GenError("isprime guard uses comparison %s = '%s'" % (md.group(1), cmpmac.get(md.group(1))))
        K["ISPRIME_HAS_GUARD"] = True
        K["ISPRIME_GUARD"] = ev(md.group(2), mac) + (1 if cmpmac[md.group(1)] == "<=" else 0)
    else:
        K["ISPRIME_HAS_GUARD"], K["ISPRIME_GUARD"] = False, 0
    for i, (cm, bd) in enumerate(((md.group(3), md.group(4)), (md.group(5), md.group(6)))):
        if cmpmac.get(cm) not in ("<", "<="):
            raise GenError("isprime dispatch uses comparison %s = '%s'" % (cm, cmpmac.get(cm)))
        # normalise n <= b to n < b+1
        K["DISPATCH%d" % (i + 1)] = ev(bd, mac) + (1 if cmpmac[cm] == "<=" else 0)
    # --- low ends of next/prevprime
    def low_end(fn, sig, var):
        b = func_body(pc, sig, fn)
        m = re.match(r"\s*if\s*\(\s*(GIVARO_IS\w+)\s*\(\s*%s\s*,\s*(\w+)\s*\)\s*\)\s*return\s+n\s*=\s*(\w+)\s*;" % var, b)
        if not m or cmpmac.get(m.group(1)) not in ("<", "<="):
            raise GenError("%s left the translated shape (if (%s <= k) return n = v;)" % (fn, var))
        bound = ev(m.group(2), mac) + (0 if cmpmac[m.group(1)] == "<=" else -1)
        return bound, ev(m.group(3), mac), b
    K["NEXTIN_LOW"], K["NEXTIN_LOWVAL"], b1 = low_end("nextprimein", r"IntPrimeDom::nextprimein\s*\([^)]*\)\s*const\s*\{", "n")
    K["NEXT_LOW"], K["NEXT_LOWVAL"], b2 = low_end("nextprime", r"IntPrimeDom::nextprime\s*\([^)]*\)\s*const\s*\{", "p")
    K["PREVIN_LOW"], K["PREVIN_LOWVAL"], b3 = low_end("prevprimein", r"IntPrimeDom::prevprimein\s*\([^)]*\)\s*const\s*\{", "n")
    K["PREV_LOW"], K["PREV_LOWVAL"], b4 = low_end("prevprime", r"IntPrimeDom::prevprime\s*\([^)]*\)\s*const\s*\{", "p")
    # first step and loop step of the four functions:  (x&1u) ? A : B  and  addin/subin(n, S)
    def steps(fn, body, var, op):
        m = re.search(r"\(\s*%s\s*&\s*1u?\s*\)\s*\?\s*(\w+)\s*:\s*(\w+)" % var, body)
        ms = re.search(r"while\s*\(\s*!\s*isprime\s*\(\s*n\s*,\s*r\s*\)\s*\)\s*%sin\s*\(\s*n\s*,\s*(\w+)\s*\)" % op, body)
        if not m or not ms:
            raise GenError("%s left the translated shape (first step (x&1u)?a:b, loop while(!isprime(n,r)) %sin(n,s))" % (fn, op))
        return ev(m.group(1), mac), ev(m.group(2), mac), ev(ms.group(1), mac)
    K["NEXTIN_ODD"], K["NEXTIN_EVEN"], K["NEXTIN_STEP"] = steps("nextprimein", b1, "n", "add")
    K["NEXT_ODD"], K["NEXT_EVEN"], K["NEXT_STEP"] = steps("nextprime", b2, "p", "add")
    K["PREVIN_ODD"], K["PREVIN_EVEN"], K["PREVIN_STEP"] = steps("prevprimein", b3, "n", "sub")
    K["PREV_ODD"], K["PREV_EVEN"], K["PREV_STEP"] = steps("prevprime", b4, "p", "sub")
    # --- Protected::prevprime (gmp++_int_misc.C)
    mc = read_src("misc_C")
    b = func_body(mc, r"Integer\s*&\s*prevprime\s*\(\s*Integer\s*&\s*r\s*,\s*const\s+Integer\s*&\s*p\s*\)\s*\{", "Protected::prevprime")
    m = re.match(r"\s*if\s*\(\s*p\s*(<=|<)\s*(\w+)\s*\)\s*return\s*\(?\s*r\s*=\s*(\w+)\s*\)?\s*;", b)
    subs = re.findall(r"mpz_sub_ui\s*\([^;]*?,\s*(\w+)\s*\)\s*;", b)
    if not m or len(subs) != 3 or not re.search(r"if\s*\(\s*isOdd\s*\(\s*p\s*\)\s*\)", b):
        raise GenError("Protected::prevprime left the translated shape")
    K["PPREV_LOW"] = ev(m.group(2), mac) - (1 if m.group(1) == "<" else 0)
    K["PPREV_LOWVAL"] = ev(m.group(3), mac)
    K["PPREV_ODD"], K["PPREV_EVEN"], K["PPREV_STEP"] = [ev(s, mac) for s in subs]
    # --- isprimepower: small primes
    m, vals = array_init(pc, r"static\s+const\s+unsigned\s+short\s+primes\s*\[\s*\]()", mac, "isprimepower's primes[]")
    K["PP_PRIMES"] = vals
    K["SMALLEST_OMITTED_PRIME"] = ev("SMALLEST_OMITTED_PRIME", mac)
    b = func_body(pc, r"unsigned\s+int\s+IntPrimeDom::isprimepower\s*\([^)]*\)\s*const\s*\{", "IntPrimeDom::isprimepower")
    K["IPP_NEG_GUARD"] = bool(re.search(r"if\s*\(\s*u\s*<\s*0\s*\)\s*return\s+0\s*;", b))
    K["IPP_RECURSE"] = bool(re.search(r"isprimepower\s*\(", b))
    K["IPP_ZERO_RET"] = None
    m = re.search(r"if\s*\(\s*usize\s*==\s*0\s*\)\s*return\s+(\w+)\s*;", b)
    if not m:
        raise GenError("isprimepower left the translated shape (if (usize == 0) return k;)")
    K["IPP_ZERO_RET"] = ev(m.group(1), mac)
    # --- factor(): primorials and the two trial-division macros
    fh = open(os.path.join(vf.REPO, SRC["factor_h"]), errors="replace").read()
    fhc = strip_comments(fh)
    m1 = re.search(r"PROD_first_primes\s*\(\s*(\d+)\s*\)", fhc)
    m2 = re.search(r"PROD_second_primes\s*\(\s*\"?(\d+)\"?\s*\)", fhc)
    if not m1 or not m2:
        raise GenError("cannot find PROD_first_primes / PROD_second_primes initialisers")
    K["PROD_FIRST"], K["PROD_SECOND"] = int(m1.group(1)), int(m2.group(1))
    for name, key in (("factor_first_primes", "FIRST"), ("factor_second_primes", "SECOND")):
        m = re.search(r"#\s*define\s+%s\s*\(\s*tmp\s*,\s*n\s*\)\s*\(\s*tmp\s*=(.*)$" % name, fhc, flags=re.M)
        if not m:
            raise GenError("cannot find macro " + name)
        body = m.group(1)
        pairs = re.findall(r"isZero\s*\(\s*mod\s*\(\s*tmp\s*,\s*n\s*,\s*(\d+)\s*\)\s*\)\s*\?\s*(\d+)\s*:", body)
        rest = re.sub(r"isZero\s*\(\s*mod\s*\(\s*tmp\s*,\s*n\s*,\s*\d+\s*\)\s*\)\s*\?\s*\d+\s*:", "", body)
        md = re.fullmatch(r"[\s(]*(\d+)[\s)]*", rest)
        if not pairs or not md:
            raise GenError("macro %s left the translated shape (chain of isZero(mod(tmp,n,p))?p: ... :d)" % name)
        K[key + "_TESTS"] = [(int(a), int(b)) for a, b in pairs]
        K[key + "_DEFAULT"] = int(md.group(1))
    b = func_body(fhc, r"Rep\s*&\s*primefactor\s*\([^)]*\)\s*const\s*\{", "IntFactorDom::primefactor")
    if not re.search(r"while\s*\(\s*\(\s*iffactorprime\s*\(\s*r\s*,\s*n\s*,\s*0\s*\)\s*==\s*1\s*\)", b):
        raise GenError("primefactor left the translated shape (while ((iffactorprime(r,n,0) == 1) && ...) {})")
    K["PRIMEFACTOR_GUARD"] = bool(re.search(r"GIVARO_ISGT\s*\(\s*n\s*,\s*1\s*\)|\(\s*n\s*>\s*1\s*\)", b))
    fi = read_src("factor_inl")
    b = func_body(fi, r"void\s+IntFactorDom<MyRandIter>::set\s*\(\s*Container\s*&\s*Lf\s*,\s*const\s+Rep\s*&\s*n\s*\)\s*const\s*\{", "IntFactorDom::set(Lf, n)")
    K["SET1_ABS"] = bool(re.search(r"Rep::neg\s*\(\s*nn\s*,\s*n\s*\)", b))
    # --- givprimes16.C
    pt = read_src("primes16_C")
    m = re.search(r"Primes16::_size\s*=\s*(\w+)\s*;", pt)
    if not m:
        raise GenError("cannot find Primes16::_size")
    K["PRIMES16_SIZE"] = ev(m.group(1), {})
    _, K["PRIMES16"] = array_init(pt, r"Primes16::_primes\s*\[\s*\]()", {}, "Primes16::_primes[]")
    return coq_of_tables(K), K


def coq_list(vals, per=16):
    out = []
    for i in range(0, len(vals), per):
        out.append("; ".join("(%d)" % v if v < 0 else "%d" % v for v in vals[i:i + per]))
    return "[" + ";\n  ".join(out) + "]"


def coq_of_tables(K):
    L = ["(* GENERATED by checks/C12.py from the current source text of /repo — do not edit. *)",
         "From Coq Require Import ZArith List.", "Import ListNotations.", "Local Open Scope Z_scope.", ""]
    scal = ["LOGMAX", "TABMAX", "LOGMAX2", "TABMAX2", "BOUNDARY_isprime", "BOUNDARY_2_isprime", "TP_OFFSET", "TP2_OFFSET",
            "T1_PLUS0", "T1_HERE0", "T1_LOOP0", "T1_LOOPSHIFT", "T1_STEPSHIFT", "T2_PLUS0", "T2_HERE0", "T2_LOOP0", "T2_LOOPSHIFT",
            "T2_STEPSHIFT", "DISPATCH1", "DISPATCH2",
            "NEXTIN_LOW", "NEXTIN_LOWVAL", "NEXTIN_ODD", "NEXTIN_EVEN", "NEXTIN_STEP",
            "NEXT_LOW", "NEXT_LOWVAL", "NEXT_ODD", "NEXT_EVEN", "NEXT_STEP",
            "PREVIN_LOW", "PREVIN_LOWVAL", "PREVIN_ODD", "PREVIN_EVEN", "PREVIN_STEP",
            "PREV_LOW", "PREV_LOWVAL", "PREV_ODD", "PREV_EVEN", "PREV_STEP",
            "PPREV_LOW", "PPREV_LOWVAL", "PPREV_ODD", "PPREV_EVEN", "PPREV_STEP",
            "SMALLEST_OMITTED_PRIME", "PROD_FIRST", "PROD_SECOND", "FIRST_DEFAULT", "SECOND_DEFAULT", "PRIMES16_SIZE"]
    for s in scal:
        L.append("Definition %s : Z := %s." % (s, "(%d)" % K[s] if K[s] < 0 else "%d" % K[s]))
    for s in ("ISPRIME_GUARD", "IPP_ZERO_RET"):
        L.append("Definition %s : Z := %s." % (s, "(%d)" % K[s] if K[s] < 0 else "%d" % K[s]))
    for s in ("ISPRIME_HAS_GUARD", "IPP_NEG_GUARD", "IPP_RECURSE", "PRIMEFACTOR_GUARD", "SET1_ABS"):
        L.append("Definition %s : bool := %s." % (s, "true" if K[s] else "false"))
    for s in ("IP", "IP2", "PP_PRIMES", "PRIMES16"):
        L.append("Definition %s : list Z :=\n  %s." % (s, coq_list(K[s])))
    for s in ("FIRST_TESTS", "SECOND_TESTS"):
        L.append("Definition %s : list (Z * Z) := [%s]." % (s, "; ".join("(%d, %d)" % p for p in K[s])))
    return "\n".join(L) + "\n"


def write_tables():
    """regenerate coq/C12/gen/Tables.v; returns (K, error string or None)"""
    path = os.path.join(vf.coq_dir(AREA), "gen", "Tables.v")
    try:
        txt, K = gen_tables()
    except GenError as e:
        return None, str(e)
    vf.write_if_changed(path, txt)
    return K, None


if __name__ == "__main__":
    if "--gen-tables" in sys.argv:
        K, err = write_tables()
        if err:
            print("C12 table generation failed: " + err)
            sys.exit(1)
        print("generated coq/C12/gen/Tables.v (IP %d, IP2 %d, primes16 %d entries)" % (len(K["IP"]), len(K["IP2"]), len(K["PRIMES16"])))
        sys.exit(0)
