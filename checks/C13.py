# C13 — Number-theoretic functions and modular square roots match their definitions.   (DESIGN 5/C13; claimed partial)
# proof:  coq/C13 (Model.v written after givintnumtheo.inl / givintsqrootmod.inl / logp; theorems per branch + finite sweeps)
# tie:    correspondence: extracted model vs IntNumTheoDom / IntSqrtModDom of /repo's current tree; what the code gets from
#         the factoriser / random generator / primality test is an input of the model (factor sets computed here in python,
#         the random draws re-produced by the harness, candidates read off the implementation's result and re-checked by
#         the model against the code's own guards)
# search: python oracles = the DEFINITIONS (brute force for small moduli; self-certifying x*x = a mod n, a*a+b*b = p,
#         order/primitive-root certificates through an independent factorisation for large ones)
import json, math, os, re, subprocess, sys
import vf

AREA = "C13"
S_NT = "IntNumTheoDom::"
S_SQ = "IntSqrtModDom::"

# ------------------------------------------------------------------------------------------------ python number theory
SMALL_PRIMES = [2, 3, 5, 7, 11, 13, 17, 19, 23, 29, 31, 37, 41, 43, 47, 53, 59, 61, 67, 71]


_TD = [q for q in range(2, 3000) if all(q % d for d in range(2, int(q ** 0.5) + 1))]


def is_prime(n):
    if n < 2:
        return False
    for q in SMALL_PRIMES:
        if n % q == 0:
            return n == q
    d, s = n - 1, 0
    while d % 2 == 0:
        d //= 2; s += 1
    for a in SMALL_PRIMES:          # deterministic below 3.3e24; 20 bases beyond that
        x = pow(a, d, n)
        if x in (1, n - 1):
            continue
        for _ in range(s - 1):
            x = x * x % n
            if x == n - 1:
                break
        else:
            return False
    return True


def _rho(n, c):
    """Pollard rho, Brent's variant with batched gcds"""
    y, r, q, g = 2, 1, 1, 1
    f = lambda v: (v * v + c) % n
    while g == 1:
        x = y
        for _ in range(r):
            y = f(y)
        k = 0
        while k < r and g == 1:
            ys = y
            for _ in range(min(128, r - k)):
                y = f(y); q = q * abs(x - y) % n
            g = math.gcd(q, n); k += 128
        r *= 2
    if g == n:
        g = 1
        while g == 1:
            ys = f(ys); g = math.gcd(abs(x - ys), n)
    return g


_FC = {}


def factor(n):
    """{p: e} of n >= 1 (trial division, then Pollard rho); memoised"""
    n = abs(n)
    if n in _FC:
        return dict(_FC[n])
    n0 = n; res = {}
    for q in _TD:
        if q * q > n:
            break
        while n % q == 0:
            res[q] = res.get(q, 0) + 1; n //= q
    st = [n] if n > 1 else []
    while st:
        m = st.pop()
        if m == 1:
            continue
        if m < _TD[-1] ** 2 or is_prime(m):
            res[m] = res.get(m, 0) + 1; continue
        c = 1
        while True:
            d = _rho(m, c)
            if d != m:
                break
            c += 1
        st += [d, m // d]
    _FC[n0] = dict(res)
    return res


def phi_f(n, F=None):
    F = F or factor(n); r = n
    for q in F:
        r = r // q * (q - 1)
    return r


def phi_count(n):
    return sum(1 for a in range(1, n + 1) if math.gcd(a, n) == 1)


def mobius_def(n):
    F = factor(n)
    return 0 if any(e > 1 for e in F.values()) else (-1) ** len(F)


def carmichael_f(n):
    l = 1
    for q, e in factor(n).items():
        v = (2 ** (e - 2) if e >= 3 else 2 ** (e - 1)) if q == 2 else q ** (e - 1) * (q - 1)
        l = l * v // math.gcd(l, v)
    return l


def order_brute(a, n):
    """least d > 0 with a^d = 1 (mod n); 0 if a is not a unit"""
    a %= n
    if n == 1:
        return 1
    if math.gcd(a, n) != 1:
        return 0
    d, x = 1, a
    while x != 1:
        x = x * a % n; d += 1
    return d


def order_f(a, n):
    """order through the factorisation of phi(n) (large n)"""
    a %= n
    if math.gcd(a, n) != 1:
        return 0
    g = phi_f(n)
    for q in factor(g):
        while g % q == 0 and pow(a, g // q, n) == 1:
            g //= q
    return g


def order_of(a, n):
    return order_brute(a, n) if n <= 4000 else order_f(a, n)


def carmichael_brute(n):
    l = 1
    for a in range(1, n):
        if math.gcd(a, n) == 1:
            o = order_brute(a, n); l = l * o // math.gcd(l, o)
    return l


def orbit_size(a, n):
    """number of distinct values a^k mod n, k >= 1 (the header's "orbit size"): brute force for n <= 4000, else pre-period + period
    from the factorisation (modulo each p^e the element is a unit or nilpotent)"""
    a %= n
    if n <= 4000:
        seen = set(); x = a
        while x not in seen:
            seen.add(x); x = x * a % n
        return len(seen)
    pre, per = 0, 1
    for q, e in factor(n).items():
        qe = q ** e
        if a % q:
            o = order_f(a, qe); per = per * o // math.gcd(per, o)
        else:
            v = e if a % qe == 0 else val(a % qe, q)
            pre = max(pre, -(-e // v) - 1)
    return pre + per


def max_orbit(n):
    """givintnumtheo.h: "Lambda Function : maximal orbit size; lambda : Order of a primitive Element".  Brute force over ALL elements
    for n <= 400; above: max over the sets S of nilpotent components of (max_S (e-1)) + lcm_{not S} lambda_inv(p^e) (checked
    against the brute force for every n <= 400 at import of this function's first use)"""
    if n <= 400:
        return max(orbit_size(a, n) for a in range(n))
    ps = list(factor(n).items()); best = 0
    for mask in range(1 << len(ps)):
        tail, cyc = 0, 1
        for i, (q, e) in enumerate(ps):
            if mask >> i & 1:
                tail = max(tail, e - 1)
            else:
                l = carmichael_f(q ** e); cyc = cyc * l // math.gcd(cyc, l)
        best = max(best, tail + cyc)
    return best


K_ORBIT = "maximal-orbit-size>group-exponent"


def has_prim_root(n):
    if n in (1, 2, 4):
        return True
    F = factor(n)
    if 2 in F:
        if F[2] > 1:
            return False
        del F[2]
    return len(F) == 1


def jacobi_py(a, n):
    """Jacobi symbol, n odd positive"""
    a %= n; t = 1
    while a:
        while a % 2 == 0:
            a //= 2
            if n % 8 in (3, 5):
                t = -t
        a, n = n, a
        if a % 4 == 3 and n % 4 == 3:
            t = -t
        a %= n
    return t if n == 1 else 0


def kronecker_py(a, b):
    if b == 0:
        return 1 if abs(a) == 1 else 0
    if a % 2 == 0 and b % 2 == 0:
        return 0
    t = 1
    if b < 0:
        b = -b
        if a < 0:
            t = -t
    v = 0
    while b % 2 == 0:
        b //= 2; v += 1
    if v % 2 == 1 and a % 8 in (3, 5):
        t = -t
    return t * jacobi_py(a, b)


def val(n, p):
    v = 0
    while n % p == 0:
        n //= p; v += 1
    return v


def qr_primepower(a, p, k):
    """(is a a square mod p^k, class) for an odd prime p"""
    r = a % p ** k
    if r == 0:
        return True, "residue:0"
    v = val(r, p)
    if v % 2:
        return False, "nonres:odd-valuation"
    b = r // p ** v
    if pow(b, (p - 1) // 2, p) == 1:
        return True, "residue" + (":even-valuation" if v else "")
    if v:
        return False, "nonres:even-valuation"
    return False, "nonres:k=%s" % (k if k <= 2 else ">=3")


def qr_pow2(a, k):
    r = a % 2 ** k
    if r == 0:
        return True, "residue:0"
    v = val(r, 2)
    if v % 2:
        return False, "nonres:odd-valuation"
    b, m = r >> v, k - v
    ok = (b % 8 == 1) if m >= 3 else (b % 4 == 1) if m == 2 else True
    if ok:
        return True, "residue" + (":even-valuation" if v else "")
    return False, ("nonres:even-valuation" if v else "nonres:odd-a")


def squares_mod(n):
    return {x * x % n for x in range(n)}


def iroot(a, n):
    if a < 2:
        return a
    lo, hi = 1, 1 << (a.bit_length() // n + 1)
    while lo < hi:
        mid = (lo + hi + 1) // 2
        if mid ** n <= a:
            lo = mid
        else:
            hi = mid - 1
    return lo


def rand_prime(rng, bits, cls=None, mod=16):
    while True:
        c = rng.bits(bits - 1) | (1 << (bits - 1)) | 1
        if cls is not None:
            c = c - (c % mod) + cls
            if c.bit_length() != bits:
                continue
        if is_prime(c):
            return c


# ------------------------------------------------------------------------------------------------ cases
def L(xs):
    return "[ " + " ".join(str(x) for x in xs) + " ]"


def flat(F):
    return [v for q in sorted(F) for v in (q, F[q])]


class Case(dict):
    pass


def bop(c):
    """the call form without the in-place marker (`op@i`: the output is the object passed as input i)"""
    return c.get("bop", c["iop"])


def mk(iop, iargs, kind, **kw):
    c = Case(iop=iop, iargs=[int(x) for x in iargs], kind=kind)
    c.update(kw)
    return c



# ------------------------------------------------------------------------------------------------ structured moduli
# Moduli with extreme structure are generated deterministically on every run (no dependence on the seed): primes
# p = c 2^s + 1 with s on both sides of every word boundary, residues chosen by their 2-power order (the Tonelli-Shanks
# exponent 2^(r-m-1) then takes every value around 32 / 64 / 128 / 192), primes next to 2^32 / 2^64 / 2^128 in every class
# mod 16, prime powers and 2^k with exponents / valuations around the word sizes.
WORD_EDGES_Q = (31, 32, 33, 34, 63, 64, 65, 66, 67, 127, 128, 129, 192)
WORD_EDGES_T = WORD_EDGES_Q + (130, 191, 193, 255, 256, 257)
SHIFT_EDGES = (0, 1, 2, 29, 30, 31, 32, 33, 34, 61, 62, 63, 64, 65, 66, 67, 125, 126, 127, 128, 129, 130, 189, 190, 191, 253, 254, 255)
NAMED_PRIMES = ((2 ** 64 - 2 ** 32 + 1, "2^64-2^32+1"), (2 ** 251 + 17 * 2 ** 192 + 1, "2^251+17*2^192+1"))


def proth_witness(p):
    """Proth's theorem: p = c 2^s + 1 with c odd, c < 2^s is prime iff a^((p-1)/2) = -1 (mod p) for some a.
    Returns such an a (a primality PROOF re-done on every run) or None."""
    s = val(p - 1, 2); c = (p - 1) >> s
    if s < 1 or c >= (1 << s):
        return None
    for a in SMALL_PRIMES:
        if pow(a, (p - 1) // 2, p) == p - 1:
            return a
    return None


_PROTH = {}


def proth_prime(s):
    """(c, p): the least odd c with p = c 2^s + 1 prime; found with Miller-Rabin, accepted only with a Proth witness"""
    if s not in _PROTH:
        c = 1
        while True:
            q = c * (1 << s) + 1
            if is_prime(q) and proth_witness(q):
                break
            c += 2
        _PROTH[s] = (c, q)
    return _PROTH[s]


def edge_prime(B, cls, up):
    """the prime = cls (mod 16) closest to 2^B from above / below"""
    q = (1 << B) - ((1 << B) % 16) + cls
    if up and q < (1 << B):
        q += 16
    if not up and q > (1 << B):
        q -= 16
    while not is_prime(q):
        q += 16 if up else -16
    return q


STRUCT = {"primes": [], "counts": {}}


def gen_structured(C, rng, th):
    n0 = len(C)
    STRUCT["primes"] = []; STRUCT["counts"] = {}

    def add(grp, iop, iargs, kind, **kw):
        C.append(mk(iop, iargs, kind, gen=grp, **kw))
        STRUCT["counts"][grp + ":" + iop] = STRUCT["counts"].get(grp + ":" + iop, 0) + 1

    plist = [(proth_prime(s)[1], "least c*2^%d+1" % s) for s in (WORD_EDGES_T if th else WORD_EDGES_Q)] + list(NAMED_PRIMES)
    for q, name in plist:
        s = val(q - 1, 2); c = (q - 1) >> s
        wit = proth_witness(q)
        if wit is None:                                   # cannot happen for the table above; never trust an unproved modulus
            STRUCT["primes"].append({"p": str(q), "name": name, "proved_prime": False}); continue
        bits = q.bit_length(); big = bits > 72
        nr = next(x for x in range(2, 500) if pow(x, (q - 1) // 2, q) == q - 1)
        z = pow(nr, c, q)                                 # generates the 2-Sylow subgroup: order exactly 2^s
        odd = pow(3, 1 << s, q)                           # an element of odd order (2-part removed)
        w = lambda j: pow(z, 1 << (s - j), q)             # order exactly 2^j
        _FC[q] = {q: 1}; _FC[2 * q] = {2: 1, q: 1}; _FC[4 * q] = {2: 2, q: 1}
        Fq1 = factor(q - 1)
        STRUCT["primes"].append({"p": str(q), "name": name, "s": s, "c": str(c), "bits": bits, "proved_prime": True, "proth_witness": wit,
                                 "least_nonresidue": nr})
        J = sorted({1, 2, 3, 4, s - 2, s - 1} | {s - 1 - l for l in SHIFT_EDGES if 1 <= s - 1 - l <= s - 1})
        # the extracted model computes on Coq's binary integers (~1 ms per 256-bit modular product): a Tonelli-Shanks trace for an
        # element of 2-power order 2^j costs about bits^2 (2 bits + j^2) 1e-8 s; traces above 0.1 s are left to the oracle alone
        heavy = lambda j: bits * bits * (2 * bits + j * j) * 1e-8 > 0.1
        T = "proth"
        # ---- square roots: a of 2-power order 2^j: first pass of the Tonelli-Shanks loop has m = j, exponent 2^(s-j-1)
        for j in J:
            nm = heavy(j) and not (j == 1 and bits <= 200)
            add(T, "sqrootmodprime", [w(j), q], "sqrtp", a=w(j), p=q, k=1, nomodel=nm, tag="order 2^%d, shift %d" % (j, s - j - 1))
            add(T, "sqrootmod", [w(j), q], "sqrtn", a=w(j), n=q, F={q: 1}, nomodel=heavy(j) or bits > 45)
            a2 = w(j) * odd % q
            add(T, "sqrootmodprime", [a2 - (q if j % 2 else 0), q], "sqrtp", a=a2 - (q if j % 2 else 0), p=q, k=1, nomodel=heavy(j) or bits > 45)
        add(T, "sqrootmodprime", [z, q], "sqrtp", a=z, p=q, k=1, nomodel=bits > 135)          # order 2^s: a non-residue
        for a in (-1, q - 1, 2 * q - 1, (q - 1) // 2, (q + 1) // 2, 2, 3, 4, 9, 25, q - 4, nr, z * z % q, nr * nr):
            add(T, "sqrootmodprime", [a, q], "sqrtp", a=a, p=q, k=1, nomodel=heavy(s) and not (a == -1 and bits <= 200))
        for a in (-1, q - 1, 4, nr):
            add(T, "sqrootmod", [a, q], "sqrtn", a=a, n=q, F={q: 1}, nomodel=big or (a == 4 and heavy(s)))
        for k in (2, 3):
            jj = sorted({1, 2, s - 1} | ({s - 65} if s > 65 else set()))
            for a in [q ** k - 1, -1, 4, nr] + [w(j) for j in jj] + [w(1) + q * 5, (w(2) * q * q) % q ** k, (w(2) * q) % q ** k]:
                add(T, "sqrootmodprimepower", [a, q, k], "sqrtpk", a=a, p=q, k=k, nomodel=big or (bits > 45 and a not in (q ** k - 1, -1)))
        # ---- order / primitive roots / lambda / phi on the same moduli
        mid = bits > 45                                    # model traces of order / sums of squares: all for the <= 45-bit primes, a sample above
        for j in sorted({1, 2, s // 2, s - 1, s}):
            add(T, "order", [w(j), q], "order", a=w(j), n=q, nomodel=big or (mid and j > 2))
            add(T, "isorder", [1 << j, w(j), q], "isorder", g=1 << j, a=w(j), n=q, nomodel=big or (mid and j > 2))
            add(T, "isorder", [1 << (j - 1), w(j), q], "isorder", g=1 << (j - 1), a=w(j), n=q, nomodel=mid)
        for a in (q - 1, -1, 2, 3, nr, z, odd, q + 2):
            add(T, "order", [a, q], "order", a=a, n=q, nomodel=big or (mid and a not in (q - 1, nr)))
            add(T, "is_prim_root", [a, q], "is_prim_root", a=a, n=q, nomodel=big)
        add(T, "isorder", [q - 1, nr, q], "isorder", g=q - 1, a=nr, n=q, nomodel=mid)
        for n in (q, 2 * q):
            add(T, "prim_root", [n], "prim_root", n=n, nomodel=big)
            add(T, "prim_root.runs", [n], "prim_root", n=n, nomodel=big)
            add(T, "lambda", [n], "lambda", n=n)
            add(T, "lambda_inv", [n], "lambda_inv", n=n)
            add(T, "phi", [n], "phi", n=n)
            add(T, "mobius", [n], "mobius", n=n)
            add(T, "prim_elem", [n], "prim_elem", n=n, nomodel=big)
        add(T, "lambda", [4 * q], "lambda", n=4 * q)
        add(T, "phiL.vector", [q, q], "phi", n=q, Lf=[q])
        add(T, "phiL.list", [4 * q, q, 2], "phi", n=4 * q, Lf=[q, 2])
        add(T, "prim_root_of_prime", [q], "prim_root_of_prime", n=q, nomodel=big)
        add(T, "prim_root_of_prime.L", [q] + sorted(Fq1, reverse=True), "prim_root_of_prime", n=q, nomodel=big)
        if bits <= 72:
            add(T, "lowest_prim_root", [q], "lowest_prim_root", n=q, nomodel=True)      # the model's loop counter is a unary nat
        for v in ("probable_prim_root.L", "probable_prim_root.default", "probable_prim_root.eps"):
            # .eps derives its own Pollard bound L, which the harness cannot replay when the factorisation of p-1 draws random numbers
            add(T, v, [q] + ([50] if v.endswith(".L") else []), "probable_prim_root", n=q, nomodel=big or v.endswith(".eps"))
        # ---- two squares
        add(T, "brillhart", [q], "brillhart", p=q, nomodel=bits > 135)
        for kk in (q - 1, -1, z, w(2), nr):
            for v in ("sumofsquares", "sumofsquares.det", "sumofsquares.mc", "sumofsquares.noerh"):
                add(T, v, [kk, q], "sos", k=kk, p=q, nomodel=big or (mid and not (kk == q - 1 and v.endswith(".det"))))
        for a in (w(1), w(2), z, nr, -1):
            add(T, "legendre", [a, q], "legendre", a=a, b=q)
            add(T, "kronecker", [a, q], "kronecker", a=a, b=q)
        # ---- p^2, 2p^2 for the single-limb ones (the code factors p^2 by Pollard rho: only feasible up to ~2^40)
        if bits <= 41 and (th or s in (32, 33)):
            n = q * q
            _FC[n] = {q: 2}; _FC[2 * n] = {2: 1, q: 2}
            add(T, "prim_root", [n], "prim_root", n=n)
            add(T, "prim_root.runs", [2 * n], "prim_root", n=2 * n)
            add(T, "sqrootmod", [n - 1, n], "sqrtn", a=n - 1, n=n, F={q: 2})
            add(T, "sqrootmod", [w(2), 2 * n], "sqrtn", a=w(2), n=2 * n, F={2: 1, q: 2})
            add(T, "lambda", [2 * n], "lambda", n=2 * n)
            add(T, "order", [nr, n], "order", a=nr, n=n)
    # ---- primes next to a word boundary, every class mod 16
    T = "edge"
    for B in (32, 64, 128):
        for cls in (1, 3, 5, 7, 9, 11, 13, 15):
            for up in (False, True):
                q = edge_prime(B, cls, up)
                r = rng.range(2, q - 2)
                nr = next(x for x in range(2, 500) if pow(x, (q - 1) // 2, q) == q - 1)
                aa = [q - 1, -1, 2, 4, (q - 1) // 2, r * r % q, nr * r * r % q] if B < 128 else [q - 1, 2, r * r % q]
                for a in aa:
                    add(T, "sqrootmodprime", [a, q], "sqrtp", a=a, p=q, k=1, nomodel=B == 128 and not (a == q - 1 and up))
                add(T, "sqrootmod", [r * r % q, q], "sqrtn", a=r * r % q, n=q, F={q: 1}, nomodel=B == 128)
                add(T, "sqrootmodprimepower", [r * r, q, 3], "sqrtpk", a=r * r, p=q, k=3, nomodel=B == 128)
                if cls % 4 == 1:
                    add(T, "brillhart", [q], "brillhart", p=q, nomodel=B == 128 and not up)
                    add(T, "sumofsquares.noerh", [nr, q], "sos", k=nr, p=q, nomodel=B == 128)
                add(T, "sumofsquares.det", [nr * r % q, q], "sos", k=nr * r % q, p=q, nomodel=B == 128)
    # integer roots, symbols and logp at the word boundaries (single GMP calls / the table loop of logp)
    for B in (16, 32, 64, 128):
        for r in ((1 << B) - 1, 1 << B, (1 << B) + 1):
            for a in (r * r - 1, r * r, r * r + 1, r * r + 2 * r):
                for f in ("sqrt.ra", "sqrt.a"):
                    add(T, f, [a], "isqrt", a=a)
                for f in ("sqrtrem.rar", "sqrtrem.ar"):
                    add(T, f, [a], "isqrtrem", a=a)
            for e in (2, 3, 5):
                for a in (r ** e - 1, r ** e, r ** e + 1):
                    add(T, "root", [a, e], "iroot", a=a, e=e)
            for bq in (r | 1, (r | 1) + 2):
                for a in (2, -1, r - 2, -(1 << B), (1 << (2 * B)) + 1):
                    add(T, "jacobi", [a, bq], "jacobi", a=a, b=bq)
                    add(T, "kronecker", [a, -2 * bq], "kronecker", a=a, b=-2 * bq)
    # ---- large exponents: prime powers, 2 p^m, 2^e m
    T = "bigexp"
    EXP = (31, 32, 33, 63, 64, 65, 66, 127, 128, 129)
    for q, es in ((3, EXP), (5, (27, 28, 31, 32, 55, 56, 64, 65)), (7, (22, 23, 33, 45, 46, 64)), (13, (17, 18, 32, 35)), (65537, (2, 4, 8))):
        for e in (es if th else es[::2] + es[-1:]):
            n = q ** e
            _FC[n] = {q: e}; _FC[2 * n] = {2: 1, q: e}
            nm = n.bit_length() > 140
            add(T, "prim_root", [n], "prim_root", n=n, nomodel=nm)
            add(T, "prim_root.runs", [2 * n], "prim_root", n=2 * n, nomodel=nm)
            for f in ("phi", "mobius", "lambda", "lambda_inv", "prim_elem"):
                add(T, f, [n if f != "lambda" else 2 * n], f if f != "prim_elem" else "prim_elem", n=n if f != "lambda" else 2 * n, nomodel=nm and f == "prim_elem")
            add(T, "lambda_inv_primpow", [q, e], "lambda_inv_primpow", p=q, e=e)
            for a in (2, q + 1, n - 1):
                add(T, "order", [a, n], "order", a=a, n=n, nomodel=True)
            add(T, "is_prim_root", [2, 2 * n], "is_prim_root", a=2, n=2 * n, nomodel=True)
            add(T, "is_prim_root", [q + 2, 2 * n], "is_prim_root", a=q + 2, n=2 * n, nomodel=True)
            # a = b q^t: t on both sides of the word sizes, even and odd; a = -1 (q = 1 mod 4), unreduced, non-residue
            nr = next(x for x in range(2, 50) if pow(x, (q - 1) // 2, q) == q - 1)
            for t in sorted({tt for tt in (0, 2, e - 3, e - 2, e - 1, 30, 32, 62, 63, 64, 65, 66, 126, 128) if 0 <= tt < e}):
                for b in (4, 7 * 7 + n, nr, n - 1):
                    add(T, "sqrootmodprimepower", [b * q ** t, q, e], "sqrtpk", a=b * q ** t, p=q, k=e, nomodel=nm)
            add(T, "sqrootmod", [4 * q ** (2 * (e // 3)), 2 * n], "sqrtn", a=4 * q ** (2 * (e // 3)), n=2 * n, F={2: 1, q: e}, nomodel=nm)
    for e in ((31, 32, 33, 34, 63, 64, 65, 66, 67, 127, 128, 129, 130, 200) if th else (32, 33, 64, 65, 66, 128, 129)):
        for m_, Fm in ((1, {}), (3, {3: 1}), (5 * 7, {5: 1, 7: 1}), (3 ** 41, {3: 41})):
            n = (1 << e) * m_
            F = dict(Fm); F[2] = e; _FC[n] = F
            for f in ("phi", "mobius", "lambda", "lambda_inv", "prim_elem") + (("prim_inv",) if have_prim_inv() else ()):
                add(T, f, [n], f, n=n, nomodel=f in ("prim_elem", "prim_inv") and e > 70)
            for a in (3, 5, n - 1, (1 << (e - 1)) + 1, 7):
                add(T, "order", [a, n], "order", a=a, n=n, nomodel=e > 40 or a > 3)
            add(T, "sqrootmod", [(9 << 64) % n, n], "sqrtn", a=(9 << 64) % n, n=n, F=F, nomodel=e > 70)
        add(T, "lambda_inv_primpow", [2, e], "lambda_inv_primpow", p=2, e=e)
        if have_lambda_primpow():
            add(T, "lambda_primpow", [2, e], "lambda_primpow", p=2, e=e)
            add(T, "lambda_primpow", [3, e], "lambda_primpow", p=3, e=e)
        # 2^k: odd squares, a = b 4^h with h around the word sizes, odd valuation, b not 1 mod 8, negative a
        for kk in (e, 2 * e + 1):
            r = rng.bits(kk) | 1
            for h in sorted({hh for hh in (0, 1, 15, 16, 31, 32, 33, 63, 64, 65) if 2 * hh + 4 <= kk}):
                for b in (r * r, 17, 8 * r + 3, 1 - (1 << kk) + 8 * (r >> 3 << 3)):
                    add(T, "sqrootmodpoweroftwo", [b << (2 * h), kk], "sqrt2k", a=b << (2 * h), k=kk, nomodel=kk > 140)
                add(T, "sqrootmodpoweroftwo", [(r * r) << (2 * h + 1), kk], "sqrt2k", a=(r * r) << (2 * h + 1), k=kk, nomodel=kk > 140)
    STRUCT["total"] = len(C) - n0


_HAVE = {}


def have_prim_inv():
    return _HAVE.get("prim_inv", False)


def have_lambda_primpow():
    return _HAVE.get("lambda_primpow", False)


# ------------------------------------------------------------------------------------------------ size thresholds
# "Wrong only above a size that doubles / machine words impose": moduli and operands at 2^53 (double mantissa), 2^64, 2^128 (words)
# and 2^1023, 2^1024, 2^1025 (range of double: mpz_get_d overflows to +inf at 2^1024).  The primes next to the thresholds, one per
# class mod 16 from each side, come from a table that is RE-VERIFIED on every run (Miller-Rabin, 20 bases; searched again when
# an entry fails); the Proth primes c 2^s + 1 beyond 2^1024 are proved prime by their witness.  Deterministic, appended last.
THRESH_TABLE = {53: {1: (-111, 177), 3: (-429, 387), 5: (-315, 5), 7: (-265, 119), 9: (-231, 41), 11: (-421, 75), 13: (-339, 797), 15: (-145, 287)},
                1023: {1: (-14959, 3953), 3: (-2925, 1155), 5: (-14635, 1493), 7: (-361, 1863), 9: (-4071, 8745), 11: (-5029, 11435), 13: (-1395, 2381), 15: (-2481, 1583)},
                1024: {1: (-15039, 2113), 3: (-10157, 643), 5: (-10139, 12757), 7: (-105, 5335), 9: (-6615, 1081), 11: (-1397, 2715), 13: (-179, 19693), 15: (-5025, 3711)},
                1025: {1: (-6543, 5745), 3: (-20733, 4211), 5: (-4843, 2981), 7: (-4425, 11687), 9: (-11431, 1481), 11: (-3925, 31035), 13: (-8611, 12909), 15: (-2673, 2255)}}
PROTH_BIG = {1021: 993, 1024: 1125, 1030: 225}
TH = {"counts": {}, "primes": 0, "table_entries_re_searched": 0}


def gen_thresholds(C, rng, th):
    n0 = len(C)
    TH["counts"] = {}; TH["primes"] = 0; TH["table_entries_re_searched"] = 0

    def add(iop, iargs, kind, **kw):
        C.append(mk(iop, iargs, kind, gen="threshold", nomodel=True, **kw))
        TH["counts"][iop] = TH["counts"].get(iop, 0) + 1
    # ---- Integer helpers across the thresholds
    for k in (1, 2, 31, 32, 33, 52, 53, 54, 63, 64, 65, 127, 128, 129, 1021, 1022, 1023, 1024, 1025, 1026, 2047, 2048, 2049, 4096):
        for a in ((1 << k) - 1, 1 << k, (1 << k) + 1, 3 << k):
            add("logtwo", [a], "h_logtwo", a=a)
            add("naturallog", [a], "h_logtwo", a=a)
            for f in ("length", "bitsize", "size"):
                add(f, [a], "h_size", a=a)
        for a in (1 << k, (1 << k) + 1, ((1 << k) - 1) ** 2, (3 << k) ** 3, 7 ** k if k < 600 else 49):
            add("isperfectpower", [a], "h_ipp", a=a)
    for k in (1, 2, 3, 52, 53, 63, 64, 65, 1023, 1024, 1025):       # the draws sqrootmodprime sizes with l = ceil(logtwo(p) - 1)
        add("nonzerorandom.bits", [k], "h_nzr", a=k)
    for a in (0, 1, 2, 3):
        for f in ("length", "bitsize", "size"):
            add(f, [a], "h_size", a=a)
        add("isperfectpower", [a], "h_ipp", a=a)
    # ---- primes next to 2^53, 2^1023, 2^1024, 2^1025 (2^32, 2^64, 2^128 are in the group `edge`)
    plist = []
    for B in (53, 1023, 1024, 1025):
        for cls in (1, 3, 5, 7, 9, 11, 13, 15):
            for up in (False, True):
                if not th and (B == 1023 or (B == 1025 and not up)):      # quick: both sides of 2^53 and 2^1024, above 2^1025
                    continue
                q = (1 << B) + THRESH_TABLE[B][cls][1 if up else 0]
                if not (q % 16 == cls and is_prime(q) and (q > (1 << B)) == up):
                    q = edge_prime(B, cls, up); TH["table_entries_re_searched"] += 1
                plist.append((q, None))
    for s_, c_ in PROTH_BIG.items():
        q = c_ * (1 << s_) + 1
        if not (is_prime(q) and proth_witness(q)):
            c_, q = proth_prime(s_); TH["table_entries_re_searched"] += 1
        plist.append((q, s_))
    for q, s_ in plist:
        TH["primes"] += 1
        _FC[q] = {q: 1}
        nr = next(x for x in range(2, 500) if pow(x, (q - 1) // 2, q) == q - 1)
        s2 = val(q - 1, 2); z = pow(nr, (q - 1) >> s2, q)          # generator of the 2-Sylow subgroup: a non-residue
        for a in (4, q - 1, z) + ((z * z % q, 9 - q) if th else ()):
            add("sqrootmodprime", [a, q], "sqrtp", a=a, p=q, k=1)
        add("sqrootmod", [z * z % q, q], "sqrtn", a=z * z % q, n=q, F={q: 1})
        if th:
            add("sqrootmod", [4, q], "sqrtn", a=4, n=q, F={q: 1})
            add("sqrootmodprimepower", [q * q - 4 * q + 4, q, 2], "sqrtpk", a=q * q - 4 * q + 4, p=q, k=2)
        if q % 4 == 1:
            add("brillhart", [q], "brillhart", p=q)
        for kk in (3, nr) + ((-1,) if th else ()):
            add("sumofsquares.det", [kk, q], "sos", k=kk, p=q)
        if th:
            add("sumofsquares.mc", [nr, q], "sos", k=nr, p=q)
        add("legendre", [z, q], "legendre", a=z, b=q)
        if s_ is not None:                                    # p - 1 = c 2^s factors at once: order / primitive roots are feasible
            _FC[q - 1] = factor(q - 1)
            for a in (q - 1, z, nr, 2):
                add("order", [a, q], "order", a=a, n=q)
            add("is_prim_root", [nr, q], "is_prim_root", a=nr, n=q)
            add("prim_root_of_prime", [q], "prim_root_of_prime", n=q)
            add("prim_root", [q], "prim_root", n=q)
            add("lambda", [q], "lambda", n=q)
            add("phi", [q], "phi", n=q)
    TH["total"] = len(C) - n0


# ------------------------------------------------------------------------------------------------ in-place calls
# Every function of the property with an output parameter is called with the output being THE SAME OBJECT as each input in
# turn (harness: `op@i` first output = input i, `op@@i` second output = input i, i = 9: the modulus object pk), on a deterministic
# grid (primes, prime powers, 2^k, composites with 2..4 prime powers; residues and non-residues).  The result must satisfy the
# oracle for the ORIGINAL arguments, equal the model (whose functions are three-address by construction) and, for the
# deterministic functions, equal the result of the call with distinct objects.
INPLACE = {
    "sqrootmod": ("@0", "@1"), "sqrootmodprime": ("@0", "@1"), "sqrootmodprimepower": ("@0", "@1", "@9"), "sqrootmodpoweroftwo": ("@0", "@9"),
    "brillhart": ("@0", "@@0"),
    "sumofsquares": ("@0", "@1", "@@0", "@@1"), "sumofsquares.det": ("@0", "@1", "@@0", "@@1"), "sumofsquares.mc": ("@0", "@1", "@@0", "@@1"),
    "sumofsquares.noerh": ("@0", "@1", "@@0", "@@1"), "sumofsquares.nonres": ("@0", "@1", "@2", "@@0", "@@1", "@@2"),
    "order": ("@0", "@1"), "prim_root": ("@0",), "prim_root.runs": ("@0",), "lowest_prim_root": ("@0",),
    "prim_root_of_prime": ("@0",), "prim_root_of_prime.L": ("@0",),
    "probable_prim_root.L": ("@0",), "probable_prim_root.default": ("@0",), "probable_prim_root.eps": ("@0",),
    "prim_inv": ("@0",), "prim_elem": ("@0",), "lambda": ("@0",), "lambda_inv": ("@0",), "lambda_primpow": ("@0",), "lambda_inv_primpow": ("@0",),
    "phi": ("@0",), "phiL.list": ("@0",), "phiL.vector": ("@0",),
    "sqrt.ra": ("@0",), "sqrtrem.rar": ("@0", "@@0"), "sqrtrem.ar": ("@@0",), "root": ("@0",),
    "gcd": ("@0", "@1"), "powmod": ("@0", "@1", "@2"), "inv": ("@0", "@1"), "mod": ("@0", "@1"),
}
# the functions whose result does not depend on a random choice: in-place result == distinct-objects result, token for token
INPLACE_EXACT = {"phi", "phiL.list", "phiL.vector", "order", "lambda", "lambda_inv", "lambda_primpow", "lambda_inv_primpow", "lowest_prim_root",
                 "prim_root_of_prime", "prim_root_of_prime.L", "sqrootmodpoweroftwo", "brillhart", "sqrt.ra", "sqrtrem.rar", "sqrtrem.ar", "root",
                 "gcd", "powmod", "inv", "invin", "mod"}
# In-place forms the tree the model was written after (ebaca73 .. 7a77cad) does NOT support: the body reads the input again after
# it has written the output (wrong value, SIGFPE or an endless loop).  Recorded as findings (frag/C13.findings.json, fix-7); a form
# is driven with a verdict as soon as known_findings.json lists its (site, klass): status known -> KNOWN-FINDING, fixed -> VIOLATION
# on any failure.  Until it is listed the form is run on a sample with a short stall limit and only REPORTED in the evidence.
# Every other form of INPLACE is supported by the unchanged tree: any failure there is a VIOLATION.
BASELINE_UNSAFE = {
    "order@1", "lowest_prim_root@0", "prim_root@0", "prim_root.runs@0", "prim_root_of_prime@0", "prim_root_of_prime.L@0",
    "probable_prim_root.L@0", "probable_prim_root.default@0", "probable_prim_root.eps@0",
    "sqrootmodprime@1", "sqrootmodprimepower@0", "sqrootmodprimepower@1", "sqrootmodprimepower@9", "sqrootmodpoweroftwo@9",
    "sumofsquares@1", "sumofsquares@@1", "sumofsquares.det@1", "sumofsquares.det@@1", "sumofsquares.mc@1", "sumofsquares.mc@@1",
    "sumofsquares.noerh@1", "sumofsquares.noerh@@1", "sumofsquares.nonres@2", "sumofsquares.nonres@@0", "sumofsquares.nonres@@1", "sumofsquares.nonres@@2",
}
IP = {"counts": {}}


def inplace_site(c):
    """(site, klass) an in-place case is reported under"""
    k = c["kind"]; b = bop(c)
    site = {"sqrtn": S_SQ + "sqrootmod", "sqrtp": S_SQ + "sqrootmodprime", "sqrtpk": S_SQ + "sqrootmodprimepower", "sqrt2k": S_SQ + "sqrootmodpoweroftwo",
            "brillhart": S_SQ + "Brillhart", "sos": S_SQ + b.replace("sumofsquares", "sumofsquaresmodprime")}.get(k)
    if site is None:
        site = (S_NT + b.split(".")[0]) if k not in NO_MODEL else b.split(".")[0]
    return site, "inplace:out=in" + c["inplace"]


def listed_findings():
    """{(site, klass): status} of this property in known_findings.json (read-only)"""
    try:
        kf = json.load(open(os.path.join(vf.ROOT, "known_findings.json")))
        kf = kf if isinstance(kf, list) else kf.get("findings", [])
        return {(f.get("site"), f.get("klass")): f.get("status") for f in kf if f.get("property") == "C13"}
    except (OSError, ValueError):
        return {}


def gen_inplace(C, rng, th):
    n0 = len(C)
    IP["counts"] = {}
    base = []

    def add(iop, iargs, kind, **kw):
        base.append(mk(iop, iargs, kind, gen="inplace", **kw))
    big = [2 ** 61 - 1, 3 * 2 ** 66 + 1]
    primes = [2, 3, 5, 7, 13, 17, 41, 97, 257, 65537] + big
    ppow = [(3, 2), (3, 3), (3, 4), (3, 5), (5, 2), (5, 3), (7, 2), (17, 2), (13, 3), (3, 40), (1000003, 2), (1000003, 7), (97, 1), (41, 1)]
    two = [1, 2, 3, 4, 5, 6, 10, 29, 30, 33, 64, 77]
    comps = {6: {2: 1, 3: 1}, 10: {2: 1, 5: 1}, 12: {2: 2, 3: 1}, 15: {3: 1, 5: 1}, 36: {2: 2, 3: 2}, 60: {2: 2, 3: 1, 5: 1}, 90: {2: 1, 3: 2, 5: 1},
             210: {2: 1, 3: 1, 5: 1, 7: 1}, 864: {2: 5, 3: 3}, 1155: {3: 1, 5: 1, 7: 1, 11: 1}, 44100: {2: 2, 3: 2, 5: 2, 7: 2},
             2 ** 40 * 3 ** 20 * 1000003: {2: 40, 3: 20, 1000003: 1}, 4 * 1000003 ** 3 * 101 ** 2: {2: 2, 1000003: 3, 101: 2}}
    mods = {}
    for q in primes:
        mods[q] = {q: 1}
    for q, k in ppow:
        mods[q ** k] = {q: k}
    for k in two:
        mods[2 ** k] = {2: k}
    mods.update(comps)
    for n, F in mods.items():
        _FC[n] = dict(F)

    def avals(n):
        if n <= 40:
            return list(range(0, n)) + [n + 4, -3]
        return sorted({0, 1, 2, 3, 4, 5, 6, 9, 16, n - 1, n - 4, 49 % n, 123457 ** 2 % n, (123457 ** 2 * 4) % n, 3 * 123457 ** 2 % n, n + 4, -3,
                       (n - 1) // 2, 8 * 123457 + 1})
    for n, F in mods.items():
        for a in avals(n):
            add("sqrootmod", [a, n], "sqrtn", a=a, n=n, F=F)
        if n >= 2:
            for f in ("lambda", "lambda_inv", "prim_elem") + (("prim_inv",) if have_prim_inv() else ()):
                add(f, [n], f, n=n, nomodel=n.bit_length() > 140)
        add("phi", [n], "phi", n=n)
        Lf = sorted(F, reverse=True)
        add("phiL.list", [n] + Lf, "phi", n=n, Lf=Lf)
        add("phiL.vector", [n] + Lf[::-1], "phi", n=n, Lf=Lf[::-1])
        for a in (2, 3, 5, 7, n - 1, n + 1, 10, 2 * n + 3):
            if n >= 2:
                add("order", [a, n], "order", a=a, n=n, nomodel=n.bit_length() > 100)
    for n in (0, 1, 2, 3):
        add("phi", [n], "phi", n=n)
    for q in primes:
        for a in avals(q):
            add("sqrootmodprime", [a, q], "sqrtp", a=a, p=q, k=1)
        if q % 4 == 1:
            add("brillhart", [q], "brillhart", p=q)
        if q > 2:
            for kk in (0, 1, 2, 3, q - 1, -1, 5, q + 2, -q - 3):
                for v in ("sumofsquares", "sumofsquares.det", "sumofsquares.mc", "sumofsquares.noerh"):
                    add(v, [kk, q], "sos", k=kk, p=q, nomodel=q.bit_length() > 64)
            if q < 100:
                for sn in range(2, q):
                    if pow(sn, (q - 1) // 2, q) == q - 1 and pow(sn - 1, (q - 1) // 2, q) == 1:
                        for kk in range(1, q):
                            if pow(kk, (q - 1) // 2, q) == q - 1:
                                add("sumofsquares.nonres", [kk, sn, q], "sos", k=kk, p=q, s=sn)
                                break
            add("prim_root_of_prime", [q], "prim_root_of_prime", n=q, nomodel=q.bit_length() > 64)
            add("prim_root_of_prime.L", [q] + sorted(factor(q - 1)), "prim_root_of_prime", n=q, nomodel=q.bit_length() > 64)
        if 2 < q < 400:
            for v in ("probable_prim_root.L", "probable_prim_root.default", "probable_prim_root.eps"):
                add(v, [q] + ([50] if v.endswith(".L") else []), "probable_prim_root", n=q)
    for q, k in ppow:
        for a in avals(q ** k) + [q, q * q * 4, q ** k - q * q]:
            add("sqrootmodprimepower", [a, q, k], "sqrtpk", a=a, p=q, k=k, nomodel=(q ** k).bit_length() > 140)
    for k in two:
        for a in avals(2 ** k) + [64, 2 ** k - 64, 17 * 16]:
            add("sqrootmodpoweroftwo", [a, k], "sqrt2k", a=a, k=k)
    for n in (2, 3, 4, 5, 7, 8, 9, 10, 12, 13, 14, 16, 17, 18, 25, 27, 41, 50, 54, 81, 97, 98, 250, 257, 1093 ** 2, 65537, 2 * 3 ** 40):
        if n not in _FC:
            factor(n)
        add("prim_root", [n], "prim_root", n=n)
        add("prim_root.runs", [n], "prim_root", n=n)
        if n <= 700:
            add("lowest_prim_root", [n], "lowest_prim_root", n=n)
    for n in (15, 21, 24, 100):
        add("lowest_prim_root", [n], "lowest_prim_root", n=n)
    for q, e in ((2, 1), (2, 2), (2, 3), (2, 4), (2, 7), (2, 66), (3, 1), (3, 4), (65537, 2), (2 ** 61 - 1, 2)):
        _FC[q ** e] = {q: e}
        add("lambda_inv_primpow", [q, e], "lambda_inv_primpow", p=q, e=e)
        if have_lambda_primpow():
            add("lambda_primpow", [q, e], "lambda_primpow", p=q, e=e)
    for a in (0, 1, 2, 15, 16, 17, 2 ** 64 - 1, 2 ** 64, 2 ** 64 + 1, 2 ** 128 - 1, 2 ** 128, 3 ** 100):
        add("sqrt.ra", [a], "isqrt", a=a)
        add("sqrtrem.rar", [a], "isqrtrem", a=a)
        add("sqrtrem.ar", [a], "isqrtrem", a=a)
        for e in (1, 2, 3, 7):
            add("root", [a, e], "iroot", a=a, e=e)
    for a, b in ((12, 18), (18, 12), (0, 5), (5, 0), (17, 17), (2 ** 64, 6 ** 40), (3 * 2 ** 66 + 1, 2 ** 61 - 1), (-12, 18), (35, -14)):
        add("gcd", [a, b], "h_gcd", a=a, b=b)
    for a, e, n in ((2, 10, 1000), (3, 0, 7), (5, 3, 5), (7, 7, 7), (2, 2 ** 61 - 2, 2 ** 61 - 1), (10, 20, 3 ** 40), (6, 5, 6), (-3, 3, 10), (2, 64, 2 ** 64 + 1)):
        add("powmod", [a, e, n], "h_powmod", a=a, e=e, n=n)
    for a, n in ((3, 7), (7, 3), (5, 12), (2, 2 ** 61 - 1), (2 ** 61 - 2, 2 ** 61 - 1), (10, 3 ** 40), (1, 2), (9, 10)):
        add("inv", [a, n], "h_inv", a=a, n=n)
    for a, n in ((17, 5), (5, 17), (5, 5), (0, 9), (2 ** 70 + 3, 2 ** 64), (3, 2 ** 64), (-7, 5)):
        add("mod", [a, n], "h_mod", a=a, n=n)
    for c in base:
        forms = INPLACE.get(c["iop"])
        if not forms:
            continue
        C.append(c)
        for sfx in forms:
            d = Case(c); d["bop"] = c["iop"]; d["iop"] = c["iop"] + sfx; d["inplace"] = sfx
            C.append(d)
            IP["counts"][d["iop"]] = IP["counts"].get(d["iop"], 0) + 1
    IP["total"] = len(C) - n0


def gen_cases(rng, tier, have):
    th = tier == "thorough"
    _HAVE.update(have)
    C = []
    # ---- phi / mobius / lambda / prim_elem: every n up to N, all call forms
    N = 5000 if th else 1300
    for n in range(0, N + 1):
        F = factor(n) if n > 0 else {}
        Lf = sorted(F)
        if rng.chance(1, 2):
            Lf = Lf[::-1]
        C.append(mk("phi", [n], "phi", n=n))
        C.append(mk("phiL.list" if n % 2 else "phiL.vector", [n] + Lf, "phi", n=n, Lf=Lf))
        if n >= 1:
            C.append(mk("mobius", [n], "mobius", n=n))
            ex = [F[q] for q in Lf]
            C.append(mk("mobiusL.vector" if n % 2 else "mobiusL.list", ex, "mobiusL", n=n, ex=ex))
        if n >= 2:
            C.append(mk("lambda", [n], "lambda", n=n))
            C.append(mk("lambda_inv", [n], "lambda_inv", n=n))
            C.append(mk("prim_elem", [n], "prim_elem", n=n))
            if have["prim_inv"]:
                C.append(mk("prim_inv", [n], "prim_inv", n=n))
    for p in [2, 3, 5, 7, 65537, (1 << 61) - 1]:
        for e in range(1, 9 if p < 8 else 4):
            _FC[p ** e] = {p: e}
            C.append(mk("lambda_inv_primpow", [p, e], "lambda_inv_primpow", p=p, e=e))
            if have["lambda_primpow"]:
                C.append(mk("lambda_primpow", [p, e], "lambda_primpow", p=p, e=e))
    # large n with a known factorisation
    for i in range(120 if th else 30):
        F = {}
        for j in range(rng.range(1, 4)):
            q = rng.choice([2, 3, 5, 7, 11, 13]) if rng.chance(1, 3) else rand_prime(rng, rng.range(8, 32))
            F[q] = F.get(q, 0) + (rng.range(1, 6) if q < 20 else rng.range(1, 2))
        n = 1
        for q, e in F.items():
            n *= q ** e
        Lf = sorted(F)
        _FC[n] = dict(F)
        C.append(mk("phi", [n], "phi", n=n))
        C.append(mk("phiL.vector", [n] + Lf, "phi", n=n, Lf=Lf))
        C.append(mk("mobius", [n], "mobius", n=n))
        C.append(mk("lambda", [n], "lambda", n=n))
        C.append(mk("lambda_inv", [n], "lambda_inv", n=n))
        C.append(mk("prim_elem", [n], "prim_elem", n=n))
    # ---- order / isorder / is_prim_root
    NO = 300 if th else 110
    for n in range(2, NO + 1):
        for a in range(-1, n + 2):
            C.append(mk("order", [a, n], "order", a=a, n=n))
            if n <= (120 if th else 48):
                C.append(mk("is_prim_root", [a, n], "is_prim_root", a=a, n=n))
                o = order_brute(a, n)
                for g in sorted({o, max(o // 2, 1), o * 2, phi_f(n)} - {0}):       # g >= 1: order 0 is the code's "failed"
                    C.append(mk("isorder", [g, a, n], "isorder", g=g, a=a, n=n))
    for i in range(6000 if th else 1200):
        n = rng.range(2, 5000); a = rng.range(0, n - 1)
        C.append(mk(rng.choice(["order", "order", "is_prim_root"]), [a, n], None, a=a, n=n))
        C[-1]["kind"] = C[-1]["iop"]
    for i in range(80 if th else 24):
        q = rand_prime(rng, rng.range(20, 36)); n = q * rng.choice([1, 1, 2, q, 3, 4])
        a = rng.range(2, n - 1)
        C.append(mk("order", [a, n], "order", a=a, n=n))
        C.append(mk("is_prim_root", [a, n], "is_prim_root", a=a, n=n))
    # ---- primitive roots
    NP = 5000 if th else 3000
    for n in range(1, NP + 1):
        if has_prim_root(n):
            C.append(mk("prim_root" if n % 3 else "prim_root.runs", [n], "prim_root", n=n))
            if n <= (2000 if th else 700):
                C.append(mk("lowest_prim_root", [n], "lowest_prim_root", n=n))
            if n > 2 and is_prime(n):
                C.append(mk("prim_root_of_prime", [n], "prim_root_of_prime", n=n))
                C.append(mk("prim_root_of_prime.L", [n] + sorted(factor(n - 1)), "prim_root_of_prime", n=n))
                if n <= (2000 if th else 400):
                    for v in ("probable_prim_root.L", "probable_prim_root.default", "probable_prim_root.eps"):
                        C.append(mk(v, [n] + ([50] if v.endswith(".L") else []), "probable_prim_root", n=n))
        elif n % 4 == 0 and n <= 400:
            C.append(mk("prim_root", [n], "prim_root", n=n))
            C.append(mk("lowest_prim_root", [n], "lowest_prim_root", n=n))
        elif n <= 200:
            C.append(mk("lowest_prim_root", [n], "lowest_prim_root", n=n))
    # p^m, m > 1, where the generator found modulo p is NOT one modulo p^2 (the `A += p` correction of lines 178-179):
    # 2 for the Wieferich primes 1093, 3511; 5 for 40487 (least primitive root 5); 14 / 18 / 19 are reached only by the random loop
    for q in (1093, 3511, 40487):
        _FC.update({q * q: {q: 2}, 2 * q * q: {2: 1, q: 2}, q ** 3: {q: 3}})
        for n in (q * q, 2 * q * q, q ** 3):
            C.append(mk("prim_root" if q != 3511 else "prim_root.runs", [n], "prim_root", n=n))
            C.append(mk("is_prim_root", [2 if q != 40487 else 5, n], "is_prim_root", a=2 if q != 40487 else 5, n=n))
    # primes for which prim_root_of_prime's first phase walks past 2 (and 3, ...): the stale-list defect of fix-4 showed at 3889
    for q in (17, 257, 433, 641, 3457, 3889, 21169, 39367, 65537, 270337, 786433):
        C.append(mk("prim_root_of_prime", [q], "prim_root_of_prime", n=q))
        C.append(mk("prim_root_of_prime.L", [q] + sorted(factor(q - 1), reverse=True), "prim_root_of_prime", n=q))
    # primes whose p-1 is squareful with several repeated primes (partial f-parts in the order bookkeeping of both phases)
    sq = []
    for e2 in range(2, 12):
        for e3 in range(0, 7):
            for e5 in range(0, 4):
                for e7 in range(0, 3):
                    for e11 in (0, 2):
                        q = 2 ** e2 * 3 ** e3 * 5 ** e5 * 7 ** e7 * 11 ** e11 + 1
                        if 3000 < q < 10 ** 11 and (e3 >= 2) + (e5 >= 2) + (e7 >= 2) + (e11 >= 2) >= 1 and is_prime(q):
                            sq.append(q)
    rng.shuffle(sq)
    for q in sorted(sq[:(400 if th else 60)]):
        C.append(mk("prim_root_of_prime" if q % 3 else "prim_root_of_prime.L", [q] + ([] if q % 3 else sorted(factor(q - 1))), "prim_root_of_prime", n=q))
    # n = 2 p^m whose even candidate A gets the parity correction: A + p^m must be used, A + p may fail modulo p^2 (5, 45827)
    for q, ms in ((5, (2, 3, 6, 14)), (45827, (2, 3)), (3, (2, 5, 9)), (7, (2, 4)), (11, (2, 3))):
        for m_ in ms:
            _FC[2 * q ** m_] = {2: 1, q: m_}; _FC[q ** m_] = {q: m_}
            C.append(mk("prim_root", [2 * q ** m_], "prim_root", n=2 * q ** m_))
            C.append(mk("prim_root.runs", [q ** m_], "prim_root", n=q ** m_))
    for i in range(60 if th else 16):
        q = rand_prime(rng, rng.range(14, 32))          # the code factors p^m by Pollard rho: ~4 s for a 43-bit p
        _FC.update({q: {q: 1}, 2 * q: {2: 1, q: 1}, q * q: {q: 2}, 2 * q ** 3: {2: 1, q: 3}})
        for n in (q, 2 * q, q * q, 2 * q ** 3):
            C.append(mk("prim_root", [n], "prim_root", n=n))
        C.append(mk("prim_root_of_prime", [q], "prim_root_of_prime", n=q))
    # ---- square roots modulo a prime: every class mod 16, every a for small p; multi-limb p
    PS = 400 if th else 200
    primes = [q for q in range(2, 3000) if is_prime(q)]
    for q in primes:
        if q < PS or (q < 3000 and q % 16 in (1, 9) and rng.chance(1, 4)):
            rng_a = range(-2, q + 3) if q < PS else [rng.range(0, q - 1) for _ in range(12)]
            for a in rng_a:       # model traces: every a for q <= 50, every second a above (the oracle judges all of them)
                C.append(mk("sqrootmodprime", [a, q], "sqrtp", a=a, p=q, k=1, nomodel=(50 < q < PS and a % 2 == 1)))
    special = [12289, 65537, 7 * 2 ** 26 + 1, 3 * 2 ** 30 + 1, 2 ** 61 - 1, 2 ** 64 - 59, 2 ** 64 + 13, 29 * 2 ** 57 + 1, 2 ** 89 - 1, 2 ** 127 - 1]
    big = [(q, "special") for q in special if is_prime(q)]
    for bits in ([61, 64, 65, 96, 128, 192, 256] if th else [61, 64, 65, 128]):
        for cls in (1, 3, 5, 7, 9, 11, 13, 15):
            for _ in range(3 if th else 1):
                big.append((rand_prime(rng, bits, cls), "bits=%d" % bits))
    for q, tag in big:
        r = rng.range(2, q - 2)
        nr = next(x for x in range(2, 500) if pow(x, (q - 1) // 2, q) == q - 1)
        aa = (r * r % q, (r * r % q) - q, nr * r * r % q, 0, 1, q - 1, 2, q + 4)
        if not th and q.bit_length() > 70:
            aa = (r * r % q, nr * r * r % q, -(r * r % q) if q % 4 == 1 else q - 1)
        for a in aa:
            C.append(mk("sqrootmodprime", [a, q], "sqrtp", a=a, p=q, k=1, tag=tag))
    # ---- prime powers
    for q in [3, 5, 7, 11, 13, 17, 41, 73, 97]:
        k = 2
        while q ** k < (6000 if th else 2500) or k <= 3:
            qk = q ** k
            aa = range(-3, qk + 3) if qk < (6000 if th else 2500) else [rng.range(0, qk) * q ** rng.choice([0, 0, 1, 2, 3]) for _ in range(60)]
            for a in aa:          # model traces: every a for p^k <= 200, every third a above (the oracle judges all of them)
                C.append(mk("sqrootmodprimepower", [a, q, k], "sqrtpk", a=a, p=q, k=k, nomodel=(200 < qk < 6000 and a % 3 != 0)))
            k += 1
    for i in range(60 if th else 14):
        q = rng.choice([3, 5, 7, 17, 41, 97, 193, 257, 65537]) if rng.chance(1, 2) else rand_prime(rng, rng.choice([20, 40, 64, 70]), rng.choice([1, 3, 5, 7, 9, 11, 13, 15]))
        for k in ([2, 3, 4, 5, 6, 7, 8, 9, 15, 16, 17, 31, 32, 33, 40] if th else [2, 3, 4, 5, 7, 8, 16, 33, 40]):
            if q.bit_length() * k > (1600 if th else 520):
                continue
            qk = q ** k
            r = rng.range(1, qk - 1)
            r -= (r % q == 0)
            nr = next(x for x in range(2, 500) if pow(x, (q - 1) // 2, q) == q - 1)
            t = rng.range(1, k - 1)
            for a in (r * r % qk, r * r, nr * r * r % qk, (r * r * q ** t) % qk, (nr * q ** (2 * (t // 2))) % qk, -(r * r % qk) if q % 4 == 1 else r * r - qk):
                C.append(mk("sqrootmodprimepower", [a, q, k], "sqrtpk", a=a, p=q, k=k))
    # ---- powers of two
    for k in range(1, 13 if th else 11):
        for a in range(-9, 2 ** k + 9):
            C.append(mk("sqrootmodpoweroftwo", [a, k], "sqrt2k", a=a, k=k))
    for k in ([12, 13, 20, 27, 28, 29, 30, 31, 32, 33, 34, 57, 58, 59, 63, 64, 65, 66, 99, 100, 101, 128, 200] if th else [13, 27, 28, 29, 30, 31, 32, 33, 57, 58, 63, 64, 65, 100]):
        for i in range(16 if th else 8):
            r = rng.bits(k) | 1
            t = rng.range(1, max(1, k - 4))
            for a in (r * r % 2 ** k, r * r, (r * r % 2 ** k) - 2 ** k, (r * r + 2 * rng.range(1, 3)) % 2 ** k, (r * r << (2 * (t // 2))) % 2 ** k,
                      ((8 * rng.bits(k) + rng.choice([3, 5, 7])) << (2 * (t // 2))) % 2 ** k, (r * r << (2 * (t // 2) + 1)) % 2 ** k):
                C.append(mk("sqrootmodpoweroftwo", [a, k], "sqrt2k", a=a, k=k))
    # ---- composite n
    for n in range(2, (200 if th else 90) + 1):
        for a in range(-2, n + 1):
            C.append(mk("sqrootmod", [a, n], "sqrtn", a=a, n=n))
    for i in range(4000 if th else 900):
        n = rng.range(2, 6000); a = rng.range(0, n - 1)
        if rng.chance(1, 2):
            a = a * a % n
        C.append(mk("sqrootmod", [a, n], "sqrtn", a=a, n=n))
    for i in range(100 if th else 24):
        F = {}
        if rng.chance(2, 3):
            F[2] = rng.choice([1, 2, 3, 4, 5, 28, 29, 40])
        for j in range(rng.range(1, 3)):
            q = rng.choice([3, 5, 7, 17, 41, 73]) if rng.chance(1, 2) else rand_prime(rng, rng.range(10, 32))   # sqrootmod factors n itself
            F[q] = rng.range(1, 4)
        n = 1
        for q, e in F.items():
            n *= q ** e
        r = rng.range(1, n - 1)
        for a in (r * r % n, r * r % n - n, r, r * r * 4 % n):
            C.append(mk("sqrootmod", [a, n], "sqrtn", a=a, n=n, F=F))
    # ---- liftings called directly (protected members, through a derived class), preconditions satisfied
    for i in range(1500 if th else 400):
        q = rng.choice([3, 5, 7, 11, 13, 17, 97]) if rng.chance(3, 4) else rand_prime(rng, rng.range(10, 64))
        k = rng.range(1, 6); qk = q ** k
        x0 = rng.range(1, qk - 1); x0 -= (x0 % q == 0)
        if x0 == 0:
            continue
        a = x0 * x0 + qk * rng.range(-qk, qk * q)
        C.append(mk("sqroothensellift", [x0, a, q, k], "lift", x0=x0, a=a, mod=qk * qk))
        C.append(mk("sqrootonemorelift", [x0, a, q, k], "lift", x0=x0, a=a, mod=qk * q))
        a1 = rng.range(0, q ** 3)
        C.append(mk("sqrootlinear", [a1, q, rng.range(1, 4)], "sqrtpk", a=a1, p=q, k=None, site="sqrootlinear"))
        C[-1]["k"] = C[-1]["iargs"][2]
        k2 = rng.range(3, 40); x2 = rng.bits(k2) | 1
        a2 = x2 * x2 + 2 ** k2 * rng.range(-5, 2 ** k2)
        C.append(mk("sqrootmodtwolift", [x2, a2, k2], "lift", x0=x2, a=a2, mod=2 ** (2 * k2 - 2)))
        k3 = rng.range(1, 28); a3 = rng.bits(k3 + 2)
        C.append(mk("sqroottwolinear", [a3, k3], "twolinear", a=a3, k=k3))
    # ---- Brillhart, sums of two squares
    for q in primes:
        if q % 4 == 1:
            C.append(mk("brillhart", [q], "brillhart", p=q))
    for bits in ([40, 64, 65, 128, 192] if th else [40, 64, 128]):
        for cls in (1, 5, 9, 13):
            C.append(mk("brillhart", [rand_prime(rng, bits, cls)], "brillhart"))
            C[-1]["p"] = C[-1]["iargs"][0]
    for q in [x for x in primes if x < (160 if th else 48)]:
        for k in range(-q - 1, 2 * q + 2):
            for v in ("sumofsquares", "sumofsquares.det", "sumofsquares.mc", "sumofsquares.noerh"):
                if v == "sumofsquares" and k % 3:
                    continue
                C.append(mk(v, [k, q], "sos", k=k, p=q, nomodel=(q > 20 and k % 2 == 1)))
        if q > 2:
            for s in range(2, q):
                if pow(s, (q - 1) // 2, q) == q - 1 and pow(s - 1, (q - 1) // 2, q) == 1:
                    for k in range(1, q):          # precondition: k/s is a residue, i.e. k is a non-residue
                        if pow(k, (q - 1) // 2, q) == q - 1:
                            C.append(mk("sumofsquares.nonres", [k + q * (k % 3 - 1), s, q], "sos", k=k + q * (k % 3 - 1), p=q, s=s))
    for bits in ([40, 64, 128] if th else [40, 64]):
        for cls in (1, 3, 5, 7, 9, 15):
            q = rand_prime(rng, bits, cls)
            for k in (rng.range(1, q - 1), -rng.range(1, q - 1), rng.range(q, q * q)):
                for v in ("sumofsquares.det", "sumofsquares.mc", "sumofsquares.noerh"):
                    C.append(mk(v, [k, q], "sos", k=k, p=q))
    # ---- logp
    for b in range(2, 14):
        for a in range(b, 3001 if th else 1200):
            if b <= 3 or a % 7 == 0 or any(abs(a - b ** e) <= 1 for e in range(1, 12)):
                C.append(mk("logp", [a, b], "logp", a=a, b=b))
    # exact powers and their neighbours (the table of squares p^(2^j) and the greedy descent), word-sized and multi-limb bases
    for b in [2, 3, 5, 7, 10, 2 ** 16, 65537, 2 ** 32 - 1, 2 ** 32, 2 ** 63 + 9, 2 ** 64, 2 ** 64 + 13, 3 ** 50 + 2, rng.bits(130) + 2]:
        for e in [1, 2, 3, 4, 5, 7, 8, 9, 15, 16, 17, 31, 32, 33, 63, 64, 65, 127, 128, 129]:
            if b.bit_length() * e > (9000 if th else 1100):
                continue
            for a in (b ** e - 1, b ** e, b ** e + 1, b ** e * (b - 1) + b ** e - 1):
                if a >= 1:
                    C.append(mk("logp", [a, b], "logp", a=a, b=b))
    for b in [2, 3, 7, 10, 65537, 2 ** 64 + 13]:          # a < p : floor(log_p a) = 0
        for a in sorted({1, 2, b // 2, b - 2, b - 1}):
            if 1 <= a < b:
                C.append(mk("logp", [a, b], "logp", a=a, b=b))
    for i in range(400 if th else 120):
        b = rng.choice([2, 3, 10, 65537, rng.range(2, 2 ** 40), rng.bits(70) + 2]); e = rng.range(1, 60 if th else max(2, 500 // b.bit_length()))
        for a in (b ** e - 1, b ** e, b ** e + 1, rng.range(b ** e, b ** (e + 1) - 1)):
            if a >= b:
                C.append(mk("logp", [a, b], "logp", a=a, b=b))
    # ---- symbols, integer roots (single GMP calls)
    for b in range(-32, 33):
        for a in range(-32, 33):
            C.append(mk("kronecker", [a, b], "kronecker", a=a, b=b))
            if b > 0 and b % 2:
                C.append(mk("jacobi", [a, b], "jacobi", a=a, b=b))
    for q in primes:
        if 2 < q < (2000 if th else 300):
            for a in (range(-3, q + 3) if q < (300 if th else 130) else [rng.range(0, q) for _ in range(20)]):
                C.append(mk("legendre", [a, q], "legendre", a=a, b=q))
    for i in range(300 if th else 100):
        b = rand_prime(rng, rng.range(20, 200)) * rng.choice([1, 1, 3, 5 * 7])
        a = rng.bits(rng.range(1, 220)) * rng.choice([1, -1])
        C.append(mk("jacobi", [a, b], "jacobi", a=a, b=b))
        C.append(mk("kronecker", [a, b * rng.choice([1, -1, 2, 4])], "kronecker", a=a))
        C[-1]["b"] = C[-1]["iargs"][1]
    for i in range(600 if th else 200):
        r = rng.bits(rng.range(1, 150)) if i > 40 else i
        for a in {r * r - 1, r * r, r * r + 1, r * r + r}:
            if a >= 0:
                C.append(mk(rng.choice(["sqrt.ra", "sqrt.a"]), [a], "isqrt", a=a))
                C.append(mk(rng.choice(["sqrtrem.rar", "sqrtrem.ar"]), [a], "isqrtrem", a=a))
        e = rng.range(1, 7)
        for a in {r ** e - 1, r ** e, r ** e + 1}:
            if a >= 0:
                C.append(mk("root", [a, e], "iroot", a=a, e=e))
    gen_structured(C, rng, th)
    gen_inplace(C, rng, th)
    gen_thresholds(C, rng, th)
    return C


# ------------------------------------------------------------------------------------------------ verdicts
def ints(toks):
    return [int(t) for t in toks]


def spec(c, out, small_cache):
    """the specification oracle on one output line (implementation's or model's).
    returns (ok, expected-description, site, klass)"""
    k = c["kind"]; t = out.split(";")[0].split()
    if k == "phi":
        n = c["n"]
        exp = n if n <= 1 else (phi_count(n) if n <= 6000 else phi_f(n))
        return int(t[0]) == exp, exp, S_NT + "phi", "n<=6000" if n <= 6000 else "large"
    if k == "mobius" or k == "mobiusL":
        exp = mobius_def(c["n"])
        return int(t[0]) == exp, exp, S_NT + "mobius", "list" if k == "mobiusL" else "n"
    # Definitions (givintnumtheo.h:73-82): lambda = maximal orbit size over ALL elements = order of a primitive element (prim_elem);
    # lambda_inv = order of an invertible primitive element (prim_inv) = exponent of the unit group.  No value of the code is built in.
    if k == "lambda_inv":
        n = c["n"]
        exp = carmichael_brute(n) if n <= 400 else carmichael_f(n)
        return int(t[0]) == exp, exp, S_NT + k, "n<=400" if n <= 400 else "formula"
    if k == "lambda":
        n = c["n"]; exp = max_orbit(n)
        kl = K_ORBIT if exp != carmichael_f(n) and n != 8 else ("n<=400" if n <= 400 else "formula")
        return int(t[0]) == exp, "%d (maximal orbit size over all elements)" % exp, S_NT + k, kl
    if k == "lambda_inv_primpow":
        exp = carmichael_f(c["p"] ** c["e"])
        return int(t[0]) == exp, exp, S_NT + k, "p=2" if c["p"] == 2 else "odd"
    if k == "lambda_primpow":
        exp = max_orbit(c["p"] ** c["e"])
        return int(t[0]) == exp, exp, S_NT + k, "p=2" if c["p"] == 2 else "odd"
    if k == "prim_inv":
        n = c["n"]; A = int(t[0]); lam = carmichael_f(n)
        ok = 0 <= A < n and math.gcd(A, n) == 1 and order_of(A, n) == lam
        return ok, "a unit of order lambda_inv(n) = %d in [0,n)" % lam, S_NT + k, "n<=4" if n <= 4 else "n>4"
    if k == "prim_elem":
        n = c["n"]; A = int(t[0]); lam = max_orbit(n)
        kl = K_ORBIT if lam != carmichael_f(n) and n != 8 else ("n<=4" if n <= 4 else "n>4")
        ok = 0 <= A < n and orbit_size(A, n) == lam
        return ok, "an element of [0,n) whose orbit has the maximal size %d" % lam, S_NT + k, kl
    if k == "order":
        exp = order_of(c["a"], c["n"])
        if c["a"] % c["n"] == 0:
            exp = 0
        return int(t[0]) == exp, exp, S_NT + "order", "unit" if exp else "non-unit"
    if k == "is_prim_root":
        n = c["n"]
        exp = 1 if (math.gcd(c["a"], n) == 1 and order_of(c["a"], n) == phi_f(n)) else 0
        return int(t[0]) == exp, exp, S_NT + "is_prim_root", "n"
    if k == "isorder":
        o = order_of(c["a"], c["n"])
        exp = 1 if (o == c["g"] and o > 0) else 0
        return int(t[0]) == exp, exp, S_NT + "isorder", "n"
    if k == "prim_root":
        n = c["n"]; A = int(t[0])
        if n <= 4:
            return A == n - 1, n - 1, S_NT + "prim_root", "n<=4"
        if n % 4 == 0:
            return A == 0, 0, S_NT + "prim_root", "4|n"
        ok = A > 0 and math.gcd(A, n) == 1 and order_of(A, n) == phi_f(n)
        F = factor(n); F.pop(2, None)
        return ok, "a primitive root of n", S_NT + "prim_root", ("2p^m" if n % 2 == 0 else "p^m") + (",m>1" if list(F.values())[0] > 1 else ",m=1")
    if k == "lowest_prim_root":
        n = c["n"]; A = int(t[0])
        if n <= 4:
            exp = n - 1
        elif n % 4 == 0 or not has_prim_root(n):
            exp = 0
        else:
            ph = phi_f(n)
            exp = next(a for a in range(2, n) if math.gcd(a, n) == 1 and order_of(a, n) == ph)
        return A == exp, exp, S_NT + "lowest_prim_root", "shape" if has_prim_root(n) else "no-root"
    if k in ("prim_root_of_prime", "probable_prim_root"):
        n = c["n"]; A = int(t[0])
        ok = 0 < A < n and order_of(A, n) == n - 1
        if k == "prim_root_of_prime":
            # input class: the first phase walks past 2 (2 lacks the full f-part for EVERY prime f | n-1)
            skips2 = all(pow(2, (n - 1) // f, n) == 1 for f in factor(n - 1))
            if n <= 3:
                return A == n - 1, n - 1, S_NT + k, "n=%d" % n
            return ok, "a primitive root of the prime n in (0,n)", S_NT + k, "first-phase-skips-2" if skips2 else "prime"
        if k == "probable_prim_root" and len(t) > 1 and t[1] != "0" and not ok:
            # the function reported a non-zero error bound (incomplete factorisation of p - 1): the answer is only probable.
            # Never counted as a pass: the case is listed as inconclusive (it does not occur for the moduli generated here)
            UNJUDGED.append("probable_prim_root %d: error bound > 0 and the value is not a primitive root" % n)
            return True, "probabilistic (incomplete factorisation)", S_NT + k, "prime:unjudged"
        return ok, "a primitive root of the prime n in (0,n)", S_NT + k, "prime"
    if k in ("sqrtp", "sqrtpk", "sqrt2k", "sqrtn"):
        x = int(t[0]); a = c["a"]
        if k == "sqrt2k":
            n = 2 ** c["k"]; res, cl = qr_pow2(a, c["k"]); site = S_SQ + "sqrootmodpoweroftwo"
            if a < 0 and 4 <= c["k"] < 29 and res and a % 2:
                cl = "negative-a:4<=k<29"
        elif k == "sqrtn":
            n = c["n"]; F = c.get("F") or factor(n); res = True; site = S_SQ + "sqrootmod"
            for q, e in F.items():
                r1 = qr_pow2(a, e)[0] if q == 2 else qr_primepower(a, q, e)[0]
                res = res and r1
            cl = "residue" if res else "nonresidue"
            if res and a < 0 and n % 16 == 0:
                cl = "negative-a:16|n"
        else:
            p, kk = c["p"], c["k"]; n = p ** kk; site = S_SQ + c.get("site", "sqrootmodprime" if k == "sqrtp" else "sqrootmodprimepower")
            if p == 2:
                res = True; cl = "p=2"
            else:
                res, cl = qr_primepower(a, p, kk)
            if c.get("site") == "sqrootlinear" and not res:
                cl = "nonres"
            if c.get("site") == "sqrootlinear" and a % p == 0:
                return True, "outside the precondition (p | a)", site, "p|a"
        if n <= 4000:
            key = n
            if key not in small_cache:
                small_cache[key] = squares_mod(n)
            if (a % n in small_cache[key]) != res:
                return None, "ORACLE SELF-CHECK FAILED n=%d a=%d" % (n, a), site, cl
        if res:
            return x != -1 and (x * x - a) % n == 0, "x with x*x = a (mod %d)" % n, site, cl
        return x == -1, "-1 (a is not a quadratic residue mod %d)" % n, site, cl
    if k == "lift":
        x = int(t[0])
        return (x * x - c["a"]) % c["mod"] == 0, "x with x*x = a (mod %d)" % c["mod"], S_SQ + bop(c), "precondition-holds"
    if k == "twolinear":
        a, kk = c["a"], c["k"]; x = int(t[0]); kk = max(kk, 3)
        res = a % 8 in (0, 1, 4)
        if a % 2 == 0 or not res:
            return (x == -1) == (not res), "-1 iff a mod 8 is not in {0,1,4}", S_SQ + "sqroottwolinear", "even-or-nonres"
        return (x * x - a) % 2 ** kk == 0, "x*x = a (mod 2^%d)" % kk, S_SQ + "sqroottwolinear", "odd"
    if k == "brillhart":
        a, b = ints(t[:2])
        return a * a + b * b == c["p"], "a*a + b*b = p", S_SQ + "Brillhart", "p=1mod4"
    if k == "sos":
        a, b = ints(t[:2])
        return (a * a + b * b - c["k"]) % c["p"] == 0, "a*a + b*b = k (mod p)", S_SQ + bop(c).replace("sumofsquares", "sumofsquaresmodprime"), "k<0" if c["k"] < 0 else "k>=0"
    if k == "logp":
        r = int(t[0]); a, b = c["a"], c["b"]
        return r >= 0 and b ** r <= a < b ** (r + 1), "r with p^r <= a < p^(r+1)", "logp", "a>=p" if a >= b else "a<p"
    if k in ("jacobi", "legendre", "kronecker"):
        exp = kronecker_py(c["a"], c["b"])
        if k == "legendre":
            e2 = pow(c["a"], (c["b"] - 1) // 2, c["b"]); e2 = -1 if e2 == c["b"] - 1 else e2
            if e2 != exp:
                return None, "ORACLE SELF-CHECK FAILED legendre", k, ""
        return int(t[0]) == exp, exp, k, "symbol"
    if k == "isqrt":
        exp = math.isqrt(c["a"]); return int(t[0]) == exp, exp, "sqrt", bop(c)
    if k == "isqrtrem":
        s = math.isqrt(c["a"]); return ints(t[:2]) == [s, c["a"] - s * s], [s, c["a"] - s * s], "sqrtrem", bop(c)
    if k == "iroot":
        s = iroot(c["a"], c["e"]); ex = 1 if s ** c["e"] == c["a"] else 0
        return ints(t[:2]) == [s, ex], [s, ex], "root", "n=%d" % c["e"]
    if k == "h_logtwo":
        v = float(t[0]); exp = math.log2(c["a"]) if bop(c) == "logtwo" else math.log(c["a"])
        return (v == v and abs(v - exp) <= 1e-9 * max(1.0, abs(exp))), "%.12g" % exp, bop(c), "bits<=1024" if c["a"].bit_length() <= 1024 else "bits>1024"
    if k == "h_size":
        a = c["a"]; limbs = (a.bit_length() + 63) // 64
        exp = {"length": 8 * limbs, "size": limbs, "bitsize": max(1, a.bit_length())}[bop(c)]
        return int(t[0]) == exp, exp, bop(c), "helper"
    if k == "h_ipp":
        a = c["a"]; exp = 1 if a in (0, 1) or any(iroot(a, e) ** e == a for e in range(2, a.bit_length() + 1)) else 0
        return int(t[0]) == exp, exp, "isperfectpower", "helper"
    if k == "h_nzr":
        return t[0] == "1" * 8 and 1 <= int(t[1]) <= c["a"], "8 draws in [1, 2^k)", "Integer::nonzerorandom", "bits"
    if k == "h_gcd":
        exp = math.gcd(c["a"], c["b"]); return int(t[0]) == exp, exp, "IntegerDom::gcd", "helper"
    if k == "h_powmod":
        exp = pow(c["a"], c["e"], c["n"]); return int(t[0]) == exp, exp, "IntegerDom::powmod", "helper"
    if k in ("h_inv", "h_invin"):
        x = int(t[0]); return (x * c["a"] - 1) % c["n"] == 0 and 0 <= x < c["n"], "the inverse of a modulo n in [0,n)", "IntegerDom::" + k[2:], "helper"
    if k == "h_mod":
        exp = c["a"] % c["n"]; return int(t[0]) == exp, exp, "IntegerDom::mod", "helper"
    raise KeyError(k)


UNJUDGED = []              # cases the oracle could not judge (reported under coverage.inconclusive, never silently passed)
MIN_THEOREMS = 47          # Properties.v as of phase 4: fewer re-checked theorems than this is a floor miss
NO_MODEL = {"isqrt", "isqrtrem", "iroot", "h_logtwo", "h_size", "h_ipp", "h_nzr", "h_gcd", "h_powmod", "h_inv", "h_invin", "h_mod"}


def model_line(c, out):
    """input line of the extracted model for this case (oracle inputs taken from the implementation's output)"""
    k = c["kind"]; t = out.split(";")[0].split()
    if k in NO_MODEL or c.get("nomodel"):
        return None
    if k in ("jacobi", "legendre", "kronecker"):
        return "kronecker %d %d" % (c["a"], c["b"])
    if k == "probable_prim_root":
        if len(t) > 1 and t[1] != "0":
            return None                       # incomplete factorisation (never for these p): no model
        parts = out.split(";")                 # result ; draws ; factor set of p-1 in the order IntFactorDom::set delivers it
        fs = parts[2].split() if len(parts) > 2 else []
        F = factor(c["n"] - 1)
        if sorted(zip(fs[0::2], fs[1::2])) != sorted((str(q), str(e)) for q, e in F.items()):
            return "BAD-FACTOR-SET"
        return "probable_prim_root %d %s %s" % (c["n"], L(fs), L(parts[1].split()))
    if bop(c) == "sumofsquares.mc":
        return "sos_mc %d %d %s" % (c["k"], c["p"], L(out.split(";")[1].split() if ";" in out else []))
    if k == "phi":
        return "phi %d %s" % (c["n"], L(c.get("Lf", sorted(factor(c["n"])) if c["n"] > 0 else [])))
    if k == "mobius" or k == "mobiusL":
        F = factor(c["n"]); return "mobiusL " + L(c.get("ex", [F[q] for q in sorted(F)]))
    if k in ("lambda", "lambda_inv"):
        return "%s %d %s" % (k, c["n"], L(flat(factor(c["n"]))))
    if k in ("lambda_inv_primpow", "lambda_primpow"):
        return "%s %d %d" % (k, c["p"], c["e"])
    if k in ("prim_elem", "prim_inv"):
        F = factor(c["n"]); A = int(t[0])
        return "%s %d %s" % (k, c["n"], L([v for q in sorted(F) for v in (q, F[q], A % q ** F[q])]))
    if k in ("order", "is_prim_root", "isorder", "lowest_prim_root"):
        n = c["n"]; Ln = sorted(factor(n)); Lphi = sorted(factor(phi_f(n))) if n > 1 else []
        if k == "order":
            return "order %d %d %s %s" % (c["a"], n, L(Ln), L(Lphi[::-1]))
        if k == "is_prim_root":
            return "is_prim_root %d %d %s %s" % (c["a"], n, L(Ln), L(Lphi))
        if k == "isorder":
            return "isorder %d %d %d %s %s" % (c["g"], c["a"], n, L(Ln), L(Lphi))
        return "lowest_prim_root %d %s %s" % (n, L(Ln), L(Lphi))
    if k == "prim_root":
        n = c["n"]; F = factor(n); F.pop(2, None)
        p = list(F)[0] if F else 2
        return "prim_root %d %d %s %d" % (n, p, L(sorted(factor(p - 1)) if p > 2 else []), int(t[0]) % p)
    if k == "prim_root_of_prime":       # the .L form hands its own list over (in the order given)
        return "prim_root_of_prime %d %s" % (c["n"], L(c["iargs"][1:] if bop(c).endswith(".L") else sorted(factor(c["n"] - 1))))
    if k == "sqrtp":
        dr = out.split(";")[1].split() if ";" in out else []
        return "sqrootmodprime %d %d %s" % (c["a"], c["p"], L(dr))
    if k == "sqrtpk":
        dr = out.split(";")[1].split() if ";" in out else []
        if c.get("site") == "sqrootlinear":
            return "sqrootlinear %d %d %d %s" % (c["a"], c["p"], c["k"], L(dr))
        return "sqrootmodprimepower %d %d %d %s" % (c["a"], c["p"], c["k"], L(dr))
    if k == "sqrt2k":
        return "sqrootmodpoweroftwo %d %d" % (c["a"], c["k"])
    if k == "sqrtn":
        return "sqrootmod %d %d %s" % (c["a"], c["n"], L(flat(c.get("F") or factor(c["n"]))))
    if k == "lift":
        return bop(c) + " " + " ".join(str(x) for x in c["iargs"])
    if k == "twolinear":
        return "sqroottwolinear %d %d" % (c["a"], c["k"])
    if k == "brillhart":
        return "brillhart %d" % c["p"]
    if k == "sos":
        if bop(c) == "sumofsquares.nonres":
            return "sos_nonres %d %d %d" % (c["k"], c["s"], c["p"])
        if bop(c) == "sumofsquares.noerh":
            kk, p = c["k"], c["p"]
            r0 = p % 4
            tr = kk % 4 if kk >= 0 else -((-kk) % 4)           # C++ % on a negative k truncates
            start = (r0 - tr if r0 == 1 else r0 + tr) * p + kk
            r = start
            for _ in range(100000):
                if r > 1 and is_prime(r):
                    break
                r += 4 * p
            return "sos_noerh %d %d %d" % (kk, p, r)
        return "sos_det %d %d" % (c["k"], c["p"])
    if k == "logp":
        return "logp %d %d" % (c["a"], c["b"])
    raise KeyError(k)


def corresponds(c, iout, mout):
    """implementation output vs model output"""
    k = c["kind"]; ti = iout.split(";")[0].split(); tm = mout.split()
    if tm and tm[0] in ("NONE", "EXN", "UNKNOWN-OP", "BAD-LINE"):
        return False
    if k == "prim_root":
        if ti[0] != tm[0]:
            return False
        return len(ti) < 2 or tm[1] == "0" or ti[1] == tm[1]       # runs: observable for the fixed candidates only
    if k == "sqrtn":
        xi, xm = int(ti[0]), int(tm[0])
        if xi == -1 or xm == -1:
            return xi == xm
        for q, e in (c.get("F") or factor(c["n"])).items():
            qe = q ** e
            if (xi - xm) % qe and not (q != 2 and (xi + xm) % qe == 0):
                return False
        return 0 <= xi and 0 <= xm
    if k == "probable_prim_root":
        return ti[0] == tm[0]
    if k == "sos" and bop(c) != "sumofsquares.noerh":
        p = c["p"]
        return all((int(x) - int(y)) % p == 0 or (int(x) + int(y)) % p == 0 for x, y in zip(ti[:2], tm[:2]))
    n = {"brillhart": 2, "sos": 2, "isqrtrem": 2, "iroot": 2}.get(k, 1)
    return ti[:n] == tm[:n]


# ------------------------------------------------------------------------------------------------ source tie
# Constants, thresholds, branch conditions and the candidate order the theorems depend on are READ from /repo's current
# source on every run and compared with what coq/C13/Model.v contains (also read, not hard-coded here).  A difference means the
# theorems of Properties.v speak about another algorithm than the compiled one: reported as a broken obligation.
def _norm(m):
    return tuple(int(x) if (isinstance(x, str) and x.lstrip("-").isdigit()) else x for x in (m if isinstance(m, tuple) else (m,)))


SQ_INL = "src/kernel/integer/givintsqrootmod.inl"
NT_INL = "src/kernel/integer/givintnumtheo.inl"
# (name, source file, source regex, Model.v regex, map source groups -> model groups)
TIE = [
    ("2^k: linear lifting below k", SQ_INL, r"if\s*\(\s*k\s*<\s*(\d+)\s*\)\s*return\s+sqroottwolinear", r"else if k <\? (\d+) then sqroottwolinear tmpa k", None),
    ("p^k: linear lifting below k", SQ_INL, r"if\s*\(\s*k\s*<\s*(\d+)\s*\)\s*return\s+sqrootlinear", r"else if k <\? (\d+) then sqrootlinear a p k draws", None),
    ("class p = 3 mod 4", SQ_INL, r"if\(\(p&(\d+)U\)==(\d+)U\)\{Rep ppu\(p\);", r"if p mod (\d+) =\? (\d+) then Some \(powmod amp \(\(p \+ 1\) / 4\) p\)", lambda g: (g[0] + 1, g[1])),
    ("class p = 5 mod 8 (Atkin)", SQ_INL, r"if\(\(p&(\d+)U\)==(\d+)U\)\{Rep tmp;Rep puis\(p\);puis-=1;puis>>=2U;", r"if p mod (\d+) =\? (\d+) then\s+let tmp := powmod amp \(\(p - 1\) / 4\) p", lambda g: (g[0] + 1, g[1])),
    ("class p = 9 mod 16 (Mueller)", SQ_INL, r"if\(\(p&(\d+)U\)==(\d+)U\)\{Rep i\(amp\);i<<=1;", r"else if p mod (\d+) =\? (\d+) then mueller amp p draws", lambda g: (g[0] + 1, g[1])),
    ("exponent (p+1)/4", SQ_INL, r"Rep ppu \(p\);\s*\+\+ppu;\s*ppu >>= (\d+)U;", r"powmod amp \(\(p \+ 1\) / (\d+)\) p", lambda g: (2 ** g[0],)),
    ("exponent (p+3)/8", SQ_INL, r"puis = p;\s*puis \+= (\d+)U;\s*puis >>= (\d+)U;", r"if tmp =\? 1 then Some \(powmod amp \(\(p \+ (\d+)\) / (\d+)\) p\)", lambda g: (g[0], 2 ** g[1])),
    ("exponent (p-5)/8", SQ_INL, r"puis = p;puis -= (\d+)U;puis >>= (\d+)U;Rep a4\(amp\)", r"powmod \(amp \* 4\) \(\(p - (\d+)\) / (\d+)\) p", lambda g: (g[0], 2 ** g[1])),
    ("exponent (p-9)/16", SQ_INL, r"puis = p;puis -= (\d+)U;puis >>= (\d+)U;i \*= d;i \*= d;", r"powmod i1 \(\(p - (\d+)\) / (\d+)\) p", lambda g: (g[0], 2 ** g[1])),
    ("Tonelli-Shanks exponent: Integer shift of 1 by r-m-1", SQ_INL,
     r"Rep b2k, t, (puis)\(r\);[\s\S]*?int64_t lpuis = (r); lpuis -= (m); (--)lpuis;\s*puis = (1); puis (<<=) lpuis;powmod \(t, y, puis, p\);",
     r"let lpuis := (r) - (m) - (1) in\s+let puis := (shl) (1) lpuis in\s+let t := powmod y (puis) p in",
     lambda g: (g[1], g[2], 1 if g[3] == "--" else g[3], "shl" if g[5] == "<<=" else g[5], g[4], g[0])),
    ("2^k linear loop start (pk, pk2, i)", SQ_INL, r"Rep pk\((\d+)\);\s*Rep pk2\((\d+)\);\s*for\(uint64_t i=(\d+);i<=k;i\+\+\)", r"twolinear_loop \(Z\.to_nat \(k - (\d+)\)\) x a (\d+) (\d+)", lambda g: (g[2] - 1, g[0], g[1])),
    ("2^k odd-k correction pk>>2", SQ_INL, r"return x \+= pk>>(\d+);", r"if u =\? 0 then x1 else x1 \+ pk / (\d+)", lambda g: (2 ** g[0],)),
    ("phi guards", NT_INL, r"if \(Rep::isleq\(n,(\d+)\)\) return res=n;\s*if \(Rep::isleq\(n,(\d+)\)\) return Rep::sub\(res,n,this->one\);\s*res = n;", r"if n <=\? (\d+) then n else if n <=\? (\d+) then n - 1 else phi_loop n Lf", None),
    ("prim_root guards n<=4, 4|n", NT_INL, r"if \(Rep::isleq\(n,(\d+)\)\)\s*return this->sub\(A,n,this->one\);\s*if \(this->isZero\(this->mod\(A,n,(\d+)\)\)\)\s*return A=this->zero;\s*Rep p,ismod2", r"if n <=\? (\d+) then Some \(n - 1, 0\) else\s+if n mod (\d+) =\? 0 then Some \(0, 0\) else", None),
    ("prim_root fixed candidates", NT_INL, r"runs = 0;\s*A=(\d+);[\s\S]*?A=(\d+);[\s\S]*?A=(\d+);[\s\S]*?A=(\d+);[\s\S]*?while \(! found\)", r"if pr_test (\d+) p Lq then Some \(\d+, 1\) else\s+if pr_test (\d+) p Lq then Some \(\d+, 2\) else\s+if pr_test (\d+) p Lq then Some \(\d+, 3\) else\s+if pr_test (\d+) p Lq then Some \(\d+, 4\) else", None),
    ("prim_root random candidate range", NT_INL, r"this->addin\( this->modin\(A,this->sub\(tmp,p,(\d+)\)\) , (\d+)\);", r"if \((\d+) <=\? cand\) && \(cand <\? p\)", lambda g: (g[1],) if g[0] == g[1] else ("mismatch",)),
    ("lambda_inv_primpow p = 2", NT_INL, r"if \(e<=(\d+)\)\s*return this->init\(z,e\);\s*if \(e==(\d+)\)\s*return this->init\(z,(\d+)\);\s*return dom_power\(z, p, \(long\)e-(\d+), \*this\);", r"Definition lambda_inv_primpow \(p e : Z\) : Z :=\s+if p =\? 2 then \(if e <=\? (\d+) then e else if e =\? (\d+) then (\d+) else 2 \^ \(e - (\d+)\)\)", None),
    ("lambda_primpow p = 2", NT_INL, r"if \(e<=(\d+)\) return this->init\(z,e\);\s*return dom_power\(z, p, e-(\d+), \*this\);", r"Definition lambda_primpow \(p e : Z\) : Z :=\s+if p =\? 2 then \(if e <=\? (\d+) then e else 2 \^ \(e - (\d+)\)\)", None),
    ("prim_root_of_prime: first prime, order correction of the second phase", NT_INL,
     r"Rep prime\((\d+)\), Aorder=this->one;[\s\S]*?(ppin)\(g, \*f\);\s*(ppin)\(Aorder, \*f\);\s*\}\s*this->powmod\(tmp, prime, g, n\);[\s\S]*?this->mulin\(Aorder, this->div\(tmp, (phin), (g)\)\);",
     r"let g := fold_left \(fun g f => (ppin) \(log2_fuel g\) g f\) oldLf phin in\s+let Ao := fold_left \(fun g f => (ppin) \(log2_fuel g\) g f\) oldLf Aorder in[\s\S]*?\(Ao \* \((phin) / (g)\)\)[\s\S]*?prp_first 200 (\d+) n phin Lf",
     lambda g: (g[1], g[2], g[3], g[4], g[0])),
    ("sqrootmod: the per-prime-power roots go to a local, x is written once at the end (in-place call = three-address call)", SQ_INL,
     r"std::vector < Rep > roots;\s*Rep (tmp);[\s\S]*?this->sqrootmodpoweroftwo \((\w+), a, \*Le_iter, \*Pe_iter\)\);[\s\S]*?this->sqrootmodprimepower \((\w+), a, \*Lf_iter, \*Le_iter, \*Pe_iter\)\);\s*\}\s*if \((\w+) == -1\) return x = -1;[\s\S]*?RNs\.RnsToRing \((x), roots\);",
     r"match r, roots_of (a) tl draws with",
     lambda g: ("a",) if g[:4] == ("tmp", "tmp", "tmp", "tmp") and g[4] == "x" else ("the output is used as scratch",) + g),
    ("lambda / prim_elem (01ad5d5): nilpotent components contribute the tail e-1, the others the lcm of lambda_inv_primpow; strict improvement", NT_INL,
     r"if \(\(mask >> i\) & 1U\) \{ if \(Le\[i\]-(\d+) > tail\) tail = Le\[i\]-(\d+); \}\s*else this->lcmin\(cyc, (lambda_inv_primpow)\(tmp, Lp\[i\], Le\[i\]\)\);\s*\}\s*cyc \+= tail;\s*if \(cyc (>) z\) z = cyc;",
     r"if Z\.odd mask then \(Z\.max tail \(e - (\d+)\), cyc\) else \(tail, Z\.lcm cyc \((lambda_inv_primpow) p e\)\)[\s\S]*?let cand := cyc \+ tail in\s+if best (<\?) cand",
     lambda g: (g[0], g[2], "<?" if g[3] == ">" else g[3]) if g[0] == g[1] else ("mismatch",) + g),
    ("Brillhart: fold x into [0, p/2], loop bound", SQ_INL, r"b=x>\(p>>(\d+)\)\?p-x:x;[\s\S]*?if \(! this->isOne\(a\)\) \{\s*while\(a>s\)", r"let b := if p / (\d+) <\? x then p - x else x in\s+let a := p mod b in\s+if a =\? 1 then Some \(a, b\) else", lambda g: (2 ** g[0],)),
]


def _src_tokens(txt):
    """C++ text without comments and without ANY white space: re-indentation / re-wrapping of the source is not a difference"""
    txt = re.sub(r"/\*.*?\*/", "", txt, flags=re.S)
    txt = re.sub(r"//[^\n]*", "", txt)
    return re.sub(r"\s+", "", txt)


def _src_pattern(rs):
    return rs.replace("[\\s\\S]", ".").replace("\\s*", "").replace("\\s+", "").replace(" ", "")


def _model_tokens(txt):
    """Model.v without comments, white space runs collapsed to one blank"""
    prev = None
    while prev != txt:
        prev = txt; txt = re.sub(r"\(\*(?:(?!\(\*|\*\)).)*\*\)", " ", txt, flags=re.S)
    return re.sub(r"\s+", " ", txt)


def _model_pattern(rm):
    return rm.replace("[\\s\\S]", ".").replace("\\s+", " ").replace("\\s*", " ?")


def source_tie(chk):
    model = _model_tokens(open(os.path.join(vf.coq_dir(AREA), "Model.v")).read())
    rows = []; bad = []
    cache = {}
    for name, fn, rs, rm, mp in TIE:
        if fn not in cache:
            try:
                cache[fn] = _src_tokens(open(os.path.join(vf.REPO, fn)).read())
            except OSError as ex:
                cache[fn] = ""
        ms = re.search(_src_pattern(rs), cache[fn], flags=re.S); mm = re.search(_model_pattern(rm), model, flags=re.S)
        if mm is None:
            bad.append("%s: pattern not found in Model.v (tie out of date)" % name); continue
        if ms is None:
            bad.append("%s: the statement the model was written after is no longer in %s" % (name, fn)); continue
        gs = _norm(ms.groups()); gm = _norm(mm.groups())
        try:
            gs2 = _norm(mp(gs)) if mp else gs
        except Exception as ex:
            gs2 = ("unmappable",) + gs
        rows.append({"what": name, "source": list(gs), "model": list(gm), "agree": gs2 == gm})
        if gs2 != gm:
            bad.append("%s: source has %s, Model.v (and the theorems about it) has %s" % (name, list(gs), list(gm)))
    chk.cov["source_tie"] = rows
    for b in bad[:12]:
        chk.broke("source constant / statement differs from the model: " + b)
    return not bad

# ------------------------------------------------------------------------------------------------ build
PROBE = """#include "gmp++/gmp++.h"
#include "givinteger.h"
#include "givintnumtheo.h"
using namespace Givaro;
int main() { IntNumTheoDom<GivRandom> NT; Integer r; %s; return (int)(long)r; }
"""
PROBES = {"mobius_int": ("C13_HAVE_MOBIUS_INT", "r = NT.mobius(Integer(12))", "IntNumTheoDom::mobius(const Rep&)"),
          "prim_inv": ("C13_HAVE_PRIM_INV", "NT.prim_inv(r, Integer(12))", "IntNumTheoDom::prim_inv"),
          "lambda_primpow": ("C13_HAVE_LAMBDA_PRIMPOW", "NT.lambda_primpow(r, Integer(2), 5)", "IntNumTheoDom::lambda_primpow")}


def build_impl(chk):
    """compile the harness; three public members of IntNumTheoDom do not instantiate in some trees: detect which"""
    allf = ["-D" + v[0] for v in PROBES.values()]
    b, log = vf.build_harness("c13_numtheo.C", extra_flags=allf, name="c13_numtheo_all")
    have = {k: True for k in PROBES}
    if b is None:
        key = vf.file_hash(vf.repo_sources(), "c13probe")
        d = vf.mkdir(os.path.join(vf.CACHE, "h-c13probe-" + key))
        procs = {}
        for k, (flag, stmt, site) in PROBES.items():
            res = os.path.join(d, k + ".res")
            if os.path.exists(res):
                have[k] = open(res).read().strip() == "1"
                continue
            src = os.path.join(d, k + ".C")
            open(src, "w").write(PROBE % stmt)
            procs[k] = subprocess.Popen([vf.CXX] + vf.BASE_FLAGS + vf.inc_flags() + ["-fsyntax-only", src],
                                        stdout=subprocess.DEVNULL, stderr=subprocess.DEVNULL)
        for k, pr in procs.items():
            have[k] = pr.wait() == 0
            open(os.path.join(d, k + ".res"), "w").write("1" if have[k] else "0")
        vf.prune_cache("h-c13probe-", keep=4)
        flags = ["-D" + PROBES[k][0] for k in PROBES if have[k]]
        b, log = vf.build_harness("c13_numtheo.C", extra_flags=flags, name="c13_numtheo")
    return b, log, have


def run_parallel(binary, lines, nproc=6, timeout=300, restarts=12, stall=None, max_stalls=4, env=None):
    """run the line-protocol binary on `lines` split round-robin over nproc processes.  A process that dies or hangs on a
    line gets the output CRASH for that line and is restarted on the rest (at most `restarts` restarts per chunk).
    timeout: limit for one process run; stall: limit for the time WITHOUT a new output line (a hang is then found after
    `stall` seconds instead of `timeout`); after max_stalls hangs a chunk is abandoned (its remaining lines stay None).
    returns (ok, outputs in order, err)"""
    if not lines:
        return True, [], ""
    nproc = max(1, min(nproc, len(lines) // 200 + 1))
    chunks = [lines[i::nproc] for i in range(nproc)]
    import threading, time as _tm
    res = [None] * nproc

    def run_once(todo):
        pr = subprocess.Popen([binary], stdin=subprocess.PIPE, stdout=subprocess.PIPE, stderr=subprocess.DEVNULL, universal_newlines=True, errors="replace",
                              env=(dict(os.environ, **env) if env else None))
        got = []; last = [_tm.time()]

        def feed():
            try:
                pr.stdin.write("".join(l + "\n" for l in todo)); pr.stdin.close()
            except (BrokenPipeError, OSError, ValueError):
                pass

        def read():
            for l in pr.stdout:
                got.append(l); last[0] = _tm.time()
        tf = threading.Thread(target=feed, daemon=True); tr = threading.Thread(target=read, daemon=True)
        tf.start(); tr.start()
        t0 = _tm.time(); rc = None
        while True:
            rc = pr.poll()
            if rc is not None:
                break
            now = _tm.time()
            if now - t0 > timeout or (stall is not None and now - last[0] > stall):
                pr.kill(); pr.wait(); rc = 124
                break
            _tm.sleep(0.05)
        tr.join(10); tf.join(2)
        ol = [l.rstrip("\n") for l in got if l.endswith("\n")]          # a last line without newline is incomplete
        return rc, ol

    def work(i):
        todo = chunks[i]; outs = []; errs = ""; stalls = 0
        for attempt in range(restarts + 1):
            if not todo:
                break
            rc, ol = run_once(todo)
            ol = ol[:len(todo)]
            outs += ol
            if len(ol) == len(todo):
                todo = []
                break
            if ol and ol[-1].startswith("DOES-NOT-RETURN"):      # the per-case CPU watchdog answered for this case and ended the process
                todo = todo[len(ol):]
                stalls += 1
                if stalls >= max_stalls:
                    errs += "chunk abandoned after %d calls that did not return, %d lines not run\n" % (stalls, len(todo))
                    break
                continue
            errs += "rc=%s at `%s`\n" % (rc, todo[len(ol)][:200])
            outs.append("CRASH rc=%s" % rc)
            todo = todo[len(ol) + 1:]
            if rc == 124:
                stalls += 1
                if stalls >= max_stalls:
                    errs += "chunk abandoned after %d hangs, %d lines not run\n" % (stalls, len(todo))
                    break
        res[i] = (outs, errs, len(todo) == 0)
    ths = [threading.Thread(target=work, args=(i,)) for i in range(nproc)]
    [t.start() for t in ths]; [t.join() for t in ths]
    out = [None] * len(lines); ok = True; err = ""
    for i, (o, e, done) in enumerate(res):
        ok = ok and done
        err += e
        for j2, l in enumerate(o[:len(chunks[i])]):
            out[i + j2 * nproc] = l
    return ok, out, err


def report_unsupported_inplace(chk, himpl, unsafe, listed):
    """the in-place forms the baseline tree does not support and known_findings.json does not list as fixed: a sample per form,
    short stall limit.  Not listed: NO verdict, the outcome is recorded in the evidence (and in frag/C13.findings.json for the
    coordinator).  Listed as known: the failures are reported through fail_input (KNOWN-FINDING)."""
    import threading
    byform = {}
    for c in unsafe:
        byform.setdefault(c["iop"], []).append(c)
    out = {}

    def one(form, cs):
        cs = [cs[(j * 7919) % len(cs)] for j in range(min(12, len(cs)))]
        lines = ["%s %s" % (c["iop"], " ".join(str(x) for x in c["iargs"])) for c in cs]
        ok, o, err = run_parallel(himpl, lines, nproc=1, timeout=40, stall=4, restarts=3, max_stalls=2)
        cache = {}; bad = 0; first = None
        for c, l in zip(cs, o):
            good = l is not None and not l.startswith("CRASH") and spec(c, l, cache)[0] is True
            if not good:
                bad += 1
                first = first or {"call": "%s %s" % (c["iop"], " ".join(str(x) for x in c["iargs"]))[:120], "observed": str(l)[:80]}
                if listed.get(inplace_site(c)) == "known" and bad <= 2:
                    st, kl = inplace_site(c)
                    fails.append((st, kl, dict(c), str(l)[:120]))
        out[form] = {"site_klass": list(inplace_site(cs[0])), "sample": len(cs), "not_as_with_distinct_objects": bad, "first": first}
    fails = []
    ths = [threading.Thread(target=one, args=(f, cs)) for f, cs in byform.items()]
    [t.start() for t in ths]; [t.join() for t in ths]
    for st, kl, cc, obs in fails:
        chk.fail_input(st, kl, {kk: (str(v) if isinstance(v, int) and abs(v) > 2 ** 62 else v) for kk, v in cc.items()},
                       "the result of the call with distinct objects", obs, "the body reads an input after it has written the output")
    chk.cov["in_place_forms_not_supported_by_the_baseline_tree"] = {
        "note": "no verdict: the bodies read an input after writing the output (frag/C13.findings.json, frag/C13.fix-7.diff); "
                "a form gets a verdict as soon as known_findings.json lists its (site, klass)", "forms": dict(sorted(out.items()))}


def main(tier, replay=None):
    chk = vf.Check("C13", tier, "proof")
    rng = vf.Rng(chk.seed)
    chk.cov["trusted_base"] = [
        "Coq 8.16.1 kernel + vm_compute (no native_compute)",
        "extraction: ExtrOcamlBasic only; Z/positive/nat kept as extracted inductives; OCaml 4.13.1; zarith only for text I/O in harness/zio.ml",
        "GMP primitives are specified in Model.v by their Z-level meaning (mpz_powm, mpz_invert, mpz_mod, mpz_tdiv_q/r, mpz_sqrt, mpz_gcd, mpz_lcm, mpz_legendre for an odd prime modulus = Euler's criterion); validated by the correspondence run",
        "number-theoretic facts that enter the per-branch theorems as HYPOTHESES (not proved here): Euler's criterion a^((p-1)/2) = 1 for the residue, 2^((p-1)/2) = -1 for p = 5 mod 8 (second supplementary law), Euler's theorem a^phi(n) = 1 in the order theorem, the returned inverse is an inverse (mpz_invert)",
        "factor sets, random draws and primality verdicts are inputs of the model (IntFactorDom::set, Integer::nonzerorandom, isprime are C12's / GMP's); the python factoriser and Miller-Rabin of checks/C13.py produce them for the correspondence run",
        "IntRNSsystem::RnsToRing (Garner) is re-modelled in Model.v for the recombination step; its own theorems are C14's",
        "harness/c13_numtheo.C, checks/C13.py (generators, python oracles); g++ / x86-64 for the implementation side",
    ]
    chk.assumptions = [
        "model is hand-written after the code; tie = correspondence on generated cases (exact, except: sqrootmod compared per prime power up to the sign of the root, sumofsquares (deterministic, with non-residue) up to the sign of each component, prim_root with the implementation's candidate re-checked by the model's guard)",
        "not modelled, specification oracle only: sqrt/sqrtrem/root (single GMP calls); jacobi/legendre/kronecker are modelled by the binary Kronecker-symbol algorithm; probable_prim_root (complete factorisation) and sumofsquaresmodprimeMonteCarlo consume the re-produced random draws",
        "domain: n >= 2 for lambda/prim_elem (n = 1 dereferences an empty vector), n of the shape 2,4,p^m,2p^m or 4 | n for prim_root (documented: loops forever otherwise), odd primes for prim_root_of_prime, a >= p >= 2 for logp, p prime for the sqrt-mod-prime family",
    ]
    # 1. proofs
    import time as _t
    ph = {}; t0 = _t.time()
    tooling = []                               # time-outs of coqc / ocamlopt / g++ (machine load): inconclusive, never a broken obligation
    res = vf.coq_check_props(AREA, timeout=3000)
    if not res["ok"] and not res["forbidden"] and "[timeout after" in res["log"]:
        chk.cov["obligations"] = chk.cov.get("obligations", 0) + len(res["theorems"])
        tooling.append("the Coq build of coq/C13 did not finish within 3000 s: the theorems were NOT re-checked in this run")
    else:
        chk.proof_result(res, AREA)
    source_tie(chk)
    # what this evidence is about: /repo's HEAD (and whether the tree is modified) and the model text
    import hashlib
    rc_h, head = vf.sh(["git", "-C", vf.REPO, "rev-parse", "HEAD"], timeout=60)
    rc_d, dirty = vf.sh(["git", "-C", vf.REPO, "status", "--porcelain", "--untracked-files=no"], timeout=120)
    chk.cov["repo"] = {"path": vf.REPO, "head": head.strip()[:40] if rc_h == 0 else "?", "modified_files": [l[3:] for l in dirty.splitlines()][:10] if rc_d == 0 else ["?"]}
    chk.cov["model_sha256"] = {f: hashlib.sha256(open(os.path.join(vf.coq_dir(AREA), f), "rb").read()).hexdigest()[:16] for f in ("Model.v", "Properties.v")}
    ph["coq"] = round(_t.time() - t0, 1); t0 = _t.time()
    # 2. executables
    drv, l1 = vf.ocaml_build(AREA) if os.path.exists(os.path.join(vf.coq_dir(AREA), "ocaml", "model.ml")) else (None, "extraction did not run")
    if drv is None and "[timeout after" in (l1 or ""):
        tooling.append("ocamlopt did not finish the model driver in time: no correspondence comparison in this run")
    elif drv is None and not tooling:
        chk.broke("extracted model driver does not build", l1)
    himpl, l2, have = build_impl(chk)
    if himpl is None and "[timeout after" in (l2 or ""):
        tooling.append("g++ did not finish the harness in time: NOTHING of the implementation was judged in this run")
        chk.cov["inconclusive"] = tooling; chk.cov["floor_missed"] = ["no implementation run"]
        print("INCONCLUSIVE-PARTS property=C13 " + "; ".join(tooling))
        return chk.finish()
    if himpl is None:
        chk.broke("implementation harness does not compile against /repo", l2)
        return chk.finish()
    chk.cov["members_that_instantiate"] = have
    ph["build"] = round(_t.time() - t0, 1); t0 = _t.time()
    for k, (flag, stmt, site) in PROBES.items():
        if not have[k]:
            chk.fail_input(site, "does-not-compile", {"statement": stmt}, "the public member instantiates", "compile error",
                           "the member template body does not compile when instantiated (unqualified dependent-base calls / wrong container type)")
    # 3. cases
    if replay:
        rp = json.load(open(replay))
        cases = [Case(f["case"]) for f in rp.get("failing_inputs", []) if isinstance(f.get("case"), dict) and "iop" in f["case"]]
    else:
        cases = gen_cases(rng, tier, have)
    # calls that may not terminate get their own process and a short timeout (prim_root_of_prime(2) looped forever before fix-6)
    if not replay:
        probes = [mk("prim_root_of_prime", [2], "prim_root_of_prime", n=2), mk("prim_root_of_prime.L", [2], "prim_root_of_prime", n=2),
                  mk("prim_root_of_prime", [3], "prim_root_of_prime", n=3), mk("prim_root_of_prime.L", [3, 2], "prim_root_of_prime", n=3)]
        for pc in probes:
            okp, po, pe = run_parallel(himpl, ["%s %s" % (pc["iop"], " ".join(str(x) for x in pc["iargs"]))], nproc=1, timeout=4, restarts=0)
            if po and po[0] and not po[0].startswith("CRASH"):
                cases.append(pc)
            else:
                chk.fail_input(S_NT + "prim_root_of_prime", "n=%d" % pc["n"], dict(pc), "a primitive root of the prime n", "no result within 4 s", "the call does not terminate")
    listed = listed_findings()
    is_unsafe = lambda c: bool(c.get("inplace")) and c["iop"] in BASELINE_UNSAFE and listed.get(inplace_site(c)) != "fixed"
    unsafe = [c for c in cases if is_unsafe(c)]
    if unsafe:
        cases = [c for c in cases if not is_unsafe(c)]
        report_unsupported_inplace(chk, himpl, unsafe, listed)
    ilines = ["%s %s" % (c["iop"], " ".join(str(x) for x in c["iargs"])) for c in cases]
    tmo = 1500 if tier == "thorough" else 280
    inconclusive = list(tooling)
    okr, iout, ierr = run_parallel(himpl, ilines, nproc=8, timeout=tmo, stall=240 if tier == "thorough" else 90,
                                   env={"C13_CPU_BUDGET": "20" if tier == "thorough" else "8"})
    # calls the per-case CPU watchdog cut off (8 s of CPU, 20 s in the thorough tier; the slowest call of the unchanged tree needs
    # 0.6 s): the first three are re-run ALONE with 60 s of CPU before they are reported; if those confirm, the others are reported too
    dnr = [i for i, o in enumerate(iout) if o is not None and o.startswith("DOES-NOT-RETURN")]
    slow = []
    for i in dnr[:3]:
        ok1, o1, e1 = run_parallel(himpl, [ilines[i]], nproc=1, timeout=900, restarts=0, env={"C13_CPU_BUDGET": "30"})
        if o1 and o1[0] is not None and not o1[0].startswith(("DOES-NOT-RETURN", "CRASH")):
            iout[i] = o1[0]; slow.append(ilines[i][:120])
        elif o1 and o1[0] is not None and o1[0].startswith("DOES-NOT-RETURN"):
            iout[i] = "DOES-NOT-RETURN cpu>30s"
        else:
            iout[i] = None                     # the re-run itself was cut by the wall clock: inconclusive for this case, not a verdict
            inconclusive.append("re-run of `%s` alone gave no answer within the wall-clock limit" % ilines[i][:120])
    chk.cov["calls_cut_by_the_cpu_watchdog_but_returning_when_run_alone"] = slow
    if dnr[3:] and not any(iout[i] is not None and iout[i].startswith("DOES-NOT-RETURN") for i in dnr[:3]):
        for i in dnr[3:]:                      # none of the re-runs confirmed: the remaining cuts are tooling noise, not verdicts
            iout[i] = None
        inconclusive.append("%d calls cut by the CPU watchdog were not confirmed by a run alone" % len(dnr[3:]))
    for i in dnr:
        if iout[i] is not None and iout[i].startswith("DOES-NOT-RETURN"):
            c = cases[i]
            st = inplace_site(c)[0] if c.get("inplace") else "harness:" + bop(c)
            chk.fail_input(st, ("inplace:out=in" + c["inplace"]) if c.get("inplace") else "does-not-return",
                           {kk: (str(v) if isinstance(v, int) and abs(v) > 2 ** 62 else v) for kk, v in c.items()},
                           "a result", iout[i], "the call does not return (CPU-time watchdog, confirmed by a run of this case alone)")
    dnrset = {i for i in dnr if iout[i] is None or iout[i].startswith("DOES-NOT-RETURN")}
    crashed = [i for i, o in enumerate(iout) if i not in dnrset and (o is None or o.startswith("CRASH"))]
    notrun = [i for i in crashed if iout[i] is None]
    if notrun:                                 # lines of a chunk abandoned after repeated hangs: not judged, and said so
        inconclusive.append("%d implementation cases were not run (chunk abandoned after repeated hangs)" % len(notrun))
        chk.cov["inconclusive"] = list(inconclusive)
    for i in [j for j in crashed if iout[j] is not None][:40]:
        chk.fail_input("harness:" + cases[i]["iop"], "crash-or-hang", dict(cases[i]), "a result line", str(iout[i]), "the implementation crashed or hung on this case; " + ierr[-300:])
    if not okr:
        chk.broke("implementation harness failed repeatedly", ierr[-2000:])
        return chk.finish()
    ph["gen+impl"] = round(_t.time() - t0, 1); t0 = _t.time()
    mlines = [None if (o is None or o.startswith("CRASH")) else model_line(c, o) for c, o in zip(cases, iout)]
    mout = None
    idx = [i for i, m in enumerate(mlines) if m is not None]
    if drv:
        # a fixed pseudo-random permutation spreads the expensive traces evenly over the processes
        idx.sort(key=lambda i: (i * 2654435761) % 4294967291)
        # the model is a function of its input line: identical lines (the in-place forms of one call, repeated arguments) are run once
        uniq = {}
        for i in idx:
            uniq.setdefault(mlines[i], len(uniq))
        ulines = sorted(uniq, key=uniq.get)
        okm, umo, merr = run_parallel(drv, ulines, nproc=12, timeout=tmo, restarts=3)
        mo = [umo[uniq[mlines[i]]] for i in idx]
        chk.cov["distinct_model_traces"] = len(ulines)
        # a time-out of the extracted model (machine load) is an inconclusive stream, recorded, never a violation
        slow = [j for j, o in enumerate(mo) if o is None or o.startswith("CRASH rc=124")]
        died = [j for j, o in enumerate(mo) if o is not None and o.startswith("CRASH") and not o.startswith("CRASH rc=124")]
        chk.cov["model_traces_inconclusive_timeout"] = len(slow)
        if died:
            chk.broke("model driver died on %d lines, first `%s`" % (len(died), mlines[idx[died[0]]][:200]), merr[-1500:])
        mout = {i: o for j, (i, o) in enumerate(zip(idx, mo)) if o is not None and not o.startswith("CRASH")}
    ph["model"] = round(_t.time() - t0, 1); t0 = _t.time()
    # 4. three-way comparison
    cache = {}
    ncorr = 0
    dist = {}
    nb = 0
    crashed = set(crashed) | dnrset
    distinct_out = {(c["iop"], tuple(c["iargs"])): iout[i] for i, c in enumerate(cases) if not c.get("inplace") and i not in crashed}
    nip = 0
    for i, c in enumerate(cases):
        if i in crashed:
            continue
        ok, exp, site, klass = spec(c, iout[i], cache)
        if c.get("inplace") and not (klass == K_ORBIT and not ok):      # a definition mismatch is the same with distinct objects: keep its key
            site, klass = inplace_site(c)
            nip += 1
            ref = distinct_out.get((bop(c), tuple(c["iargs"])))
            if ok and bop(c) in INPLACE_EXACT and ref is not None and ref.split(";")[0].split() != iout[i].split(";")[0].split():
                ok = False; exp = "%s (the result of the same call with distinct objects)" % ref.split(";")[0].strip()
        key = c["kind"] + "/" + klass
        dist[key] = dist.get(key, 0) + 1
        chk.count((c["iop"], tuple(c["iargs"])), nontrivial=any(abs(x) > 1 for x in c["iargs"]))
        if i % 2503 == 0:
            chk.sample({"op": c["iop"], "args": [str(x) for x in c["iargs"]], "impl": iout[i][:120], "spec": str(exp)[:120]})
        if ok is None:
            chk.broke("specification oracle self-check failed: %s" % exp)
            continue
        if not ok and klass == K_ORBIT and (site, klass) not in listed:
            # a discrepancy with the header's definition that is filed (frag/C13.findings.json, fix-8) but not yet listed in
            # known_findings.json: reported in the evidence, no verdict, never a silent pass
            pend = chk.cov.setdefault("definition_mismatch_filed_not_yet_listed", {"count": 0, "first": []})
            pend["count"] += 1
            if len(pend["first"]) < 6:
                pend["first"].append({"call": ilines[i][:80], "definition": str(exp)[:80], "observed": iout[i][:40]})
            continue
        if not ok:
            cc = {kk: (str(v) if isinstance(v, int) and abs(v) > 2 ** 62 else v) for kk, v in c.items()}
            chk.fail_input(site, klass, cc, str(exp), iout[i][:300], "implementation differs from the definition")
            continue                                   # no additional correspondence report for the same case
        if mout is not None and i in mout:
            ncorr += 1
            if not corresponds(c, iout[i], mout[i]):
                nb += 1
                if nb <= 20:
                    chk.broke("correspondence model/implementation differs on `%s`: model(%s) = %s, impl = %s" % (ilines[i][:200], mlines[i][:300], mout[i][:200], iout[i][:200]))
            else:
                mok = spec(c, mout[i], cache)[0]
                if mok is False:
                    nb += 1
                    if nb <= 20:
                        chk.broke("extracted model differs from the specification oracle on `%s`: model = %s, spec = %s" % (mlines[i][:300], mout[i][:200], exp))
    if nb > 20:
        chk.broke("... %d more correspondence differences" % (nb - 20))
    chk.cov["rule"] = ("every n up to a bound x every call form (phi, mobius, lambda, order, primitive roots, sqrt mod p / p^k / 2^k / n, sums of squares, "
                       "logp, symbols) against brute-force definitions; large moduli (multi-limb primes of every class mod 16, p^k with k <= 40, 2^k with k <= 100, "
                       "a = residue / non-residue / divisible by p^t / negative / unreduced) through self-certifying checks; "
                       "non-trivial = some argument of magnitude > 1; distinct = (call form, arguments)")
    chk.cov["traces_validated_against_impl"] = ncorr
    forms = {}
    for c in cases:
        forms[c["iop"]] = forms.get(c["iop"], 0) + 1
    chk.cov["call_forms"] = dict(sorted(forms.items()))                # every public call form driven by the harness: cases per form
    chk.cov["in_place_calls"] = {"cases": nip, "cases_per_form": IP.get("counts", {}),
                                 "rule": "every function with an output parameter, the output being the same object as each input in turn (op@i: first output = "
                                         "input i, op@@i: second output, 9 = the modulus object pk); deterministic grid of primes, prime powers, 2^k, composites "
                                         "with 2..4 prime powers, residues and non-residues; verdict = oracle on the original arguments + model + (deterministic "
                                         "functions) equality with the distinct-objects call"}
    chk.cov["size_thresholds"] = {"cases": TH.get("total", 0), "primes": TH.get("primes", 0), "cases_per_form": TH.get("counts", {}),
                                  "table_entries_re_searched": TH.get("table_entries_re_searched", 0),
                                  "rule": "Integer helpers (logtwo, naturallog, length, bitsize, size, isperfectpower) on 2^k - 1, 2^k, 2^k + 1, 3 2^k for k at 32, 53, "
                                          "64, 128, 1023, 1024, 1025, 2048, 4096; the primes next to 2^53, 2^1023, 2^1024, 2^1025 from both sides in every class "
                                          "mod 16 (table re-verified by Miller-Rabin on every run) and the Proth primes 993 2^1021 + 1, 1125 2^1024 + 1, 225 2^1030 + 1 "
                                          "(proved by witness): sqrootmodprime (4, -1, 2-Sylow generator and its square, negative), sqrootmod, p^2, Brillhart, "
                                          "sums of squares, legendre; order / is_prim_root / prim_root / prim_root_of_prime / lambda / phi on the Proth ones"}
    chk.cov["structured_moduli"] = {"primes_c2^s+1": STRUCT.get("primes", []), "cases_per_group_and_form": STRUCT.get("counts", {}),
                                    "total": STRUCT.get("total", 0),
                                    "rule": "deterministic on every run and for every seed: least-c Proth primes c*2^s+1 for s around 32/64/128/192 (primality PROVED "
                                            "at check time by a Proth witness) + 2^64-2^32+1 + 2^251+17*2^192+1, residues of every 2-power order 2^j with the "
                                            "Tonelli-Shanks shift s-j-1 on both sides of 32/64/128, -1, (p-1)/2, small squares, the 2-Sylow generator (non-residue); "
                                            "primes next to 2^32/2^64/2^128 in every class mod 16; p^e, 2p^e, 2^e m with e and the p-adic valuation of a around the word sizes"}
    # FLOORS on what was actually judged: a run that falls below them (tooling problem, time-outs, abandoned chunks) says so
    njudged = sum(dist.values()); ntheorems = len(res.get("theorems", []))
    wanted_traces = len(idx)
    nslow = chk.cov.get("model_traces_inconclusive_timeout", 0)
    if nslow:
        inconclusive.append("%d model traces cut by the wall-clock limit of the model run" % nslow)
    if chk.cov.get("definition_mismatch_filed_not_yet_listed"):
        inconclusive.append("%d lambda / prim_elem cases differ from the header's definition (maximal orbit size); filed as C13 fix-8, not yet listed in known_findings.json"
                            % chk.cov["definition_mismatch_filed_not_yet_listed"]["count"])
    inconclusive += sorted(set(UNJUDGED))[:20]
    floors = {"oracle_comparisons": (njudged, int(0.98 * len(cases))),
              "model_correspondence_comparisons": (ncorr, int(0.95 * wanted_traces) if mout is not None else wanted_traces),
              "in_place_cases_judged": (nip, int(0.98 * sum(1 for c in cases if c.get("inplace")))),
              "structured_cases_judged": (sum(1 for i, c in enumerate(cases) if c.get("gen") in ("proth", "edge", "bigexp") and i not in crashed),
                                          int(0.98 * sum(1 for c in cases if c.get("gen") in ("proth", "edge", "bigexp")))),
              "theorems_rechecked": (ntheorems if res.get("ok") else 0, MIN_THEOREMS if not replay else 0),
              "source_tie_rows": (sum(1 for r in chk.cov.get("source_tie", []) if r.get("agree")), len(TIE) if not replay else 0)}
    if replay:
        floors = {k: v for k, v in floors.items() if k in ("oracle_comparisons",)}
    missed = ["%s: %d < floor %d" % (k, v[0], v[1]) for k, v in floors.items() if v[0] < v[1]]
    chk.cov["floors"] = {k: {"judged": v[0], "floor": v[1]} for k, v in floors.items()}
    chk.cov["inconclusive"] = inconclusive
    chk.cov["floor_missed"] = missed
    if missed or inconclusive:
        print("INCONCLUSIVE-PARTS property=C13 " + "; ".join(missed + inconclusive)[:600])
    ph["compare"] = round(_t.time() - t0, 1); chk.cov["phase_seconds"] = ph
    chk.cov["distribution_by_kind_and_class"] = dist
    chk.cov["cases_without_model_oracle_only"] = len(cases) - len(idx)
    return chk.finish()
