# C14 — Chinese remaindering and residue number systems reconstruct the unique integer.  (DESIGN 5/C14)
# proof:  coq/C14 (Garner mixed radix by Horner, lazy reciprocal cache, object histories, two-modulus functor)
# tie:    correspondence: extracted model  vs  IntRNSsystem / RNSsystem<Integer,Modular<..>> / RNSsystemFixed /
#         ChineseRemainder / Poly1CRT compiled from /repo's current tree; the copy map of the IntRNSsystem copy
#         constructor and the shape of the functor body are READ FROM THE SOURCE and select the model variant
# search: python CRT oracle (sum r_i (P/p_i) ((P/p_i)^-1 mod p_i) mod P; Lagrange interpolation) on the same cases
import json, math, os, re, sys
import vf

if hasattr(sys, "set_int_max_str_digits"):
    sys.set_int_max_str_digits(0)          # products of 150 multi-limb moduli are printed in decimal

AREA = "C14"
SITE_CRA = "ChineseRemainder<Ring,Domain,true>::operator()"
KLASS_CRA = "result outside [0, M*D)"
SITE_RU = "RNSsystem<Integer,Modular<ruint<7>>>::RingToRns"
KLASS_RU = "integer wider than the element type"
SITE_CRAASSIGN = "ChineseRemainder<Ring,Domain,REDUCE>::operator="
SITE_FIXCOPY = "RNSsystemFixed::RNSsystemFixed(const Self_t&)"
KLASS_FIXCOPY = "does not compile"

SMALL_PRIMES = [p for p in range(2, 2000) if all(p % q for q in range(2, int(p ** 0.5) + 1))]
OTHER = [101, 103, 107, 109, 113, 127, 131, 137, 139, 149, 151, 157, 163, 167, 173, 179, 181, 191, 193, 197, 199, 211,
         223, 227, 229, 233, 239, 241, 251, 257, 263, 269,
         271, 277, 281, 283, 293, 307, 311, 313, 317, 331, 337, 347, 349, 353, 359, 367, 373, 379, 383, 389, 397, 401, 409, 419, 421, 431, 433, 439, 443, 449, 457, 461, 463, 467, 479, 487, 491, 499, 503, 509]          # harness: other_primes(n) = first n+2 (max 72)

INT_HISTS = ["fresh", "reuse", "copycold", "copywarm", "copy2", "copymod", "assigncold", "assignwarm", "assignsame", "assigncc"]
DOM_HISTS = ["fresh", "reuse", "copycold", "copywarm", "copy2", "copymod", "assigncold", "assignwarm", "assignsame", "assigncc",
             "setcold", "setwarm", "setsame", "setback", "dfltcopyset"]
FIX_HISTS = ["fresh", "reuse", "assigncold", "assignwarm", "assignsame", "assigncc"]
SAME_LEN_HISTS = ("assignsame", "setsame", "setback", "assigncc")      # the unrelated system has the SAME number of moduli
# IntRNSsystem: element type of the container handed to the constructor ("Integer" = the plain constructor, the others = the
# templated converting constructor) and of the residue container handed to RnsToMixedRadix / RnsToRing (a template as well)
INT_CTORS = ["Integer", "int32", "uint32", "int64", "uint64"]
INT_TTS = ["Integer", "int32", "uint32", "int64", "uint64"]
FIX_TTS = ["Integer", "int32", "uint32", "int64", "uint64", "array0"]
TYPE_MAX = {"Integer": None, "array0": None, "int32": (1 << 31) - 1, "uint32": (1 << 32) - 1, "int64": (1 << 63) - 1, "uint64": (1 << 64) - 1}
# the entry point called FIRST on the object obtained (lazy caches are observed before and after their first use)
INT_ORDERS = ["mix", "ring", "recip", "recipi", "prod", "rns"]
DOM_ORDERS = ["mix", "ring", "recip", "recipi", "rns"]
ORDER_NAME = {"mix": "RnsToMixedRadix", "ring": "RnsToRing", "recip": "Reciprocals", "recipi": "reciprocal(n-1)", "prod": "product", "rns": "RingToRns"}
# number of moduli at which the code or the proofs split cases: 1, 2, 3, and 2^k - 1, 2^k, 2^k + 1 (RNSsystemFixed: the product tree
# has a single odd level exactly for 2^k primes); generated on EVERY run for every history
GRID_LENS = [1, 2, 3, 4, 5, 7, 8, 9, 15, 16, 17, 31, 32, 33]
FIX_GRID_LENS = list(range(1, 18)) + [31, 32, 33, 63, 64, 65]
LIFT_MODES = ["atonce", "prepared", "copies", "inplace"]
POLY_HISTS = ["fresh", "reuse", "copycold", "copywarm", "copy2"]
POLY_DOMS = ["mi64", "mdouble", "mi32", "mu32"]
DOMS = ["mdouble", "mi64", "mu64", "mi32", "mint", "mfloat", "mu32", "mont32", "mru7", "mlog16", "mb64", "mbd"]
BALANCED = ("mb64", "mbd")        # residues and digits are the representatives of least absolute value
FIX_COPY_HISTS = ["copycold", "copywarm", "copy2", "copyassign"]


def is_prime(n):
    if n < 2:
        return False
    for q in (2, 3, 5, 7, 11, 13, 17, 19, 23, 29, 31, 37):
        if n % q == 0:
            return n == q
    d, r = n - 1, 0
    while d % 2 == 0:
        d //= 2; r += 1
    for a in (2, 3, 5, 7, 11, 13, 17, 19, 23, 29, 31, 37):
        x = pow(a, d, n)
        if x in (1, n - 1):
            continue
        for _ in range(r - 1):
            x = x * x % n
            if x == n - 1:
                break
        else:
            return False
    return True


def dom_pred(dom):
    """which moduli a residue domain accepts (besides <= maxCardinality)"""
    if dom == "mlog16":
        return lambda c: c > 2 and is_prime(c)          # tabulated field: odd prime
    if dom == "mont32" or dom in BALANCED:
        return lambda c: c > 2 and c % 2 == 1           # Montgomery needs an odd modulus; balanced: symmetric range
    return lambda c: c > 1


def bal(x, p):
    x %= p
    return x - p if x > (p - 1) // 2 else x


def bal_digits(ps, v):
    out = []
    for p in ps:
        d = bal(v, p)
        out.append(d)
        v = (v - d) // p
    return out


# ------------------------------------------------------------------ facts read from the source
def _walk(n):
    yield n
    for c in n.get("inner", []) or []:
        if isinstance(c, dict):
            yield from _walk(c)


AST_CLASSES = {"IntRNSsystem": {"_primes": "primes", "_prod": "prod", "_ck": "ck"},
               "RNSsystem": {"_primes": "primes", "_ck": "ck"},
               "RNSsystemFixed": {"_primes": "tree", "_RNS": "rns"}}
AST_DEFAULT = {"IntRNSsystem": {"fields": ["primes", "prod", "ck"], "copy": {"primes": "primes", "prod": "prod", "ck": "ck"}, "assign": ["primes", "prod", "ck"], "assign_kind": "assumed"},
               "RNSsystem": {"fields": ["primes", "ck"], "copy": {"primes": "primes", "ck": "ck"}, "assign": ["primes", "ck"], "assign_kind": "assumed"},
               "RNSsystemFixed": {"fields": ["tree", "rns"], "copy": {"tree": "tree", "rns": "rns"}, "assign": ["tree", "rns"], "assign_kind": "assumed"}}


def read_ast(chk):
    """members / copy constructor / operator= of the three system classes from clang's JSON AST of harness/c14_ast.C against the
    current tree (cached under build/cache by the content of the sources).  A failing clang run is a tooling problem: the
    facts then fall back to the shape of the unchanged tree and the run says so (coverage.inconclusive)."""
    import subprocess
    src = os.path.join(vf.ROOT, "harness", "c14_ast.C")
    try:
        key = vf.file_hash(vf.repo_sources() + [src])
        cache = os.path.join(vf.mkdir(os.path.join(vf.CACHE, "c14-ast")), key + ".json")
        if os.path.exists(cache):
            return json.load(open(cache))
        cmd = ["clang++", "-std=gnu++11", "-fsyntax-only", "-w", "-DHAVE_CONFIG_H", "-DGIVARO_VERIF"] + vf.inc_flags() + \
              ["-Xclang", "-ast-dump=json", "-Xclang", "-ast-dump-filter=RNSsystem", src]
        p = subprocess.run(cmd, stdout=subprocess.PIPE, stderr=subprocess.PIPE, universal_newlines=True, timeout=900)
        if p.returncode != 0:
            return dict(AST_DEFAULT, error="clang failed: " + p.stderr[-300:])
        out, dec, i, res = p.stdout, json.JSONDecoder(), 0, {}
        while i < len(out):
            while i < len(out) and out[i].isspace():
                i += 1
            if i >= len(out):
                break
            o, i = dec.raw_decode(out, i)
            for n in _walk(o):
                if n.get("kind") != "ClassTemplateSpecializationDecl" or n.get("name") not in AST_CLASSES or n["name"] in res:
                    continue
                names = AST_CLASSES[n["name"]]
                fields = [c["name"] for c in n.get("inner", []) if c.get("kind") == "FieldDecl"]
                if not fields:
                    continue
                D = {"all_fields": fields, "fields": [names[f] for f in fields if f in names], "copy": {}, "assign": [], "assign_kind": None, "copy_kind": None}
                for c in n.get("inner", []):
                    q = c.get("type", {}).get("qualType", "")
                    if c.get("kind") == "CXXConstructorDecl" and re.match(r"void \(const [^)]*(%s<[^)]*>|Self_t) &\)" % n["name"], q):
                        D["copy_kind"] = "implicit" if c.get("isImplicit") else "user"
                        for x in c.get("inner", []):
                            if x.get("kind") != "CXXCtorInitializer":
                                continue
                            tgt = (x.get("anyInit") or {}).get("name")
                            if tgt in names:
                                srcm = [m.get("name") for m in _walk(x) if m.get("kind") == "MemberExpr"]
                                D["copy"][names[tgt]] = names.get(srcm[0], srcm[0]) if srcm else None
                        if D["copy_kind"] == "implicit":
                            D["copy"] = {names[f]: names[f] for f in fields if f in names}
                    if c.get("kind") == "CXXMethodDecl" and c.get("name") == "operator=" and "&&" not in q:
                        if c.get("explicitlyDeleted") or c.get("isDeleted"):
                            D["assign_kind"] = "deleted"
                        elif c.get("isImplicit"):
                            D["assign_kind"] = "implicit"
                            D["assign"] = [names[f] for f in fields if f in names]
                        else:
                            D["assign_kind"] = "user"
                            cnt = {}
                            for m in _walk(c):
                                if m.get("kind") == "MemberExpr" and m.get("name") in names:
                                    cnt[m["name"]] = cnt.get(m["name"], 0) + 1
                            D["assign"] = [names[f] for f in fields if cnt.get(f, 0) >= 2]
                res[n["name"]] = D
        for k in AST_CLASSES:
            if k not in res:
                return dict(AST_DEFAULT, error="class %s not in the clang AST" % k)
        json.dump(res, open(cache, "w"))
        return res
    except (OSError, subprocess.TimeoutExpired, ValueError) as ex:
        return dict(AST_DEFAULT, error="clang AST dump did not run: %s" % ex)


def read_source_facts(chk):
    facts = {}
    # 1. copy map of IntRNSsystem's copy constructor: which member initialises _ck
    try:
        txt = open(os.path.join(vf.REPO, "src/kernel/integer/givintrns.h")).read()
        live = txt.split("#if 0")[0]
        m = re.search(r"IntRNSsystem\s*\(\s*const\s+IntRNSsystem\s*&\s*(\w+)\s*\)\s*:\s*([^{;]*)\{", live)
        if m:
            R, inits = m.group(1), m.group(2)
            mm = re.search(r"_ck\s*\(\s*([^)]*)\)", inits)
            arg = mm.group(1).strip() if mm else None
            if arg == R + "._primes":
                facts["cksrc"] = "primes"
            elif arg == R + "._ck":
                facts["cksrc"] = "ck"
            elif arg in ("0", ""):
                facts["cksrc"] = "nothing"
            else:
                facts["cksrc"] = None
            ok_rest = re.search(r"_primes\s*\(\s*%s\._primes\s*\)" % R, inits) and re.search(r"_prod\s*\(\s*%s\._prod\s*\)" % R, inits)
            if not ok_rest:
                facts["cksrc"] = None
            facts["copy_ctor_text"] = " ".join(m.group(0).split())
        elif "IntRNSsystem(const IntRNSsystem" not in live:
            facts["cksrc"] = "ck"          # implicit memberwise copy
            facts["copy_ctor_text"] = "(implicit)"
        else:
            facts["cksrc"] = None
    except OSError as e:
        facts["cksrc"] = None
    if facts.get("cksrc") is None:
        chk.broke("IntRNSsystem copy constructor no longer has a shape the object model knows (copy map unreadable)",
                  facts.get("copy_ctor_text", ""))
        facts["cksrc"] = "ck"
    # 2. shape of ChineseRemainder<.,.,true>::operator()
    try:
        txt = open(os.path.join(vf.REPO, "src/kernel/field/chineseremainder.h")).read()
        first = txt.split("struct ChineseRemainder<Ring, Domain, false>")[0]
        m = re.search(r"operator\(\)\s*\([^)]*\)\s*const\s*\{(.*?)\n\s*\}", first, flags=re.S)
        body = re.sub(r"//.*", "", m.group(1)) if m else ""
        calls = re.findall(r"_domain\.(\w+)|res\s*(\*=|\+=|-=|%=)", body)
        seq = [a or b for a, b in calls]
        facts["cra_calls"] = seq
        if seq == ["init", "init", "sub", "convert", "*=", "+="]:
            facts["cra_variant"] = "reduce"
        elif seq in (["init", "init", "sub", "mulin", "convert", "*=", "+="], ["init", "sub", "mulin", "convert", "*=", "+="]):
            facts["cra_variant"] = "fixed"
        else:
            facts["cra_variant"] = None
    except (OSError, AttributeError):
        facts["cra_variant"] = None
    if facts.get("cra_variant") is None:
        chk.broke("ChineseRemainder<Ring,Domain,true>::operator() no longer has a shape the model knows", str(facts.get("cra_calls")))
        facts["cra_variant"] = "fixed"
    # 3. where the caches _ck / _prod are filled and read: every constructor, setPrimes, the accessors, the guards of ComputeCk /
    #    ComputeProd (C14_*_history_independent rest on: constructors with primes and setPrimes compute the caches starting from an
    #    EMPTY _ck and _prod = one, accessors only read, the copy constructors copy them; C14_int_ctor_presized_refuted: a
    #    constructor that sizes _ck before ComputeCk() runs does not have the property)
    def strip(txt):
        txt = re.sub(r"#if 0.*?#endif", "", txt, flags=re.S)
        txt = re.sub(r"/\*.*?\*/", "", txt, flags=re.S)
        return re.sub(r"//.*", "", txt)

    def body_at(txt, pos):
        """statements (whitespace removed, split at ';') of the brace block starting at txt[pos] == '{'"""
        depth, k = 0, pos
        while k < len(txt):
            if txt[k] == "{":
                depth += 1
            elif txt[k] == "}":
                depth -= 1
                if depth == 0:
                    break
            k += 1
        return [x for x in ("".join(y.split()) for y in txt[pos + 1:k].split(";")) if x and not x.startswith("GIVARO_ASSERT")]

    def fn(txt, pat):
        """(groups, member initialiser list with whitespace removed, body statements) of the first definition matching pat, else None"""
        m = re.search(pat + r"\s*(?::\s*([^{;]*))?\{", txt)
        if not m:
            return None
        return m.groups()[:-1], "".join((m.groups()[-1] or "").split()), body_at(txt, m.end() - 1)

    def ck_init(inits):
        mm = re.search(r"_ck\(([^)]*)\)", inits)
        if not mm or mm.group(1) in ("", "0"):
            return "empty"
        return "sized" if re.fullmatch(r"\w+\.size\(\)", mm.group(1)) else None
    GUARD = "if(_ck.size()!=0)return"
    ic, why = {}, []
    try:
        hdr = strip(open(os.path.join(vf.REPO, "src/kernel/integer/givintrns.h")).read())
        inl = strip(open(os.path.join(vf.REPO, "src/kernel/integer/givintrns_cstor.inl")).read())
        d = fn(hdr + inl, r"IntRNSsystem\s*\(\s*\)")
        ic["default"] = ck_init(d[1]) if d and "_prod(one)" in d[1] and d[2] == [] else None
        a = fn(inl, r"IntRNSsystem\s*\(\s*const\s+array\s*&\s*(\w+)\s*\)")
        ic["array"] = ck_init(a[1]) if a and "_prod(one)" in a[1] and ("_primes(%s)" % a[0][0]) in a[1] and a[2] == ["ComputeProd()", "ComputeCk()"] else None
        t = fn(inl, r"IntRNSsystem\s*\(\s*const\s+Container\s*<\s*TT\s*,\s*Alloc\s*<\s*TT\s*>\s*>\s*&\s*(\w+)\s*\)")
        ic["templated"] = ck_init(t[1]) if t and "_prod(one)" in t[1] and t[2][-2:] == ["ComputeProd()", "ComputeCk()"] else None
        facts["int_templated_ctor"] = (t[1] + " { " + "; ".join(t[2]) + " }") if t else None
        g = fn(inl, r"::\s*ComputeCk\s*\(\s*\)")
        ic["ComputeCk_guard"] = bool(g and g[2][:1] == [GUARD])
        g = fn(inl, r"::\s*ComputeProd\s*\(\s*\)")
        ic["ComputeProd_guard"] = bool(g and g[2][:1] and g[2][0].startswith("if(isOne(_prod))"))
        for name, want in (("product", ["return_prod"]), ("Reciprocals", ["return_ck"]), ("reciprocal", ["return_ck[i]"])):
            g = fn(inl, r"::\s*%s\s*\(\s*(?:const\s+size_t\s+i)?\s*\)\s*const" % name)
            ic[name] = "reads" if g and g[2] == want else None
    except OSError as ex:
        why.append(str(ex))
    facts["int_ctor_ck"] = ic
    if not (ic.get("default") == "empty" and ic.get("array") == "empty" and ic.get("templated") in ("empty", "sized") and ic.get("ComputeCk_guard")
            and ic.get("ComputeProd_guard") and ic.get("product") == ic.get("Reciprocals") == ic.get("reciprocal") == "reads"):
        chk.broke("IntRNSsystem: constructors / ComputeCk / ComputeProd / accessors no longer fill and read the caches in the shape the object model "
                  "(int_mk, int_mk_tt, int_default, int_ensure_ck, int_ensure_prod, int_product, int_Reciprocals) was written after", str(ic) + " ".join(why))
    facts["ttck"] = ic.get("templated") if ic.get("templated") in ("empty", "sized") else "empty"
    rc, why = {}, []
    try:
        inl = strip(open(os.path.join(vf.REPO, "src/kernel/field/givrnscstor.inl")).read())
        d = fn(inl, r"RNSsystem\s*\(\s*\)")
        rc["default"] = ck_init(d[1]) if d and d[2] == [] else None
        a = fn(inl, r"RNSsystem\s*\(\s*const\s+domains\s*&\s*(\w+)\s*\)")
        rc["domains"] = ck_init(a[1]) if a and ("_primes(%s,givWithCopy())" % a[0][0]) in a[1] and a[2] == ["ComputeCk()"] else None
        c = fn(inl, r"RNSsystem\s*\(\s*const\s+Self_t\s*&\s*(\w+)\s*\)")
        rc["copy"] = "ck" if c and ("_ck(%s._ck,givWithCopy())" % c[0][0]) in c[1] and ("_primes(%s._primes,givWithCopy())" % c[0][0]) in c[1] and c[2] == [] else None
        sp = fn(inl, r"::\s*setPrimes\s*\(\s*const\s+domains\s*&\s*(\w+)\s*\)")
        rc["setPrimes"] = "recompute" if sp and sp[2] == ["_primes.allocate(0)", "_primes.copy(%s)" % sp[0][0], "_ck.resize(0)", "ComputeCk()"] else None
        facts["rns_setPrimes_body"] = sp[2] if sp else None
        g = fn(inl, r"::\s*ComputeCk\s*\(\s*\)")
        rc["ComputeCk_guard"] = bool(g and g[2][:1] == [GUARD])
        for name, want in (("Reciprocals", ["return_ck"]), ("reciprocal", ["return_ck[i]"])):
            g = fn(inl, r"::\s*%s\s*\(\s*(?:const\s+size_t\s+i)?\s*\)\s*const" % name)
            rc[name] = "reads" if g and g[2] == want else None
    except OSError as ex:
        why.append(str(ex))
    facts["rns_ctor_ck"] = rc
    if not (rc.get("default") == "empty" and rc.get("domains") == "empty" and rc.get("copy") == "ck" and rc.get("setPrimes") == "recompute"
            and rc.get("ComputeCk_guard") and rc.get("Reciprocals") == rc.get("reciprocal") == "reads"):
        chk.broke("RNSsystem: constructors / setPrimes / ComputeCk / accessors no longer fill and read the reciprocal cache in the shape the object model "
                  "(dom_mk, dom_default, dom_copy, dom_setPrimes, dom_ensure_ck, dom_Reciprocals) was written after", str(rc) + " ".join(why))
    # 4. the two sites that take a residue as it comes (audit item: "all residue vectors"), and the missing `throw`
    try:
        cv = strip(open(os.path.join(vf.REPO, "src/kernel/integer/givintrns_convert.inl")).read())
        g = fn(cv, r"::\s*RnsToMixedRadix\s*\([^)]*\)")
        body = g[2] if g else []
        k = body.index("mixrad[0]=residu[0]") if "mixrad[0]=residu[0]" in body else -1
        if k >= 0 and body[k + 1:k + 2] == ["modin(mixrad[0],_primes[0])"]:
            facts["int_head"] = "reduced"
        elif k >= 0 and not any(("mixrad[0]" in x) for x in body[k + 1:k + 2]):
            facts["int_head"] = "copied"
        elif "mod(mixrad[0],residu[0],_primes[0])" in body:
            facts["int_head"] = "reduced"
        else:
            facts["int_head"] = None
    except (OSError, ValueError):
        facts["int_head"] = None
    if facts["int_head"] is None:
        chk.broke("IntRNSsystem::RnsToMixedRadix no longer produces the first digit in a shape the model knows (mixrad[0] = residu[0]; optionally reduced)")
        facts["int_head"] = "copied"
    try:
        fx = strip(open(os.path.join(vf.REPO, "src/kernel/field/givrnsfixed.inl")).read())
        g = fn(fx, r"::\s*RnsToRingLeft\s*\([^)]*\)")
        body = g[2] if g else []
        if "returnI=residues[(size_t)col]" in " ".join(body) or "else{returnI=residues[(size_t)col]" in "".join(body):
            facts["fixed_leaf"] = "copied"
        elif "I=residues[(size_t)col]" in "".join(body) and "returnInteger::modin(I,_primes[0][(size_t)col])" in "".join(body):
            facts["fixed_leaf"] = "reduced"
        else:
            facts["fixed_leaf"] = None
    except OSError:
        facts["fixed_leaf"] = None
    if facts["fixed_leaf"] is None:
        chk.broke("RNSsystemFixed::RnsToRingLeft no longer handles a leaf in a shape the model knows (return I = residues[col]; optionally reduced)")
        facts["fixed_leaf"] = "copied"
    try:
        cv = strip(open(os.path.join(vf.REPO, "src/kernel/field/givrnsconvert.inl")).read())
        m = re.search(r"if\s*\(\s*!\s*Size\s*\)\s*(throw\s+)?GivError\s*\(", cv)
        facts["rns_empty_throw"] = ("throws" if m.group(1) else "no throw") if m else None
    except OSError:
        facts["rns_empty_throw"] = None
    # 5. data members, copy constructors and assignment operators from the clang AST (harness/c14_ast.C)
    facts["ast"] = read_ast(chk)
    return facts


# ------------------------------------------------------------------ oracles (independent of the Coq model)
def prod(xs):
    r = 1
    for x in xs:
        r *= x
    return r


def crt_oracle(ps, rs):
    P = prod(ps)
    x = 0
    for p, r in zip(ps, rs):
        q = P // p
        x += r * q * pow(q, -1, p) if p > 1 else 0
    return x % P


def mixed_digits(ps, v):
    out = []
    for p in ps:
        out.append(v % p)
        v //= p
    return out


def ck_oracle(ps):
    return [pow(prod(ps[:k]) % ps[k], -1, ps[k]) for k in range(1, len(ps))]


def fixed_tree_oracle(ps):
    """the tree RNSsystemFixed stores: level k+1 = products of the pairs of level k; in every completed pair (p0, p1) the right
    entry is replaced by p0 * (p0^-1 mod p1); a last unpaired entry stays"""
    tree, lv = [], list(ps)
    while lv:
        st, nx = [], []
        for i in range(0, len(lv) - 1, 2):
            p0, p1 = lv[i], lv[i + 1]
            st += [p0, p0 * (pow(p0, -1, p1) if p1 > 1 else 0)]
            nx.append(p0 * p1)
        if len(lv) % 2:
            st.append(lv[-1])
        tree.append(st)
        lv = nx
    return tree


def lagrange(p, pts, rs):
    """coefficients (low first) of the unique polynomial of degree < n over GF(p) with f(pts[i]) = rs[i]"""
    n = len(pts)
    res = [0] * n
    for i in range(n):
        num = [1]
        den = 1
        for j in range(n):
            if j == i:
                continue
            new = [0] * (len(num) + 1)                 # num *= (X - pts[j])
            for k, c in enumerate(num):
                new[k] = (new[k] - c * pts[j]) % p
                new[k + 1] = (new[k + 1] + c) % p
            num = new
            den = den * (pts[i] - pts[j]) % p
        s = rs[i] * pow(den, -1, p) % p
        for k, c in enumerate(num):
            res[k] = (res[k] + s * c) % p
    while res and res[-1] == 0:
        res.pop()
    return res


def peval(p, c, x):
    acc = 0
    for a in reversed(c):
        acc = (acc * x + a) % p
    return acc


# ------------------------------------------------------------------ generators
def prev_coprime(start, acc, lo=2):
    c = start
    while c >= lo:
        if math.gcd(c, acc) == 1:
            return c
        c -= 1
    return None


def gen_moduli(rng, n, maxp, style, pred=None):
    """n pairwise coprime moduli in [2, maxp] (maxp None: unbounded, multi-limb allowed) all satisfying pred"""
    pred = pred or (lambda c: c > 1)
    ps, acc = [], 1
    tries = 0
    while len(ps) < n and tries < 50 * n + 200:
        tries += 1
        if style == "smallprimes":
            c = rng.choice(SMALL_PRIMES[:max(n + 5, 30)])
        elif style == "edge" and maxp:
            c = maxp - rng.below(3) if not ps else ps[-1] - 1 - rng.below(2)
            while c >= 2 and not (math.gcd(c, acc) == 1 and pred(c)):
                c -= 1
            if c < 2:
                break
        elif style == "tiny":
            c = rng.range(2, 40)
        elif style == "multilimb" and not maxp:
            c = vf.limbs_value(rng, rng.range(2, 4)) | 1 if rng.chance(1, 2) else rng.bits(rng.range(65, 200))
        elif style == "powers":
            q = SMALL_PRIMES[len(ps) % 60]
            c = q ** rng.range(1, 6)
        else:   # word
            hi = maxp if maxp else (1 << 64)
            c = rng.range(2, hi) if rng.chance(1, 2) else rng.bits(rng.range(2, hi.bit_length() - 1)) + 2
        if maxp and c > maxp:
            continue
        if c > 1 and math.gcd(c, acc) == 1 and pred(c):
            ps.append(c)
            acc *= c
    # fill with fresh small primes when the style ran dry
    k = 0
    while len(ps) < n and k < len(SMALL_PRIMES):
        q = SMALL_PRIMES[k]; k += 1
        if math.gcd(q, acc) == 1 and (not maxp or q <= maxp) and pred(q):
            ps.append(q); acc *= q
    if rng.chance(2, 3):
        rng.shuffle(ps)
    elif rng.chance(1, 2):
        ps.sort(reverse=True)
    return ps


def boundary_ints(rng, ps, count):
    """integers at the case splits of a conversion: 0, +-1, each modulus and its neighbours and multiples, partial products,
    the full product and its neighbours, and the negatives of all of these"""
    P = prod(ps)
    cand = [0, 1, -1, P, P - 1, P + 1, -P, -P - 1, -P + 1, 2 * P, P // 2]
    idx = list(range(len(ps)))
    rng.shuffle(idx)
    for i in idx[:6]:
        p = ps[i]
        cand += [p, p - 1, p + 1, -p, 2 * p, -2 * p, p * rng.range(2, 9), -p * rng.range(2, 9), P - p, P // p, p * p]
    part = 1
    for p in ps[:-1]:
        part *= p
        if rng.chance(1, 2):
            cand += [part, part - 1, part + 1, -part]
    rng.shuffle(cand)
    first = [ps[rng.below(len(ps))]]                         # always: an integer equal to one of the moduli
    return (first + cand)[:count]


def gen_residues(rng, ps, allow_out_of_range_tail=False):
    mode = rng.below(11)
    if mode == 10:                                           # sparse mixed-radix digits: zero corrections in the middle of the conversion
        v, part = 0, 1
        for p in ps:
            d = rng.choice([0, 0, 0, 1, p - 1, rng.below(p)])
            v += d * part
            part *= p
        return [v % p for p in ps]
    if mode >= 8:                                            # residues of a boundary integer (value 0, p_i, prod-1, ...)
        v = boundary_ints(rng, ps, 1 + rng.below(6))[-1]
        return [v % p for p in ps]
    rs = []
    for i, p in enumerate(ps):
        if mode == 0:
            r = 0
        elif mode == 1:
            r = p - 1
        elif mode == 2:
            r = rng.choice([0, 1, p - 1, p // 2])
        else:
            r = rng.below(p)
        if allow_out_of_range_tail and i > 0 and rng.chance(1, 6):
            r = r + p * rng.range(-3, 3)        # residu[i], i >= 1, is reduced by the code (mod) ; residu[0] is not
        rs.append(r)
    return rs


def gen_as(rng, ps, count):
    """the integers converted by RingToRns in one case: boundary values first, then structured random ones"""
    nb = max(1, (2 * count) // 3)
    return boundary_ints(rng, ps, nb) + [gen_a(rng, ps) for _ in range(count - nb)]


def gen_a(rng, ps):
    P = prod(ps)
    k = rng.below(8)
    if k == 0:
        return rng.choice([0, 1, -1, P, P - 1, -P, P + 1, -P - 1])
    if k < 3:
        return -rng.below(P * P + 7)
    if k < 5:
        return rng.below(P)
    return vf.structured_int(rng, 4)


# ------------------------------------------------------------------ helpers
def run_par(binary, lines, nproc=6, timeout=1500):
    """run the line-protocol binary on `lines` with nproc processes (round-robin split, so that the
    expensive big-moduli cases spread evenly); returns (rc, output lines in input order, stderr)"""
    import subprocess
    nproc = max(1, min(nproc, len(lines)))
    procs = []
    for k in range(nproc):
        p = subprocess.Popen([binary], stdin=subprocess.PIPE, stdout=subprocess.PIPE, stderr=subprocess.PIPE, universal_newlines=True)
        procs.append(p)
    import threading
    outs = [None] * nproc
    def work(k):
        try:
            outs[k] = procs[k].communicate("".join(l + "\n" for l in lines[k::nproc]), timeout=timeout)
        except subprocess.TimeoutExpired:
            procs[k].kill()
            outs[k] = ("", "[timeout]")
    th = [threading.Thread(target=work, args=(k,)) for k in range(nproc)]
    for t in th:
        t.start()
    for t in th:
        t.join()
    res = [None] * len(lines)
    rc, err = 0, ""
    for k in range(nproc):
        o = outs[k][0].splitlines()
        err += outs[k][1]
        if procs[k].returncode != 0:
            rc = procs[k].returncode or 1
        idx = list(range(k, len(lines), nproc))
        if len(o) != len(idx):
            rc = rc or 1
            continue
        for i, l in zip(idx, o):
            res[i] = l
    if rc != 0:
        return rc, [l for l in res if l is not None], err
    return 0, res, err


KILLED_BY_ENV = (-9, -15, 137, 143)        # SIGKILL / SIGTERM: the OOM killer or an operator, not the code under test


def run_single(binary, line, budget):
    """one case alone, with its own CPU budget (seconds) -> (rc, first output line or None)"""
    import subprocess
    try:
        p = subprocess.run([binary], input=line + "\n", stdout=subprocess.PIPE, stderr=subprocess.PIPE, universal_newlines=True,
                           errors="replace", timeout=max(600, 20 * budget), env=dict(os.environ, C14_CPU_BUDGET=str(budget)))
    except subprocess.TimeoutExpired:
        return 124, None
    o = p.stdout.splitlines()
    return p.returncode, (o[0] if o else None)


STAGE1_CPU = 10          # CPU seconds per case in a stream (the calls take micro- to milliseconds)
CONFIRM_CPU = 30         # CPU seconds for the one re-run alone that confirms "does not return"
MAX_CONFIRMED = 3        # confirmed hangs per RUN (all streams together), then the stream stops
MAX_OVERRUNS = 6         # first-stage budget overruns per RUN, then the stream stops
MAX_CRASHES_PER_FORM = 4


def new_hang_state():
    """shared by every implementation stream of one run (main harness, fixed copies, functor assignment)"""
    return {"confirmed": 0, "overruns": 0, "dead_forms": set(), "crashes": {}, "stopped": None}


def run_resilient(binary, lines, timeout=1500, max_restarts=40, notes=None, forms=None, state=None):
    """run an implementation harness on `lines` (forms[i] = the call form line i drives).  When the process ends early the case it
    was working on is RE-RUN ALONE before anything is concluded:
      HANG      the case used up STAGE1_CPU in the stream and CONFIRM_CPU alone (c14_watchdog.h; CPU time is load-independent)
                -> failing input "does-not-return"; its call form is not driven any more in this run (remaining lines: NOT-RUN)
      CRASH ..  the process died on this case by a signal of its own, also when alone -> failing input; after MAX_CRASHES_PER_FORM
                crashes of a form that form is not driven any more
      KILLED    SIGKILL / SIGTERM (OOM killer, operator), also when alone; TIMEOUT: the wall-clock limit of the check itself;
      NOT-RUN   form given up / the run's caps (MAX_CONFIRMED confirmations, MAX_OVERRUNS overruns) reached
                -> not compared: listed in the evidence, never counted as a pass (floors) nor as a violation
    A case that misbehaved in the stream but answers when run alone keeps that answer; the event is noted."""
    notes = notes if notes is not None else []
    state = state if state is not None else new_hang_state()
    forms = forms if forms is not None else ["?"] * len(lines)
    res = [None] * len(lines)
    restarts, err = 0, ""
    while True:
        if state["stopped"]:
            break
        todo = [k for k in range(len(lines)) if res[k] is None and forms[k] not in state["dead_forms"]]
        if not todo:
            break
        os.environ["C14_CPU_BUDGET"] = str(STAGE1_CPU)
        try:
            rc, o, e = vf.run_lines(binary, "".join(lines[k] + "\n" for k in todo), timeout=timeout)
        finally:
            os.environ.pop("C14_CPU_BUDGET", None)
        err += e[-500:]
        o = o[:len(todo)]
        hang = bool(o) and o[-1] == "HANG" and rc == 42
        if hang:
            o = o[:-1]
        for k, l in zip(todo, o):
            res[k] = l
        if len(o) >= len(todo):
            break
        if rc == 124 and "[timeout]" in e:
            for k in todo[len(o):]:
                res[k] = "TIMEOUT"           # our own wall-clock limit (machine load): the rest of the stream is inconclusive
            break
        k = todo[len(o)]                     # the case the process was working on
        if hang:
            state["overruns"] += 1
        rc1, l1 = run_single(binary, lines[k], CONFIRM_CPU)
        if rc1 in KILLED_BY_ENV or (rc in KILLED_BY_ENV and rc1 != 0 and rc1 != 42):
            rc1, l1 = run_single(binary, lines[k], CONFIRM_CPU)       # once more: the environment may have calmed down
        if l1 == "HANG" and rc1 == 42:
            res[k] = "HANG"
            state["confirmed"] += 1
            state["dead_forms"].add(forms[k])
            notes.append("call form %s does not return (case %d): not driven any more in this run" % (forms[k], k))
        elif rc1 == 0 and l1 is not None:
            res[k] = l1
            notes.append("case %d ended the stream (rc=%s%s) but answers when run alone" % (k, rc, ", first-stage CPU budget" if hang else ""))
        elif rc1 in KILLED_BY_ENV or rc1 == 124:
            res[k] = "KILLED"
            notes.append("case %d: process killed from outside / wall-clock limit (rc=%s, alone rc=%s)" % (k, rc, rc1))
        else:
            res[k] = "CRASH rc=%s" % rc1
            state["crashes"][forms[k]] = state["crashes"].get(forms[k], 0) + 1
            if state["crashes"][forms[k]] >= MAX_CRASHES_PER_FORM:
                state["dead_forms"].add(forms[k])
                notes.append("call form %s crashed %d times: not driven any more in this run" % (forms[k], MAX_CRASHES_PER_FORM))
        restarts += 1
        if state["confirmed"] >= MAX_CONFIRMED or state["overruns"] >= MAX_OVERRUNS:
            state["stopped"] = "%d calls confirmed not to return, %d first-stage CPU overruns: caps of the run reached, the streams stop" % (state["confirmed"], state["overruns"])
            notes.append(state["stopped"])
        if restarts >= max_restarts:
            break
    out = [l if l is not None else "NOT-RUN" for l in res]
    return out, restarts, err


def groups(line):
    return [g.split() for g in line.split("|")]


def ints(g):
    return [int(x) for x in g]


def main(tier, replay=None):
    chk = vf.Check("C14", tier, "proof")
    rng = vf.Rng(chk.seed)
    chk.cov["trusted_base"] = [
        "Coq 8.16.1 kernel (no native_compute; vm_compute only for the refutation witnesses and the Examples)",
        "extraction: ExtrOcamlBasic only; Z/positive/nat kept as extracted inductives; OCaml 4.13.1; zarith only for text I/O in harness/zio.ml",
        "residue-domain operations (Modular<T>::init/convert/axpy/sub/mul/inv, Integer::mod/mulin/addin, gcdext) are taken as exact "
        "arithmetic mod p (properties C01-C04); validated here by the correspondence run on Modular<double|float|int32_t|int64_t|uint32_t|uint64_t|Integer|ruint<7>|Log16>, Montgomery<int32_t>",
        "not proved, only correspondence- and oracle-tested: copies / assignments of RNSsystemFixed, Poly1CRT and ChineseRemainder objects (the models of these "
        "three are pure functions of the moduli); reference/ownership semantics of the C++ objects (constructor arguments changed or destroyed before use) "
        "are exercised by the harness only",
        "checks/C14.py: reads from the source by regular expressions: the IntRNSsystem copy map, the cache initialisers of every IntRNSsystem / RNSsystem "
        "constructor, the body of RNSsystem::setPrimes, the ComputeCk guards, the call sequence of the functor body",
        "harness/c14_rns.C, harness/c14_fixedcopy.C, checks/C14.py (generators, python CRT / Lagrange oracles)",
        "g++ 12 / x86-64 for the implementation side",
    ]
    facts = read_source_facts(chk)
    chk.assumptions = [
        "model is hand-written after the code; tie = correspondence on generated cases + facts read from the source",
        "IntRNSsystem copy constructor initialises _ck from: %s  [%s]" % (facts["cksrc"], facts.get("copy_ctor_text", "")),
        "ChineseRemainder<.,.,true>::operator() call sequence %s -> model variant %s" % (facts.get("cra_calls"), facts["cra_variant"]),
        "IntRNSsystem constructors initialise _ck: %s (templated -> model variant Ck%s); RNSsystem: %s" % (facts.get("int_ctor_ck"), facts["ttck"].capitalize(), facts.get("rns_ctor_ck")),
    ]
    inconclusive, floor_missed, notes = [], [], []
    chk.cov["inconclusive"] = inconclusive            # tooling problems of this run (never counted as a pass of the probe concerned)
    chk.cov["floor_missed"] = floor_missed            # what the run must have compared at least, and did not
    chk.cov["inconclusive_streams"] = inconclusive

    def timed_out(log):
        return "[timeout" in (log or "")

    def give_up(msg):
        inconclusive.append(msg)
        floor_missed.append("nothing was compared with the implementation on this run: " + msg)
        print("INCONCLUSIVE property=C14 " + msg)
        return chk.finish()
    # 1. proofs (a build that hits the time limit of the check is a tooling problem, not a broken proof)
    res = vf.coq_check_props(AREA)
    if not res["ok"] and timed_out(res["log"]) and not res["forbidden"]:
        inconclusive.append("Coq build hit the time limit of the check: the theorems were not re-checked on this run")
        floor_missed.append("theorems re-checked: 0 of %d" % len(res.get("theorems", [])))
    else:
        chk.proof_result(res, AREA)
    # 2. executables
    mlp = os.path.join(vf.coq_dir(AREA), "ocaml", "model.ml")
    if res["ok"] and not os.path.exists(mlp):
        # model.ml is a git-ignored side effect of compiling Extract.v: when it is gone while Extract.vo is there, make does nothing
        for ext in (".vo", ".vos", ".vok", ".glob"):
            try:
                os.remove(os.path.join(vf.coq_dir(AREA), "Extract" + ext))
            except OSError:
                pass
        vf.coq_make(AREA)
    drv, l1 = vf.ocaml_build(AREA) if os.path.exists(mlp) else (None, "extraction did not run")
    if drv is None:
        if timed_out(l1) or (not res["ok"] and timed_out(res["log"])):
            inconclusive.append("extracted model driver not built (time limit): no correspondence on this run")
        else:
            chk.broke("extracted model driver does not build", l1)
    himpl, l2 = vf.build_harness("c14_rns.C", deps=("c14_watchdog.h",))
    if himpl is None:
        if timed_out(l2):
            return give_up("the implementation harness did not finish compiling within the time limit of the check")
        chk.broke("implementation harness does not compile against /repo", l2)
        return chk.finish()
    # 2b. copy construction of the fixed system, assignment of the functor (compile-time probes)
    hfix, l3 = vf.build_harness("c14_fixedcopy.C", deps=("c14_watchdog.h",))
    hasg, l4 = vf.build_harness("c14_craassign.C", deps=("c14_watchdog.h",))
    # 3. maxCardinality of the residue domains, from the implementation
    rc, mc, err = vf.run_lines(himpl, "".join("maxcard %s\n" % d for d in DOMS))
    if (rc == 124 and "[timeout]" in err) or rc in KILLED_BY_ENV:
        return give_up("the implementation harness was stopped from outside before any case ran (rc=%s)" % rc)
    if rc != 0 or len(mc) != len(DOMS):
        chk.broke("implementation harness failed on maxcard", err)
        return chk.finish()
    maxcard = {d: (int(x) if int(x) > 0 else None) for d, x in zip(DOMS, mc)}
    chk.cov["maxCardinality_from_impl"] = {d: str(v) for d, v in maxcard.items()}

    quick = tier == "quick"
    cases = []   # dicts: kind, impl line, model line, meta

    def other(n, hist):
        return OTHER[:min(n if hist in SAME_LEN_HISTS else n + 2, 72)]    # harness: other_primes()

    A = facts["ast"]
    if A.get("error"):
        inconclusive.append("clang AST of harness/c14_ast.C not read (%s): members / copy / operator= assumed as in the unchanged tree" % A["error"])
        floor_missed.append("source facts from the AST: 0 of 3 classes")
    if A["IntRNSsystem"]["copy"].get("ck") != facts["cksrc"] and not (facts["cksrc"] == "nothing" and A["IntRNSsystem"]["copy"].get("ck") is None):
        chk.broke("the copy map of IntRNSsystem read from the source text (%s) and from the clang AST (%s) differ" % (facts["cksrc"], A["IntRNSsystem"]["copy"]))
    for cls in ("IntRNSsystem", "RNSsystem", "RNSsystemFixed"):
        bad = [m for m in A[cls]["fields"] if A[cls]["copy"].get(m) not in (m, None)] if cls != "IntRNSsystem" else \
              [m for m in ("primes", "prod") if A[cls]["copy"].get(m) != m]
        if bad or A[cls]["assign_kind"] not in ("implicit", "user", "assumed"):
            chk.broke("%s: copy constructor / operator= outside the shapes the object model can express (clang AST)" % cls, str(A[cls]))
    STMT = {"_primes.allocate(0)": "alloc", "_ck.resize(0)": "resize", "ComputeCk()": "compute"}
    prog = [STMT.get(x, "copy" if re.fullmatch(r"_primes\.copy\(\w+\)", x) else None) for x in (facts.get("rns_setPrimes_body") or [])]
    if not prog or None in prog:
        prog = ["alloc", "copy", "resize", "compute"]       # (an unknown statement was reported as a broken obligation by the reader)

    def names(l):
        return ",".join(l) if l else "-"
    F_INT = "%s %s %s %d" % (facts["cksrc"], facts["ttck"], names(A["IntRNSsystem"]["assign"]), 1 if facts["int_head"] == "reduced" else 0)
    F_DOM = "%s %s %s" % (names([m for m in A["RNSsystem"]["fields"] if A["RNSsystem"]["copy"].get(m) == m]), names(A["RNSsystem"]["assign"]), names(prog))
    F_FIX = "%s %s %d %s" % (names([m for m in A["RNSsystemFixed"]["fields"] if A["RNSsystemFixed"]["copy"].get(m) == m]), names(A["RNSsystemFixed"]["assign"]),
                             1 if facts["fixed_leaf"] == "reduced" else 0, F_DOM)
    facts["model_parameters"] = {"isrc": F_INT, "dsrc": F_DOM, "fsrc": F_FIX}

    def add_sys(kind, hist, sub, ps, rs, al, ctor="Integer", order="mix", grid=False):
        n = len(ps)
        body = "%d %s %s %d %s" % (n, " ".join(map(str, ps)), " ".join(map(str, rs)), len(al), " ".join(map(str, al)))
        o = other(n, hist)
        if kind == "int":
            il = "int %s %s %s %s %s" % (hist, ctor, sub, order, body)
            ml = "int %s %s %s %s %s %d %s" % (F_INT, ctor, order, hist, body, len(o), " ".join(map(str, o)))
        elif sub in BALANCED:
            il = "rns %s %s %s %s" % (hist, sub, order, body)
            ml = "bal %s %s" % (order, body)      # balanced representatives: the model's answers do not depend on the history (C14_dom_history_independent)
        else:
            il = "rns %s %s %s %s" % (hist, sub, order, body)
            ml = "rns %s %s %s %s %d %s" % (F_DOM, order, hist, body, len(o), " ".join(map(str, o)))
        cases.append({"kind": kind, "hist": hist, "sub": sub, "ctor": ctor, "order": order, "grid": grid, "ps": ps, "rs": rs, "al": al,
                      "impl": il, "model": ml})

    def fit_tt(tt, rs):
        """residue container type able to hold the residues"""
        m = TYPE_MAX[tt]
        return tt if m is None or (max(rs) <= m and min(rs) >= 0) else "Integer"

    nas = 5 if quick else 12

    mlcap = 12 if quick else 24
    lens_small = [1, 1, 2, 2, 3, 3, 4, 5, 6, 7, 8, 9, 12, 16, 17]
    lens_big = [24, 31, 32, 33, 40] if quick else [24, 31, 32, 33, 40, 64, 65, 100]
    ODD = SMALL_PRIMES[1:]

    def grid_moduli(n, salt, allow2):
        """n distinct small primes (odd, so that every residue domain accepts them; 2 as well where allowed), in an order drawn from the seed"""
        ps = list(ODD[salt % 9: salt % 9 + n])
        if allow2 and salt % 3 == 0:
            ps[rng.below(n)] = 2
        rng.shuffle(ps)
        return ps

    def grid_residues(ps):
        """residues of an integer whose last mixed-radix digit is not 0: every reciprocal matters"""
        P = prod(ps)
        v = P - 1 - rng.below(max(1, P // (2 * ps[-1])))
        return [v % p for p in ps]

    def grid_as(ps):
        P = prod(ps)
        return [ps[rng.below(len(ps))], rng.choice([P - 1, P, P + 1, 0]), -rng.below(P * 3 + 5) - 1]

    # ---- IntRNSsystem: deterministic grid  lengths x histories x constructor argument types; residue container type and
    #      first entry point cycle with strides coprime to the loop lengths, so that every (ctor, hist), (order, hist), (tt, hist),
    #      (ctor, order) pair occurs on every run
    gi = 0
    for n in GRID_LENS:
        for hi, hist in enumerate(INT_HISTS):
            for ci, ctor in enumerate(INT_CTORS):
                if True:
                    ps = grid_moduli(n, gi, True)
                    rs = grid_residues(ps)
                    add_sys("int", hist, fit_tt(INT_TTS[(gi + hi) % len(INT_TTS)], rs), ps, rs, grid_as(ps), ctor=ctor,
                            order=INT_ORDERS[(gi // 5 + ci + hi) % len(INT_ORDERS)], grid=True)
                gi += 1
    # every first entry point x every constructor type x every history on three moduli
    for hist in INT_HISTS:
        for ctor in INT_CTORS:
            for order in INT_ORDERS:
                ps = grid_moduli(3 if order != "recipi" else 4, gi, True); gi += 1
                rs = grid_residues(ps)
                add_sys("int", hist, fit_tt(INT_TTS[gi % len(INT_TTS)], rs), ps, rs, grid_as(ps), ctor=ctor, order=order, grid=True)
    # ---- IntRNSsystem, random part
    rounds = 3 if quick else 30
    for rnd in range(rounds):
        for hist in INT_HISTS:
            for tt in ["Integer", "int64", "uint64", "int32", "uint32"]:
                if quick and (rnd + INT_HISTS.index(hist) + INT_TTS.index(tt)) % 2:
                    continue
                ctor = rng.choice(INT_CTORS)
                n = rng.choice(lens_small if rng.chance(4, 5) else lens_big)
                if ctor == "Integer":
                    style = rng.choice(["smallprimes", "tiny", "word", "multilimb", "multilimb", "powers"])
                else:
                    style = rng.choice(["smallprimes", "tiny", "word", "edge", "powers"])
                maxp = TYPE_MAX[ctor]
                if n > 17 and style in ("tiny",):
                    style = "smallprimes"
                if style == "multilimb" and n > mlcap:
                    n = rng.range(2, mlcap)      # cost of the extracted model ~ n^2 * bits^2 on the inductive Z
                ps = gen_moduli(rng, n, maxp, style)
                rs = gen_residues(rng, ps, allow_out_of_range_tail=(tt == "Integer"))
                add_sys("int", hist, fit_tt(tt, rs), ps, rs, gen_as(rng, ps, nas if n <= 17 else 2), ctor=ctor, order=rng.choice(INT_ORDERS))
    # ---- RNSsystem<Integer, Domain>: deterministic grid  lengths x histories, domains and first entry points cycling
    gi = 0
    per = 4 if quick else len(DOMS)
    for n in GRID_LENS:
        for hi, hist in enumerate(DOM_HISTS):
            for k in range(per):
                dom = DOMS[(gi + k * 5) % len(DOMS)] if quick else DOMS[k]
                pred = dom_pred(dom)
                ps = grid_moduli(n, gi + k, pred(2))
                rs = grid_residues(ps)
                add_sys("rns", hist, dom, ps, rs, grid_as(ps), order=DOM_ORDERS[(gi + k + hi) % len(DOM_ORDERS)], grid=True)
            gi += 1
    for hist in DOM_HISTS:
        for order in DOM_ORDERS:
            for k in range(3 if quick else 6):
                dom = DOMS[(gi + 7 * k) % len(DOMS)]; gi += 1
                ps = grid_moduli(3 if order != "recipi" else 4, gi, dom_pred(dom)(2))
                rs = grid_residues(ps)
                add_sys("rns", hist, dom, ps, rs, grid_as(ps), order=order, grid=True)
    # ---- RNSsystem, random part
    for rnd in range(2 if quick else 20):
        for hist in DOM_HISTS:
            for dom in DOMS:
                if quick and (rnd + DOM_HISTS.index(hist) + DOMS.index(dom)) % 2:
                    continue
                n = rng.choice(lens_small if rng.chance(4, 5) else lens_big)
                maxp = maxcard[dom]
                if maxp is None:
                    style = rng.choice(["smallprimes", "word", "multilimb", "multilimb", "powers"])
                else:
                    style = rng.choice(["smallprimes", "tiny", "word", "edge", "edge", "powers"])
                if n > 17 and style == "tiny":
                    style = "smallprimes"
                if dom == "mi32" and n > 17 and style == "powers":
                    style = "smallprimes"
                if style == "multilimb" and n > mlcap:
                    n = rng.range(2, mlcap)
                ps = gen_moduli(rng, n, maxp, style, dom_pred(dom))
                rs = gen_residues(rng, ps)
                add_sys("rns", hist, dom, ps, rs, gen_as(rng, ps, nas if n <= 17 else 2), order=rng.choice(DOM_ORDERS))
    # ---- documented limits, on every run: moduli at maxCardinality of every residue domain, at the top of every constructor argument type
    gi = 0
    for dom in DOMS:
        if maxcard[dom] is None:
            continue
        for n in (1, 2, 4):
            ps = gen_moduli(rng, n, maxcard[dom], "edge", dom_pred(dom))
            top = prev_coprime(maxcard[dom], 1)
            while not dom_pred(dom)(top):
                top -= 1
            if top not in ps:                                   # the largest admissible modulus itself is always there
                ps = [top] + [p for p in ps if math.gcd(p, top) == 1][:n - 1]
            rs = grid_residues(ps)
            add_sys("rns", DOM_HISTS[gi % len(DOM_HISTS)], dom, ps, rs, grid_as(ps), order=DOM_ORDERS[gi % len(DOM_ORDERS)], grid=True)
            gi += 1
    for ctor in INT_CTORS[1:]:
        for n in (1, 2, 4):
            top = TYPE_MAX[ctor]
            ps = [top] + [p for p in gen_moduli(rng, n, top, "edge") if math.gcd(p, top) == 1][:n - 1]
            rs = grid_residues(ps)
            add_sys("int", INT_HISTS[gi % len(INT_HISTS)], fit_tt(ctor, rs), ps, rs, grid_as(ps), ctor=ctor, order=INT_ORDERS[gi % len(INT_ORDERS)], grid=True)
            gi += 1
    # ---- ANY representatives as residues (the property says "any residues"): a first residue outside [0, p_0) on every run,
    #      for every history; the containers take raw integers, so this is inside the interface
    gi = 0
    for n in (1, 2, 3, 5, 16):
        for hi, hist in enumerate(INT_HISTS):
            ps = grid_moduli(n, gi, True)
            rs = grid_residues(ps)
            rs[0] += ps[0] * [1, -1, 3, -2, 7][(gi + hi) % 5]
            for i in range(1, n):
                if (i + gi) % 3 == 0:
                    rs[i] -= ps[i] * (1 + i % 2)
            add_sys("int", hist, fit_tt(INT_TTS[gi % len(INT_TTS)], rs), ps, rs, grid_as(ps), ctor=INT_CTORS[(gi + hi) % len(INT_CTORS)],
                    order=INT_ORDERS[(gi + hi) % len(INT_ORDERS)], grid=True)
            gi += 1
    add_sys("int", "fresh", "Integer", [3, 5], [18, 2], [0], order="ring")
    # ---- RNSsystem<RING, Domain> with RING = int64_t / double ("every ring type"): small moduli, 4 histories, lengths 1..8
    for ring in ("i64", "dbl"):
        for n in (1, 2, 3, 5, 8):
            for hist in ("fresh", "copywarm", "setwarm", "assigncc"):
                ps = grid_moduli(n, gi, True); gi += 1
                rs = grid_residues(ps)
                a = grid_as(ps)[rng.below(2) * 2] % (1 << 50) * (-1 if rng.chance(1, 2) else 1)
                o = other(n, "assignsame")
                body = "%d %s %s %d" % (n, " ".join(map(str, ps)), " ".join(map(str, rs)), a)
                cases.append({"kind": "ringrns", "hist": hist, "sub": ring, "ps": ps, "rs": rs, "a": a, "impl": "ringrns %s %s %s" % (ring, hist, body),
                              "model": "ringrns %s %s %s %d %s" % (F_DOM, hist, body, len(o), " ".join(map(str, o)))})
    # ---- RNSsystem::MixedRadixToRing where the code raises GivError: no primes; another number of digits than primes
    for dom in ("mi64", "mint", "mdouble"):
        for ps, dg in (([], []), ([], [1]), ([3, 5], [1, 2, 4]), ([3, 5, 7], [1, 2]), ([3, 5, 7], []), ([3, 5, 7], [1, 2, 3])):
            cases.append({"kind": "rnsexc", "hist": "", "sub": dom, "ps": ps, "dg": dg,
                          "impl": "rnsexc %s %d %s %d %s" % (dom, len(ps), " ".join(map(str, ps)), len(dg), " ".join(map(str, dg))),
                          "model": "rnsexc %s %d %s %d %s" % (F_DOM, len(ps), " ".join(map(str, ps)), len(dg), " ".join(map(str, dg)))})
    # the documented example of the known copy defect, and the examples of the seeded changes
    add_sys("int", "copycold", "Integer", [3, 5, 7], [1, 2, 3], [100, 7, 105, 0, -5])
    add_sys("int", "fresh", "Integer", [101, 7], [0, 3], [101, 7, 707, 706, -101])
    add_sys("int", "fresh", "Integer", [3, 5, 7], [1, 2, 3], [52], ctor="int32", order="ring")
    add_sys("int", "copycold", "int64", [7, 5, 3, 11], [6, 0, 1, 10], [1000], ctor="int64", order="recipi")
    add_sys("rns", "setsame", "mi64", [11, 13, 17], [4, 5, 6], [11, 2431, 0])
    add_sys("rns", "fresh", "mi64", [65521], [12345], [12345, 65521], order="ring")
    add_sys("rns", "setcold", "mint", [(1 << 127) - 1], [12345], [12345, -1], order="mix")
    # ---- RNSsystemFixed<Integer>: every number of primes of the grid x every history (the copy histories: c14_fixedcopy below)
    def add_fixed(hist, tt, ps, rs, grid=False):
        tt = fit_tt(tt, rs)
        il = "fixed %s %s %d %s %s" % (hist, tt, len(ps), " ".join(map(str, ps)), " ".join(map(str, rs)))
        o = other(len(ps), hist)
        body = "%d %s %s" % (len(ps), " ".join(map(str, ps)), " ".join(map(str, rs)))
        ml = "fixed %s %s %s %d %s" % (F_FIX, hist, body, len(o), " ".join(map(str, o)))
        cases.append({"kind": "fixed", "hist": hist, "sub": tt, "grid": grid, "ps": ps, "rs": rs, "impl": il, "model": ml, "body": body})
    gi = 0
    for n in FIX_GRID_LENS:
        for hist in FIX_HISTS:
            ps = grid_moduli(n, gi, True)
            add_fixed(hist, FIX_TTS[gi % len(FIX_TTS)], ps, grid_residues(ps), grid=True)
            gi += 1
    # any representatives: every residue moved out of [0, p_i), in particular the one of an unpaired last prime (odd lengths)
    for n in (1, 2, 3, 4, 5, 7, 9, 17):
        for hi, hist in enumerate(FIX_HISTS):
            ps = grid_moduli(n, gi, True)
            rs = grid_residues(ps)
            rs = [r + p * [1, -1, 2][(i + gi) % 3] for i, (r, p) in enumerate(zip(rs, ps))]
            rs[-1] = ps[-1] + rs[-1] % ps[-1] if hi % 2 else rs[-1] % ps[-1] - 2 * ps[-1]
            add_fixed(hist, FIX_TTS[gi % len(FIX_TTS)], ps, rs, grid=True)
            gi += 1
    add_fixed("fresh", "Integer", [7], [10])
    add_fixed("fresh", "Integer", [3, 5, 7], [0, 3, 10])
    for rnd in range(8 if quick else 150):
        for hist in FIX_HISTS:
            n = rng.choice([1, 2, 3, 4, 5, 6, 7, 8, 9, 11, 15, 16, 17, 31, 33] if not rng.chance(1, 6) else lens_big)
            style = rng.choice(["smallprimes", "word", "multilimb", "powers", "tiny" if n < 12 else "smallprimes"])
            if style == "multilimb" and n > mlcap + 5:
                n = rng.choice([2, 3, 4, 5, 7, 8, 9, 15, 16, 17])
            ps = gen_moduli(rng, n, None, style)
            add_fixed(hist, rng.choice(FIX_TTS), ps, gen_residues(rng, ps))
    # ---- ChineseRemainder functor
    def add_cra(dom, red, M, D, A, e):
        il = "cra %s %d %d %d %d %d" % (dom, 1 if red else 0, M, D, A, e)
        variant = facts["cra_variant"] if red else "noreduce"
        ml = "cra %s %d %d %d %d" % (variant, M, D, A, e)
        cases.append({"kind": "cra", "hist": "", "sub": dom, "red": red, "M": M, "D": D, "A": A, "e": e, "impl": il, "model": ml})
    add_cra("mi64", True, 3, 5, 2, 1)
    add_cra("mi64", False, 3, 5, 2, 1)
    CRA_DOMS = ["mdouble", "mi64", "mu64", "mint", "mi32", "mu32", "mfloat"]
    for dom in CRA_DOMS:                               # every instantiated domain, both variants, on every run
        for red in (True, False):
            D = prev_coprime(min(maxcard[dom] or 1000003, 1000003) - 1, 1)
            add_cra(dom, red, 10 * D + 1, D, (3 * D + 2) % (10 * D + 1), D - 1)
    for rnd in range(70 if quick else 1500):
        dom = rng.choice(CRA_DOMS)
        maxp = maxcard[dom]
        k = rng.below(6)
        if k == 0:
            D = prev_coprime((maxp or (1 << 70)) - rng.below(4), 1)
        elif k == 1:
            D = rng.range(2, 30)
        elif maxp is None and k < 4:
            D = rng.bits(rng.range(65, 160)) + 2
        else:
            D = rng.range(2, maxp or (1 << 64))
        # M coprime to D
        for _ in range(200):
            kk = rng.below(4)
            M = rng.range(1, 50) if kk == 0 else (vf.structured_int(rng, 3, signed=False) + 1 if kk == 1 else prod(gen_moduli(rng, rng.range(1, 6), None, "word")))
            if math.gcd(M, D) == 1:
                break
        else:
            M = 1
        A = rng.choice([0, M - 1, rng.below(M), rng.below(M), D % M, (D - 1) % M, (D + 1) % M, (2 * D) % M, M // 2])
        if rng.chance(1, 8):
            A = vf.structured_int(rng, 3)        # any integer A: only the congruences are claimed then
        e = rng.choice([0, D - 1, rng.below(D), rng.below(D), A % D, (A + 1) % D, (A - 1) % D, M % D])
        add_cra(dom, not rng.chance(1, 4), M, D, A, e)
    add_cra("mi64", True, 65521, 7, 1, 2)
    # ---- incremental lifting chains by the functor, compared with RNSsystem::RnsToRing and the CRT oracle
    for rnd in range(14 if quick else 300):
        for mode in LIFT_MODES:
            dom = rng.choice(["mdouble", "mi64", "mu64", "mint"])
            maxp = maxcard[dom]
            n = rng.choice([2, 2, 3, 3, 4, 5, 6, 7, 8] if quick else [2, 3, 4, 5, 6, 7, 8, 12, 20])
            style = rng.choice(["smallprimes", "tiny", "word", "edge", "powers"] if maxp else ["smallprimes", "word", "multilimb", "powers"])
            ps = gen_moduli(rng, n, maxp, style)
            rs = gen_residues(rng, ps)
            body = "%d %s %s" % (n, " ".join(map(str, ps)), " ".join(map(str, rs)))
            cases.append({"kind": "lift", "hist": mode, "sub": dom, "ps": ps, "rs": rs, "impl": "lift %s %s %s" % (dom, mode, body),
                          "model": "lift %s %s" % (facts["cra_variant"], body)})
    cases.append({"kind": "lift", "hist": "prepared", "sub": "mi64", "ps": [65521, 7], "rs": [1, 2], "impl": "lift mi64 prepared 2 65521 7 1 2",
                  "model": "lift %s 2 65521 7 1 2" % facts["cra_variant"]})
    # ---- Poly1CRT over GF(p)
    poly_jobs = []
    # deterministic: 1, 2, 3 points and all of GF(p) as points, for every history and field type, on every run
    for hi, hist in enumerate(POLY_HISTS):
        for di, pdom in enumerate(POLY_DOMS):
            for k, n in enumerate((1, 2, 3, 5)):
                poly_jobs.append((hist, pdom, [7, 101, 65521, 5][(hi + di + k) % 4] if n < 5 else 5, n))
    for rnd in range(14 if quick else 400):
        for hist in POLY_HISTS:
            poly_jobs.append((hist, rng.choice(POLY_DOMS), None, None))
    for hist, pdom, p, n in poly_jobs:
        if True:
            pmax = maxcard[pdom]
            if p is None:
                p = rng.choice([q for q in [2, 3, 5, 7, 11, 101, 251, 65521, 2147483647, 4294967291, 94906249, rng.choice(SMALL_PRIMES), rng.choice(SMALL_PRIMES)]
                                if q <= pmax])
                n = rng.range(1, min(p, 9 if quick else 20))
                if rng.chance(1, 10):
                    n = min(p, 12)                    # all of GF(p) as points when p is tiny
            pts = []
            while len(pts) < n:
                x = rng.below(p) if p > 50 else rng.below(p)
                if x not in pts:
                    pts.append(x)
            rs = [rng.choice([0, 1, p - 1, rng.below(p)]) for _ in pts]
            if rng.chance(1, 8):
                rs = [rs[0]] * n                  # constant polynomial: all higher coefficients vanish
            elif rng.chance(1, 4) and n >= 3:
                # values of a polynomial of low degree on the first m points (zero Newton corrections there), anything afterwards
                k = rng.range(1, n - 2)
                g = [rng.below(p) for _ in range(k)]
                m = rng.range(k + 1, n - 1)
                rs = [peval(p, g, x) for x in pts[:m]] + [rng.below(p) for _ in pts[m:]]
                if rng.chance(1, 2):
                    rs[m:] = [(peval(p, g, x) + 1) % p for x in pts[m:]]
            d = rng.range(0, 2 * n)
            cs = [rng.below(p) for _ in range(d + 1)]
            kb = rng.below(8)
            if kb == 0:
                cs = [0]                                           # the zero polynomial
            elif kb == 1:
                cs = [rng.choice([1, p - 1, rng.below(p)])]        # a constant
            elif kb == 2:
                cs = [(-rng.choice(pts)) % p, 1]                    # X - a_i : vanishes at one of the points
            elif kb == 3:
                cs = [1]
                for x in pts:                                      # prod (X - a_j): vanishes at every point, degree n
                    cs = [((cs[k - 1] if k > 0 else 0) - x * (cs[k] if k < len(cs) else 0)) % p for k in range(len(cs) + 1)]
            elif kb == 4:
                cs = [rng.below(p) for _ in range(n - 1)] + [rng.range(1, p - 1) if p > 2 else 1]     # degree exactly n-1
            d = len(cs) - 1
            il = "poly %s %s %d %d %s %s %d %s" % (hist, pdom, p, n, " ".join(map(str, pts)), " ".join(map(str, rs)), d, " ".join(map(str, cs)))
            ml = "poly %d %d %s %s %d %s" % (p, n, " ".join(map(str, pts)), " ".join(map(str, rs)), d, " ".join(map(str, cs)))
            cases.append({"kind": "poly", "hist": hist, "sub": pdom, "p": p, "pts": pts, "rs": rs, "cs": cs, "impl": il, "model": ml})

    if replay:
        rp = json.load(open(replay))
        lines = [f["case"] for f in rp.get("failing_inputs", []) if isinstance(f.get("case"), dict) and "impl" in f["case"]]
        cases = [c for c in lines]
        vf.log("replaying %d cases from %s" % (len(cases), replay))

    # ---- run both sides
    import time
    t1 = time.time()
    hstate = new_hang_state()

    def form_of(c):
        return "%s/%s" % (c["kind"], c.get("sub", ""))
    iout, ncrash, ierr = run_resilient(himpl, [c["impl"] for c in cases], notes=notes, forms=[form_of(c) for c in cases], state=hstate)
    if "TIMEOUT" in iout:
        inconclusive.append("implementation harness hit the time limit of the check: %d of %d cases not run" % (iout.count("TIMEOUT"), len(cases)))
    vf.log("[C14] %d cases generated in %.1fs, implementation ran in %.1fs (%d crashes)" % (len(cases), t1 - chk.t0, time.time() - t1, ncrash))
    t1 = time.time()
    if len(iout) != len(cases):
        chk.broke("implementation harness failed (%d/%d lines)" % (len(iout), len(cases)), ierr)
        return chk.finish()
    mout = None
    if drv:
        rc, mout, merr = run_par(drv, [c["model"] for c in cases], nproc=(6 if quick else 10), timeout=(900 if quick else 2400))
        if "[timeout]" in merr:
            inconclusive.append("extracted model driver hit the time limit of the check: correspondence not compared on this run")
            mout = None
        elif rc != 0 or len(mout) != len(cases):
            chk.broke("model driver failed (rc=%s, %d/%d lines)" % (rc, len(mout), len(cases)), merr)
            mout = None

    vf.log("[C14] model ran in %.1fs" % (time.time() - t1))
    # ---- three-way comparison
    ncorr = 0
    dist = {}
    nbroke = 0
    PCXX = {"mi64": "Modular<int64_t>", "mdouble": "Modular<double>", "mi32": "Modular<int32_t>", "mu32": "Modular<uint32_t>"}
    CXX = {"mdouble": "Modular<double>", "mi64": "Modular<int64_t>", "mu64": "Modular<uint64_t>", "mi32": "Modular<int32_t>",
           "mint": "Modular<Integer>", "mfloat": "Modular<float>", "mu32": "Modular<uint32_t>", "mont32": "Montgomery<int32_t>",
           "mru7": "Modular<ruint<7>>", "mlog16": "Modular<Log16>", "mb64": "ModularBalanced<int64_t>", "mbd": "ModularBalanced<double>"}

    def broke(msg):
        nonlocal nbroke
        nbroke += 1
        if nbroke <= 20:
            chk.broke(msg)

    def flat(gs):
        return [str(x) for g in gs for x in g]

    ncompared, nskipped = {}, {}     # per stream: cases compared with the oracle / not compared because of tooling (floor below)
    forms = {}            # call form -> number of cases that drove it (evidence: coverage.call_forms)

    def bump(name, k=1):
        forms[name] = forms.get(name, 0) + k

    def form_count(kind, c):
        if kind == "int":
            ctor = ("IntRNSsystem(const array&)" if c["ctor"] == "Integer" else "IntRNSsystem(const vector<%s_t>&) [templated]" % c["ctor"])
            bump(ctor)
            bump("IntRNSsystem obtained by " + c["hist"])
            bump("IntRNSsystem::RnsToMixedRadix/RnsToRing(vector<%s>)" % c["sub"], 5)
            bump("IntRNSsystem first call " + ORDER_NAME[c["order"]])
            bump("IntRNSsystem n=%d%s" % (len(c["ps"]), " (grid)" if c.get("grid") else ""))
            for f in ("MixedRadixToRing", "RingToRns(oversized dest)", "RingToRns(empty dest)", "product", "product (2nd)", "Reciprocals", "reciprocal(i)", "NumOfPrimes", "ith", "Primes"):
                bump("IntRNSsystem::" + f)
        elif kind == "rns":
            cls = "RNSsystem<Integer,%s>" % CXX[c["sub"]]
            bump(cls + " obtained by " + c["hist"])
            bump(cls + " first call " + ORDER_NAME[c["order"]])
            bump("RNSsystem n=%d%s" % (len(c["ps"]), " (grid)" if c.get("grid") else ""))
            for f in ("RnsToMixedRadix(empty dest)", "RnsToMixedRadix(exact dest)", "RnsToMixedRadix(oversized dest)", "RnsToRing", "MixedRadixToRing", "RingToRns(oversized dest)",
                      "RingToRns(empty dest)", "Reciprocals", "reciprocal(i)", "size", "ith", "Primes"):
                bump("RNSsystem::" + f)
        elif kind == "fixed":
            bump("RNSsystemFixed<Integer> obtained by " + c["hist"])
            bump("RNSsystemFixed<Integer>::RnsToRing(%s)" % ("Array0<Integer>" if c["sub"] == "array0" else "vector<%s>" % c["sub"]), 2)
            bump("RNSsystemFixed n=%d%s" % (len(c["ps"]), " (grid)" if c.get("grid") else ""))
            bump("RNSsystemFixed<Integer>::Primes (whole tree)")
        elif kind == "cra":
            bump("ChineseRemainder<IntegerDom,%s,%s> ctor/operator()(res,A,e)/copy/operator()(x,x,e)" % (CXX[c["sub"]], "true" if c["red"] else "false"))
        elif kind == "lift":
            bump("ChineseRemainder<IntegerDom,%s,true> lifting chain (%s)" % (CXX[c["sub"]], c["hist"]))
        elif kind == "poly":
            bump("Poly1CRT<%s> obtained by %s" % (PCXX[c["sub"]], c["hist"]))
            for f in ("RnsToRing", "RnsToRing (2nd, destination holds another polynomial)", "RingToRns(oversized dest)", "size", "ith", "Primes", "Reciprocals", "reciprocal(i)"):
                bump("Poly1CRT::" + f)

    for i, c in enumerate(cases):
        kind = c["kind"]
        key = "%s/%s/%s" % (kind, c.get("sub", ""), c.get("hist", ""))
        dist[key] = dist.get(key, 0) + 1
        il = iout[i]
        if il in ("TIMEOUT", "KILLED", "NOT-RUN"):
            nskipped[kind] = nskipped.get(kind, 0) + 1       # tooling: inconclusive, not compared
            continue
        ncompared[kind] = ncompared.get(kind, 0) + 1
        itoks = [t for t in il.split() if t != "|"]
        mtoks0 = [t for t in mout[i].split() if t != "|"] if mout is not None else None
        spec_ok = True
        known_class = False      # the difference from the oracle is a filed defect AND the model of the current body reproduces it
        exp_toks = None          # full expected output when the specification determines it
        try:
            if kind == "rnsexc":
                ps, dg = c["ps"], c["dg"]
                want = "EXCEPTION" if (not ps or len(dg) != len(ps)) else str(sum(d * prod(ps[:k]) for k, d in enumerate(dg)))
                exp_toks = [want]
                chk.count((kind, c["sub"], tuple(ps), tuple(dg)), nontrivial=True)
                bump("RNSsystem<Integer,%s>::MixedRadixToRing (%s)" % (CXX[c["sub"]], "no primes" if not ps else "%d digits on %d primes" % (len(dg), len(ps))))
                if il != want:
                    spec_ok = False
                    if not ps and not dg and il.startswith("CRASH"):
                        known_class = facts.get("rns_empty_throw") == "no throw"
                        chk.fail_input("RNSsystem::MixedRadixToRing", "system without primes", c, want, il,
                                       "`if (!Size) GivError(...)` without `throw`: the next statement indexes the empty array")
                    else:
                        chk.fail_input("RNSsystem<Integer,%s>::MixedRadixToRing" % CXX[c["sub"]], "%d digits on %d primes" % (len(dg), len(ps)), c, want, il,
                                       "GivError expected for a system without primes / a digit array of another size; the value otherwise")
            elif kind == "ringrns" and not il.startswith(("CRASH", "HANG", "EXCEPTION", "BAD-")):
                ps, rs, a = c["ps"], c["rs"], c["a"]
                V = crt_oracle(ps, rs)
                exp = [mixed_digits(ps, V), [V], [a % p for p in ps], [a % prod(ps)]]
                exp_toks = flat(exp)
                chk.count((kind, c["sub"], c["hist"], tuple(ps), tuple(rs)), nontrivial=len(ps) >= 2)
                cls = "RNSsystem<%s>" % ("int64_t,Modular<int32_t>" if c["sub"] == "i64" else "double,Modular<double>")
                bump(cls + " obtained by " + c["hist"])
                if itoks != exp_toks:
                    spec_ok = False
                    chk.fail_input(cls + "::RnsToRing/RingToRns", "obtained by %s, %d moduli" % (c["hist"], len(ps)), c, exp, il, "RING other than Integer: differs from the CRT value / residues")
            elif il == "HANG":
                spec_ok = False
                cls = {"ringrns": "RNSsystem<RING != Integer>", "lift": "ChineseRemainder (lifting chain)", "int": "IntRNSsystem", "rns": "RNSsystem<Integer,%s>" % CXX.get(c.get("sub"), "?"), "fixed": "RNSsystemFixed<Integer>",
                       "cra": "ChineseRemainder", "poly": "Poly1CRT<%s>" % PCXX.get(c.get("sub"), "?")}[kind]
                chk.count((kind, "hang", i), nontrivial=False)
                chk.fail_input(cls + " (does not return)", "does-not-return", c, "a result", il,
                               "obtained by %s: the call used up %d s CPU in the stream and %d s CPU when run alone (CPU time is load-independent)" % (c.get("hist", ""), STAGE1_CPU, CONFIRM_CPU))
            elif il.startswith(("CRASH", "EXCEPTION", "BAD-")):
                spec_ok = False
                cls = {"ringrns": "RNSsystem<RING != Integer>", "rnsexc": "RNSsystem::MixedRadixToRing", "lift": "ChineseRemainder (lifting chain)", "int": "IntRNSsystem", "rns": "RNSsystem<Integer,%s>" % CXX.get(c.get("sub"), "?"), "fixed": "RNSsystemFixed<Integer>",
                       "cra": "ChineseRemainder", "poly": "Poly1CRT<%s>" % PCXX.get(c.get("sub"), "?")}[kind]
                chk.count((kind, "crash", i), nontrivial=False)
                chk.fail_input(cls + " (process died or threw)", "obtained by %s" % c.get("hist", ""), c, "a result", il,
                               "the implementation crashed / threw on this input")
            elif kind in ("int", "rns"):
                ps, rs, al = c["ps"], c["rs"], c["al"]
                n = len(ps)
                a = al[0]
                PP = prod(ps)
                V = crt_oracle(ps, rs)
                order = c["order"]
                if c["sub"] in BALANCED:
                    # the same law in the representation of the domain: digits, residues and value of least absolute value
                    Vb = bal(V, prod(ps))
                    cko = [bal(x, p) for x, p in zip(ck_oracle(ps), ps[1:])]
                    dg = bal_digits(ps, Vb)
                    first = {"mix": dg, "ring": [Vb], "recip": cko, "recipi": cko[-1:], "rns": [bal(a, p) for p in ps]}[order]
                    exp = [dg, [Vb], [bal(x, p) for x in al for p in ps], [bal(x, PP) for x in al], cko, [Vb], [n] + ps, ps, cko, [Vb],
                           dg, dg, [bal(al[-1], p) for p in ps], first]
                else:
                    dg = mixed_digits(ps, V)
                    cko = ck_oracle(ps)
                    first = {"mix": dg, "ring": [V], "recip": cko, "recipi": cko[-1:], "prod": [PP], "rns": [a % p for p in ps]}[order]
                    exp = ([dg, [V]] + ([[PP]] if kind == "int" else [])
                           + [[x % p for x in al for p in ps], [x % PP for x in al], cko, [V]]
                           + [[n] + ps, ps, cko, [V]]
                           + ([[PP]] if kind == "int" else [dg, dg]) + [[al[-1] % p for p in ps], first])
                exp_toks = flat(exp)
                got = [ints(g) for g in groups(il)]
                chk.count((kind, c["sub"], c["hist"], c["ctor"], order, tuple(ps), tuple(rs)), nontrivial=(n >= 2 and V > 1))
                form_count(kind, c)
                if got != exp:
                    spec_ok = False
                    names = ["RnsToMixedRadix", "RnsToRing", "product"] if kind == "int" else ["RnsToMixedRadix", "RnsToRing"]
                    names += ["RingToRns", "RnsToRing(RingToRns(a))", "Reciprocals", "RnsToRing(second call)", "NumOfPrimes/ith", "Primes", "reciprocal(i)", "MixedRadixToRing"]
                    names += (["product(second call)"] if kind == "int" else ["RnsToMixedRadix(exact-size destination)", "RnsToMixedRadix(oversized destination)"])
                    names += ["RingToRns(empty destination)", ORDER_NAME[order] + "(first call on the object)"]
                    bad = [names[j] for j in range(min(len(exp), len(got))) if got[j] != exp[j]] or ["shape"]
                    if kind == "int" and not (0 <= rs[0] < ps[0]) and facts["int_head"] == "copied" and mtoks0 == itoks:
                        # IntRNSsystem copies residu[0] unreduced (filed; repair frag/C14.fix-3): the model of the body that is in the
                        # tree reproduces the answer exactly, the oracle is the unique integer for ANY representatives
                        known_class = True
                        chk.fail_input("IntRNSsystem::RnsToMixedRadix", "non-canonical residu[0]", c, exp, il,
                                       "first residue outside [0, p_0): digit 0 not below its modulus / value outside [0, prod): " + ", ".join(bad))
                    elif kind == "rns" and c["sub"] == "mru7" and set(bad) <= {"RingToRns", "RingToRns(empty destination)", "RingToRns(first call on the object)"} and max(abs(x) for x in al) >= (1 << 128):
                        # root cause outside the anchored code: Modular<ruint<K>>::init(Element&, const Integer&) truncates the
                        # Integer to the element width before reducing (known finding of C04, "wider-than-element")
                        chk.fail_input(SITE_RU, KLASS_RU, c, exp, il, "residues of an integer wider than the element type are wrong")
                    else:
                        cls = ("IntRNSsystem" if kind == "int" else "RNSsystem<Integer,%s>" % CXX[c["sub"]])
                        how = "obtained by %s%s, %d moduli" % (c["hist"], (" from vector<%s>" % c["ctor"]) if kind == "int" else "", n)
                        chk.fail_input("%s::%s" % (cls, bad[0]), how, c, exp, il,
                                       "differs from the unique CRT value / canonical residues: " + ", ".join(bad))
            elif kind == "fixed":
                ps, rs = c["ps"], c["rs"]
                V = crt_oracle(ps, rs)
                tree = fixed_tree_oracle(ps)
                exp_toks = [str(V), str(V), str(len(tree))] + [str(x) for lv in tree for x in [len(lv)] + lv]
                chk.count((kind, c["hist"], c["sub"], tuple(ps), tuple(rs)), nontrivial=(len(ps) >= 2 and V > 1))
                form_count(kind, c)
                if itoks[:2] != exp_toks[:2]:
                    spec_ok = False
                    if len(ps) % 2 == 1 and not (0 <= rs[-1] < ps[-1]) and facts["fixed_leaf"] == "copied" and mtoks0 == itoks:
                        known_class = True
                        chk.fail_input("RNSsystemFixed<Integer>::RnsToRing", "non-canonical residue of the unpaired last prime", c, V, il,
                                       "RnsToRingLeft returns the residue of a left leaf unreduced (filed; repair frag/C14.fix-4)")
                    else:
                        chk.fail_input("RNSsystemFixed<Integer>::RnsToRing", "obtained by %s, %d moduli" % (c["hist"], len(ps)), c, V, il,
                                       "differs from the unique CRT value in [0, prod)")
                # (a stored tree that differs from the model's while the conversion is still right is a broken tie, reported by the
                #  correspondence comparison below: C14_fixed_tree would then speak about another table)
            elif kind == "cra":
                M, D, A, e = c["M"], c["D"], c["A"], c["e"]
                r, rcopy, rinpl = [int(x) for x in il.split()]
                chk.count((kind, c["sub"], c["red"], M, D, A, e), nontrivial=(M > 1 and e != A % D))
                form_count(kind, c)
                cong = (r - A) % M == 0 and (r - e) % D == 0
                site = SITE_CRA if c["red"] else "ChineseRemainder<Ring,Domain,false>::operator()"
                if rcopy != r:
                    spec_ok = False
                    chk.fail_input(site, "copy of the functor answers differently", c, r, il, "a copy of the functor (original destroyed) gives another value")
                elif rinpl != r:
                    spec_ok = False
                    chk.fail_input(site, "in-place call (destination is the same object as A)", c, r, il, "operator()(x, x, e) differs from operator()(res, x, e)")
                elif not cong:
                    spec_ok = False
                    chk.fail_input(site, "wrong residue", c, "res == A (mod M), res == e (mod D)", il, "the lifted value has wrong residues")
                elif c["red"] and 0 <= A < M:
                    V = crt_oracle([M, D], [A, e])
                    exp_toks = [str(V), str(V), str(V)]
                    if r != V:
                        spec_ok = False
                        chk.fail_input(SITE_CRA, KLASS_CRA, c, V, il, "congruent to the CRT value but not the unique integer in [0, M*D)")
                elif c["red"] and A >= 0 and not (A <= r <= A + (D - 1) * (D - 1) * M):
                    spec_ok = False
                    chk.fail_input(site, "outside the proved range", c, "A <= res <= A + (D-1)^2 M", il, "")
            elif kind == "lift":
                ps, rs = c["ps"], c["rs"]
                steps = [crt_oracle(ps[:k + 1], rs[:k + 1]) for k in range(len(ps))]
                exp = [steps, [steps[-1]]]
                exp_toks = flat(exp)
                got = [ints(g) for g in groups(il)]
                chk.count((kind, c["sub"], c["hist"], tuple(ps), tuple(rs)), nontrivial=(steps[-1] > 1))
                form_count(kind, c)
                if got != exp:
                    spec_ok = False
                    if got[1:] != exp[1:]:
                        chk.fail_input("RNSsystem<Integer,%s>::RnsToRing" % CXX[c["sub"]], "obtained by fresh, %d moduli" % len(ps), c, exp, il, "differs from the CRT value")
                    else:
                        k = [j for j in range(min(len(got[0]), len(steps))) if got[0][j] != steps[j]]
                        chk.fail_input(SITE_CRA, "incremental lifting (%s), step %s" % (c["hist"], k[0] if k else "?"), c, exp, il,
                                       "the functor built for (M_i, p_i) does not return the unique integer of [0, M_i p_i) when used in a lifting chain")
            elif kind == "poly":
                p, pts, rs, cs = c["p"], c["pts"], c["rs"], c["cs"]
                cko = []
                for k in range(1, len(pts)):       # ck_k = prod_{j<k} (X - a_j) / prod_{j<k} (a_k - a_j)
                    ck = lagrange(p, pts[:k + 1], [0] * k + [1])
                    cko += [len(ck) - 1] + ck
                exp = [lagrange(p, pts, rs), [peval(p, cs, x) for x in pts], [len(pts)] + pts, cko, [1]]
                exp_toks = flat(exp)
                got = [ints(g) for g in groups(il)]
                chk.count((kind, c["sub"], c["hist"], p, tuple(pts), tuple(rs)), nontrivial=(len(pts) >= 2 and any(rs)))
                form_count(kind, c)
                if got != exp:
                    spec_ok = False
                    names = ["RnsToRing", "RingToRns", "size/ith", "Reciprocals", "RnsToRing(second call)"]
                    which = ([names[j] for j in range(min(len(exp), len(got))) if got[j] != exp[j]] or ["shape"])[0]
                    chk.fail_input("Poly1CRT<%s>::%s" % (PCXX[c["sub"]], which), "obtained by %s, %d points" % (c["hist"], len(pts)), c, exp, il,
                                   "differs from Lagrange interpolation / evaluation over GF(p)")
        except (ValueError, ZeroDivisionError) as ex:
            spec_ok = False
            chk.fail_input("harness output", "unparsable", c, None, il, str(ex))
        if i % 211 == 0:
            chk.sample({"impl_case": c["impl"][:300], "impl_out": il[:300]})
        # tie: implementation vs extracted model: compared on EVERY case the implementation answered (also where it differs from the
        # oracle: the model describes the body that is in the tree, so it must reproduce a filed defect exactly).  Only a case
        # on which the process died / hung has no implementation answer to compare.
        if mout is not None and not il.startswith(("CRASH", "HANG", "BAD-")) and not (il == "EXCEPTION" and kind != "rnsexc"):
            ncorr += 1
            mtoks = mtoks0
            if mtoks != itoks:
                broke("correspondence model/implementation differs on [%s]: model=%s impl=%s" % (c["impl"][:400], mout[i][:300], il[:300]))
            elif exp_toks is not None and mtoks != exp_toks and not known_class:
                broke("extracted model differs from the oracle on [%s]: model=%s" % (c["impl"][:400], mout[i][:300]))
    if nbroke > 20:
        chk.broke("... %d more correspondence differences" % (nbroke - 20))

    # ---- the copy-constructor of the fixed system: compile-time probe, then a run
    if hfix is None and timed_out(l3):
        inconclusive.append("c14_fixedcopy did not finish compiling within the time limit: copies of RNSsystemFixed not probed")
    elif hfix is None:
        if "givWithCopy" in l3 or "no matching function" in l3:
            chk.fail_input(SITE_FIXCOPY, KLASS_FIXCOPY, {"impl": "harness/c14_fixedcopy.C"}, "a copy-constructed RNSsystemFixed is usable",
                           "compile error: " + " ".join(l3.split())[:600])
        else:
            chk.broke("harness/c14_fixedcopy.C does not compile against /repo for another reason", l3)
    else:
        fc = [c for c in cases if c["kind"] == "fixed"][:400]
        fh = [FIX_COPY_HISTS[j % len(FIX_COPY_HISTS)] for j in range(len(fc))]
        fo, _, fe = run_resilient(hfix, ["%s %s" % (h, c["body"]) for h, c in zip(fh, fc)], timeout=900, notes=notes, forms=["fixedcopy/" + h for h in fh], state=hstate)
        fm = None
        if drv:                       # the copies are objects of the model as well (fix_copy / fix_assign, member by member)
            rcm, fm, fme = run_par(drv, ["fixed %s %s %s 0" % (F_FIX, h, c["body"]) for h, c in zip(fh, fc)], nproc=4, timeout=900)
            if "[timeout]" in fme:
                inconclusive.append("model driver hit the time limit on the copy histories of RNSsystemFixed"); fm = None
            elif rcm != 0 or len(fm) != len(fc):
                chk.broke("model driver failed on the copy histories of RNSsystemFixed", fme); fm = None
        if "TIMEOUT" in fo:
            inconclusive.append("c14_fixedcopy hit the time limit of the check")
        elif len(fo) != len(fc):
            chk.broke("c14_fixedcopy failed", fe)
        else:
            for j, (h, c, l) in enumerate(zip(fh, fc, fo)):
                if l in ("KILLED", "TIMEOUT", "NOT-RUN"):
                    nskipped["fixedcopy"] = nskipped.get("fixedcopy", 0) + 1
                    continue
                ncompared["fixedcopy"] = ncompared.get("fixedcopy", 0) + 1
                V = crt_oracle(c["ps"], c["rs"])
                chk.count(("fixedcopy", h, tuple(c["ps"]), tuple(c["rs"])), nontrivial=len(c["ps"]) >= 2)
                dist["fixed//" + h] = dist.get("fixed//" + h, 0) + 1
                bump("RNSsystemFixed<Integer> obtained by " + h)
                mv = fm[j].split()[0] if fm is not None and fm[j].split() else None
                if l.strip() != str(V):
                    if l == "HANG":
                        chk.fail_input(SITE_FIXCOPY + " (does not return)", "does-not-return", dict(c, impl="c14_fixedcopy: %s %s" % (h, c["body"])), V, l, "CPU budget used up twice")
                    elif len(c["ps"]) % 2 == 1 and not (0 <= c["rs"][-1] < c["ps"][-1]) and facts["fixed_leaf"] == "copied" and mv == l.strip():
                        chk.fail_input("RNSsystemFixed<Integer>::RnsToRing", "non-canonical residue of the unpaired last prime", dict(c, impl="c14_fixedcopy: %s %s" % (h, c["body"])), V, l,
                                       "RnsToRingLeft returns the residue of a left leaf unreduced (filed; repair frag/C14.fix-4)")
                    else:
                        chk.fail_input(SITE_FIXCOPY, "obtained by %s, %d moduli" % (h, len(c["ps"])), dict(c, impl="c14_fixedcopy: %s %s" % (h, c["body"])),
                                       V, l, "copy-constructed fixed system differs from the CRT value")
                if mv is not None and not l.startswith(("CRASH", "HANG")):
                    ncorr += 1
                    if mv != l.strip():
                        broke("correspondence model/implementation differs on a copied RNSsystemFixed [%s %s]: model=%s impl=%s" % (h, c["body"][:300], mv, l[:100]))

    # ---- assignment of the two-modulus functor: compile-time probe, then a run on the functor cases
    if hasg is None and timed_out(l4):
        inconclusive.append("c14_craassign did not finish compiling within the time limit: assignment of functors not probed")
    elif hasg is None:
        if "operator=" in l4 or "deleted" in l4 or "assignment" in l4:
            chk.fail_input(SITE_CRAASSIGN, "does not compile", {"impl": "harness/c14_craassign.C"}, "a functor can be assigned from another one",
                           "compile error: " + " ".join(l4.split())[:600])
        else:
            chk.broke("harness/c14_craassign.C does not compile against /repo for another reason", l4)
    else:
        ac = [c for c in cases if c["kind"] == "cra" and c["sub"] in ("mi64", "mint", "mdouble")][:300]
        ao, _, ae = run_resilient(hasg, ["%s %d %d %d %d %d" % (c["sub"], 1 if c["red"] else 0, c["M"], c["D"], c["A"], c["e"]) for c in ac], timeout=900, notes=notes, forms=["craassign/%s/%d" % (c["sub"], c["red"]) for c in ac], state=hstate)
        if "TIMEOUT" in ao:
            inconclusive.append("c14_craassign hit the time limit of the check")
        elif len(ao) != len(ac):
            chk.broke("c14_craassign failed", ae)
        else:
            for c, l in zip(ac, ao):
                if l in ("KILLED", "TIMEOUT", "NOT-RUN"):
                    nskipped["craassign"] = nskipped.get("craassign", 0) + 1
                    continue
                ncompared["craassign"] = ncompared.get("craassign", 0) + 1
                chk.count(("craassign", c["sub"], c["red"], c["M"], c["D"], c["A"], c["e"]), nontrivial=c["M"] > 1)
                bump("ChineseRemainder<IntegerDom,%s,%s>::operator= (over a used functor; self)" % (CXX[c["sub"]], "true" if c["red"] else "false"))
                M, D, A, e = c["M"], c["D"], c["A"], c["e"]
                if l == "HANG":
                    chk.fail_input(SITE_CRAASSIGN + " (does not return)", "does-not-return", dict(c, impl="c14_craassign: " + l), "a result", l,
                                   "the call used up %d s CPU in the stream and %d s CPU when run alone" % (STAGE1_CPU, CONFIRM_CPU))
                    continue
                try:
                    v = [int(x) for x in l.split()]
                    ok = len(v) == 3 and v[0] == v[1] == v[2] and (v[0] - A) % M == 0 and (v[0] - e) % D == 0
                    if ok and c["red"] and 0 <= A < M:
                        ok = v[0] == crt_oracle([M, D], [A, e])
                except ValueError:
                    ok = False
                if not ok:
                    chk.fail_input(SITE_CRAASSIGN, "assigned functor answers differently", dict(c, impl="c14_craassign: " + l), "three times the value of the original functor", l,
                                   "a functor assigned over another one (source destroyed) / self-assigned does not return the lifted value")

    chk.cov["rule"] = ("systems obtained by every history (fresh, reuse, copy of cold/warm/copy, source changed after the copy, assignment over default/used/used-same-length, cold source over used target, "
                       "setPrimes over default/used/same-length/back again, default-copied-then-set) x constructor argument types (IntRNSsystem: vector<Integer> plain, vector<int32|uint32|int64|uint64> templated) "
                       "x residue container types (Integer|int32|uint32|int64|uint64; RNSsystemFixed also Array0<Integer>) x first entry point called on the object (RnsToMixedRadix|RnsToRing|Reciprocals|reciprocal(n-1)|product|RingToRns) "
                       "x residue domains (Modular<double|float|int32_t|int64_t|uint32_t|uint64_t|Integer|ruint<7>|Log16>, Montgomery<int32_t>, ModularBalanced<int64_t|double>) "
                       "x a deterministic grid of lengths 1,2,3,4,5,7,8,9,15,16,17,31,32,33 (fixed: 1..17,31,32,33,63,64,65) on every run for every history, plus random "
                       "pairwise coprime moduli lists of length 1..%d (small primes, tiny composites, prime powers, random words, values at maxCardinality, multi-limb; shuffled/descending) "
                       "x residue vectors (all 0, all p-1, mixed edges, random; out-of-range residu[i>=1] for IntRNSsystem) ; functor on (M,D,A,e) incl. D at maxCardinality, multi-limb M; "
                       "Poly1CRT over GF(p), p in {2,3,5,7,101,65521,2^31-1,2^32-5,...}; non-trivial = at least two moduli and value > 1; distinct = (kind, domain, history, moduli, residues)"
                       % max(lens_big))
    chk.cov["traces_validated_against_impl"] = ncorr
    # ---- the floor: what a run must have compared to count as a run of this check (tooling problems must not look like a pass)
    FLOOR = {"int": 900, "rns": 900, "fixed": 200, "cra": 60, "lift": 40, "poly": 120, "rnsexc": 15, "ringrns": 40, "fixedcopy": 150, "craassign": 30} if quick else \
            {"int": 2400, "rns": 5000, "fixed": 800, "cra": 1000, "lift": 800, "poly": 1500, "rnsexc": 15, "ringrns": 40, "fixedcopy": 300, "craassign": 200}
    if replay:
        FLOOR = {}
    for k, need in FLOOR.items():
        if ncompared.get(k, 0) < need:
            floor_missed.append("stream %s: %d cases compared with the oracle, floor %d (%d not run because of tooling)" % (k, ncompared.get(k, 0), need, nskipped.get(k, 0)))
    need_corr = 0 if replay else (2600 if quick else 12000)
    if ncorr < need_corr:
        floor_missed.append("correspondence model/implementation: %d comparisons, floor %d" % (ncorr, need_corr))
    chk.cov["compared_per_stream"] = dict(ncompared)
    chk.cov["not_run_per_stream"] = dict(nskipped)
    chk.cov["floor"] = dict(FLOOR, correspondence=need_corr)
    if inconclusive or floor_missed:
        print("INCONCLUSIVE property=C14 %s" % "; ".join((inconclusive + floor_missed)[:6]))
    chk.cov["stream_notes"] = notes[:20]
    chk.cov["hang_handling"] = {"stage1_cpu_s": STAGE1_CPU, "confirm_cpu_s": CONFIRM_CPU, "max_confirmed": MAX_CONFIRMED, "max_overruns": MAX_OVERRUNS,
                                "max_crashes_per_form": MAX_CRASHES_PER_FORM, "confirmed": hstate["confirmed"], "overruns": hstate["overruns"],
                                "forms_given_up": sorted(hstate["dead_forms"]), "stopped": hstate["stopped"]}
    chk.cov["call_forms"] = dict(sorted(forms.items()))
    chk.cov["distribution"] = dist
    chk.cov["source_facts"] = {k: (v if isinstance(v, (str, list)) else str(v)) for k, v in facts.items()}
    # the table of unrelated primes exists twice (here and in c14_rns.C): compare them on every run
    rco, oth, _ = vf.run_lines(himpl, "others\n")
    if rco == 0 and oth and [int(x) for x in oth[0].split()] != OTHER:
        chk.broke("tooling: the table OTHER of checks/C14.py and other_primes() of harness/c14_rns.C differ")
    applicable = {"first digit of IntRNSsystem::RnsToMixedRadix": ("C14_int_mixed_radix_any_residues + C14_int_end_to_end_any_residues" if facts["int_head"] == "reduced"
                                                                   else "C14_int_mixed_radix (first residue canonical) + C14_int_mixed_radix_unreduced_head_refuted"),
                  "left leaf of RNSsystemFixed": ("C14_fixed_tree_any_residues" if facts["fixed_leaf"] == "reduced" else "C14_fixed_tree (canonical residues) + C14_fixed_tree_unreduced_leaf_refuted"),
                  "operator= / copy / setPrimes": "C14_int/dom/fixed_history_independent at the facts read (%s)" % json.dumps(facts["model_parameters"]),
                  "copy": "C14_int_copy_from_primes_refuted" if facts["cksrc"] == "primes" else "C14_int_history_independent + C14_int_end_to_end",
                  "converting constructor": "C14_int_ctor_presized_refuted" if facts["ttck"] == "sized" else "C14_int_history_independent",
                  "functor": "C14_functor_unrepaired_range_refuted + C14_functor_unrepaired_congruent" if facts["cra_variant"] == "reduce" else "C14_functor_canonical"}
    chk.cov["theorems_applicable_to_current_source"] = applicable
    return chk.finish()
