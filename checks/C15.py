# C15 — results do not depend on whether the destination aliases an operand.   (DESIGN 5/C15)
# proof:  coq/C15: the multi-step bodies (Modular<ruint>, Montgomery<ruint>, Modular<Integer>, Integer fused forms,
#         gcd(g,u,v,a,b), divmod(q,r,a,b), powmod with a negative exponent, QField<Rational>/Rational in-place forms)
#         over a store loc -> Z; theorems: the value left in the destination is a fixed function of the operand VALUES
#         for arbitrary, possibly equal locations (so every alias pattern), and nothing else changes.
# tie:    correspondence: extracted model (run on the same locations / same alias pattern) vs /repo's current code
# search: the alias harness: EVERY three-address operation of the integer, rational, ring, field and polynomial
#         interfaces is called in every alias pattern (all set partitions of its positions) and compared with the
#         call on distinct objects (and, for rings and Integer, with a python big-integer specification).
import json, math, os, sys, itertools
from concurrent.futures import ThreadPoolExecutor
import vf

AREA = "C15"

# ---------------------------------------------------------------- known findings of this property's fragment
_orig_load_known = vf.load_known


def load_known_with_fragment():
    base = _orig_load_known()
    try:
        frag = json.load(open(os.path.join(vf.ROOT, "frag", "C15.findings.json")))
    except (OSError, ValueError):
        frag = []
    have = {(k.get("property"), k.get("site"), k.get("klass")) for k in base}
    return base + [k for k in frag if (k.get("property"), k.get("site"), k.get("klass")) not in have]


vf.load_known = load_known_with_fragment

EXTRA_HARNESSES = []      # (key, source, flags) — filled by the domain sections below
EXTRA_GENERATORS = []     # functions (rng, exes, quick, cases)

# ---------------------------------------------------------------- operation tables
# op -> (n positions, destination positions, positions that are read)       (position 0.. : as in the C++ signature)
RING_OPS = {
    "add": (3, [0], [1, 2]), "sub": (3, [0], [1, 2]), "mul": (3, [0], [1, 2]), "div": (3, [0], [1, 2]),
    "neg": (2, [0], [1]), "inv": (2, [0], [1]), "assign": (2, [0], [1]),
    "axpy": (4, [0], [1, 2, 3]), "axmy": (4, [0], [1, 2, 3]), "maxpy": (4, [0], [1, 2, 3]),
    "axpyin": (3, [0], [0, 1, 2]), "axmyin": (3, [0], [0, 1, 2]), "maxpyin": (3, [0], [0, 1, 2]),
    "addin": (2, [0], [0, 1]), "subin": (2, [0], [0, 1]), "mulin": (2, [0], [0, 1]), "divin": (2, [0], [0, 1]),
    "negin": (1, [0], [0]), "invin": (1, [0], [0]),
    "reduce": (2, [0], [1]),
    # Modular<integral S, integral C>, sizeof(S) == sizeof(C) only (modular-mulprecomp.inl)
    "mul_precomp_p": (3, [0], [1, 2]), "mul_precomp_b": (3, [0], [1, 2]), "mul_precomp_b_without_reduction": (3, [0], [1, 2]),
}
PRECOMP_RINGS = {"i8_i8": 8, "i8_u8": 8, "u8_i8": 8, "u8_u8": 8, "i16_i16": 16, "i16_u16": 16, "u16_i16": 16, "u16_u16": 16,
                 "i32_i32": 32, "i32_u32": 32, "u32_i32": 32, "u32_u32": 32, "i64_i64": 64, "i64_u64": 64, "u64_i64": 64, "u64_u64": 64}
RING_OPNUM = {"add": 0, "sub": 1, "mul": 2, "div": 3, "neg": 4, "inv": 5, "axpy": 6, "axmy": 7, "maxpy": 8,
              "axpyin": 9, "axmyin": 10, "maxpyin": 11, "addin": 12, "subin": 13, "mulin": 14, "divin": 15,
              "negin": 16, "invin": 17}

ITY = {"i8": (8, 1), "u8": (8, 0), "i16": (16, 1), "u16": (16, 0), "i32": (32, 1), "u32": (32, 0),
       "i64": (64, 1), "u64": (64, 0), "i128": (128, 1), "u128": (128, 0)}
INT_RINGS = [s + "_" + c for s, cs in [("i8", ["i8", "u8", "i16", "u16"]), ("u8", ["i8", "u8", "i16", "u16"]),
                                       ("i16", ["i16", "u16", "i32", "u32"]), ("u16", ["i16", "u16", "i32", "u32"]),
                                       ("i32", ["i32", "u32", "i64", "u64"]), ("u32", ["i32", "u32", "i64", "u64"]),
                                       ("i64", ["i64", "u64", "i128", "u128"]), ("u64", ["i64", "u64", "i128", "u128"])]
             for c in cs]
PART1 = [r for r in INT_RINGS if ITY[r.split("_")[0]][0] <= 32]
PART2 = [r for r in INT_RINGS if ITY[r.split("_")[0]][0] == 64] + ["f_f", "f_d", "d_d", "bi32", "bi64", "bf", "bd", "ef", "ed",
                                                                  "zz", "mgi32", "zring_I", "zring_d", "zring_i64"]
PART3 = ["ru6_6", "ru6_7", "ru7_7", "ru7_8", "ru8_8", "ru8_9", "ri7_7", "ri7_8", "mg6", "mg7", "mg8"]
BAL_RINGS = ["bi32", "bi64", "bf", "bd"]
ZRINGS = ["zring_I", "zring_d", "zring_i64"]
RECINT_RINGS = {"ru6_6": (6, True), "ru6_7": (6, False), "ru7_7": (7, True), "ru7_8": (7, False), "ru8_8": (8, True),
                "ru8_9": (8, False)}
MG_RINGS = {"mg6": 6, "mg7": 7, "mg8": 8}
ALL_RING_DOMS = set(PART1 + PART2 + PART3)

# Integer: op -> (n, dests, reads, scalar kind or None, value constraint tag)
Z_OPS = {
    "add": (3, [0], [1, 2], None, ""), "sub": (3, [0], [1, 2], None, ""), "mul": (3, [0], [1, 2], None, ""),
    "div": (3, [0], [1, 2], None, "nz2"), "divexact": (3, [0], [1, 2], None, "exact"), "mod": (3, [0], [1, 2], None, "nz2"),
    "trem": (3, [0], [1, 2], None, "nz2"), "crem": (3, [0], [1, 2], None, "nz2"), "frem": (3, [0], [1, 2], None, "nz2"),
    "ceil": (3, [0], [1, 2], None, "nz2"), "floor": (3, [0], [1, 2], None, "nz2"), "trunc": (3, [0], [1, 2], None, "nz2"),
    "gcd": (3, [0], [1, 2], None, ""), "lcm": (3, [0], [1, 2], None, ""), "inv": (3, [0], [1, 2], None, "unit12"),
    "addin": (2, [0], [0, 1], None, ""), "subin": (2, [0], [0, 1], None, ""), "mulin": (2, [0], [0, 1], None, ""),
    "divin": (2, [0], [0, 1], None, "nz1"), "modin": (2, [0], [0, 1], None, "nz1"), "invin": (2, [0], [0, 1], None, "unit01"),
    "op+=": (2, [0], [0, 1], None, ""), "op-=": (2, [0], [0, 1], None, ""), "op*=": (2, [0], [0, 1], None, ""),
    "op/=": (2, [0], [0, 1], None, "nz1"), "op%=": (2, [0], [0, 1], None, "nz1"), "op=": (2, [0], [1], None, ""),
    "op=+": (3, [0], [1, 2], None, ""), "op=-": (3, [0], [1, 2], None, ""), "op=*": (3, [0], [1, 2], None, ""),
    "op=/": (3, [0], [1, 2], None, "nz2"), "op=%": (3, [0], [1, 2], None, "nz2"),
    "neg": (2, [0], [1], None, ""), "negin": (1, [0], [0], None, ""),
    "sqrt": (2, [0], [1], None, "nonneg1"), "sqrtrem": (3, [0, 2], [1], None, "nonneg1"), "sqrtrem.val": (2, [0], [1], None, "nonneg1"),
    "swap": (2, [0, 1], [0, 1], None, ""),
    "add.i64": (2, [0], [1], "i64", ""), "add.u64": (2, [0], [1], "u64", ""), "add.i32": (2, [0], [1], "i32", ""), "add.u32": (2, [0], [1], "u32", ""),
    "sub.i64": (2, [0], [1], "i64", ""), "sub.u64": (2, [0], [1], "u64", ""), "sub.i32": (2, [0], [1], "i32", ""), "sub.u32": (2, [0], [1], "u32", ""),
    "mul.i64": (2, [0], [1], "i64", ""), "mul.u64": (2, [0], [1], "u64", ""), "mul.i32": (2, [0], [1], "i32", ""), "mul.u32": (2, [0], [1], "u32", ""),
    "div.i64": (2, [0], [1], "i64nz", ""), "div.i32": (2, [0], [1], "i32nz", ""), "div.u64": (2, [0], [1], "u64nz", ""),
    "divexact.i64": (2, [0], [1], "i64nz", "exacts"), "divexact.u64": (2, [0], [1], "u64nz", "exacts"),
    "mod.i64": (2, [0], [1], "i64nz", ""), "mod.u64": (2, [0], [1], "u64nz", ""), "mod.i32": (2, [0], [1], "i32nz", ""), "mod.u32": (2, [0], [1], "u32nz", ""),
    "trem.u64": (2, [0], [1], "u64nz", ""), "crem.u64": (2, [0], [1], "u64nz", ""), "frem.u64": (2, [0], [1], "u64nz", ""),
    "pow.i64": (2, [0], [1], "exp", ""), "pow.u64": (2, [0], [1], "exp", ""), "pow.i32": (2, [0], [1], "exp", ""), "pow.u32": (2, [0], [1], "exp", ""),
    "root": (2, [0], [1], "rootn", "nonneg1"),
    "divmod": (4, [0, 1], [2, 3], None, "nz3"), "divmod.i64": (2, [0], [1], "i64nz", ""), "divmod.u64": (2, [0], [1], "u64nz", ""),
    "axpy": (4, [0], [1, 2, 3], None, ""), "maxpy": (4, [0], [1, 2, 3], None, ""), "axmy": (4, [0], [1, 2, 3], None, ""),
    "axpyin": (3, [0], [0, 1, 2], None, ""), "maxpyin": (3, [0], [0, 1, 2], None, ""), "axmyin": (3, [0], [0, 1, 2], None, ""),
    "axpy.u64": (3, [0], [1, 2], "u64", ""), "maxpy.u64": (3, [0], [1, 2], "u64", ""), "axmy.u64": (3, [0], [1, 2], "u64", ""),
    "axpyin.u64": (2, [0], [0, 1], "u64", ""), "maxpyin.u64": (2, [0], [0, 1], "u64", ""), "axmyin.u64": (2, [0], [0, 1], "u64", ""),
    "gcd5": (5, [0, 1, 2], [3, 4], None, ""), "gcd4": (4, [0, 1], [2, 3], None, ""),
    "powmod.i64": (3, [0], [1, 2], "sexp", "powm"), "powmod.u64": (3, [0], [1, 2], "exp", "powm"),
    "powmod.i32": (3, [0], [1, 2], "sexp", "powm"), "powmod.u32": (3, [0], [1, 2], "exp", "powm"),
    "powmod": (4, [0], [1, 2, 3], None, "powmI"),
}
Z_NAMES = {"divmod": "qrab", "gcd5": "guvab", "gcd4": "uvab", "sqrtrem": "qam", "sqrtrem.val": "ma", "swap": "ab",
           "powmod.i64": "rnm", "powmod.u64": "rnm", "powmod.i32": "rnm", "powmod.u32": "rnm", "powmod": "rnem",
           "divmod.i64": "qa", "divmod.u64": "qa"}
Q_OPS = {
    "add": (3, [0], [1, 2], None, ""), "sub": (3, [0], [1, 2], None, ""), "mul": (3, [0], [1, 2], None, ""), "div": (3, [0], [1, 2], None, "nz2"),
    "addin": (2, [0], [0, 1], None, ""), "subin": (2, [0], [0, 1], None, ""), "mulin": (2, [0], [0, 1], None, ""), "divin": (2, [0], [0, 1], None, "nz1"),
    "axpy": (4, [0], [1, 2, 3], None, ""), "maxpy": (4, [0], [1, 2, 3], None, ""), "axmy": (4, [0], [1, 2, 3], None, ""),
    "axpyin": (3, [0], [0, 1, 2], None, ""), "maxpyin": (3, [0], [0, 1, 2], None, ""), "axmyin": (3, [0], [0, 1, 2], None, ""),
    "neg": (2, [0], [1], None, ""), "negin": (1, [0], [0], None, ""), "inv": (2, [0], [1], None, "nz1"), "invin": (1, [0], [0], None, "nz0"),
    "assign": (2, [0], [1], None, ""), "pow.u64": (2, [0], [1], "exp", ""), "pow.u32": (2, [0], [1], "exp", ""),
    "op+=": (2, [0], [0, 1], None, ""), "op-=": (2, [0], [0, 1], None, ""), "op*=": (2, [0], [0, 1], None, ""), "op/=": (2, [0], [0, 1], None, "nz1"),
    "op=": (2, [0], [1], None, ""), "op=+": (3, [0], [1, 2], None, ""), "op=-": (3, [0], [1, 2], None, ""), "op=*": (3, [0], [1, 2], None, ""),
    "op=/": (3, [0], [1, 2], None, "nz2"), "op=neg": (2, [0], [1], None, ""),
}


def partitions(n, dests):
    """all set partitions of positions 0..n-1 (restricted growth strings) in which no two destinations coincide"""
    out = []

    def rec(i, cur, mx):
        if i == n:
            for x, y in itertools.combinations(dests, 2):
                if cur[x] == cur[y]:
                    return
            out.append(list(cur))
            return
        for c in range(mx + 2):
            cur.append(c)
            rec(i + 1, cur, max(mx, c))
            cur.pop()
    rec(0, [], -1)
    return out


def alias_class(idx, dests, names=None):
    """input class of a failure: for each destination, the operands that share its object"""
    n = len(idx)
    names = names or "rabcdefg"[:n]
    out = []
    for d in dests:
        m = [names[k] for k in range(n) if k not in dests and idx[k] == idx[d]]
        if m:
            out.append(names[d] + "=" + "".join(m))
    return ";".join(out) if out else "no destination shared"


def pattern_name(idx, names=None):
    n = len(idx)
    names = names or "rabcdefg"[:n]
    groups = {}
    for k, c in enumerate(idx):
        groups.setdefault(c, []).append(names[k])
    g = ["=".join(v) for v in groups.values() if len(v) > 1]
    return ",".join(g) if g else "distinct"


# ---------------------------------------------------------------- ring helpers
def is_balanced(ring):
    return ring in BAL_RINGS


def canon(ring, p, x):
    r = x % p
    if is_balanced(ring) and r > p // 2:
        r -= p
    return r


def elem_range(ring, p):
    if is_balanced(ring):
        h = p // 2
        return h - p + 1, h
    return 0, p - 1


def ring_spec(ring, p, op, a):
    """python specification of the ring operation on canonical representatives (None: no expectation).
    a = operand values in signature order without the pure destination; in-place forms: a[0] is r."""
    if ring in ZRINGS:
        R = None
    c = (lambda x: x) if ring in ZRINGS else (lambda x: canon(ring, p, x))
    if ring.startswith("mg"):
        # raw Montgomery representatives: additive ops are plain, multiplicative ones carry the factor R
        if ring == "mgi32":
            R = 1 << 16
        else:
            R = 1 << (1 << MG_RINGS[ring])
        Ri = pow(R, -1, p)
        if op in ("add", "addin"): return (a[0] + a[1]) % p
        if op in ("sub", "subin"): return (a[0] - a[1]) % p
        if op in ("neg", "negin"): return (-a[0]) % p
        if op in ("assign", "reduce"): return a[0]
        if op in ("mul", "mulin"): return a[0] * a[1] * Ri % p
        if op in ("axpy",): return (a[0] * a[1] * Ri + a[2]) % p
        if op in ("axmy",): return (a[0] * a[1] * Ri - a[2]) % p
        if op in ("maxpy",): return (a[2] - a[0] * a[1] * Ri) % p
        if op == "axpyin": return (a[0] + a[1] * a[2] * Ri) % p
        if op == "maxpyin": return (a[0] - a[1] * a[2] * Ri) % p
        if op == "axmyin": return (a[1] * a[2] * Ri - a[0]) % p
        if op in ("inv", "invin"): return pow(a[0], -1, p) * R * R % p if math.gcd(a[0], p) == 1 else None
        if op == "div": return a[0] * pow(a[1], -1, p) * R % p if math.gcd(a[1], p) == 1 else None
        if op == "divin": return a[0] * pow(a[1], -1, p) * R % p if math.gcd(a[1], p) == 1 else None
        return None
    if op in ("add", "addin"): return c(a[0] + a[1])
    if op in ("sub", "subin"): return c(a[0] - a[1])
    if op in ("mul", "mulin", "mul_precomp_p", "mul_precomp_b"): return c(a[0] * a[1])
    if op in ("neg", "negin"): return c(-a[0])
    if op in ("assign", "reduce"): return a[0]
    if op == "axpy": return c(a[0] * a[1] + a[2])
    if op == "axmy": return c(a[0] * a[1] - a[2])
    if op == "maxpy": return c(a[2] - a[0] * a[1])
    if op == "axpyin": return c(a[0] + a[1] * a[2])
    if op == "maxpyin": return c(a[0] - a[1] * a[2])
    if op == "axmyin": return c(a[1] * a[2] - a[0])
    if ring in ZRINGS:
        if op in ("inv", "invin"): return a[0] if a[0] in (1, -1) else None
        if op in ("div", "divin"): return a[0] // a[1] if a[1] != 0 and a[0] % a[1] == 0 else None
        return None
    if op in ("inv", "invin"): return c(pow(a[0] % p, -1, p)) if math.gcd(a[0], p) == 1 else None
    if op in ("div", "divin"): return c(a[0] * pow(a[1] % p, -1, p)) if math.gcd(a[1], p) == 1 else None
    return None


def prevprime(n):
    def isp(m):
        if m < 2:
            return False
        if m % 2 == 0:
            return m == 2
        d, s = m - 1, 0
        while d % 2 == 0:
            d //= 2; s += 1
        for a in (2, 3, 5, 7, 11, 13, 17, 19, 23, 29, 31, 37, 41):
            if a % m == 0:
                continue
            x = pow(a, d, m)
            if x in (1, m - 1):
                continue
            for _ in range(s - 1):
                x = x * x % m
                if x == m - 1:
                    break
            else:
                return False
        return True
    while n >= 2 and not isp(n):
        n -= 1
    return n


def ring_moduli(rng, ring, lo, hi, nrand):
    if ring in ZRINGS:
        return [0]
    if hi <= 0:
        K = None
        if ring in RECINT_RINGS:
            K = RECINT_RINGS[ring][0]
        elif ring in MG_RINGS:
            K = MG_RINGS[ring]
        elif ring.startswith("ri"):
            K = int(ring[2]) - 1
        hi = (1 << (1 << K)) - 1 if K else (1 << 200)
    ms = [hi, prevprime(hi), prevprime(max(3, hi // 2)), prevprime(max(3, math.isqrt(hi))), max(lo, 3), 101]
    for _ in range(nrand):
        ms.append(rng.range(lo, hi))
        ms.append(rng.range(lo, min(hi, 1 << rng.range(2, max(2, hi.bit_length())))))
    out = []
    odd = ring.startswith("mg")
    for m in ms:
        if odd and m % 2 == 0:
            m -= 1
        if lo <= m <= hi and m >= 3 and m not in out:
            out.append(m)
    return out


def ring_value(rng, ring, p, unit=False):
    if ring in ZRINGS:
        if unit:
            return rng.choice([1, -1])
        lim = {"zring_I": 1 << 130, "zring_d": 1 << 16, "zring_i64": 1 << 20}[ring]
        return rng.choice([0, 1, -1, 2, rng.range(-lim, lim), rng.range(-lim, lim), rng.range(-50, 50)])
    lo, hi = elem_range(ring, p)
    for _ in range(300):
        edge = [1, hi, lo if lo < 0 else hi - 1, p // 2, (p - 1) // 2, 0, 2, math.isqrt(p) + 1, hi - 1]
        v = rng.choice(edge) if rng.chance(2, 5) else rng.range(lo, hi)
        if lo <= v <= hi and (not unit or math.gcd(v, p) == 1):
            return v
    return 1


# ---------------------------------------------------------------- Integer / Rational values
def z_value(rng, small=False):
    if small:
        return rng.choice([0, 1, -1, 2, -2, 3, 5, -7, 12, 18, rng.range(-1000, 1000)])
    return vf.structured_int(rng, 3)


def scalar(rng, kind):
    nz = kind.endswith("nz")
    k = kind[:-2] if nz else kind
    if k in ("exp", "rootn"):
        return rng.choice([0, 1, 2, 3, 5, 7]) if k == "exp" else rng.choice([1, 2, 3, 5])
    if k == "sexp":
        return rng.choice([0, 1, 2, 3, -1, -2, -3, -5, 7])
    bits, sg = ITY[k]
    lo, hi = (-(1 << (bits - 1)), (1 << (bits - 1)) - 1) if sg else (0, (1 << bits) - 1)
    for _ in range(100):
        v = rng.choice([0, 1, 2, 3, hi, lo, hi - 1, lo + 1, -1 if sg else 7, -2 if sg else 10, rng.range(lo, hi), rng.range(-100, 100)])
        if lo <= v <= hi and (not nz or v != 0) and not (sg and v == lo and nz):     # |INT_MIN| is undefined in std::abs
            return v
    return 1


def tdiv(a, b):
    q = abs(a) // abs(b)
    return q if (a < 0) == (b < 0) else -q


def z_spec(op, v, x):
    """python specification of the Integer operation on the operand values (fresh call).
    v: values by position; x: scalar.  Returns dict position -> expected value, optional 'R'.  None: no expectation."""
    base = op.split(".")[0]
    sc = "." in op and op.split(".")[1] in ("i64", "u64", "i32", "u32")
    if op in ("add", "op=+"): return {0: v[1] + v[2]}
    if op in ("sub", "op=-"): return {0: v[1] - v[2]}
    if op in ("mul", "op=*"): return {0: v[1] * v[2]}
    if op in ("div", "trunc", "op=/"): return {0: tdiv(v[1], v[2])}
    if op == "divexact": return {0: tdiv(v[1], v[2])}
    if op == "mod": return {0: v[1] % abs(v[2])}
    if op in ("trem", "op=%"): return {0: v[1] - v[2] * tdiv(v[1], v[2])}
    if op == "frem": return {0: v[1] - v[2] * (v[1] // v[2])}
    if op == "crem": return {0: v[1] - v[2] * (-((-v[1]) // v[2]))}
    if op == "floor": return {0: v[1] // v[2]}
    if op == "ceil": return {0: -((-v[1]) // v[2])}
    if op == "gcd": return {0: math.gcd(v[1], v[2])}
    if op == "lcm": return {0: abs(v[1] * v[2]) // math.gcd(v[1], v[2]) if v[1] and v[2] else 0}
    if op == "inv": return {0: pow(v[1], -1, abs(v[2]))} if abs(v[2]) > 1 else None
    if op in ("addin", "op+="): return {0: v[0] + v[1]}
    if op in ("subin", "op-="): return {0: v[0] - v[1]}
    if op in ("mulin", "op*="): return {0: v[0] * v[1]}
    if op in ("divin", "op/="): return {0: tdiv(v[0], v[1])}
    if op == "modin": return {0: v[0] % abs(v[1])}
    if op == "op%=": return {0: v[0] - v[1] * tdiv(v[0], v[1])}
    if op == "invin": return {0: pow(v[0], -1, abs(v[1]))} if abs(v[1]) > 1 else None
    if op == "op=": return {0: v[1]}
    if op == "neg": return {0: -v[1]}
    if op == "negin": return {0: -v[0]}
    if op == "sqrt": return {0: math.isqrt(v[1])}
    if op == "sqrtrem": return {0: math.isqrt(v[1]), 2: v[1] - math.isqrt(v[1]) ** 2}
    if op == "sqrtrem.val": return {0: v[1] - math.isqrt(v[1]) ** 2, "R": math.isqrt(v[1])}
    if op == "swap": return {0: v[1], 1: v[0]}
    if sc and base == "add": return {0: v[1] + x}
    if sc and base == "sub": return {0: v[1] - x}
    if sc and base == "mul": return {0: v[1] * x}
    if sc and base in ("div", "divexact"): return {0: tdiv(v[1], x)}
    if sc and base == "mod": return {0: v[1] % abs(x)}
    if sc and base == "trem": return {0: v[1] - x * tdiv(v[1], x)}
    if sc and base == "frem": return {0: v[1] - x * (v[1] // x)}
    if sc and base == "crem": return {0: v[1] - x * (-((-v[1]) // x))}
    if sc and base == "pow": return {0: v[1] ** abs(x)}
    if op == "divmod":
        q = v[2] // v[3] if v[3] > 0 else -(v[2] // -v[3])
        return {0: q, 1: v[2] - q * v[3]}
    if op in ("divmod.i64", "divmod.u64"):
        q = v[1] // x if x > 0 else -(v[1] // -x)
        return {0: q, "R": v[1] - q * x}
    if op == "axpy": return {0: v[1] * v[2] + v[3]}
    if op == "maxpy": return {0: v[3] - v[1] * v[2]}
    if op == "axmy": return {0: v[1] * v[2] - v[3]}
    if op == "axpyin": return {0: v[0] + v[1] * v[2]}
    if op == "maxpyin": return {0: v[0] - v[1] * v[2]}
    if op == "axmyin": return {0: v[1] * v[2] - v[0]}
    if op == "axpy.u64": return {0: v[1] * x + v[2]}
    if op == "maxpy.u64": return {0: v[2] - v[1] * x}
    if op == "axmy.u64": return {0: v[1] * x - v[2]}
    if op == "axpyin.u64": return {0: v[0] + v[1] * x}
    if op == "maxpyin.u64": return {0: v[0] - v[1] * x}
    if op == "axmyin.u64": return {0: v[1] * x - v[0]}
    if sc and base == "powmod":
        m = abs(v[2])
        if x >= 0:
            return {0: pow(v[1], x, m)}
        return {0: pow(v[1], x, m)} if math.gcd(v[1], m) == 1 and m > 1 else None
    if op == "powmod": return {0: pow(v[1], v[2], abs(v[3]))} if v[2] >= 0 else None
    return None          # gcd5 / gcd4 / root: checked through Bezout below / alias comparison only


# ---------------------------------------------------------------- case generation
class Case:
    __slots__ = ("exe", "dom", "param", "op", "n", "dests", "reads", "idx", "vals", "extra", "site", "spec", "model", "names")

    def __init__(self, exe, dom, param, op, n, dests, reads, idx, vals, extra, site, names=None):
        self.exe, self.dom, self.param, self.op, self.n = exe, dom, param, op, n
        self.dests, self.reads, self.idx, self.vals, self.extra, self.site = dests, reads, idx, vals, extra, site
        self.spec, self.model, self.names = None, None, names

    def line(self):
        return "%s %s %s %d %s %s %s" % (self.dom, self.param, self.op, self.n, " ".join(str(i) for i in self.idx),
                                           " ".join(("" if k in self.reads else "~") + str(v) for k, v in enumerate(self.vals)),
                                           " ".join(str(e) for e in self.extra))

    def alias_vals(self):
        """the value each object holds when the aliased call starts: that of the read operands of its class
        (equal by construction), else the arbitrary content of the pure destination"""
        cv = {}
        for k in range(self.n):
            if k not in self.reads:
                cv[self.idx[k]] = self.vals[k]
        for k in range(self.n):
            if k in self.reads:
                cv[self.idx[k]] = self.vals[k]
        return [cv[self.idx[k]] for k in range(self.n)]

    def describe(self):
        return {"dom": self.dom, "param": str(self.param), "op": self.op, "pattern": pattern_name(self.idx, self.names),
                "classes": self.idx, "values": [str(v) for v in self.vals], "extra": [str(e) for e in self.extra]}


def class_alias_vals(n, reads, idx, vals):
    """the value each object holds when the aliased call starts (see Case.alias_vals)"""
    cv = {}
    for k in range(n):
        if k not in reads:
            cv[idx[k]] = vals[k]
    for k in range(n):
        if k in reads:
            cv[idx[k]] = vals[k]
    return [cv[idx[k]] for k in range(n)]


def class_values(rng, n, dests, reads, idx, gen, garbage):
    """values by position: equal inside a class for the positions that are read; a pure destination holds garbage
    in the distinct-objects call"""
    cv = {}
    vals = []
    for k in range(n):
        if k in reads:
            if idx[k] not in cv:
                cv[idx[k]] = gen(k)
            vals.append(cv[idx[k]])
        else:
            vals.append(None)
    for k in range(n):
        if vals[k] is None:
            vals[k] = garbage(k)
    return vals


def ring_site(ring):
    if ring in RECINT_RINGS:
        return "Modular<ruint<K>,ruint<K>>" if RECINT_RINGS[ring][1] else "Modular<ruint<K>,ruint<K+1>>"
    if ring.startswith("ri"):
        return "Modular<rint<K>,rint<K>>" if ring == "ri7_7" else "Modular<rint<K>,rint<K+1>>"
    if ring in MG_RINGS:
        return "Montgomery<ruint<K>>"
    names = {"zz": "Modular<Integer>", "mgi32": "Montgomery<int32_t>", "f_f": "Modular<float,float>", "f_d": "Modular<float,double>",
             "d_d": "Modular<double,double>", "bi32": "ModularBalanced<int32_t>", "bi64": "ModularBalanced<int64_t>",
             "bf": "ModularBalanced<float>", "bd": "ModularBalanced<double>", "ef": "ModularExtended<float>",
             "ed": "ModularExtended<double>", "zring_I": "ZRing<Integer>", "zring_d": "ZRing<double>", "zring_i64": "ZRing<int64_t>"}
    if ring in names:
        return names[ring]
    return "Modular<integral Storage_t,Compute_t>"        # modular-integral.inl (the ring type is in the case)


def gen_ring_cases(rng, exe, ring, p, reps, cases, only=None):
    for op, (n, dests, reads) in sorted(RING_OPS.items()):
        if only is not None and op not in only:
            continue
        unit_pos = {"div": [2], "inv": [1], "divin": [1], "invin": [0]}.get(op, [])
        if op.startswith("mul_precomp") and (ring not in PRECOMP_RINGS or p.bit_length() > PRECOMP_RINGS[ring] // 2 - 2):
            continue            # needs sizeof(Storage_t) == sizeof(Compute_t) and a modulus of at most 4 sizeof(Compute_t) - 2 bits
        for idx in partitions(n, dests):
            for rep in range(reps):
                def gen(k):
                    return ring_value(rng, ring, p, unit=k in unit_pos)
                vals = class_values(rng, n, dests, reads, idx, gen, lambda k: ring_value(rng, ring, p))
                if ring in ZRINGS and op in ("div", "divin"):
                    # exact division in Z: make the dividend a multiple unless it shares the divisor's object
                    dpos, npos = (2, 1) if op == "div" else (1, 0)
                    if idx[dpos] != idx[npos]:
                        vals[npos] = vals[dpos] * rng.range(-9, 9)
                        for k in range(n):
                            if k in reads and idx[k] == idx[npos]:
                                vals[k] = vals[npos]
                # a unit position sharing its object with a non-unit one: the class value must be a unit
                ok = True
                for k in unit_pos:
                    if ring not in ZRINGS and math.gcd(vals[k], p) != 1:
                        ok = False
                    if ring in ZRINGS and vals[k] == 0:
                        ok = False
                if not ok:
                    for c in set(idx[k] for k in unit_pos):
                        u = ring_value(rng, ring, p, unit=True)
                        for k in range(n):
                            if k in reads and idx[k] == c:
                                vals[k] = u
                    if ring in ZRINGS and op in ("div", "divin"):
                        dpos, npos = (2, 1) if op == "div" else (1, 0)
                        if idx[dpos] != idx[npos]:
                            vals[npos] = vals[dpos] * rng.range(-9, 9)
                            for k in range(n):
                                if k in reads and idx[k] == idx[npos]:
                                    vals[k] = vals[npos]
                c = Case(exe, ring, p, op, n, dests, reads, idx, vals, [], ring_site(ring) + "::" + op)
                a = [vals[k] for k in sorted(reads)]
                c.spec = ("ring", ring, p, op, a)
                cases.append(c)


def z_valid(op, tag, idx, v, x):
    """preconditions of the operation on the values the objects hold when the call starts"""
    if tag in ("nz1", "nz2", "nz3") and v[int(tag[-1])] == 0:
        return False
    if tag == "unit12" and (abs(v[2]) < 2 or math.gcd(v[1], v[2]) != 1):
        return False
    if tag == "unit01" and (abs(v[1]) < 2 or math.gcd(v[0], v[1]) != 1):
        return False
    if tag == "nonneg1" and v[1] < 0:
        return False
    if tag == "exact" and (v[2] == 0 or v[1] % v[2] != 0):
        return False
    if tag == "exacts" and (x == 0 or v[1] % x != 0):
        return False
    if tag == "powm":
        if abs(v[2]) < 2:
            return False
        if x < 0 and math.gcd(v[1], v[2]) != 1:
            return False
    if tag == "powmI" and (abs(v[3]) < 2 or v[2] < 0):
        return False
    if op == "root" and x % 2 == 0 and v[1] < 0:
        return False
    return True


def gen_z_cases(rng, exe, reps, cases):
    for op, (n, dests, reads, sk, tag) in sorted(Z_OPS.items()):
        for idx in partitions(n, dests):
            for rep in range(reps):
                small = tag in ("powm", "powmI", "exact", "exacts") or op.startswith("pow") or op == "root" or (op in ("gcd5", "gcd4") and rep % 2 == 0)
                x = scalar(rng, sk) if sk else None

                def gen(k, small=small):
                    v = z_value(rng, small)
                    if tag == "nz%d" % k and v == 0:
                        v = 3
                    if tag == "nonneg1" and k == 1:
                        v = abs(v)
                    if tag in ("unit12", "unit01"):
                        v = abs(v) + 2 if k == int(tag[-1]) else v
                    if tag in ("powm",) and k == 2:
                        v = rng.choice([7, 11, 101, 2 ** 61 - 1, 15, 1000003])
                    if tag == "powmI":
                        if k == 3: v = rng.choice([7, 11, 101, 2 ** 61 - 1, 15, 1000003])
                        if k == 2: v = abs(v) % 50
                    return v
                vals = class_values(rng, n, dests, reads, idx, gen, lambda k: z_value(rng))
                # operations with a divisor: the class that contains the divisor must be non-zero
                div_pos = {"nz1": 1, "nz2": 2, "nz3": 3}.get(tag)
                if div_pos is not None and vals[div_pos] == 0:
                    continue
                if tag in ("unit12", "unit01"):
                    apos, mpos = (1, 2) if tag == "unit12" else (0, 1)
                    if idx[apos] == idx[mpos] or math.gcd(vals[apos], vals[mpos]) != 1:
                        if idx[apos] == idx[mpos]:
                            continue          # inv(u, a, a): no inverse exists
                        vals[apos] = 1
                        for k in range(n):
                            if k in reads and idx[k] == idx[apos]:
                                vals[k] = 1
                if tag == "exact":
                    if idx[1] != idx[2]:
                        if vals[2] == 0:
                            continue
                        vals[1] = vals[2] * z_value(rng)
                        for k in range(n):
                            if k in reads and idx[k] == idx[1]:
                                vals[k] = vals[1]
                    elif vals[2] == 0:
                        continue
                if tag == "exacts":
                    vals[1] = x * z_value(rng)
                    for k in range(n):
                        if k in reads and idx[k] == idx[1]:
                            vals[k] = vals[1]
                if tag == "powm" and x is not None and x < 0:
                    # negative exponent: the base must be invertible mod m unless it shares m's object
                    if idx[1] != idx[2] and math.gcd(vals[1], vals[2]) != 1:
                        vals[1] = 2
                        for k in range(n):
                            if k in reads and idx[k] == idx[1]:
                                vals[k] = 2
                    if idx[1] == idx[2]:
                        continue
                if op in ("divmod.i64", "divmod.u64", "div.i64", "div.u64", "div.i32", "mod.i64", "mod.u64", "trem.u64", "crem.u64", "frem.u64") and rep % 3 == 0:
                    # the corrections for a negative dividend with a zero truncated quotient: |a| < |b|, a < 0
                    x = rng.choice([2, 3, 101, 2 ** 31 - 1, 2 ** 62] + ([-2, -3, -(2 ** 62)] if sk.startswith("i64") else []))
                    if sk.startswith("i32"):
                        x = rng.choice([2, 3, 101, 2 ** 31 - 1, -2, -101])
                    a = -rng.range(1, abs(x) - 1) if abs(x) > 1 else -1
                    for k in range(n):
                        if k in reads:
                            vals[k] = a
                if op == "divmod" and rep % 3 == 0:
                    b = rng.choice([2, 3, -2, -3, 101, -101, 2 ** 64 + 1, -(2 ** 64) - 1])
                    a = rng.choice([-1, 1, -(abs(b) - 1), abs(b) - 1, -abs(b), -abs(b) - 1, -7])
                    for k in range(n):
                        if k in reads:
                            vals[k] = a if idx[k] == idx[2] else b
                if op in ("gcd", "lcm", "gcd5", "gcd4") and rep % 2 == 1:
                    # operands with a common factor and different sizes: the result depends on both
                    g = rng.choice([2, 6, 2 ** 64 + 13, 3 * 5 * 7 * 11, -(2 ** 33)])
                    cv = {}
                    for k in sorted(reads):
                        if idx[k] not in cv:
                            cv[idx[k]] = g * rng.choice([1, 5, 35, 2 ** 70 + 3, -77, 9]) * (1 + len(cv))
                        vals[k] = cv[idx[k]]
                c = Case(exe, "Z", "-", op, n, dests, reads, idx, vals, [x] if sk else [], "Integer::" + op, Z_NAMES.get(op))
                if not z_valid(op, tag, idx, c.vals, x) or not z_valid(op, tag, idx, c.alias_vals(), x):
                    continue
                c.spec = ("Z", op, x)
                cases.append(c)


def q_value(rng, nz=False):
    for _ in range(50):
        n = rng.choice([0, 1, -1, 2, 3, -5, rng.range(-60, 60), vf.structured_int(rng, 2)])
        d = rng.choice([1, 1, 2, 3, 7, 12, rng.range(1, 60), abs(vf.structured_int(rng, 2)) + 1])
        g = math.gcd(n, d)
        n, d = n // g, d // g
        if n == 0:
            d = 1
        if not nz or n != 0:
            return (n, d)
    return (1, 1)


def q_str(q):
    return "%d/%d" % q


def q_norm(n, d):
    if d < 0:
        n, d = -n, -d
    g = math.gcd(n, d)
    return (n // g, d // g) if g else (n, d)


def q_spec(op, v, x):
    def add(a, b): return q_norm(a[0] * b[1] + b[0] * a[1], a[1] * b[1])
    def mul(a, b): return q_norm(a[0] * b[0], a[1] * b[1])
    def neg(a): return (-a[0], a[1])
    def inv(a): return q_norm(a[1], a[0])
    if op in ("add", "op=+"): return add(v[1], v[2])
    if op in ("sub", "op=-"): return add(v[1], neg(v[2]))
    if op in ("mul", "op=*"): return mul(v[1], v[2])
    if op in ("div", "op=/"): return mul(v[1], inv(v[2]))
    if op in ("addin", "op+="): return add(v[0], v[1])
    if op in ("subin", "op-="): return add(v[0], neg(v[1]))
    if op in ("mulin", "op*="): return mul(v[0], v[1])
    if op in ("divin", "op/="): return mul(v[0], inv(v[1]))
    if op == "axpy": return add(mul(v[1], v[2]), v[3])
    if op == "maxpy": return add(v[3], neg(mul(v[1], v[2])))
    if op == "axmy": return add(mul(v[1], v[2]), neg(v[3]))
    if op == "axpyin": return add(v[0], mul(v[1], v[2]))
    if op == "maxpyin": return add(v[0], neg(mul(v[1], v[2])))
    if op == "axmyin": return add(mul(v[1], v[2]), neg(v[0]))
    if op in ("neg", "op=neg"): return neg(v[1])
    if op == "negin": return neg(v[0])
    if op == "inv": return inv(v[1])
    if op == "invin": return inv(v[0])
    if op in ("assign", "op="): return v[1]
    if op.startswith("pow"): return q_norm(v[1][0] ** x, v[1][1] ** x)
    return None


def q_norm_text(t):
    """'n/d' -> the canonical fraction text (value); anything else unchanged"""
    try:
        a, b = t.split("/")
        a, b = int(a), int(b)
        return q_str(q_norm(a, b)) if b != 0 else t
    except ValueError:
        return t


def gen_q_cases(rng, exe, reps, cases, noreduce=False):
    for op, (n, dests, reads, sk, tag) in sorted(Q_OPS.items()):
        nzpos = {"nz0": 0, "nz1": 1, "nz2": 2}.get(tag)
        for idx in partitions(n, dests):
            for rep in range(reps):
                x = scalar(rng, sk) if sk else None
                vals = class_values(rng, n, dests, reads, idx, lambda k: q_value(rng, nz=(k == nzpos)), lambda k: q_value(rng))
                if nzpos is not None and vals[nzpos][0] == 0:
                    u = q_value(rng, nz=True)
                    for k in range(n):
                        if k in reads and idx[k] == idx[nzpos]:
                            vals[k] = u
                if noreduce:
                    # NoReduce mode: non-integer values on every read position in two of three cases (n/d with d > 1 is what
                    # distinguishes a/b from its reduced form), and non-reduced representations (common factor 1, 2, 6)
                    if rep % 3 != 2:
                        cv = {}
                        for k in sorted(reads):
                            if idx[k] not in cv:
                                nn = rng.choice([2, -5, 22, -1, 7, rng.range(1, 60), vf.structured_int(rng, 2)])
                                dd = rng.choice([3, 7, 12, 35, abs(vf.structured_int(rng, 2)) + 2])
                                g = math.gcd(nn, dd)
                                nn, dd = nn // g, dd // g
                                if dd == 1:
                                    nn, dd = 2 * nn + 1, 2
                                cv[idx[k]] = (nn, dd)
                            vals[k] = cv[idx[k]]
                    f = [1, 2, 6][rep % 3]
                    txt = ["%d/%d" % (v[0] * f, v[1] * f) if k in reads and v[0] != 0 else q_str(v) for k, v in enumerate(vals)]
                    c = Case(exe, "QN", "-", op, n, dests, reads, idx, txt, [x] if sk else [],
                             ("QField<Rational>::" + op if not op.startswith("op") else "Rational::" + op) + " (NoReduce mode)")
                    c.spec = ("Q", op, x, vals)
                    cases.append(c)
                    continue
                c = Case(exe, "Q", "-", op, n, dests, reads, idx, [q_str(v) for v in vals], [x] if sk else [], "QField<Rational>::" + op if not op.startswith("op") else "Rational::" + op)
                c.spec = ("Q", op, x, vals)
                cases.append(c)


# ---------------------------------------------------------------- model lines (extracted Coq model)
def model_lines(c):
    """the two model runs (distinct objects / aliased) of a case covered by coq/C15/Model.v, or None"""
    def ring_line(fam, W, p, p1, r3, idx, vals):
        i4 = (list(idx) + [max(idx) + 1 + j for j in range(4)])[:4] if len(idx) < 4 else list(idx)
        v4 = (list(vals) + [0] * 4)[:4]
        return "ring %d %d %d %d %d %d %s %s" % (fam, RING_OPNUM[c.op], W, p, p1, r3, " ".join(str(i + 1) for i in i4), " ".join(str(v) for v in v4))
    fresh_idx = list(range(c.n))
    if c.dom in RECINT_RINGS and c.op in RING_OPNUM:
        K, same = RECINT_RINGS[c.dom]
        W = 1 << (1 << K)
        return [ring_line(1 if same else 0, W, c.param, 0, 0, ix, vs) for ix, vs in ((fresh_idx, c.vals), (c.idx, c.alias_vals()))]
    if c.dom in MG_RINGS and c.op in RING_OPNUM:
        W = 1 << (1 << MG_RINGS[c.dom])
        p = c.param
        p1 = (-pow(p, -1, W)) % W
        r3 = pow(W, 3, p)
        return [ring_line(2, W, p, p1, r3, ix, vs) for ix, vs in ((fresh_idx, c.vals), (c.idx, c.alias_vals()))]
    if c.dom == "zz" and c.op in RING_OPNUM:
        return [ring_line(3, 0, c.param, 0, 0, ix, vs) for ix, vs in ((fresh_idx, c.vals), (c.idx, c.alias_vals()))]
    if c.dom == "Z":
        if c.op in ("axpy", "axmy", "maxpy", "axpyin", "axmyin", "maxpyin"):
            return [ring_line(4, 0, 0, 0, 0, ix, vs) for ix, vs in ((fresh_idx, c.vals), (c.idx, c.alias_vals()))]
        if c.op in ("gcd5", "gcd4", "divmod"):
            return ["%s %s %s" % (c.op, " ".join(str(i + 1) for i in ix), " ".join(str(v) for v in vs))
                    for ix, vs in ((fresh_idx, c.vals), (c.idx, c.alias_vals()))]
        if c.op in ("divmod.i64", "divmod.u64"):
            return ["divmodw %d %s %s %d" % (1 if c.op == "divmod.i64" else 0, " ".join(str(i + 1) for i in ix), " ".join(str(v) for v in vs), c.extra[0])
                    for ix, vs in ((fresh_idx, c.vals), (c.idx, c.alias_vals()))]
        if c.op in ("powmod.i64", "powmod.i32"):
            return ["powmod %s %d %d %d %d" % (" ".join(str(i + 1) for i in ix), vs[0], vs[1], c.extra[0], vs[2])
                    for ix, vs in ((fresh_idx, c.vals), (c.idx, c.alias_vals()))]
    if c.dom == "poly":
        pop = {"mul": 0, "stdmul": 0, "karamul": 0, "sqr": 1, "reverse": 2, "mulin": 3, "axpy": 4, "axmy": 5, "maxpy": 6,
               "axpyin": 7, "maxpyin": 8, "axmyin": 9, "mod": 10, "gcd": 11, "div": 12}.get(c.op)
        if pop is not None or c.op == "divmod":
            out = []
            for ix, vs in ((fresh_idx, c.vals), (c.idx, c.alias_vals())):
                i4 = (list(ix) + [max(ix) + 1 + j for j in range(4)])[:4]
                v4 = (list(vs) + ["z"] * 4)[:4]
                head = "pdivmod %d" % c.param if c.op == "divmod" else "poly %d %d" % (c.param, pop)
                out.append("%s %s %s" % (head, " ".join(str(i + 1) for i in i4), " ".join(str(v) for v in v4)))
            return out
    if c.dom == "RM":
        K, mg, p = [int(t) for t in str(c.param).split(",")]
        W = 1 << (1 << K)
        base, _, t = c.op.partition(".")
        num = RM_MODEL_OPS.get(c.op if t not in ("u64", "i64") else base + ".w")
        if c.op == "exp.u64" or c.op == "exp.ru" and not mg:
            num = 8         # exp(a,b,UDItype) binary loop (MG_ACTIVE) / one exp_mod primitive (MG_INACTIVE); the windowed
                            # body exp(a,b,const ruint<K>&) of MG_ACTIVE has its own model (rm_expw), see below
        if c.op == "exp.val" or c.op == "exp.ru" and mg:
            # the windowed body exp(a, b, const ruint<K>& c) (rm_op 30): the exponent is an OBJECT (position e).  One model run is
            # ~5 Montgomery products per exponent nibble on Coq's binary positives: K = 6 always, K = 7 one case in three, K = 8 never
            if K == 8 or K == 7 and sum(int(ch) for ch in str(c.vals[1])[-3:]) % 3:
                return None
            p1 = (-pow(p, -1, W)) % W if mg else 0
            out = []
            for ix, vs in ((fresh_idx, c.vals), (c.idx, c.alias_vals())):
                ix, vs = list(ix), list(vs)
                if c.op == "exp.ru":
                    ix.append(max(ix) + 1); vs.append(c.extra[0])
                ix.append(max(ix) + 1); vs.append(0)
                out.append("rm %d 30 %d %d %d %d %s %s 0" % (mg, W, p, p1, W % p, " ".join(str(i + 1) for i in ix), " ".join(str(v) for v in vs)))
            return out
        if num is None:
            return None
        w = c.extra[0] if c.extra else 0
        # operands that are inverted must be units (the model's inverse of a non-unit is not the subject)
        invpos = {"inv": [1], "div": [2], "invin": [0], "divin": [1]}.get(base, [])
        R = W % p if mg else 1
        for vs in (c.vals, c.alias_vals()):
            if any(math.gcd(int(vs[k]), p) != 1 for k in invpos if k < c.n):
                return None
        if t in ("u64", "i64") and base in ("inv", "div", "divin") and math.gcd(w % p, p) != 1:
            return None
        if base in ("mod", "modin") :
            return None if any(int(v) == 0 for v in c.vals[1:]) or (t and w % p == 0) else _rm_lines(c, mg, num, W, p, w)
        return _rm_lines(c, mg, num, W, p, w)
    if c.dom == "RU" and c.op in ("div", "div_q", "div_r", "div_q.w", "div.w", "div_r.w") and c.param <= 8:
        W = 1 << (1 << c.param)
        one = 1 if c.param == 6 else 0
        out = []
        for ix, vs in ((fresh_idx, c.vals), (c.idx, c.alias_vals())):
            ix = [i + 1 for i in ix]
            f = max(ix) + 1
            if c.op == "div":
                out.append("rudivop 0 %d %d %d %d %d %d %s" % (one, W, ix[0], ix[1], ix[2], ix[3], " ".join(str(v) for v in vs)))
            elif c.op in ("div_q", "div_r"):
                out.append("rudivop %d %d %d %d %d %d %d %s 0 %s %s" % (1 if c.op == "div_q" else 2, one, W, ix[0], f, ix[1], ix[2], vs[0], vs[1], vs[2]))
            elif c.op == "div_q.w":
                out.append("rudivop 3 %d %d %d %d %d %d %s 0 %s %s" % (one, W, ix[0], f, ix[1], f + 1, vs[0], vs[1], c.extra[0]))
            elif c.op == "div.w":
                out.append("rudivop 4 %d %d %d %d %d %d %s 0 %s %s" % (one, W, ix[0], f, ix[1], f + 1, vs[0], vs[1], c.extra[0]))
            else:
                out.append("rudivop 5 %d %d %d %d %d %d 0 0 %s %s" % (one, W, f, f + 1, ix[0], f + 2, vs[0], c.extra[0]))
        return out
    if c.dom == "ext" and c.op in RING_OPNUM and EXT_IRRED.get(str(c.param)):
        p = int(str(c.param).split(",")[0])
        out = []
        for ix, vs in ((fresh_idx, c.vals), (c.idx, c.alias_vals())):
            i4 = (list(ix) + [max(ix) + 1 + j for j in range(4)])[:4]
            v4 = (list(vs) + ["z"] * 4)[:4]
            out.append("ext %d %s %d %s %s" % (p, EXT_IRRED[str(c.param)], RING_OPNUM[c.op], " ".join(str(i + 1) for i in i4), " ".join(str(v) for v in v4)))
        return out
    if c.dom == "poly" and c.op in POLYB_OPS:
        num = POLYB_OPS[c.op]
        k = c.extra[0] if c.extra else 0
        out = []
        for ix, vs in ((fresh_idx, c.vals), (c.idx, c.alias_vals())):
            i4 = (list(ix) + [max(ix) + 1 + j for j in range(4)])[:4]
            v4 = (list(vs) + ["z"] * 4)[:4]
            out.append("polyb %d %d %d %s %s" % (c.param, k, num, " ".join(str(i + 1) for i in i4), " ".join(str(v) for v in v4)))
        return out
    if c.dom == "poly" and c.op in ("pdivmod", "pmod"):
        return ["%s %d %s %s" % ("ppdivmod" if c.op == "pdivmod" else "ppmod", c.param, " ".join(str(i + 1) for i in ix), " ".join(str(v) for v in vs))
                for ix, vs in ((fresh_idx, c.vals), (c.idx, c.alias_vals()))]
    if c.dom == "poly" and c.op in ("divmodin", "gcd5"):
        return ["%s %d %s %s" % ("pdivmodin" if c.op == "divmodin" else "pgcdx", c.param, " ".join(str(i + 1) for i in ix), " ".join(str(v) for v in vs))
                for ix, vs in ((fresh_idx, c.vals), (c.idx, c.alias_vals()))]
    if c.dom in ("Q", "QN") and c.op in ("op*=", "mulin", "op/=", "divin"):
        out = []
        for ix, vs in ((fresh_idx, c.vals), (c.idx, c.alias_vals())):
            out.append("qmuldiv %d %d %d %d %s %s" % (0 if c.op in ("op*=", "mulin") else 1, 1 if c.dom == "QN" else 0, ix[0] + 1, ix[1] + 1,
                                                   vs[0].replace("/", " "), vs[1].replace("/", " ")))
        return out
    if c.dom == "RU" and c.op == "left_shift" and c.param in (7, 8):
        hb = 1 << (c.param - 1)
        Wh = 1 << hb
        return ["rushift 0 %d %d %d %d %d %d %d %d %d" % (Wh, hb, c.extra[0], ix[0] + 1, ix[1] + 1, int(vs[0]) // Wh, int(vs[0]) % Wh, int(vs[1]) // Wh, int(vs[1]) % Wh)
                for ix, vs in ((fresh_idx, c.vals), (c.idx, c.alias_vals()))]
    if c.dom == "RU" and c.op in ("lmul", "lmul_naive") and c.param in (7, 8):
        Wh = 1 << (1 << (c.param - 1))
        return ["rulmul 0 %d %s %s" % (Wh, " ".join(str(i + 1) for i in ix), " ".join("%d %d" % (int(v) // Wh, int(v) % Wh) for v in vs))
                for ix, vs in ((fresh_idx, c.vals), (c.idx, c.alias_vals()))]
    if c.dom == "Q":
        qop = {"neg": 0, "inv": 1, "negin": 2, "invin": 3, "op+=": 4, "op-=": 5, "addin": 4, "subin": 5}.get(c.op)
        if qop is not None:
            out = []
            for ix, vs in ((fresh_idx, c.vals), (c.idx, c.alias_vals())):
                ix2 = (list(ix) + [max(ix) + 1])[:2]
                vs2 = (list(vs) + ["0/1"])[:2]
                out.append("q %d %d %d %s %s" % (qop, ix2[0] + 1, ix2[1] + 1, vs2[0].replace("/", " "), vs2[1].replace("/", " ")))
            return out
    return None


RM_MODEL_OPS = {"add": 0, "sub": 1, "neg": 2, "mul": 3, "square": 4, "inv": 5, "div": 6, "mod": 7, "add.w": 9, "sub.w": 10, "mul.w": 11, "div.w": 12,
                "mod.w": 13, "inv.w": 14, "addin": 15, "subin": 16, "negin": 17, "mulin": 18, "squarein": 19, "invin": 20, "divin": 21, "modin": 22,
                "addmul": 23, "addin.w": 24, "subin.w": 25, "mulin.w": 26, "divin.w": 27, "modin.w": 28, "addmul.w": 29}
POLYB_OPS = {"lcm": 0, "divin": 1, "modin": 2, "powmod": 3, "add.s": 4, "sub.s": 5, "sub.sl": 6, "div.s": 7, "invmod": 8}
EXT_IRRED = {}         # param "p,k" -> the irreducible polynomial the implementation drew (read from the harness in every run)


def _rm_lines(c, mg, num, W, p, w):
    p1 = (-pow(p, -1, W)) % W if mg else 0
    out = []
    for ix, vs in ((list(range(c.n)), c.vals), (c.idx, c.alias_vals())):
        i4 = (list(ix) + [max(ix) + 1 + j for j in range(4)])[:4]
        v4 = (list(vs) + [0] * 4)[:4]
        out.append("rm %d %d %d %d %d %d %s %s %d" % (mg, num, W, p, p1, W % p, " ".join(str(i + 1) for i in i4), " ".join(str(v) for v in v4), w))
    return out


def model_view(c, mline):
    """the model's output line as position values comparable with the harness output"""
    t = mline.split()
    if c.dom == "QN":
        return ["%s/%s" % (t[0], t[1]), "%s/%s" % (t[2], t[3])][:c.n], None
    if c.dom == "RU" and c.op in ("left_shift", "lmul", "lmul_naive"):
        Wh = 1 << (1 << (c.param - 1))
        return [str(int(t[2 * k]) * Wh + int(t[2 * k + 1])) for k in range(c.n)], None
    if c.dom == "poly" and c.op in ("pdivmod", "pmod"):
        return t[:c.n], t[c.n]          # the multiplier m of the pseudo-division is returned through a reference: compared as R
    if c.dom == "RU" and c.op in ("div_q", "div_r"):
        return [t[0], t[2], t[3]], None
    if c.dom == "RU" and c.op == "div_q.w":
        return [t[0], t[2]], None
    if c.dom == "RU" and c.op == "div.w":
        return [t[0], t[2]], t[4]
    if c.dom == "RU" and c.op == "div_r.w":
        return [t[2]], t[4]
    if c.dom == "Q":
        q = ["%s/%s" % (t[0], t[1]), "%s/%s" % (t[2], t[3])]
        return q[:c.n], None
    if c.op == "gcd4":
        return t[1:1 + c.n], t[0]
    if c.op in ("divmod.i64", "divmod.u64"):
        return t[:2], t[2]
    return t[:c.n], None


# ---------------------------------------------------------------- running
def parse_out(l, n):
    """'F v.. [R x] | A v.. [R x]' -> (Fvals, Fret, Avals, Aret) or None"""
    if " | " not in l:
        return None
    f, a = l.split(" | ", 1)
    res = []
    for part, tag in ((f, "F"), (a, "A")):
        t = part.split()
        if not t or t[0] != tag:
            return None
        t = t[1:]
        ret = None
        if "R" in t:
            k = t.index("R")
            ret = " ".join(t[k + 1:])
            t = t[:k]
        if len(t) != n:
            return None
        res += [t, ret]
    return res


def spec_expect(c):
    """expected values {position: text} (+ 'R') of the distinct-objects call by the python specification, or None"""
    s = c.spec
    if s is None:
        return None
    try:
        if s[0] == "ring":
            _, ring, p, op, a = s
            e = ring_spec(ring, p, op, a)
            return None if e is None else {0: str(e)}      # (compared modulo p for the balanced rings, see verdicts)
        if s[0] == "Z":
            _, op, x = s
            e = z_spec(op, [int(v) for v in c.vals], x)
            return None if e is None else {k: str(v) for k, v in e.items()}
        if s[0] == "RU":
            _, op, K, x = s
            e = ru_spec(op, K, [int(v) for v in c.vals], x)
            return None if e is None else {k: str(v) for k, v in e.items()}
        if s[0] == "ZR":
            _, op, x = s
            e = zr_spec(op, [int(v) for v in c.vals], x)
            return None if e is None else {k: str(v) for k, v in e.items()}
        if s[0] == "CRT":
            _, M, p = s
            v = [int(t) for t in c.vals]
            return None         # the representative is not canonical (not-fast variant): residues are compared below
        if s[0] == "RM":
            _, op, K, mg, p, x = s
            e = rm_spec(op, K, mg, p, [int(v) for v in c.vals], x)
            return None if e is None else {k: str(v) for k, v in e.items()}
        if s[0] == "RI":
            _, op, K, x = s
            e = ri_spec(op, K, [int(v) for v in c.vals], x)
            return None if e is None else {k: str(v) for k, v in e.items()}
        if s[0] == "Q":
            _, op, x, vals = s
            e = q_spec(op, vals, x)
            return None if e is None else {0: q_str(e)}
    except (ZeroDivisionError, ValueError, OverflowError):
        return None
    return None


_RUN_ENV_OK = True


def _run_lines_env(binary, text, timeout=1200, env_extra=None):
    import subprocess
    env = dict(os.environ)
    env.update(env_extra or {})
    try:
        p = subprocess.run([binary], input=text, stdout=subprocess.PIPE, stderr=subprocess.PIPE, timeout=timeout, universal_newlines=True, errors="replace", env=env)
        return p.returncode, p.stdout.splitlines(), p.stderr
    except subprocess.TimeoutExpired:
        return 124, [], "[timeout]"


_lib_lock = __import__("threading").Lock()
_orig_build_repo_lib = vf.build_repo_lib


def _locked_build_repo_lib(*a, **k):
    """the harness parts are compiled from several threads: build the library once, under a lock"""
    with _lib_lock:
        return _orig_build_repo_lib(*a, **k)


vf.build_repo_lib = _locked_build_repo_lib


def build_all(chk):
    vf.build_repo_lib()
    jobs = {
        "rings1": lambda: vf.build_harness("c15_rings.C", extra_flags=("-DC15_PART=1",), deps=("c15_common.h",), name="c15_rings1"),
        "rings2": lambda: vf.build_harness("c15_rings.C", extra_flags=("-DC15_PART=2",), deps=("c15_common.h",), name="c15_rings2"),
        "rings3": lambda: vf.build_harness("c15_rings.C", extra_flags=("-DC15_PART=3",), deps=("c15_common.h",), name="c15_rings3"),
        "integer": lambda: vf.build_harness("c15_integer.C", deps=("c15_common.h",)),
    }
    # RecInt::neg(rint<K>&, const rint<K>&) does not compile in the tree as found (rfiddling.h returns a ruint<K>& as rint<K>&):
    # it is driven as soon as it does (probe; a failed probe costs a 2 s compile of a five-line unit)
    pb, pl = vf.build_harness("c15_probe_rintneg.C", link_lib=False)
    rint_neg = pb is not None
    chk.cov["rint_neg_compiles"] = rint_neg
    for extra in EXTRA_HARNESSES:
        fl = extra[2]
        if extra[0] == "rmint" and rint_neg:
            fl = tuple(fl) + ("-DC15_RINT_NEG",)
        jobs[extra[0]] = (lambda e=extra, fl=fl: vf.build_harness(e[1], deps=("c15_common.h",), extra_flags=fl, name=e[0] if e[2] else None))
    exes = {}
    with ThreadPoolExecutor(len(jobs)) as ex:
        futs = {k: ex.submit(f) for k, f in jobs.items()}
        for k, f in futs.items():
            exes[k] = f.result()
    for k in jobs:
        b, l = exes[k]
        for attempt in range(3):
            # the shared library cache is pruned by concurrent runs of other checks: a library that vanished between
            # its build and the link step is rebuilt
            if b is not None and os.path.exists(b) or "libgivaro_verif.a" not in (l or ""):
                break
            b, l = jobs[k]()
        if b is None:
            chk.broke("implementation harness %s does not compile against /repo" % k, l)
        exes[k] = b
    exes["_rint_neg"] = rint_neg
    exes["integer_nr"] = exes.get("integer")        # the same executable, run as a process of its own for the NoReduce cases
    return exes





# ---------------------------------------------------------------- RecInt free functions (ruint<K>)
RU_OPS = {
    "add": (3, [0], [1, 2], None, ""), "add.c": (3, [0], [1, 2], None, ""), "addin": (2, [0], [0, 1], None, ""), "addin.c": (2, [0], [0, 1], None, ""),
    "add_1": (2, [0], [1], None, ""), "add_wc": (3, [0], [1, 2], "bit", ""), "add_wcin": (2, [0], [0, 1], "bit", ""), "add.w": (2, [0], [1], "u64", ""),
    "sub": (3, [0], [1, 2], None, ""), "sub.c": (3, [0], [1, 2], None, ""), "subin": (2, [0], [0, 1], None, ""), "sub_1": (2, [0], [1], None, ""),
    "sub_wc": (3, [0], [1, 2], "bit", ""), "sub.w": (2, [0], [1], "u64", ""), "neg": (2, [0], [1], None, ""),
    "mul": (3, [0], [1, 2], None, ""), "mulin": (2, [0], [0, 1], None, ""), "mul.w": (2, [0], [1], "u64", ""), "square": (2, [0], [1], None, ""),
    "addmul": (3, [0], [0, 1, 2], None, ""), "addmul.w": (2, [0], [0, 1], "u64", ""),
    "lmul": (4, [0, 1], [2, 3], None, "naive"), "lmul_naive": (4, [0, 1], [2, 3], None, "naive"), "laddmul": (5, [0, 1], [2, 3, 4], None, "naive"),
    "div": (4, [0, 1], [2, 3], None, "nz3"), "div_q": (3, [0], [1, 2], None, "nz2"), "div_r": (3, [0], [1, 2], None, "nz2"), "div_q.w": (2, [0], [1], "u64nz", ""),
    "mod_n": (3, [0], [1, 2], None, "nz2"), "mod_nin": (2, [0], [0, 1], None, "nz1"), "gcd": (3, [0], [1, 2], None, ""),
    "inv_mod": (3, [0], [1, 2], None, "inv"), "exp_mod": (4, [0], [1, 2, 3], None, "exp"), "bezout_mod": (4, [0, 1], [2, 3], None, "bez"),
    "left_shift": (2, [0], [1], "shift", ""), "right_shift": (2, [0], [1], "shift", ""), "left_shift_1": (2, [0], [1], None, ""), "right_shift_1": (2, [0], [1], None, ""),
    "copy": (2, [0], [1], None, ""),
    # carry / borrow / shifted-out bit returned through a bool&; native-word operands; Arazi-Qi inverse
    "add.cw": (2, [0], [1], "u64", ""), "addin.cw": (1, [0], [0], "u64", ""), "addin.w": (1, [0], [0], "u64", ""),
    "sub.cw": (2, [0], [1], "u64", ""), "subin.cw": (1, [0], [0], "u64", ""), "subin.w": (1, [0], [0], "u64", ""), "subin.c": (2, [0], [0, 1], None, ""),
    "add_1.c": (2, [0], [1], None, ""), "sub_1.c": (2, [0], [1], None, ""),
    "add_wc.c": (3, [0], [1, 2], "bit", ""), "add_wcin.c": (2, [0], [0, 1], "bit", ""),
    "sub_wc.c": (3, [0], [1, 2], "bit", ""), "sub_wcin.c": (2, [0], [0, 1], "bit", ""), "sub_wcin": (2, [0], [0, 1], "bit", ""),
    "left_shift_1.c": (2, [0], [1], None, ""), "right_shift_1.c": (2, [0], [1], None, ""),
    # sub-object aliasing: an operand is the Low / High half of the double-width destination (or the destination a half of the operand)
    "lmul.sub": (4, [0, 1], [2, 3], None, "sub"), "lsquare.sub": (3, [0, 1], [2], None, "sub"), "laddmul.sub": (5, [0, 1], [2, 3, 4], None, "sub"),
    "mod_n.sub": (4, [0], [1, 2, 3], None, "subnz3"),
    "arazi_qi": (2, [0], [1], None, "odd1"), "mod_n.l": (2, [0], [1], "wide", "nz1"), "mulin.w": (1, [0], [0], "u64", ""),
    "laddmul.c": (5, [0, 1], [2, 3, 4], None, "naive"), "exp_mod.w": (3, [0], [1, 2], "u64", "expw"),
    "div.w": (2, [0], [1], "u64nz", "same"), "div_r.w": (1, [], [0], "u64nz", "same"),
    "op+=": (2, [0], [0, 1], None, ""), "op-=": (2, [0], [0, 1], None, ""), "op*=": (2, [0], [0, 1], None, ""), "op/=": (2, [0], [0, 1], None, "nz1"),
    "op%=": (2, [0], [0, 1], None, "nz1"), "op&=": (2, [0], [0, 1], None, ""), "op|=": (2, [0], [0, 1], None, ""), "op^=": (2, [0], [0, 1], None, ""),
    "op<<=": (1, [0], [0], "shift", ""), "op>>=": (1, [0], [0], "shift", ""),
    "op=+": (3, [0], [1, 2], None, ""), "op=-": (3, [0], [1, 2], None, ""), "op=*": (3, [0], [1, 2], None, ""), "op=/": (3, [0], [1, 2], None, "nz2"), "op=%": (3, [0], [1, 2], None, "nz2"),
}
RU_NAMES = {"lmul.sub": "lhbc", "lsquare.sub": "lhb", "laddmul.sub": "lhbcd", "left_shift.sub": "lha", "mod_n.sub": "rlhn", "mod_n.l": "an", "laddmul.c": "hlbcd", "exp_mod.w": "rbn", "div.w": "qa", "div_r.w": "a", "bezout_mod": "xycd", "lmul": "hlbc", "lmul_naive": "hlbc", "laddmul": "hlbcd", "div": "qrab", "exp_mod": "rben"}


def ru_valid(op, tag, v, W):
    if tag in ("nz1", "nz2", "nz3") and v[int(tag[-1])] == 0:
        return False
    if tag == "inv" and (v[2] < 2 or math.gcd(v[1], v[2]) != 1):
        return False
    if tag == "bez" and (v[2] < 2 or v[3] < 2 or math.gcd(v[2], v[3]) != 1):
        return False
    if tag == "exp" and (v[3] < 3 or v[3] % 2 == 0 or v[2] > 4096):
        return False
    if tag == "expw" and (v[2] < 3 or v[2] % 2 == 0):
        return False
    if tag == "odd1" and v[1] % 2 == 0:
        return False
    if tag == "subnz3" and v[3] == 0:
        return False
    return True


def ru_spec(op, K, v, s):
    W = 1 << (1 << K)
    if op in ("add", "op=+"): return {0: (v[1] + v[2]) % W}
    if op == "add.c": return {0: (v[1] + v[2]) % W, "R": (v[1] + v[2]) // W}
    if op in ("addin", "op+="): return {0: (v[0] + v[1]) % W}
    if op == "addin.c": return {0: (v[0] + v[1]) % W, "R": (v[0] + v[1]) // W}
    if op == "add_1": return {0: (v[1] + 1) % W}
    if op == "add_wc": return {0: (v[1] + v[2] + s) % W}
    if op == "add_wcin": return {0: (v[0] + v[1] + s) % W}
    if op == "add.w": return {0: (v[1] + s) % W}
    if op in ("sub", "op=-"): return {0: (v[1] - v[2]) % W}
    if op == "sub.c": return {0: (v[1] - v[2]) % W, "R": 1 if v[1] < v[2] else 0}
    if op in ("subin", "op-="): return {0: (v[0] - v[1]) % W}
    if op == "sub_1": return {0: (v[1] - 1) % W}
    if op == "sub_wc": return {0: (v[1] - v[2] - s) % W}
    if op == "sub.w": return {0: (v[1] - s) % W}
    if op == "neg": return {0: (-v[1]) % W}
    if op in ("mul", "op=*"): return {0: v[1] * v[2] % W}
    if op in ("mulin", "op*="): return {0: v[0] * v[1] % W}
    if op == "mul.w": return {0: v[1] * s % W}
    if op == "square": return {0: v[1] * v[1] % W}
    if op == "addmul": return {0: (v[0] + v[1] * v[2]) % W}
    if op == "addmul.w": return {0: (v[0] + v[1] * s) % W}
    if op in ("lmul", "lmul_naive"): return {0: v[2] * v[3] // W, 1: v[2] * v[3] % W}
    if op == "laddmul": return {0: (v[2] * v[3] + v[4]) // W % W, 1: (v[2] * v[3] + v[4]) % W}
    if op == "div": return {0: v[2] // v[3], 1: v[2] % v[3]}
    if op in ("div_q", "op=/"): return {0: v[1] // v[2]}
    if op in ("div_r", "op=%", "mod_n"): return {0: v[1] % v[2]}
    if op == "div_q.w": return {0: v[1] // s}
    if op in ("mod_nin", "op%="): return {0: v[0] % v[1]}
    if op == "op/=": return {0: v[0] // v[1]}
    if op == "gcd": return {0: math.gcd(v[1], v[2])}
    if op == "inv_mod": return {0: pow(v[1], -1, v[2])}
    if op == "exp_mod": return {0: pow(v[1], v[2], v[3])}
    if op == "bezout_mod": return {0: pow(v[2], -1, v[3]), 1: pow(v[3], -1, v[2])}
    if op == "left_shift": return {0: (v[1] << s) % W}
    if op == "right_shift": return {0: v[1] >> s}
    if op == "left_shift_1": return {0: (v[1] << 1) % W}
    if op == "right_shift_1": return {0: v[1] >> 1}
    if op == "copy": return {0: v[1]}
    if op == "add.cw": return {0: (v[1] + s) % W, "R": (v[1] + s) // W}
    if op == "addin.cw": return {0: (v[0] + s) % W, "R": (v[0] + s) // W}
    if op == "addin.w": return {0: (v[0] + s) % W}
    if op == "sub.cw": return {0: (v[1] - s) % W, "R": 1 if v[1] < s else 0}
    if op == "subin.cw": return {0: (v[0] - s) % W, "R": 1 if v[0] < s else 0}
    if op == "subin.w": return {0: (v[0] - s) % W}
    if op == "subin.c": return {0: (v[0] - v[1]) % W, "R": 1 if v[0] < v[1] else 0}
    if op == "add_1.c": return {0: (v[1] + 1) % W, "R": (v[1] + 1) // W}
    if op == "sub_1.c": return {0: (v[1] - 1) % W, "R": 1 if v[1] == 0 else 0}
    if op == "add_wc.c": return {0: (v[1] + v[2] + s) % W, "R": (v[1] + v[2] + s) // W}
    if op == "add_wcin.c": return {0: (v[0] + v[1] + s) % W, "R": (v[0] + v[1] + s) // W}
    if op == "sub_wc.c": return {0: (v[1] - v[2] - s) % W, "R": 1 if v[1] < v[2] + s else 0}
    if op == "sub_wcin.c": return {0: (v[0] - v[1] - s) % W, "R": 1 if v[0] < v[1] + s else 0}
    if op == "sub_wcin": return {0: (v[0] - v[1] - s) % W}
    if op == "left_shift_1.c": return {0: (v[1] << 1) % W, "R": (v[1] << 1) // W}
    if op == "right_shift_1.c": return {0: v[1] >> 1, "R": v[1] & 1}
    if op == "lmul.sub": return {0: v[2] * v[3] % W, 1: v[2] * v[3] // W}
    if op == "lsquare.sub": return {0: v[2] * v[2] % W, 1: v[2] * v[2] // W}
    if op == "laddmul.sub": return {0: (v[2] * v[3] + v[4]) % W, 1: (v[2] * v[3] + v[4]) // W % W}
    if op == "left_shift.sub": return {0: (v[2] << s) % W, 1: ((v[2] << s) // W) % W}
    if op == "mod_n.sub": return {0: (v[2] * W + v[1]) % v[3]}
    if op == "arazi_qi": return {0: pow(v[1], -1, W)}
    if op == "mod_n.l": return {0: s % v[1]}
    if op == "mulin.w": return {0: v[0] * s % W}
    if op == "laddmul.c": return {0: (v[2] * v[3] + v[4]) // W % W, 1: (v[2] * v[3] + v[4]) % W, "R": (v[2] * v[3] + v[4]) // (W * W)}
    if op == "exp_mod.w": return {0: pow(v[1], s, v[2])}
    if op == "div.w": return {0: v[1] // s, "R": v[1] % s}
    if op == "div_r.w": return {"R": v[0] % s}
    if op == "op&=": return {0: v[0] & v[1]}
    if op == "op|=": return {0: v[0] | v[1]}
    if op == "op^=": return {0: v[0] ^ v[1]}
    if op == "op<<=": return {0: (v[0] << s) % W}
    if op == "op>>=": return {0: v[0] >> s}
    return None


def ru_value(rng, K, small=False):
    W = 1 << (1 << K)
    k = rng.below(6)
    if small:
        return rng.choice([0, 1, 2, 3, 7, rng.range(0, 4096)])
    if k == 0:
        return rng.choice([0, 1, 2, W - 1, W - 2, W // 2, W // 2 - 1, (1 << (1 << (K - 1))) - 1, 1 << (1 << (K - 1))])
    if k <= 3:
        return vf.limbs_value(rng, 1 << (K - 6))
    return rng.bits(rng.range(1, 1 << K))


def gen_ru_cases(rng, exes, quick, cases):
    reps = 3 if quick else 30
    for K in (6, 7, 8, 9, 10, 11):
        W = 1 << (1 << K)
        for op, (n, dests, reads, sk, tag) in sorted(RU_OPS.items()):
            if tag == "naive" and K >= 10:
                continue
            if tag in ("sub", "subnz3") and K > 8:
                continue       # double-width object ruint<K+1>: K = 6, 7, 8       # lmul above the Karatsuba threshold is documented "NOT safe" (rumul.h) for outputs aliasing inputs
            if K >= 10 and (op in ("exp_mod", "exp_mod.w", "inv_mod", "gcd", "bezout_mod") or quick and op.startswith("op")):
                continue
            for idx in partitions(n, dests):
                nrep = reps if K <= 8 else max(1, reps // 3)
                if tag == "same":
                    nrep = max(nrep, 4)          # deterministic classes below, whatever the seed
                if sk == "shift":
                    nrep = max(nrep, 4)          # two deterministic classes (a carry between the halves at every level) + random
                for rep in range(nrep):
                    x = None
                    if sk == "bit":
                        x = rng.below(2)
                    elif sk == "shift":
                        x = rng.choice([0, 1, 63, 64, 65, (1 << K) - 1, (1 << K) // 2, rng.range(0, (1 << K) - 1)])
                    elif sk == "shift2":
                        x = rng.choice([0, 1, 63, 64, 65, (1 << K) - 1, 1 << K, (1 << K) + 1, (2 << K) - 1, rng.range(0, (2 << K) - 1)])
                    elif sk == "wide":
                        x = rng.choice([0, 1, W - 1, W, W * W - 1, rng.range(0, W * W - 1), rng.range(0, W * W - 1)])
                    elif sk:
                        x = scalar(rng, sk)
                    if tag == "same" and rep < 4:
                        x = 2 if rep < 2 else rng.choice([3, 10, 97, (1 << 32) + 1])        # b == 2 takes its own branch (right_shift_1)
                    vals = class_values(rng, n, dests, reads, idx, lambda k: ru_value(rng, K, small=(tag == "exp" and k == 2)), lambda k: ru_value(rng, K))
                    if sk == "shift" and rep < 2:
                        # a shift by less than half the width at some recursion level, limbs whose top bits differ from the bits
                        # that a wrongly re-read (already shifted) low half would supply: every limb 0xF000000000000001 / 0x8000..03
                        x = [4, 61][rep] if rep == 0 or K < 8 else (1 << (K - 1)) - 3
                        limb = [0xF000000000000001, 0x8000000000000003][rep]
                        pat_v = sum(limb << (64 * j) for j in range(1 << (K - 6)))
                        vals = [pat_v if k in reads else v for k, v in enumerate(vals)]
                    if tag == "odd1" or tag == "same" and rep < 2:
                        vals = [v | 1 if k in reads else v for k, v in enumerate(vals)]     # (b == 2: an odd dividend, remainder 1)
                    if op == "gcd" and rep % 2 == 1:
                        g = rng.choice([2, 6, 3 * 5 * 7 * 11, 2 ** 31 + 11])
                        cv = {}
                        for k in sorted(reads):
                            if idx[k] not in cv:
                                cv[idx[k]] = g * rng.choice([1, 5, 35, 77, 9, 2 ** 20 + 7]) * (1 + len(cv))
                            vals[k] = cv[idx[k]]
                    ex = [x] if sk else []
                    if tag == "same":
                        ex = [x, rep % 2]                # 1: the word remainder r and the word divisor b are the same object
                    c = Case("recint", "RU", K, op, n, dests, reads, idx, vals, ex, "RecInt::" + op + "(ruint<K>)", RU_NAMES.get(op))
                    if not ru_valid(op, tag, c.vals, W) or not ru_valid(op, tag, c.alias_vals(), W):
                        continue
                    c.spec = ("RU", op, K, x)
                    cases.append(c)


EXTRA_HARNESSES.append(("recint", "c15_recint.C", ()))
EXTRA_GENERATORS.append(gen_ru_cases)



# ---------------------------------------------------------------- RecInt::rmint<K,MG> (rm*.h) and rint<K>
def _rm_ops():
    o = {}
    for b in ("add", "sub", "mul", "div", "mod", "op=+", "op=-", "op=*", "op=/", "op=%"):
        o[b] = (3, [0], [1, 2], None, "")
    o["addmul"] = (3, [0], [0, 1, 2], None, "")
    for b in ("addin", "subin", "mulin", "divin", "modin", "op+=", "op-=", "op*=", "op/=", "op%="):
        o[b] = (2, [0], [0, 1], None, "")
    for b in ("neg", "square", "inv", "copy", "reduction", "to_mg", "square_root", "op=neg", "op="):
        o[b] = (2, [0], [1], None, "")
    for b in ("negin", "squarein", "invin", "op++", "op--", "op++post", "op--post"):
        o[b] = (1, [0], [0], None, "")
    for t in ("u64", "i64"):
        for b in ("add", "sub", "mul", "div", "mod", "op=+", "op=w+", "op=-", "op=w-", "op=*", "op=w*", "op=/", "op=%"):
            o[b + "." + t] = (2, [0], [1], t, "")
        for b in ("addin", "subin", "mulin", "divin", "modin", "op+=", "op-=", "op*=", "op/=", "op%="):
            o[b + "." + t] = (1, [0], [0], t, "")
        o["inv." + t] = (1, [0], [], t, "")
        o["addmul." + t] = (2, [0], [0, 1], t, "")
    # sub-object aliasing: the ruint<K> operand is the member Value of an rmint position (of the destination when e == a)
    o["exp.val"] = (3, [0], [1, 2], None, "")           # exp(a, b, e.Value)
    o["reduction.val"] = (2, [0], [1], None, "")        # reduction(a, b.Value)
    o["exp.u64"] = (2, [0], [1], "e64", "")
    o["exp.ru"] = (2, [0], [1], "eru", "")
    return o


RM_OPS = _rm_ops()
RM_DIVISOR = {"div": 2, "op=/": 2, "divin": 1, "op/=": 1, "mod": 2, "op=%": 2, "modin": 1, "op%=": 1}


def rm_spec(op, K, mg, p, v, w):
    """raw representatives (member Value); MG_ACTIVE: Montgomery images x R mod p, R = 2^(2^K)"""
    R = (1 << (1 << K)) % p if mg else 1
    if math.gcd(R, p) != 1:
        return None
    Ri = pow(R, -1, p)
    user = lambda x: x * Ri % p
    raw = lambda u: u * R % p
    base, _, t = op.partition(".")
    wr = raw(w % p) if t in ("u64", "i64") else None
    inv = lambda x: pow(x, -1, p) if math.gcd(x, p) == 1 else None
    def quo(x, y):          # raw(user(x) / user(y))
        i = inv(y)
        return None if i is None else x * i % p * R % p
    def md(x, y):
        return None if user(y) == 0 else raw(user(x) % user(y))
    if t in ("u64", "i64"):
        b = v[1] if len(v) > 1 else None
        a = v[0]
        r = {"add": lambda: (b + wr) % p, "op=+": lambda: (b + wr) % p, "op=w+": lambda: (b + wr) % p,
             "sub": lambda: (b - wr) % p, "op=-": lambda: (b - wr) % p, "op=w-": lambda: (wr - b) % p,
             "mul": lambda: b * wr * Ri % p, "op=*": lambda: b * wr * Ri % p, "op=w*": lambda: b * wr * Ri % p,
             "div": lambda: quo(b, wr), "op=/": lambda: quo(b, wr), "mod": lambda: md(b, wr), "op=%": lambda: md(b, wr),
             "addin": lambda: (a + wr) % p, "op+=": lambda: (a + wr) % p, "subin": lambda: (a - wr) % p, "op-=": lambda: (a - wr) % p,
             "mulin": lambda: a * wr * Ri % p, "op*=": lambda: a * wr * Ri % p, "divin": lambda: quo(a, wr), "op/=": lambda: quo(a, wr),
             "modin": lambda: md(a, wr), "op%=": lambda: md(a, wr),
             "inv": lambda: None if inv(wr) is None else inv(wr) * R * R % p,
             "addmul": lambda: (a + b * wr * Ri) % p}.get(base)
        e = r() if r else None
        return None if e is None else {0: e}
    if op == "exp.val":
        return {0: raw(pow(user(v[1]), v[2], p))} if p % 2 == 1 else None
    if op == "reduction.val":
        return {0: v[1] * Ri % p}
    if op == "exp.u64" or op == "exp.ru":
        return {0: raw(pow(user(v[1]), w, p))} if p % 2 == 1 else None
    r = {"add": lambda: (v[1] + v[2]) % p, "op=+": lambda: (v[1] + v[2]) % p, "sub": lambda: (v[1] - v[2]) % p, "op=-": lambda: (v[1] - v[2]) % p,
         "mul": lambda: v[1] * v[2] * Ri % p, "op=*": lambda: v[1] * v[2] * Ri % p, "div": lambda: quo(v[1], v[2]), "op=/": lambda: quo(v[1], v[2]),
         "mod": lambda: md(v[1], v[2]), "op=%": lambda: md(v[1], v[2]), "addmul": lambda: (v[0] + v[1] * v[2] * Ri) % p,
         "addin": lambda: (v[0] + v[1]) % p, "op+=": lambda: (v[0] + v[1]) % p, "subin": lambda: (v[0] - v[1]) % p, "op-=": lambda: (v[0] - v[1]) % p,
         "mulin": lambda: v[0] * v[1] * Ri % p, "op*=": lambda: v[0] * v[1] * Ri % p, "divin": lambda: quo(v[0], v[1]), "op/=": lambda: quo(v[0], v[1]),
         "modin": lambda: md(v[0], v[1]), "op%=": lambda: md(v[0], v[1]),
         "neg": lambda: (-v[1]) % p, "op=neg": lambda: (-v[1]) % p, "square": lambda: v[1] * v[1] * Ri % p,
         "inv": lambda: None if inv(v[1]) is None else inv(v[1]) * R * R % p, "copy": lambda: v[1], "op=": lambda: v[1],
         "reduction": lambda: v[1] * Ri % p, "to_mg": lambda: v[1] * R % p,
         "negin": lambda: (-v[0]) % p, "squarein": lambda: v[0] * v[0] * Ri % p,
         "invin": lambda: None if inv(v[0]) is None else inv(v[0]) * R * R % p,
         "op++": lambda: (v[0] + raw(1)) % p, "op--": lambda: (v[0] - raw(1)) % p,
         "op++post": lambda: (v[0] + raw(1)) % p, "op--post": lambda: (v[0] - raw(1)) % p}.get(op)
    e = r() if r else None
    if e is None:
        return None
    out = {0: e}
    if op.endswith("post"):
        out["R"] = v[0]
    return out


def rm_moduli(rng, K, mg, quick):
    hi = (1 << (1 << K)) - 1
    ms = [101, 103, hi, prevprime(hi), prevprime(hi // 2 + 1), prevprime(math.isqrt(hi)) , 3, 29]
    if not mg:
        ms += [100, 1 << ((1 << K) - 1), hi - 1]
    n = 1 if quick else 6
    for _ in range(n):
        ms.append(rng.range(3, hi) | 1)
        ms.append(rng.range(3, 1 << rng.range(3, 1 << K)) | 1)
    out = []
    for m in ms:
        if m >= 3 and m <= hi and m not in out and (not mg or m % 2 == 1):
            out.append(m)
    return out


def gen_rm_cases(rng, exes, quick, cases):
    reps = 1 if quick else 6
    for K in (6, 7, 8):
        for mg in (0, 1):
            mods = rm_moduli(rng, K, mg, quick)
            for pi, p in enumerate(mods):
                for op, (n, dests, reads, sk, tag) in sorted(RM_OPS.items()):
                    base = op.partition(".")[0] if op not in ("exp.val", "reduction.val") else op.partition(".")[0]
                    if base == "exp" and p % 2 == 0 or op == "to_mg" and not mg:
                        continue            # exp_mod wants an odd modulus; to_mg exists for MG_ACTIVE only
                    if base == "square_root" and not (p in (101, 103, 29, 3) or pi in (3, 4, 5) and p % 8 != 1):
                        continue            # prime modulus, p != 1 mod 8: no random choice in the algorithm
                    if quick and pi >= 6 and "." in op and not op.startswith("exp"):
                        continue
                    for idx in partitions(n, dests):
                        for rep in range(reps):
                            def val(k):
                                return rng.choice([0, 1, p - 1, p - 2, p // 2, (p + 1) // 2, 2, rng.range(0, p - 1), rng.range(0, p - 1), rng.range(0, p - 1)]) % p
                            vals = class_values(rng, n, dests, reads, idx, val, val)
                            x = None
                            if sk in ("u64", "i64"):
                                x = scalar(rng, sk)
                                if base in ("div", "divin", "op=/", "op/=", "mod", "modin", "op=%", "op%=", "inv") and x % p == 0:
                                    x = 7 if p != 7 else 5
                                if sk == "i64" and x == -(1 << 63):
                                    x += 1
                            elif sk == "e64":
                                x = rng.choice([0, 1, 2, 3, 16, 17, 255, 65537, rng.range(0, 1 << 20), (1 << 64) - 1 if rep % 2 else 5])
                            elif sk == "eru":
                                x = rng.choice([0, 1, 2, 15, 16, 1 << 64, (1 << 64) + 3, rng.range(0, (1 << (1 << K)) - 1) >> rng.range(0, (1 << K) - 8)]) % (1 << (1 << K))
                            dp = RM_DIVISOR.get(op)
                            if dp is not None:
                                # divisors: mostly invertible; sometimes a zero divisor of Z/p (div gives 0 by definition); never 0 for mod
                                def setc(k, v):
                                    for j in range(n):
                                        if j in reads and idx[j] == idx[k]:
                                            vals[j] = v
                                if vals[dp] == 0 or (math.gcd(vals[dp], p) != 1 and rng.chance(2, 3)):
                                    u = 1
                                    for _ in range(50):
                                        u = rng.range(1, p - 1)
                                        if math.gcd(u, p) == 1:
                                            break
                                    setc(dp, u)
                            c = Case("rmint", "RM", "%d,%d,%d" % (K, mg, p), op, n, dests, reads, idx, vals, [x] if sk else [],
                                     "RecInt::%s(rmint<K,%s>)" % (op, "MG_ACTIVE" if mg else "MG_INACTIVE"))
                            if dp is not None and (c.vals[dp] == 0 or c.alias_vals()[dp] == 0):
                                continue
                            c.spec = ("RM", op, K, mg, p, x)
                            cases.append(c)


def _ri_ops():
    o = {}
    for b in ("add", "sub", "mul", "div_q", "div_r", "inv_mod", "mod_n", "op=+", "op=-", "op=*", "op=/", "op=%", "add.c", "sub.c"):
        o[b] = (3, [0], [1, 2], None, "")
    o["addmul"] = (3, [0], [0, 1, 2], None, "")
    for b in ("addin", "subin", "mulin", "mod_nin", "op+=", "op-=", "op*=", "op/=", "op%=", "op&=", "op|=", "op^=", "addin.c", "subin.c"):
        o[b] = (2, [0], [0, 1], None, "")
    for b in ("copy", "neg", "add_1", "sub_1", "add_1.c", "sub_1.c"):
        o[b] = (2, [0], [1], None, "")
    for b in ("add.w", "sub.w", "mul.w", "div_q.w", "add.cw", "sub.cw"):
        o[b] = (2, [0], [1], "i64", "")
    return o


RI_OPS = _ri_ops()
RI_DIVISOR = {"div_q": 2, "div_r": 2, "inv_mod": 2, "mod_n": 2, "op=/": 2, "op=%": 2, "mod_nin": 1, "op/=": 1, "op%=": 1}


def ri_spec(op, K, v, w):
    """two's complement wrap-around for the additive / multiplicative / bitwise forms; the division family of rint<K>
    is compared with the call on distinct objects only (its sign conventions are not C15's subject)"""
    W = 1 << (1 << K)
    def sg(x):
        x %= W
        return x - W if x >= W // 2 else x
    r = {"add": lambda: v[1] + v[2], "op=+": lambda: v[1] + v[2], "add.c": lambda: v[1] + v[2], "sub": lambda: v[1] - v[2], "op=-": lambda: v[1] - v[2],
         "sub.c": lambda: v[1] - v[2], "mul": lambda: v[1] * v[2], "op=*": lambda: v[1] * v[2], "addmul": lambda: v[0] + v[1] * v[2],
         "addin": lambda: v[0] + v[1], "op+=": lambda: v[0] + v[1], "addin.c": lambda: v[0] + v[1], "subin": lambda: v[0] - v[1], "op-=": lambda: v[0] - v[1],
         "subin.c": lambda: v[0] - v[1], "mulin": lambda: v[0] * v[1], "op*=": lambda: v[0] * v[1],
         "op&=": lambda: (v[0] % W) & (v[1] % W), "op|=": lambda: (v[0] % W) | (v[1] % W), "op^=": lambda: (v[0] % W) ^ (v[1] % W),
         "copy": lambda: v[1], "neg": lambda: -v[1], "add_1": lambda: v[1] + 1, "sub_1": lambda: v[1] - 1, "add_1.c": lambda: v[1] + 1, "sub_1.c": lambda: v[1] - 1,
         "add.w": lambda: v[1] + w, "add.cw": lambda: v[1] + w, "sub.w": lambda: v[1] - w, "sub.cw": lambda: v[1] - w, "mul.w": lambda: v[1] * w}.get(op)
    if r is None or (w is not None and w < 0):
        return None         # (the free functions add/sub/mul(rint&, const rint&, T) add a negative word as an unsigned limb: a value
                            #  matter of the call on distinct objects, not an alias matter; such cases are compared A against F only)
    return {0: sg(r())}


def gen_ri_cases(rng, exes, quick, cases):
    reps = 2 if quick else 12
    for K in (6, 7, 8):
        W = 1 << (1 << K)
        def val(k):
            v = rng.choice([0, 1, -1, 2, W // 2 - 1, -(W // 2) + 1, vf.structured_int(rng, 1 << (K - 6)), vf.structured_int(rng, 1 << (K - 6)), rng.range(-1000, 1000)])
            v %= W
            v = v - W if v >= W // 2 else v
            return -(W // 2) + 1 if v == -(W // 2) else v          # |most negative| is not representable
        for op, (n, dests, reads, sk, tag) in sorted(RI_OPS.items()):
            if op == "neg" and not exes.get("_rint_neg"):
                continue
            for idx in partitions(n, dests):
                for rep in range(reps):
                    vals = class_values(rng, n, dests, reads, idx, val, val)
                    x = scalar(rng, "i64nz") if sk else None
                    dp = RI_DIVISOR.get(op)
                    if dp is not None:
                        d = rng.choice([3, 7, 101, 2 ** 31 - 1, 2 ** 61 - 1, -7, (1 << ((1 << K) - 2)) + 1] if op not in ("inv_mod", "mod_nin", "mod_n") else [7, 101, 2 ** 31 - 1, 2 ** 61 - 1])
                        for j in range(n):
                            if j in reads and idx[j] == idx[dp]:
                                vals[j] = d
                    c = Case("rmint", "RI", K, op, n, dests, reads, idx, vals, [x] if sk else [], "RecInt::" + op + "(rint<K>)")
                    if dp is not None and (c.vals[dp] == 0 or c.alias_vals()[dp] == 0):
                        continue
                    if op == "inv_mod" and (math.gcd(c.vals[1], c.vals[2]) != 1 or math.gcd(c.alias_vals()[1], c.alias_vals()[2]) != 1):
                        continue
                    c.spec = ("RI", op, K, x)
                    cases.append(c)


EXTRA_HARNESSES.append(("rmint", "c15_rmint.C", ()))
EXTRA_GENERATORS.append(gen_rm_cases)
EXTRA_GENERATORS.append(gen_ri_cases)


# ---------------------------------------------------------------- ZRing<Integer> extras, IntPrimeDom, CRT, GF2, Modular<Log16>
ZR_OPS = {
    "abs": (2, [0], [1], None, ""), "assign": (2, [0], [1], None, ""), "reduce": (2, [0], [1], None, ""), "logtwo": (2, [0], [1], None, "pos1"),
    "mod": (3, [0], [1, 2], None, "nz2"), "modin": (2, [0], [0, 1], None, "nz1"), "divexact": (3, [0], [1, 2], None, "exact"),
    "divmod": (4, [0, 1], [2, 3], None, "nz3"), "quoRem": (4, [0, 1], [2, 3], None, "nz3"),
    "quo": (3, [0], [1, 2], None, "nz2"), "rem": (3, [0], [1, 2], None, "nz2"), "quoin": (2, [0], [0, 1], None, "nz1"), "remin": (2, [0], [0, 1], None, "nz1"),
    "gcd": (3, [0], [1, 2], None, "cf"), "gcd5": (5, [0, 1, 2], [3, 4], None, "cf"), "gcdin": (2, [0], [0, 1], None, "cf"),
    "lcm": (3, [0], [1, 2], None, "cf"), "lcmin": (2, [0], [0, 1], None, "cf"), "dxgcd": (7, [0, 1, 2, 3, 4], [5, 6], None, "cfnz"),
    "inv3": (3, [0], [1, 2], None, "unit12"), "invmod": (3, [0], [1, 2], None, "unit12"), "invin2": (2, [0], [0, 1], None, "unit01"), "invmodin": (2, [0], [0, 1], None, "unit01"),
    "pow": (2, [0], [1], "exp", "small"), "pow.i64": (2, [0], [1], "exp", "small"), "pow.i32": (2, [0], [1], "exp", "small"), "pow.u32": (2, [0], [1], "exp", "small"),
    "powmod": (4, [0], [1, 2, 3], None, "powmI"), "powmod.w": (3, [0], [1, 2], "sexp", "powm"),
    "sqrt": (2, [0], [1], None, "nonneg1"), "sqrtrem": (3, [0, 1], [2], None, "nonneg2"),
    "RationalReconstruction4": (4, [0, 1], [2, 3], None, "rr"), "RationalReconstruction6": (6, [0, 1], [2, 3, 4, 5], None, "rr"),
    "RationalReconstruction7": (5, [0, 1], [2, 3, 4], "flags", "rr"), "ratrecon7": (5, [0, 1], [2, 3, 4], "flags", "rr"),
    "nextprime": (2, [0], [1], None, "prime"), "prevprime": (2, [0], [1], None, "prime"), "nextprime.dom": (2, [0], [1], None, "prime"),
    "prevprime.dom": (2, [0], [1], None, "prime"), "isprimepower": (2, [0], [1], None, "pp"),
}
ZR_NAMES = {"divmod": "qrab", "quoRem": "qrab", "gcd5": "guvab", "dxgcd": "gstuvab", "sqrtrem": "srn", "powmod": "rnem", "powmod.w": "rnm",
            "RationalReconstruction4": "ndfm", "RationalReconstruction6": "ndfmxy", "RationalReconstruction7": "ndfmb", "ratrecon7": "ndfmb"}


def zr_spec(op, v, x):
    fdiv = lambda a, b: a // b if b > 0 else -((-a) // (-b)) if False else (a // b)
    if op == "abs": return {0: abs(v[1])}
    if op in ("assign", "reduce"): return {0: v[1]}
    if op == "logtwo": return {0: v[1].bit_length() - 1}
    if op in ("mod", "rem"): return {0: v[1] % abs(v[2])}
    if op in ("modin", "remin"): return {0: v[0] % abs(v[1])}
    if op == "divexact": return {0: tdiv(v[1], v[2])}
    if op in ("divmod", "quoRem"):
        q = v[2] // v[3] if v[3] > 0 else -(v[2] // -v[3])
        return {0: q, 1: v[2] - q * v[3]}
    if op == "quo": return {0: v[1] // v[2] if v[2] > 0 else -(v[1] // -v[2])}
    if op == "quoin": return {0: v[0] // v[1] if v[1] > 0 else -(v[0] // -v[1])}
    if op == "gcd": return {0: math.gcd(v[1], v[2])}
    if op == "gcdin": return {0: math.gcd(v[0], v[1])}
    if op == "lcm": return {0: abs(v[1] * v[2]) // math.gcd(v[1], v[2]) if v[1] and v[2] else 0}
    if op == "lcmin": return {0: abs(v[0] * v[1]) // math.gcd(v[0], v[1]) if v[0] and v[1] else 0}
    if op in ("inv3", "invmod"): return {0: pow(v[1], -1, abs(v[2]))}
    if op in ("invin2", "invmodin"): return {0: pow(v[0], -1, abs(v[1]))}
    if op.startswith("pow") and not op.startswith("powmod"): return {0: v[1] ** abs(x)}
    if op == "powmod": return {0: pow(v[1], v[2], abs(v[3]))}
    if op == "powmod.w":
        m = abs(v[2])
        return {0: pow(v[1], x, m)} if x >= 0 or math.gcd(v[1], m) == 1 else None
    if op == "sqrt": return {0: math.isqrt(v[1])}
    if op == "sqrtrem": return {0: math.isqrt(v[2]), 1: v[2] - math.isqrt(v[2]) ** 2}
    if op == "gcd5": return {0: math.gcd(v[3], v[4])}
    if op == "dxgcd":
        g = math.gcd(v[5], v[6])
        return {0: g, 3: v[5] // g, 4: v[6] // g}
    return None             # rational reconstruction, primes: compared with the call on distinct objects


def gen_zr_cases(rng, exes, quick, cases):
    reps = 4 if quick else 40
    for op, (n, dests, reads, sk, tag) in sorted(ZR_OPS.items()):
        parts = partitions(n, dests)
        for idx in parts:
            for rep in range(reps if len(parts) < 40 else max(1, reps // 4)):
                small = tag in ("small", "powm", "powmI", "exact", "prime", "pp") or rep % 3 == 0
                x = None
                if sk == "flags":
                    x = None
                elif sk:
                    x = scalar(rng, sk)
                def gen(k, small=small):
                    v = z_value(rng, small)
                    if tag in ("pos1",) or tag == "nonneg1" and k == 1 or tag == "nonneg2" and k == 2:
                        v = abs(v) + (1 if tag == "pos1" else 0)
                    if tag in ("unit12", "unit01") and k == int(tag[-1]):
                        v = abs(v) + 2
                    if tag == "powm" and k == 2 or tag == "powmI" and k == 3:
                        v = rng.choice([7, 11, 101, 2 ** 61 - 1, 15, 1000003])
                    if tag == "powmI" and k == 2:
                        v = abs(v) % 50
                    if tag == "prime":
                        v = rng.choice([2, 3, 4, 100, 101, 2 ** 31 - 1, 2 ** 31, 2 ** 64 + 13, 10 ** 30, rng.range(3, 10 ** 6)])
                    if tag == "pp":
                        v = rng.choice([2, 4, 8, 9, 27, 81, 125, 49, 1024, 3 ** 40, 7 ** 23, 6, 12, 100, 1, 5 ** 20 + 1])
                    return v
                vals = class_values(rng, n, dests, reads, idx, gen, lambda k: z_value(rng))
                def setc(k, v):
                    for j in range(n):
                        if j in reads and idx[j] == idx[k]:
                            vals[j] = v
                if tag in ("cf", "cfnz") and rep % 2 == 1 or tag == "cfnz":
                    g = rng.choice([2, 6, 2 ** 64 + 13, 3 * 5 * 7 * 11, 2 ** 33, 1])
                    cv = {}
                    for k in sorted(reads):
                        if idx[k] not in cv:
                            cv[idx[k]] = g * rng.choice([1, 5, 35, 2 ** 70 + 3, 77, 9]) * (1 + len(cv)) * rng.choice([1, 1, -1])
                        vals[k] = cv[idx[k]]
                if tag == "exact" and idx[1] != idx[2]:
                    if vals[2] == 0:
                        continue
                    setc(1, vals[2] * z_value(rng))
                if tag in ("unit12", "unit01"):
                    apos, mpos = (1, 2) if tag == "unit12" else (0, 1)
                    if idx[apos] == idx[mpos]:
                        continue
                    if math.gcd(vals[apos], vals[mpos]) != 1:
                        setc(apos, 1)
                if tag == "powm" and x is not None and x < 0:
                    if idx[1] == idx[2]:
                        continue
                    if math.gcd(vals[1], vals[2]) != 1:
                        setc(1, 2)
                ex = [x] if sk and sk != "flags" else []
                if tag == "rr":
                    # f mod m with a small fraction behind it: m a prime (power), f = a / b mod m, bounds ~ sqrt(m)
                    m = rng.choice([101, 10007, 2 ** 31 - 1, 2 ** 61 - 1, 3 ** 20])
                    a, b = rng.range(-30, 30), rng.range(1, 30)
                    while math.gcd(b, m) != 1:
                        b += 1
                    f = a * pow(b, -1, m) % m
                    setc(2, f)
                    if idx[3] != idx[2]:
                        setc(3, m)
                    if n >= 5 and idx[4] not in (idx[2], idx[3]):
                        setc(4, max(2, math.isqrt(m) // 2))
                    if n >= 6 and idx[5] not in (idx[2], idx[3], idx[4]):
                        setc(5, max(2, math.isqrt(m) // 2))
                    if sk == "flags":
                        ex = [rng.below(2), rng.below(2)]
                c = Case("more", "ZR", "-", op, n, dests, reads, idx, vals, ex, "ZRing<Integer>::" + op if "prime" not in op else "IntPrimeDom::" + op, ZR_NAMES.get(op))
                ok = True
                for vv in (c.vals, c.alias_vals()):
                    vv = [int(t) for t in vv]
                    if tag in ("nz1", "nz2", "nz3") and vv[int(tag[-1])] == 0: ok = False
                    if tag == "cfnz" and (vv[5] == 0 or vv[6] == 0): ok = False
                    if tag == "exact" and (vv[2] == 0 or vv[1] % vv[2] != 0): ok = False
                    if tag in ("unit12",) and (abs(vv[2]) < 2 or math.gcd(vv[1], vv[2]) != 1): ok = False
                    if tag in ("unit01",) and (abs(vv[1]) < 2 or math.gcd(vv[0], vv[1]) != 1): ok = False
                    if tag == "powm" and (abs(vv[2]) < 2 or (x < 0 and math.gcd(vv[1], vv[2]) != 1)): ok = False
                    if tag == "powmI" and (abs(vv[3]) < 2 or vv[2] < 0): ok = False
                    if tag == "pos1" and vv[1] <= 0: ok = False
                    if tag == "nonneg1" and vv[1] < 0 or tag == "nonneg2" and vv[2] < 0: ok = False
                    if tag == "rr" and (vv[3] < 2 or any(t <= 0 for t in vv[4:])): ok = False
                    if tag == "prime" and vv[1] < 2 or tag == "pp" and vv[1] < 1: ok = False
                if not ok:
                    continue
                c.spec = ("ZR", op, x)
                cases.append(c)
    # Chinese remaindering: res <- the lift of (A mod M, e mod p)
    for op in ("crt", "crt.nf"):
        for idx in partitions(3, [0]):
            for rep in range(reps):
                M = rng.choice([35, 2 ** 64 + 13, 3 * 5 * 7 * 11 * 13, 10 ** 20 + 39])
                p = rng.choice([11, 101, 2 ** 31 - 1, 2 ** 61 - 1, 65521])
                if math.gcd(M, p) != 1:
                    continue
                A, e = rng.range(0, M - 1), rng.range(0, p - 1)
                vals = class_values(rng, 3, [0], [1, 2], idx, lambda k: A if k == 1 else e, lambda k: z_value(rng))
                if idx[1] == idx[2]:
                    vals[1] = vals[2] = rng.range(0, min(M, p) - 1)
                c = Case("more", "CRT", "%d,%d" % (M, p), op, 3, [0], [1, 2], idx, vals, [], "ChineseRemainder<ZRing<Integer>,Modular<Integer>>::operator()", "rae")
                c.spec = ("CRT", M, p)
                cases.append(c)
    # GF2 and Modular<Log16>: the ring interface
    for dom, prms in (("gf2", ["-"]), ("log16", ["2", "3", "101", "16381"] if quick else ["2", "3", "7", "101", "251", "4093", "16381"])):
        for prm in prms:
            q = 2 if dom == "gf2" else int(prm)
            for op, (n, dests, reads) in sorted(RING_OPS.items()):
                if op.startswith("mul_precomp") or op == "reduce":
                    continue
                upos = {"div": [2], "inv": [1], "divin": [1], "invin": [0]}.get(op, [])
                for idx in partitions(n, dests):
                    for rep in range(2 if q > 2 else 4):
                        vals = class_values(rng, n, dests, reads, idx, lambda j: rng.choice([0, 1, q - 1, rng.range(0, q - 1)]), lambda j: rng.range(0, q - 1))
                        c = Case("more", dom, prm, op, n, dests, reads, idx, vals, [], ("GF2::" if dom == "gf2" else "Modular<Log16>::") + op)
                        if any(c.vals[j] == 0 for j in upos) or any(c.alias_vals()[j] == 0 for j in upos):
                            continue
                        c.spec = ("ring", "plain", q, op, [vals[k] for k in sorted(reads)])
                        cases.append(c)


EXTRA_HARNESSES.append(("more", "c15_more.C", ()))
EXTRA_GENERATORS.append(gen_zr_cases)


# ---------------------------------------------------------------- number theory (IntNumTheoDom, IntSqrtModDom) and GFqDom array forms
NT_OPS = {
    "phi": (2, [0], [1], None, "n"), "lambda": (2, [0], [1], None, "n"), "lambda_inv": (2, [0], [1], None, "n"),
    "lambda_primpow": (2, [0], [1], "k", "prime"), "lambda_inv_primpow": (2, [0], [1], "k", "prime"),
    "order": (3, [0], [1, 2], None, "order"), "lowest_prim_root": (2, [0], [1], None, "cyclic"), "prim_root": (2, [0], [1], None, "cyclic"),
    "prim_root.w": (2, [0], [1], None, "cyclic"), "prim_root_of_prime": (2, [0], [1], None, "prime"), "probable_prim_root": (2, [0], [1], None, "prime"),
    "prim_inv": (2, [0], [1], None, "n"), "prim_elem": (2, [0], [1], None, "n"),
    "sqrootmod": (3, [0], [1, 2], None, "sqn"), "sqrootmodprime": (3, [0], [1, 2], None, "sqp"),
    "sqrootmodprimepower": (4, [0], [1, 2, 3], "k", "sqpk"), "sqrootmodpoweroftwo": (3, [0], [1, 2], "k", "sq2k"),
    "Brillhart": (3, [0, 1], [2], None, "p14"),
    "sumofsquaresmodprime": (4, [0, 1], [2, 3], None, "ssq"), "sumofsquaresmodprimeDeterministic": (4, [0, 1], [2, 3], None, "ssq"),
    "sumofsquaresmodprimeMonteCarlo": (4, [0, 1], [2, 3], None, "ssq"), "sumofsquaresmodprimeNoERH": (4, [0, 1], [2, 3], None, "ssq"),
    "sumofsquaresmodprimewithnonresidue": (5, [0, 1], [2, 3, 4], None, "ssqs"),
}
NT_NAMES = {"order": "rgp", "sqrootmod": "xan", "sqrootmodprime": "xap", "sqrootmodprimepower": "xapq", "sqrootmodpoweroftwo": "xaq", "Brillhart": "abp",
            "sumofsquaresmodprime": "abkp", "sumofsquaresmodprimeDeterministic": "abkp", "sumofsquaresmodprimeMonteCarlo": "abkp",
            "sumofsquaresmodprimeNoERH": "abkp", "sumofsquaresmodprimewithnonresidue": "abksp"}
NT_DETERMINISTIC = ("phi", "lambda", "lambda_inv", "lambda_primpow", "lambda_inv_primpow", "order", "lowest_prim_root")


def _factor(n):
    f, d = {}, 2
    while d * d <= n:
        while n % d == 0:
            f[d] = f.get(d, 0) + 1
            n //= d
        d += 1 if d == 2 else 2
    if n > 1:
        f[n] = f.get(n, 0) + 1
    return f


def _phi(n):
    r = n
    for q in _factor(n):
        r -= r // q
    return r


def _carmichael(n, inv=True):
    l = 1
    for q, e in _factor(n).items():
        t = (q - 1) * q ** (e - 1)
        if q == 2 and e >= 3:
            t //= 2
        l = l * t // math.gcd(l, t)
    return l


def _order(g, n):
    if math.gcd(g, n) != 1:
        return None
    o = _carmichael(n)
    for q in _factor(o):
        while o % q == 0 and pow(g, o // q, n) == 1:
            o //= q
    return o


def nt_check(op, v, out, x):
    """semantic check of the outputs `out` (ints by position) of a number-theoretic call on operand values v; None = fine,
    else a text.  Used for the distinct-objects call AND for the aliased call (randomised algorithms: A == F is not required)."""
    try:
        if op == "phi": return None if out[0] == _phi(v[1]) else "phi(%d) is %d" % (v[1], _phi(v[1]))
        # lambda / lambda_primpow / prim_elem (maximal orbit over ALL elements, tails included) are C13's subject: judged here by the
        # equality of the aliased and the distinct-objects call only (they are deterministic); lambda_inv is Carmichael's function
        if op == "lambda_inv": return None if out[0] == _carmichael(v[1]) else "lambda_inv(%d) is %d" % (v[1], _carmichael(v[1]))
        if op == "lambda_inv_primpow":
            return None if out[0] == _carmichael(v[1] ** x) else "lambda(%d^%d) is %d" % (v[1], x, _carmichael(v[1] ** x))
        if op == "order": return None if out[0] == (_order(v[1] % v[2], v[2]) or 0) else "the order of %d mod %d is %s" % (v[1], v[2], _order(v[1] % v[2], v[2]))
        if op in ("lowest_prim_root", "prim_root", "prim_root.w", "prim_root_of_prime", "probable_prim_root"):
            n = v[1]
            ok = _order(out[0] % n, n) == _phi(n)
            if ok and op == "lowest_prim_root":
                ok = all(_order(g, n) != _phi(n) for g in range(1, out[0] % n))
            return None if ok else "%d is not a (lowest) primitive root modulo %d" % (out[0], n)
        if op == "prim_inv": return None if _order(out[0] % v[1], v[1]) == _carmichael(v[1]) else "%d has not maximal order among the units modulo %d" % (out[0], v[1])
        if op in ("sqrootmod", "sqrootmodprime"): return None if (out[0] * out[0] - v[1]) % v[2] == 0 else "%d^2 is not %d modulo %d" % (out[0], v[1], v[2])
        if op == "sqrootmodprimepower": return None if (out[0] * out[0] - v[1]) % v[3] == 0 else "%d^2 is not %d modulo %d" % (out[0], v[1], v[3])
        if op == "sqrootmodpoweroftwo": return None if (out[0] * out[0] - v[1]) % v[2] == 0 else "%d^2 is not %d modulo %d" % (out[0], v[1], v[2])
        if op == "Brillhart": return None if out[0] ** 2 + out[1] ** 2 == v[2] else "%d^2 + %d^2 is not %d" % (out[0], out[1], v[2])
        if op.startswith("sumofsquares"):
            pp = v[4] if op.endswith("withnonresidue") else v[3]
            return None if (out[0] ** 2 + out[1] ** 2 - v[2]) % pp == 0 else "%d^2 + %d^2 is not %d modulo %d" % (out[0], out[1], v[2], pp)
    except (ZeroDivisionError, ValueError, TypeError):
        return None
    return None


def gen_nt_cases(rng, exes, quick, cases):
    reps = 3 if quick else 20
    primes = [3, 5, 7, 13, 101, 257, 65537, 1000003, 999983]
    p14 = [5, 13, 17, 101, 257, 65537, 1000033, 999961]
    cyclic = [2, 4, 3, 9, 27, 18, 50, 101, 2 * 101, 125, 250, 65537, 1000003, 2 * 999983]
    for op, (n, dests, reads, sk, tag) in sorted(NT_OPS.items()):
        for idx in partitions(n, dests):
            for rep in range(reps):
                x = None
                vals = [rng.range(2, 1000) for _ in range(n)]
                def setc(k, v):
                    for j in range(n):
                        if j in reads and idx[j] == idx[k]:
                            vals[j] = v
                if tag == "n":
                    setc(1, rng.choice([2, 8, 9, 12, 24, 100, 101, 1000, 65536, 3 * 5 * 7 * 11, 999983 * 2, rng.range(2, 10 ** 6)]))
                elif tag == "prime":
                    setc(1, rng.choice(primes if op != "probable_prim_root" else primes[1:]))
                    x = rng.choice([1, 2, 3, 5]) if sk else None
                elif tag == "cyclic":
                    setc(1, rng.choice(cyclic))
                elif tag == "order":
                    if idx[1] == idx[2]:
                        continue
                    m = rng.choice([101, 100, 65537, 1000003, 81, 250])
                    setc(2, m)
                    g = rng.range(2, m - 1)
                    while math.gcd(g, m) != 1:
                        g += 1
                    setc(1, g)
                elif tag in ("sqn", "sqp", "sqpk", "sq2k"):
                    if tag == "sq2k":
                        x = rng.choice([3, 4, 6, 10, 40])
                        mod = 1 << x
                        r0 = rng.range(1, mod - 1) | 1
                        mpos = 2
                    elif tag == "sqpk":
                        pp = rng.choice([3, 5, 7, 101])
                        x = rng.choice([1, 2, 3, 5])
                        mod = pp ** x
                        r0 = rng.range(1, mod - 1)
                        while r0 % pp == 0:
                            r0 += 1
                        mpos = 3
                        if len(set([idx[1], idx[2], idx[3]])) < 3:
                            continue
                        setc(2, pp)
                    else:
                        mod = rng.choice(primes[1:]) if tag == "sqp" else rng.choice([101, 7 * 11, 9 * 25, 8 * 13, 65537, 2 * 101])
                        r0 = rng.range(1, mod - 1)
                        while math.gcd(r0, mod) != 1:
                            r0 += 1
                        mpos = 2
                    if idx[1] == idx[mpos]:
                        continue
                    setc(mpos, mod)
                    setc(1, r0 * r0 % mod)
                elif tag == "p14":
                    setc(2, rng.choice(p14))
                elif tag in ("ssq", "ssqs"):
                    if idx[2] == idx[3] or tag == "ssqs" and len(set([idx[2], idx[3], idx[4]])) < 3:
                        continue
                    pp = rng.choice(primes[1:])
                    if tag == "ssq":
                        setc(3, pp)
                        setc(2, rng.range(0, pp - 1))
                    else:
                        # (a, b, k, s, p): s a non-residue with s - 1 a residue, k a non-residue (k / s is a square)
                        pp = rng.choice([7, 13, 101, 257, 65537])
                        ss = [t for t in range(2, pp) if pow(t, (pp - 1) // 2, pp) == pp - 1 and pow(t - 1, (pp - 1) // 2, pp) == 1][:1]
                        ks = [t for t in range(2, pp) if pow(t, (pp - 1) // 2, pp) == pp - 1]
                        if not ss or not ks:
                            continue
                        setc(4, pp); setc(3, ss[0]); setc(2, ks[rng.below(len(ks))])
                c = Case("more", "NT", "-", op, n, dests, reads, idx, vals, [x] if x is not None else [],
                         ("IntSqrtModDom::" if op.startswith("sq") or op.startswith("sum") or op == "Brillhart" else "IntNumTheoDom::") + op, NT_NAMES.get(op))
                c.spec = ("NT", op, x)
                cases.append(c)
    # GFqDom array forms op(sz, r, a, b): positions are arrays
    for dom, params in (("gfqarr32", ["2,4", "5,2", "7,1", "101,1"]), ("gfqarr64", ["2,3", "11,3"])):
        for prm in params:
            p, k = [int(t) for t in prm.split(",")]
            q = p ** k
            for op, (n, dests, reads, nsc) in sorted(GFQA_OPS.items()):
                for idx in partitions(n, dests):
                    for rep in range(2 if quick else 10):
                        ln = rng.choice([1, 3, 8])
                        nz = op in ("div", "div.s", "inv")
                        def arr(j):
                            return ",".join(str(rng.range(1 if nz else 0, q - 1)) for _ in range(ln))
                        vals = class_values(rng, n, dests, reads, idx, arr, arr)
                        ex = [rng.range(1, q - 1) for _ in range(nsc)]
                        cases.append(Case("fields", dom, prm, op, n, dests, reads, idx, vals, ex, "GFqDom<%s>::%s (array form)" % ("int32_t" if dom == "gfqarr32" else "int64_t", op)))


GFQA_OPS = {"assign": (2, [0], [1], 0), "mul": (3, [0], [1, 2], 0), "mul.s": (2, [0], [1], 1), "div": (3, [0], [1, 2], 0), "div.s": (2, [0], [1], 1),
            "add": (3, [0], [1, 2], 0), "add.s": (2, [0], [1], 1), "sub": (3, [0], [1, 2], 0), "sub.s": (2, [0], [1], 1), "neg": (2, [0], [1], 0), "inv": (2, [0], [1], 0),
            "axpy": (3, [0], [1, 2], 1), "axpy.c": (2, [0], [1], 2), "axpyin": (2, [0], [0, 1], 1), "axmy": (3, [0], [1, 2], 1), "axmy.c": (2, [0], [1], 2),
            "maxpyin": (2, [0], [0, 1], 1)}
EXTRA_GENERATORS.append(gen_nt_cases)


# ---------------------------------------------------------------- GFq, Extension, Poly1Dom (alias comparison only)
POLY_OPS = {
    "add": (3, [0], [1, 2], None, ""), "sub": (3, [0], [1, 2], None, ""), "mul": (3, [0], [1, 2], None, ""), "stdmul": (3, [0], [1, 2], None, ""),
    "sqr": (2, [0], [1], None, ""), "div": (3, [0], [1, 2], None, "nz2"), "mod": (3, [0], [1, 2], None, "nz2"),
    "divmod": (4, [0, 1], [2, 3], None, "nz3"), "gcd": (3, [0], [1, 2], None, "nzall"), "gcd5": (5, [0, 1, 2], [3, 4], None, "nzall"),
    "lcm": (3, [0], [1, 2], None, "nzall"), "neg": (2, [0], [1], None, ""), "assign": (2, [0], [1], None, ""),
    "diff": (2, [0], [1], None, ""), "reverse": (2, [0], [1], None, ""), "pow": (2, [0], [1], "pexp", ""),
    "modpowx": (2, [0], [1], "pdeg", ""),
    "addin": (2, [0], [0, 1], None, ""), "subin": (2, [0], [0, 1], None, ""), "mulin": (2, [0], [0, 1], None, ""),
    "divin": (2, [0], [0, 1], None, "nz1"), "modin": (2, [0], [0, 1], None, "nz1"), "negin": (1, [0], [0], None, ""),
    "axpy": (4, [0], [1, 2, 3], None, ""), "maxpy": (4, [0], [1, 2, 3], None, ""), "axmy": (4, [0], [1, 2, 3], None, ""),
    "axpyin": (3, [0], [0, 1, 2], None, ""), "maxpyin": (3, [0], [0, 1, 2], None, ""), "axmyin": (3, [0], [0, 1, 2], None, ""),
    "add.s": (2, [0], [1], "coef", ""), "sub.s": (2, [0], [1], "coef", ""), "mul.s": (2, [0], [1], "coef", ""), "div.s": (2, [0], [1], "coefnz", ""),
    "axpy.s": (3, [0], [1, 2], "coef", ""), "axmy.s": (3, [0], [1, 2], "coef", ""),
    "axpyin.s": (2, [0], [0, 1], "coef", ""), "maxpyin.s": (2, [0], [0, 1], "coef", ""), "axmyin.s": (2, [0], [0, 1], "coef", ""),
    "maxpy.s": (3, [0], [1, 2], "coef", ""), "mod.s": (2, [0], [1], "coefnz", ""),
    "add.sl": (2, [0], [1], "coef", ""), "sub.sl": (2, [0], [1], "coef", ""), "mul.sl": (2, [0], [1], "coef", ""),
    "div.sl": (2, [0], [1], "coef", "nz1"), "mod.sl": (2, [0], [1], "coef", "nz1"),
    "addin.s": (1, [0], [0], "coef", ""), "subin.s": (1, [0], [0], "coef", ""), "mulin.s": (1, [0], [0], "coef", ""),
    "divin.s": (1, [0], [0], "coefnz", ""), "modin.s": (1, [0], [0], "coefnz", ""),
    "karamul": (3, [0], [1, 2], None, ""), "midmul": (3, [0], [1, 2], None, "mid"), "stdmidmul": (3, [0], [1, 2], None, "mid"),
    "karamidmul": (3, [0], [1, 2], None, "mid"), "mul.trunc": (3, [0], [1, 2], "trunc", ""),
    "divmodin": (3, [0, 1], [1, 2], None, "nz2"), "pdivmod": (4, [0, 1], [2, 3], None, "nz3"), "pmod": (3, [0], [1, 2], None, "nz2"),
    "invmod": (3, [0], [1, 2], None, "nzall"), "invmodunit": (3, [0], [1, 2], None, "nzall"), "invmodpowx": (2, [0], [1], "pdeg", "c0nz"),
    "power_compose": (2, [0], [1], "pdeg", ""), "ratrecon": (4, [0, 1], [2, 3], "pdeg", "nzall"), "ratreconcheck": (4, [0, 1], [2, 3], "pdeg", "nzall"),
    "ratrecon.f": (4, [0, 1], [2, 3], "pdegf", "nzall"), "powmod": (3, [0], [1, 2], "pexp", "nz2"),
    "inv": (2, [0], [1], None, "unit1"), "shift": (2, [0], [1], "pexp", ""),
}
POLY_SCALAR_OPS = ("add.s", "sub.s", "mul.s", "div.s", "mod.s", "add.sl", "sub.sl", "mul.sl", "div.sl", "mod.sl", "addin.s", "subin.s", "mulin.s", "divin.s",
                   "modin.s", "axpy.s", "axmy.s", "maxpy.s", "axpyin.s", "maxpyin.s", "axmyin.s")
for _o in POLY_SCALAR_OPS:
    _n, _d, _r, _sk, _tag = POLY_OPS[_o]
    POLY_OPS[_o + "@"] = (_n, _d, _r, "subobj", _tag)      # the scalar operand IS a coefficient of one of the objects (sub-object aliasing)
POLY_OPS["assign.s"] = (1, [0], [], "coef", "")
POLY_OPS["assign.ds"] = (1, [0], [], "coefd", "")
POLY_OPS["assign.s@"] = (1, [0], [], "subobj", "")
POLY_OPS["assign.ds@"] = (1, [0], [], "subobj", "")
POLY_KARA_OPS = ("mul", "mulin", "sqr", "karamul", "axpy", "axmy", "maxpy", "axpyin", "axmyin", "maxpyin")
POLY_NAMES = {"ratreconcheck": "ndpm", "ratrecon.f": "ndpm", "divmod": "qrab", "gcd5": "duvpq", "divmodin": "qrb", "pdivmod": "qrab", "ratrecon": "ndpm", "powmod": "wpu"}


def poly_value(rng, p, maxdeg, nz=False):
    d = rng.choice([-1, 0, 0, 1, 2, 3, maxdeg, rng.range(0, maxdeg)]) if not nz else rng.choice([0, 1, 2, 3, maxdeg, rng.range(0, maxdeg)])
    if d < 0:
        return "z"
    cs = [rng.choice([0, 1, p - 1, rng.range(0, p - 1)]) for _ in range(d)] + [rng.range(1, p - 1)]
    return ",".join(str(c) for c in cs)


def pmul(a, b, p):
    if not a or not b:
        return []
    r = [0] * (len(a) + len(b) - 1)
    for i, x in enumerate(a):
        if x:
            for j, y in enumerate(b):
                r[i + j] = (r[i + j] + x * y) % p
    return r


def pstr(cs):
    while cs and cs[-1] == 0:
        cs = cs[:-1]
    return ",".join(str(c) for c in cs) if cs else "z"


def poly_shaped(rng, p, nclasses, shape):
    """operand values (one per class, in order of first read position) for which the result of a polynomial operation
    depends on every operand: a common factor, own factors, degrees strictly increasing (shape 0) or decreasing (shape 1)
    along the positions; shape 3: zero / constant / equal-valued operands"""
    def linprod(k):
        r = [1]
        for _ in range(k):
            r = pmul(r, [(-rng.range(0, p - 1)) % p, 1], p)
        return r
    if shape == 3:
        base = pmul(linprod(rng.range(1, 3)), [rng.range(1, p - 1)], p)
        out = []
        for i in range(nclasses):
            k = rng.below(4)
            out.append([] if k == 0 else [rng.range(1, p - 1)] if k == 1 else base if k == 2 else pmul(base, linprod(1), p))
        return [pstr(v) for v in out]
    common = linprod(rng.range(1, 2))
    degs = [1 + 2 * i + rng.below(2) for i in range(nclasses)]
    if shape == 1:
        degs.reverse()
    return [pstr(pmul(pmul(common, linprod(d), p), [rng.range(1, p - 1)], p)) for d in degs]


def gen_field_cases(rng, exes, quick, cases):
    reps = 2 if quick else 12
    # GFq
    for dom, params in (("gfq32", ["2,1", "2,4", "3,2", "5,3", "7,1", "101,1", "3,9", "251,2"]), ("gfq64", ["2,3", "5,2", "11,3", "1009,1"])):
        for prm in (params[:4] if quick else params):
            p, k = [int(t) for t in prm.split(",")]
            q = p ** k
            for op, (n, dests, reads) in sorted(RING_OPS.items()):
                if op == "reduce" or op.startswith("mul_precomp"):
                    continue
                upos = {"div": [2], "inv": [1], "divin": [1], "invin": [0]}.get(op, [])
                for idx in partitions(n, dests):
                    for rep in range(reps):
                        vals = class_values(rng, n, dests, reads, idx, lambda j: rng.choice([0, 1, q - 1, rng.range(0, q - 1), rng.range(0, q - 1)]),
                                            lambda j: rng.range(0, q - 1))
                        c = Case("fields", dom, prm, op, n, dests, reads, idx, vals, [], "GFqDom<%s>::%s" % ("int32_t" if dom == "gfq32" else "int64_t", op))
                        if any(c.vals[j] == 0 for j in upos) or any(c.alias_vals()[j] == 0 for j in upos):
                            continue
                        cases.append(c)
    # Extension<Modular<int32_t>>
    for prm in (["3,2", "7,3", "2,5"] if quick else ["3,2", "7,3", "2,5", "5,4", "101,2", "13,3", "2,8"]):
        p, k = [int(t) for t in prm.split(",")]
        for op, (n, dests, reads) in sorted(RING_OPS.items()):
            if op == "reduce" or op.startswith("mul_precomp"):
                continue
            upos = {"div": [2], "inv": [1], "divin": [1], "invin": [0]}.get(op, [])
            for idx in partitions(n, dests):
                for rep in range(reps):
                    vals = class_values(rng, n, dests, reads, idx, lambda j: poly_value(rng, p, k - 1), lambda j: poly_value(rng, p, k - 1))
                    c = Case("fields", "ext", prm, op, n, dests, reads, idx, vals, [], "Extension<Modular<int32_t>>::" + op)
                    if any(c.vals[j] == "z" for j in upos) or any(c.alias_vals()[j] == "z" for j in upos):
                        continue
                    cases.append(c)
    # Poly1Dom<Modular<int32_t>,Dense>
    for p in ([7, 101] if quick else [2, 3, 7, 101, 65521]):
        for op, (n, dests, reads, sk, tag) in sorted(POLY_OPS.items()):
            for idx in partitions(n, dests):
                for rep in range(2 * reps):
                    x = None
                    if sk == "pexp":
                        x = rng.choice([0, 1, 2, 3, 5])
                    elif sk in ("pdeg", "pdegf"):
                        x = rng.choice([1, 2, 3, 5])
                    elif sk:
                        x = rng.range(1, p - 1) if sk == "coefnz" or rng.chance(3, 4) else 0
                    big = rng.chance(1, 6) and op in ("mul", "mulin", "sqr", "axpy", "div", "mod", "divmod")
                    md = 40 if big else 6
                    vals = class_values(rng, n, dests, reads, idx, lambda j: poly_value(rng, p, md, nz=(tag == "nzall")), lambda j: poly_value(rng, p, 6))
                    if rep % 4 != 2 and p > 2:
                        # shaped operands (see poly_shaped): classes in order of their first read position
                        order = []
                        for j in sorted(reads):
                            if idx[j] not in order:
                                order.append(idx[j])
                        sv = poly_shaped(rng, p, len(order), rep % 4)
                        for j in range(n):
                            if j in reads:
                                vals[j] = sv[order.index(idx[j])]
                    def setpos(k, v):
                        for j in range(n):
                            if j in reads and idx[j] == idx[k]:
                                vals[j] = v
                    if rep % 4 == 2 and op in POLY_KARA_OPS:
                        # above KARA_THRESHOLD / SQR_THRESHOLD (50 coefficients, givpoly1kara.inl): mul / sqr take the Karatsuba
                        # bodies only then -- generated on every run, for every partition
                        for j in sorted(reads):
                            dg = rng.range(52, 66)
                            setpos(j, ",".join(str(rng.range(0, p - 1)) for _ in range(dg)) + "," + str(rng.range(1, p - 1)))
                    if tag == "nzall":
                        for j in sorted(reads):
                            if vals[j] == "z":
                                setpos(j, str(rng.range(1, p - 1)))
                    if tag == "mid":
                        # middle products: size(P) = 2 size(Q) - 1 (the Karatsuba form requires it); a shared object: constants
                        if idx[1] == idx[2]:
                            setpos(1, str(rng.range(1, p - 1)))
                        else:
                            dq = rng.choice([0, 1, 2, 3, 5]) if rep % 4 != 2 else rng.range(52, 60)      # (above KARA_THRESHOLD too)
                            setpos(2, ",".join(str(rng.range(0, p - 1)) for _ in range(dq)) + ("," if dq else "") + str(rng.range(1, p - 1)))
                            setpos(1, ",".join(str(rng.range(0, p - 1)) for _ in range(2 * dq)) + ("," if dq else "") + str(rng.range(1, p - 1)))
                    if op in ("div", "mod", "divmod", "divin", "modin", "divmodin", "pdivmod", "pmod") and rep % 4 == 2:
                        # constant divisor: the quotient loop divides by B[0] coefficient by coefficient
                        dpos = {"div": 2, "mod": 2, "divmod": 3, "divin": 1, "modin": 1, "divmodin": 2, "pdivmod": 3, "pmod": 2}[op]
                        setpos(dpos, str(rng.range(1, p - 1)))
                    if tag == "c0nz":
                        v = vals[1].split(",") if vals[1] != "z" else ["1"]
                        v[0] = str(rng.range(1, p - 1))
                        setpos(1, ",".join(v))
                    if tag == "unit1":
                        setpos(1, str(rng.range(1, p - 1)))
                    ex = [x] if sk else []
                    if sk == "coefd":
                        ex = [x, 0, rng.choice([0, 1, 3])]
                    if sk == "pdegf":
                        ex = [x, rep % 2]
                    if sk == "trunc":
                        v0 = rng.range(0, 3)
                        ex = [v0, v0 + rng.range(0, 4)]
                    if sk == "subobj":
                        # the scalar is coefficient i of the object at position k: every position whose object holds the same value in
                        # both runs and is not the zero polynomial, i = 0 (read first), the leading one, one in the middle -- rotating
                        av = class_alias_vals(n, reads, idx, vals)
                        ks = [k for k in range(n) if vals[k] == av[k] and vals[k] != "z"]
                        if not ks:
                            continue
                        k = ks[rep % len(ks)]
                        ncoef = len(str(vals[k]).split(","))
                        i = [0, ncoef - 1, ncoef // 2][(rep // max(1, len(ks))) % 3]
                        if op.startswith("div") or op.startswith("mod.sl") or op.startswith("divin") or op.startswith("modin") or op.startswith("mod.s"):
                            if int(str(vals[k]).split(",")[i]) == 0:
                                i = ncoef - 1          # a divisor: the leading coefficient is not zero
                        ex = [k, i] + ([rng.choice([0, 1, 3])] if op.startswith("assign.ds") else [])
                    c = Case("fields", "poly", p, op, n, dests, reads, idx, vals, ex, "Poly1Dom<Modular<int32_t>,Dense>::" + op, POLY_NAMES.get(op))
                    nzp = {"nz1": 1, "nz2": 2, "nz3": 3}.get(tag)
                    if nzp is not None and (c.vals[nzp] == "z" or c.alias_vals()[nzp] == "z"):
                        continue
                    cases.append(c)


EXTRA_HARNESSES.append(("fields", "c15_fields.C", ()))
EXTRA_GENERATORS.append(gen_field_cases)


# ---------------------------------------------------------------- completeness of the harness tables (clang AST of /repo's headers)
def _load_mod(name):
    import importlib.util
    spec = importlib.util.spec_from_file_location(name, os.path.join(vf.ROOT, "harness", name + ".py"))
    m = importlib.util.module_from_spec(spec)
    spec.loader.exec_module(m)
    return m


DOM_FAMILY = {"NT": "NT", "gfqarr32": "GFQA", "gfqarr64": "GFQA", "Z": "Z", "Q": "Q", "QN": "QN", "RU": "RU", "RI": "RI", "RM": "RM", "poly": "POLY", "gfq32": "GFQ", "gfq64": "GFQ", "ext": "EXT", "ZR": "ZR", "CRT": "CRT"}


def completeness(chk, cases):
    """every public three-address declaration of the headers must be tied to harness operations (harness/c15_forms.py)"""
    import subprocess
    tables = {"RING": RING_OPS, "Z": Z_OPS, "Q": Q_OPS, "QN": Q_OPS, "RU": RU_OPS, "RI": RI_OPS, "RM": RM_OPS, "POLY": POLY_OPS, "GFQ": RING_OPS,
              "EXT": RING_OPS, "NT": NT_OPS, "GFQA": GFQA_OPS, "ZR": ZR_OPS, "CRT": {"crt": 0, "crt.nf": 0}}
    # what this run drives: per family the operations, (operation, partition) pairs and cases
    fam_ops, fam_parts, fam_cases = {}, {}, {}
    for c in cases:
        fam = DOM_FAMILY.get(c.dom, "RING")
        fam_ops.setdefault(fam, set()).add(c.op)
        fam_parts.setdefault(fam, set()).add((c.op, tuple(c.idx)))
        fam_cases[fam] = fam_cases.get(fam, 0) + 1
    chk.cov["families"] = {f: {"operations": len(fam_ops[f]), "operation_x_partition": len(fam_parts[f]), "cases": fam_cases[f]} for f in sorted(fam_ops)}
    forms = {}
    for c in cases:
        d = forms.setdefault(DOM_FAMILY.get(c.dom, "RING"), {})
        d[c.op] = d.get(c.op, 0) + 1
    chk.cov["call_forms"] = {f: dict(sorted(v.items())) for f, v in sorted(forms.items())}     # per call form: cases driven in this run
    scan, forms = _load_mod("c15_scan"), _load_mod("c15_forms")
    chk.cov["headers_scanned"] = scan.TU.count("#include")
    try:
        ver = subprocess.run(["clang++", "--version"], stdout=subprocess.PIPE, stderr=subprocess.STDOUT, universal_newlines=True, timeout=60).stdout
    except Exception as ex:
        ver = repr(ex)
    chk.cov["clang_version"] = ver.split("\n")[0][:80]
    import re as _re
    mver = _re.search(r"clang version (\d+)", ver)
    if not mver or mver.group(1) != "14":
        # the declaration keys are spelled as clang 14 prints types: another version is a tooling mismatch, not a violation
        chk.cov.setdefault("inconclusive", []).append("clang++ 14 not available (%s): the completeness obligation of the harness tables was not checked" % chk.cov["clang_version"])
        return
    chk.cov["ring_domains_driven"] = sorted(set(c.dom for c in cases if DOM_FAMILY.get(c.dom, "RING") == "RING"))
    try:
        decls, nseen, err = scan.declarations(timeout=900)
    except subprocess.TimeoutExpired:
        chk.cov.setdefault("inconclusive", []).append("clang AST dump of the headers timed out; the completeness obligation of the harness tables was not checked in this run")
        return
    except Exception as ex:
        chk.broke("completeness: cannot read the declarations of /repo's headers (clang AST dump failed)", repr(ex)[-1500:])
        return
    unmapped, badop, undriven = [], [], []
    n_direct = n_indirect = 0
    excl = {}
    per_scope = {}
    for key in sorted(decls):
        t = forms.lookup(key)
        ps = per_scope.setdefault(key[0], {"declarations": 0, "driven": 0, "indirect": 0, "excluded": 0})
        ps["declarations"] += 1
        if t is None:
            unmapped.append("%s::%s [%s] (%s)" % (key[0], key[1], key[2], ",".join(decls[key])))
            continue
        if t.startswith("!"):
            excl[t[1:]] = excl.get(t[1:], 0) + 1
            ps["excluded"] += 1
            continue
        ind = t.startswith("~")
        fam, _, rest = t.lstrip("~").partition(":")
        ops = rest.split(" ")[0].split(",")
        for o in ops:
            if fam not in tables or o not in tables[fam]:
                badop.append("%s::%s [%s] -> %s:%s" % (key[0], key[1], key[2], fam, o))
            elif not cases_replayed(cases) and o not in fam_ops.get(fam, ()) and not (fam == "RI" and o == "neg"):
                undriven.append("%s:%s" % (fam, o))
        if ind:
            n_indirect += 1; ps["indirect"] += 1
        else:
            n_direct += 1; ps["driven"] += 1
    # sub-object aliasing: destination and a const operand related by member / half / coefficient (c15_scan.SUBOBJECT)
    sub = dict(scan.SUBDECLS)
    n_sub = {"declarations": len(sub), "driven": 0, "indirect": 0, "excluded": 0}
    for key in sorted(sub):
        t = forms.lookup_sub(key)
        if t is None:
            unmapped.append("%s::%s [%s] (%s)" % (key[0], key[1], key[2], ",".join(sorted(sub[key]))))
            continue
        if t.startswith("!"):
            n_sub["excluded"] += 1
            excl[t[1:]] = excl.get(t[1:], 0) + 1
            continue
        fam, _, rest = t.lstrip("~").partition(":")
        for o in rest.split(" ")[0].split(","):
            fo, _, oo = o.rpartition(":")
            f2 = fo or fam
            if f2 not in tables or oo not in tables[f2]:
                badop.append("%s::%s [%s] -> %s:%s" % (key[0], key[1], key[2], f2, oo))
            elif not cases_replayed(cases) and oo not in fam_ops.get(f2, ()):
                undriven.append("%s:%s" % (f2, oo))
        n_sub["indirect" if t.startswith("~") else "driven"] += 1
    chk.cov["sub_object_declarations"] = n_sub
    chk.cov["completeness_checked"] = True
    gone = ["%s::%s [%s]" % k for k in sorted(forms.FORMS) if k not in decls] + ["%s::%s [%s]" % k for k in sorted(forms.SUBFORMS) if k not in sub]
    chk.cov["three_address_declarations"] = {"function_declarations_seen": nseen, "three_address": len(decls), "driven_directly": n_direct,
                                             "driven_indirectly": n_indirect, "excluded": sum(excl.values()), "by_scope": per_scope}
    chk.cov["declarations_excluded_by_reason"] = excl
    if unmapped:
        chk.broke("completeness: %d public three-address declaration(s) of /repo's headers are not in the alias harness tables "
                  "(harness/c15_forms.py): %s" % (len(unmapped), "; ".join(unmapped[:12])))
    if badop:
        chk.broke("completeness: declarations tied to operations the harness tables do not have: " + "; ".join(badop[:12]))
    if undriven:
        chk.broke("completeness: operations of the tables that no case of this run drove: " + ", ".join(sorted(set(undriven))[:20]))
    if gone:
        chk.broke("completeness: entries of harness/c15_forms.py whose declaration is no longer in the headers (removed or re-signed): " + "; ".join(gone[:12]))


# minimum number of model/implementation comparisons per model family in one run (about half of what a quick run produces)
TIE_FLOORS_QUICK = {"qmuldiv": 20, "rushift": 8, "rulmul": 15, "ring": 9000, "rm": 1200, "rudivop": 100, "ext": 250, "poly": 350, "polyb": 80, "pdivmod": 35, "pdivmodin": 10, "pgcdx": 60,
                    "ppdivmod": 35, "ppmod": 15, "q": 40, "divmod": 30, "divmodw": 12, "gcd4": 30, "gcd5": 50, "powmod": 20}
TIE_FLOORS_THOROUGH = dict(TIE_FLOORS_QUICK)


def cases_replayed(cases):
    return getattr(cases_replayed, "flag", False)


def main(tier, replay=None):
    chk = vf.Check("C15", tier, "proof")
    rng = vf.Rng(chk.seed)
    quick = tier == "quick"
    chk.cov["trusted_base"] = [
        "Coq 8.16.1 kernel + vm_compute (no native_compute)",
        "extraction: ExtrOcamlBasic only; Z/positive/nat kept as extracted inductives; OCaml 4.13.1; zarith only for text I/O in harness/zio.ml",
        "Model.v's primitives (one RecInt free function / one mpz_* call = read all operands, then write the destination); "
        "that the real primitives behave so under aliasing is what the alias harness checks (RecInt free functions, Integer members)",
        "harness/c15_*.C, checks/C15.py (case generator, comparison with the distinct-objects call, python big-integer specifications)",
        "g++ 12 / x86-64 for the implementation side",
    ]
    chk.assumptions = ["model is hand-written after the code, statement by statement over locations; tie = correspondence on the same alias patterns",
                       "the property is relative: the oracle of an aliased call is the same call on distinct objects holding the same values "
                       "(plus an absolute python specification for rings, Integer and Rational)"]
    import time as _time
    t0 = _time.time()
    phase = {}
    # 1. proofs
    res = vf.coq_check_props(AREA)
    chk.proof_result(res, AREA)
    drv, l1 = vf.ocaml_build(AREA) if os.path.exists(os.path.join(vf.coq_dir(AREA), "ocaml", "model.ml")) else (None, "extraction did not run")
    if drv is None:
        chk.broke("extracted model driver does not build", l1)
    phase["coq+ocaml"] = round(_time.time() - t0, 1); t0 = _time.time()
    # 2. executables
    exes = build_all(chk)
    phase["harness_build"] = round(_time.time() - t0, 1); t0 = _time.time()
    if any(b is None for b in exes.values()):
        return chk.finish()
    # 3. cases
    cases = []
    if replay:
        rp = json.load(open(replay))
        for f in rp.get("failing_inputs", []):
            d = f["case"]
            exe = d.get("exe")
            n = len(d["classes"])
            def num(t):
                t = str(t)
                return int(t) if t.lstrip("-").isdigit() else (None if t == "None" else t)
            cs = Case(exe, d["dom"], num(d["param"]), d["op"], n, d.get("dests", [0]), d.get("reads", list(range(n))), d["classes"],
                      [num(v) for v in d["values"]], [num(e) for e in d["extra"]], f["site"].replace(" (distinct objects)", ""))
            if cs.dom in ALL_RING_DOMS:
                cs.spec = ("ring", cs.dom, cs.param, cs.op, [cs.vals[k] for k in sorted(cs.reads)])
            elif cs.dom == "Z":
                cs.names = Z_NAMES.get(cs.op)
                cs.spec = ("Z", cs.op, cs.extra[0] if cs.extra else None)
            elif cs.dom == "RU":
                cs.names = RU_NAMES.get(cs.op)
                cs.spec = ("RU", cs.op, cs.param, cs.extra[0] if cs.extra else None)
            elif cs.dom == "poly":
                cs.names = POLY_NAMES.get(cs.op)
            elif cs.dom == "QN":
                pass            # aliased against distinct only on replay
            elif cs.dom == "RM":
                K_, mg_, p_ = [int(t) for t in str(cs.param).split(",")]
                cs.spec = ("RM", cs.op, K_, mg_, p_, cs.extra[0] if cs.extra else None)
            elif cs.dom == "RI":
                cs.spec = ("RI", cs.op, cs.param, cs.extra[0] if cs.extra else None)
            cases.append(cs)
    else:
        ring_parts = (("rings1", PART1), ("rings2", PART2), ("rings3", PART3))
        info_in = {k: "".join("%s 0 info 0\n" % r for r in rs if r not in ZRINGS) for k, rs in ring_parts}
        info = {}
        for k, rs in ring_parts:
            rc, out, err = vf.run_lines(exes[k], info_in[k])
            names = [r for r in rs if r not in ZRINGS]
            if rc != 0 or len(out) != len(names):
                chk.broke("implementation harness %s failed on info" % k, err)
                return chk.finish()
            for r, l in zip(names, out):
                t = l.split()
                if len(t) != 3 or t[0] != "INFO":
                    chk.broke("implementation harness %s: no info for %s: %s" % (k, r, l))
                    return chk.finish()
                info[r] = (int(t[1]), int(t[2]))
        chk.cov["advertised_bounds"] = {r: list(v) for r, v in info.items()}
        for k, rs in ring_parts:
            for ring in rs:
                lo, hi = info.get(ring, (0, 0))
                big = ring in RECINT_RINGS or ring in MG_RINGS or ring.startswith("ri") or ring == "zz"
                ms = ring_moduli(rng, ring, lo, hi, (1 if quick else 6) if not big else (2 if quick else 12))
                if quick and not big:
                    ms = ms[:4]
                for p in ms:
                    gen_ring_cases(rng, k, ring, p, (2 if big else 1) if quick else (8 if big else 4), cases)
                if ring in PRECOMP_RINGS:
                    # the precomputed-quotient multiplications want a modulus of at most (bits / 2 - 2) bits: their own moduli
                    top = (1 << (PRECOMP_RINGS[ring] // 2 - 2)) - 1
                    pm = [m for m in dict.fromkeys([3, prevprime(top), top, prevprime(max(3, top // 2)), rng.range(3, max(3, top))]) if max(lo, 3) <= m <= min(hi, top)]
                    for p in pm:
                        gen_ring_cases(rng, k, ring, p, 2 if quick else 8, cases, only=("mul_precomp_p", "mul_precomp_b", "mul_precomp_b_without_reduction"))
        gen_z_cases(rng, "integer", 6 if quick else 60, cases)
        gen_q_cases(rng, "integer", 6 if quick else 60, cases)
        gen_q_cases(rng, "integer_nr", 6 if quick else 60, cases, noreduce=True)      # Rational::SetNoReduce(), own process
        for g in EXTRA_GENERATORS:
            g(rng, exes, quick, cases)
    cases_replayed.flag = bool(replay)
    phase["generate"] = round(_time.time() - t0, 1); t0 = _time.time()
    completeness(chk, cases)
    phase["clang_ast"] = round(_time.time() - t0, 1); t0 = _time.time()
    # 4. run the implementation
    by_exe = {}
    for i, c in enumerate(cases):
        by_exe.setdefault(c.exe, []).append(i)
    outs = [None] * len(cases)

    ext_params = sorted(set(str(c.param) for c in cases if c.dom == "ext"))
    # hang / crash caps shared by all harness processes of this run (see c15_common.h): an append-only event file
    hang_state = os.path.join(vf.mkdir(os.path.join(vf.ROOT, "build", "tmp")), "c15-hang-%d.state" % os.getpid())
    open(hang_state, "w").close()

    def run_exe(k):
        ids = by_exe[k]
        pre = "".join("ext %s info 0\n" % prm for prm in ext_params) if k == "fields" else ""
        rc, out, err = _run_lines_env(exes[k], pre + "".join(cases[i].line() + "\n" for i in ids), timeout=1500, env_extra={"C15_HANG_STATE": hang_state})
        if pre and len(out) >= len(ext_params):
            for prm, l in zip(ext_params, out[:len(ext_params)]):
                if l.startswith("INFO "):
                    EXT_IRRED[prm] = l.split()[1]
            out = out[len(ext_params):]
        return k, rc, out, err
    with ThreadPoolExecutor(max(1, len(by_exe))) as ex:
        for k, rc, out, err in ex.map(run_exe, list(by_exe)):
            ids = by_exe[k]
            if rc == 124 and "[timeout" in (err or ""):
                # our own tooling ran out of time (machine load): an inconclusive stream, not a violation of the property
                chk.cov.setdefault("inconclusive", []).append("implementation harness %s timed out after %d of %d cases; its cases were not judged" % (k, len(out), len(ids)))
                continue
            if rc != 0 or len(out) != len(ids):
                chk.broke("implementation harness %s failed (rc=%s, %d/%d lines)%s" % (k, rc, len(out), len(ids),
                          " at: " + cases[ids[len(out)]].line() if len(out) < len(ids) else ""), err[-2000:])
                # find the first case it choked on, to report it
                continue
            for i, l in zip(ids, out):
                outs[i] = l
    try:
        chk.cov["hang_events"] = open(hang_state).read().split("\n")[:40]
        os.remove(hang_state)
    except OSError:
        pass
    phase["implementation_runs"] = round(_time.time() - t0, 1); t0 = _time.time()
    # 5. the model
    mlines, mids = [], []
    cand = [i for i, c in enumerate(cases) if drv and model_lines(c)]
    if quick:
        # rmint: every operation x partition has >= 24 cases (K x mode x moduli); the quick tier sends every second one to the
        # model (multi-limb Montgomery arithmetic on Coq's binary positives is the slowest part of the run)
        rm = [i for i in cand if cases[i].dom == "RM"]
        drop = set(rm[1::2])
        cand = [i for i in cand if i not in drop]
        chk.cov["model_rmint_stride_quick"] = 2
    cap = 40000 if quick else 120000          # the extracted model computes on unary-binary positives: keep its share bounded
    stride = max(1, -(-len(cand) // cap))
    for j, i in enumerate(cand):
        if j % stride == 0:
            mids.append(i)
            mlines += model_lines(cases[i])
    mout = None
    if drv and mlines:
        # the extracted model computes on Coq's binary positives: its lines are cut into chunks that run side by side,
        # round-robin so that every chunk gets its share of the expensive (multi-limb) lines
        nch = 6
        chunks = [[] for _ in range(nch)]
        for j in range(len(mids)):
            chunks[j % nch] += mlines[2 * j:2 * j + 2]

        def run_chunk(ch):
            return vf.run_lines(drv, "".join(l + "\n" for l in ch), timeout=1500) if ch else (0, [], "")
        with ThreadPoolExecutor(nch) as ex:
            res_ch = list(ex.map(run_chunk, chunks))
        bad_ch = [(rc, len(mo), len(ch), merr) for (rc, mo, merr), ch in zip(res_ch, chunks) if rc != 0 or len(mo) != len(ch)]
        if bad_ch:
            timed_out = any(b[0] == 124 and "[timeout" in (b[3] or "") for b in bad_ch)
            if timed_out:
                chk.cov.setdefault("inconclusive", []).append("the extracted model driver timed out; no correspondence in this run")
            else:
                chk.broke("model driver failed (rc=%s, %d/%d lines)" % bad_ch[0][:3], (bad_ch[0][3] or "")[-2000:])
        else:
            mout = {}
            for j, i in enumerate(mids):
                mo = res_ch[j % nch][1]
                k = 2 * (j // nch)
                mout[i] = (mo[k], mo[k + 1])
    phase["model_run"] = round(_time.time() - t0, 1); t0 = _time.time()
    # 6. verdicts
    ncorr = 0
    tie_by = {}
    judged_by = {}
    stopped_forms, stopped_streams, excused_by = {}, {}, {}
    dist_dom, dist_pat = {}, {}
    for i, c in enumerate(cases):
        if outs[i] is None:
            continue
        pat = pattern_name(c.idx, c.names)
        klass = alias_class(c.idx, c.dests, c.names)
        judged_by[c.exe] = judged_by.get(c.exe, 0) + 1
        dist_dom[c.dom] = dist_dom.get(c.dom, 0) + 1
        dist_pat[pat] = dist_pat.get(pat, 0) + 1
        chk.count((c.dom, str(c.param), c.op, tuple(c.idx), tuple(str(v) for v in c.vals), tuple(str(e) for e in c.extra)),
                  nontrivial=len(set(c.idx)) < c.n)
        po = parse_out(outs[i], c.n)
        d = c.describe()
        d.update({"exe": c.exe, "dests": c.dests, "reads": c.reads})
        if i % 4999 == 0:
            s = dict(d); s["impl"] = outs[i]; chk.sample(s)
        if po is None and outs[i].strip() == "FORM-DISABLED":
            # the call form had a confirmed "does not return" (or four crashes) earlier in this run, in whatever stream: not driven any more
            stopped_forms[c.dom + " " + c.op] = stopped_forms.get(c.dom + " " + c.op, 0) + 1
            judged_by[c.exe] -= 1
            excused_by[c.exe] = excused_by.get(c.exe, 0) + 1
            continue
        if po is None and outs[i].strip() == "STREAM-STOPPED":
            stopped_streams[c.exe] = stopped_streams.get(c.exe, 0) + 1
            judged_by[c.exe] -= 1
            continue
        if po is None and outs[i].rstrip().endswith(" CRASH 24 CONFIRMED"):
            which = "aliased call (%s)" % pat if outs[i].startswith("F ") else "call on distinct objects"
            chk.fail_input(c.site + ("" if outs[i].startswith("F ") else " (distinct objects)"), "does-not-return", d, "a result", "does not return",
                           "%s: does not return (10 s of CPU time in its batch, then 30 s re-run alone) :: %s" % (which, outs[i]))
            continue
        if po is None and " CRASH " in outs[i]:
            sig = outs[i].split(" CRASH ")[1].strip()
            if outs[i].startswith("F "):
                chk.fail_input(c.site, klass, d, outs[i].split(" CRASH ")[0], "killed by signal " + sig,
                               "aliased call (%s): the process was killed by signal %s (the call on distinct objects returned) :: %s" % (pat, sig, outs[i]))
            else:
                chk.fail_input(c.site + " (distinct objects)", "distinct objects", d, "a result", "killed by signal " + sig,
                               "distinct objects: the process was killed by signal %s :: %s" % (sig, outs[i]))
            continue
        if po is None:
            chk.fail_input(c.site, klass, d, "F ... | A ...", outs[i], "the harness could not run the operation")
            continue
        Fv, Fr, Av, Ar = po
        bad = None
        vals = [str(v) for v in c.vals]
        avals = [str(v) for v in c.alias_vals()]
        Fraw, Araw = Fv, Av
        if c.dom == "QN":       # NoReduce mode: fractions are compared as values (the model tie below compares the exact pairs)
            Fv, Av, vals, avals = ([q_norm_text(t) for t in l] for l in (Fv, Av, vals, avals))
        exp = spec_expect(c)
        # (a) the distinct-objects call: specification and frame
        if exp is not None:
            for k, v in exp.items():
                got = Fr if k == "R" else Fv[k]
                if got != v and c.dom in BAL_RINGS and got.lstrip("-").isdigit() and (int(got) - int(v)) % int(c.param) == 0:
                    continue      # canonical range of the balanced rings is C03's subject (known there for even moduli)
                if got != v:
                    bad = ("distinct objects", "distinct objects: position %s is %s, the specification says %s" % (k, got, v), v, got)
        if c.dom == "CRT" and Fv[0].lstrip("-").isdigit():
            M_, p_ = [int(t) for t in str(c.param).split(",")]
            if (int(Fv[0]) - int(vals[1])) % M_ != 0 or (int(Fv[0]) - int(vals[2])) % p_ != 0:
                bad = ("distinct objects", "distinct objects: %s is not congruent to A = %s mod %d and e = %s mod %d" % (Fv[0], vals[1], M_, vals[2], p_), "the lift", Fv[0])
        for k in range(c.n):
            if bad is None and k not in c.dests and Fv[k] != vals[k]:
                bad = ("distinct objects", "distinct objects: operand %d was modified (%s -> %s)" % (k, vals[k], Fv[k]), vals[k], Fv[k])
        if c.dom == "NT" and bad is None:
            iv = [int(t) for t in c.vals]
            try:
                msg = nt_check(c.op, iv, [int(Fv[k]) for k in c.dests], c.extra[0] if c.extra else None)
            except ValueError:
                msg = "unreadable output"
            if msg:
                bad = ("distinct objects", "distinct objects: " + msg, "a valid result", " ".join(Fv[k] for k in c.dests))
            else:
                ia = [int(t) for t in c.alias_vals()]
                try:
                    msg = nt_check(c.op, ia, [int(Av[k]) for k in c.dests], c.extra[0] if c.extra else None)
                except ValueError:
                    msg = "unreadable output"
                if msg:
                    bad = (klass, "aliased call (%s): %s" % (pat, msg), "a valid result", " ".join(Av[k] for k in c.dests))
        # (b) the aliased call against the distinct-objects call
        if bad is None and not (c.dom == "NT" and c.op not in NT_DETERMINISTIC):
            for k in c.dests:
                if Av[k] != Fv[k]:
                    bad = (klass, "aliased call (%s): destination %d is %s, with distinct objects it is %s" % (pat, k, Av[k], Fv[k]), Fv[k], Av[k])
                    break
        if bad is None and Ar != Fr:
            bad = (klass, "aliased call (%s): returned %s, with distinct objects %s" % (pat, Ar, Fr), Fr, Ar)
        if bad is None:
            dcl = set(c.idx[k] for k in c.dests)
            for k in range(c.n):
                if c.idx[k] not in dcl and Av[k] != avals[k]:
                    bad = (klass, "aliased call (%s): operand %d was modified (%s -> %s)" % (pat, k, avals[k], Av[k]), avals[k], Av[k])
                    break
        if bad is not None:
            # a failure of the call on distinct objects is a different site (never covered by an alias finding)
            chk.fail_input(c.site + (" (distinct objects)" if bad[0] == "distinct objects" else ""), bad[0], d, bad[2], bad[3], bad[1] + " :: " + outs[i])
        # (c) correspondence with the extracted model (not reported again for a case that already failed)
        if mout is not None and i in mout:
            ncorr += 1
            mfam = model_lines(c)[0].split()[0]
            tie_by[mfam] = tie_by.get(mfam, 0) + 1
            if bad is None:
                for tag, ml, iv, ir in (("distinct", mout[i][0], Fraw, Fr), (pat, mout[i][1], Araw, Ar)):
                    mv, mr = model_view(c, ml)
                    if mv != iv or (mr is not None and mr != ir):
                        chk.broke("correspondence model/implementation differs on %s %s [%s] %s: model=%s impl=%s" % (c.site, c.param, tag, c.line(), ml, outs[i]))
    if os.environ.get("C15_EMIT_FINDINGS"):      # development aid: the (site, class) pairs that failed, for review
        seen = {}
        for f in chk.failing:
            seen.setdefault((f["site"], f["klass"]), f)
        json.dump([{"site": k[0], "klass": k[1], "example": v["case"], "detail": v["detail"]} for k, v in sorted(seen.items())],
                  open(os.environ["C15_EMIT_FINDINGS"], "w"), indent=1, default=str)
    if os.environ.get("C15_DEBUG"):
        summ = {}
        for f in chk.failing:
            summ.setdefault((f["site"], f["klass"]), []).append(f)
        for (site, kl), fs in sorted(summ.items()):
            vf.log("FAIL %-45s [%s] x%d  e.g. %s" % (site, kl, len(fs), fs[0]["detail"][:230]))
        for b in chk.broken[:40]:
            vf.log("BROKE " + b["what"][:400])
    if len(chk.broken) > 20:
        chk.broken = chk.broken[:20] + [{"what": "... %d more" % (len(chk.broken) - 20), "detail": ""}]
    chk.cov["rule"] = ("every operation x every set partition of its positions (equal class = same object; two destinations never "
                       "coincide) x operand values with boundary emphasis (0, 1, p-1, p/2, word limits, multi-limb); each case runs the "
                       "call on distinct objects and on the aliased objects; non-trivial = at least two positions coincide; "
                       "distinct = (domain, modulus, op, partition, values)")
    phase["verdicts"] = round(_time.time() - t0, 1)
    chk.cov["phase_seconds"] = phase
    # ---- floors: what was actually compared in this run.  A stream that fell short because OUR tooling timed out is listed in
    # coverage.inconclusive AND coverage.floor_missed (never counted as a pass of that stream); a stream that fell short for any
    # other reason (a filter that swallowed a family, a harness that printed no INFO line) breaks the obligation.
    floor_missed = []
    if not replay:
        for fam, fl in sorted((TIE_FLOORS_QUICK if quick else TIE_FLOORS_THOROUGH).items()):
            if tie_by.get(fam, 0) < fl:
                floor_missed.append("model tie '%s': %d comparisons, floor %d" % (fam, tie_by.get(fam, 0), fl))
        gen_by = {}
        for c in cases:
            gen_by[c.exe] = gen_by.get(c.exe, 0) + 1
        for k, ng in sorted(gen_by.items()):
            if judged_by.get(k, 0) < 0.98 * (ng - excused_by.get(k, 0)):
                floor_missed.append("harness stream '%s': %d of %d cases judged" % (k, judged_by.get(k, 0), ng))
        if chk.cov.get("completeness_checked") is not True:
            floor_missed.append("completeness obligation (clang AST) not checked")
    chk.cov["forms_stopped_after_hang_or_crashes"] = stopped_forms
    chk.cov["streams_stopped_by_hang_cap"] = stopped_streams
    if stopped_streams:
        chk.cov.setdefault("inconclusive", []).append("hang cap reached (6 first-stage CPU overruns or 3 confirmed 'does not return' in this run): "
                                                      "streams stopped, cases not run: %s" % stopped_streams)
    chk.cov["floor_missed"] = floor_missed
    chk.cov.setdefault("inconclusive", [])
    if floor_missed and not chk.cov["inconclusive"]:
        chk.broke("comparison floors missed without a recorded tooling time-out: " + "; ".join(floor_missed[:8]))
    elif floor_missed:
        vf.log("C15: INCONCLUSIVE STREAMS (tooling time-outs; not counted as passes): " + "; ".join(floor_missed[:8]))
    chk.cov["model_ties_by_family"] = dict(sorted(tie_by.items()))
    chk.cov["cases_judged_by_stream"] = dict(sorted(judged_by.items()))
    chk.cov["traces_validated_against_impl"] = ncorr
    chk.cov["model_covered_cases"] = len(cand)
    chk.cov["model_stride"] = stride
    chk.cov["distribution_by_domain"] = dist_dom
    chk.cov["distribution_by_pattern"] = dist_pat
    chk.cov["operations"] = {"ring": len(RING_OPS), "Integer": len(Z_OPS), "Rational": len(Q_OPS)}
    return chk.finish()
