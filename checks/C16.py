# C16 — Domain objects are self-contained: no hidden cross-object or history dependence.   (DESIGN 5/C16)
# proof : coq/C16 — generic theorems over an abstract class semantics constrained by a class description
#         (SelfContained.v: every history of construct/copy/assign/use/destroy; Refcount.v: shared heap parts), and the
#         per-class decisions re-computed by vm_compute on the description GENERATED from /repo's current source
#         (harness/c16_objmodel.py -> coq/C16/gen/Desc.v, gen/Decide.v) on every run.
# tie   : translator (clang JSON AST -> description) + history harness harness/c16_history.C: enumerated histories over
#         2-4 objects of different parameters, a fixed probe evaluated on every live object after every event, compared with
#         the lineage root's probe right after construction and with the same parameters in an otherwise empty process.
# search: the history harness is also the failing-input search (a concrete history is the replay).
import json, os, re, sys, time
import vf

HERE = os.path.dirname(os.path.abspath(__file__))
sys.path.insert(0, os.path.join(vf.ROOT, "harness"))
import c16_objmodel as om

AREA = "C16"

# classes of the description that are not domain objects / cannot be compiled: described and listed, no verdict
NO_VERDICT = om.NO_VERDICT          # emitted into gen/Decide.v as sc_exceptions (C16_decided_self_contained excludes them, C16_decided_no_verdict_classes lists them)
# A const method that writes an own member (mutable / cast / through a pointer: a lazily filled cache) is OUTSIDE the proved fragment
# (the footprint model cannot express "the cached value is a function of the construction parameters"); none is accepted: the lazy
# caches IntRNSsystem/RNSsystem used to have were removed from the library (a42d959), a re-introduced one is reported.
ACCEPTED_CACHES = {}

HIST_CLASSES = [
    "Modular<int32_t>", "Modular<uint32_t>", "Modular<int64_t>", "Modular<uint64_t>", "Modular<float>", "Modular<double>",
    "Modular<int8_t>", "Modular<uint8_t>", "Modular<int16_t>", "Modular<uint16_t>", "ModularExtended<double>", "ModularExtended<float>",
    "Modular<Integer>", "Modular<ruint<7>>", "ModularBalanced<int32_t>", "ModularBalanced<int64_t>", "ModularBalanced<float>",
    "ModularBalanced<double>", "Montgomery<int32_t>", "Montgomery<ruint<7>>", "Modular<Log16>", "GFqDom<int64_t>", "GFqDom<int32_t>",
    "GFqExtFast<int64_t>", "GFqExt<int64_t>", "Extension<GFqDom<int64_t>>", "Extension<Modular<double>>", "Poly1Dom<Modular<double>,Dense>",
    "Poly1Dom<GFqDom<int64_t>,Dense>", "Poly1FactorDom<Modular<double>,Dense>", "Poly1FactorDom<GFqDom<int64_t>,Dense>",
    "IntRNSsystem<vector>", "RNSsystem<Integer,Modular<double>>",
]
# constructors that draw a random irreducible polynomial (generator seeded from the clock): no cross-process reference
NON_ISO = {"Extension<Modular<double>>", "Extension<GFqDom<int64_t>>", "GFqDom<int64_t>", "GFqDom<int32_t>", "GFqExtFast<int64_t>", "GFqExt<int64_t>",
           "Poly1Dom<GFqDom<int64_t>,Dense>", "Poly1FactorDom<GFqDom<int64_t>,Dense>"}
# ... except through the overloads with a prescribed irreducible polynomial (and generator): those constructions are deterministic,
# so every object built that way in any history is compared with the same construction in an otherwise empty process
DET_VARIANTS = {"GFqDom<int64_t>": (1, 2, 4, 5), "GFqDom<int32_t>": (1, 2, 4, 5), "GFqExtFast<int64_t>": (1,),
                "Poly1Dom<GFqDom<int64_t>,Dense>": (2,), "Poly1FactorDom<GFqDom<int64_t>,Dense>": (2,), "Extension<GFqDom<int64_t>>": (2,)}
NVARIANTS = 8          # construct events carry q = P + 4 * V: parameter set P (0..3), constructor overload V (harness/c16_probes.h make())
VARIANT_NAMES = {0: "usual constructor", 1: "second overload (Residu_t / prescribed irreducible / (p,e,Indeter) / (Poly1Dom,generator) / container<TT> / default+setPrimes)",
                 2: "third overload (Source = Integer / prescribed irreducible and generator / (Pol_t, irreducible) / base field with prescribed polynomials)",
                 3: "default constructor then assignment from a temporary", 4: "Source = double / other Vector type (4 arguments)",
                 5: "built for another modulus then assigned / Vector = deque (3 arguments)",
                 6: "built IN PLACE from caller-owned arguments (source value, coefficient vector, base field + Indeter + generator, array of primes / of fields) which the caller then "
                    "overwrites in place with another parameter set, reuses for a second object, resizes and destroys",
                 7: "the same for the second overload with non-scalar arguments (Source = Integer; 4-argument GFqDom; Extension(Pol_t, irreducible); Poly1FactorDom(Poly1Dom, generator); "
                    "IntRNSsystem(container<TT>); RNSsystem() + setPrimes; polynomial domain over a caller-owned field)"}
RECYCLED = (6, 7)          # overloads whose arguments are recycled by the caller afterwards: the object must equal the plain overload below


def recycle_base(cls, V):
    """the constructor overload that overload V (6, 7) calls before the caller recycles the arguments"""
    if V == 6:
        return 1 if cls.startswith("GFq") else 0
    return 1 if cls in ("Poly1FactorDom<Modular<double>,Dense>", "IntRNSsystem<vector>", "RNSsystem<Integer,Modular<double>>") else 2


def base_q(cls, q):
    """construct parameter of the same construction without recycling"""
    return (q & 3) + 4 * recycle_base(cls, q >> 2) if (q >> 2) in RECYCLED else q
# classes whose objects own heap storage or nested domains: run under AddressSanitizer as well
ASAN_CLASSES = ("Modular<Log16>", "GFqDom<int64_t>", "GFqExtFast<int64_t>", "GFqExt<int64_t>", "Extension<GFqDom<int64_t>>", "Extension<Modular<double>>",
                "Poly1Dom<GFqDom<int64_t>,Dense>", "Poly1FactorDom<Modular<double>,Dense>", "IntRNSsystem<vector>", "RNSsystem<Integer,Modular<double>>",
                "Modular<Integer>", "Montgomery<ruint<7>>")
# expiry of the harness's own limits (CPU limit, wall-clock alarm, OOM killer): a statement about the tooling, never a violation by itself
WATCHDOG = ("watchdog-cpu", "watchdog-wall", "watchdog-kill", "skipped-after-watchdog", "signal-14", "signal-24", "signal-9")
TOOLING_MARKS = ("[timeout after", "[timeout]", "Killed", "out of memory", "Out of memory", "virtual memory exhausted", "annot allocate memory",
                 "No space left on device", "Resource temporarily unavailable", "fork: retry")


# what ONE probe evaluation calls (harness/c16_probes.h); the number of evaluations per class is in probe_evaluations_per_class
CALL_FORMS = {
    "ring classes (Modular*, ModularExtended, ModularBalanced, Montgomery, Modular<Log16>, GFqDom, GFqExtFast, GFqExt)":
        "constants zero/one/mOne; characteristic(), characteristic(Integer&), characteristic(uint64_t&) [GFqExt*: (UTT&)], cardinality(), cardinality(Integer&), residu(), size(), "
        "minElement(), maxElement(), [GFqExt*: bits(), base(), mask(), maxdot()]; init(E&), init(E&,Integer), init(E&,int64_t), init(E&,uint64_t), init(E&,double); convert(Integer&), "
        "convert(int64_t&), convert(double&); isZero, isOne, isMOne, isUnit, areEqual; add, sub, mul, neg, div, inv (three-address); addin, subin, mulin, negin, divin, invin (in place); "
        "axpy, axmy, maxpy, axpyin, axmyin, maxpyin; assign  -- 8 x 4 operand pairs per evaluation",
    "GFq classes, in addition": "exponent(), generator(), generator(Rep&), sage_generator(), size(), residu(), irreducible(), zech2padic, padic2zech, init(Rep&, vector) below and above "
        "the extension degree, prime-subfield arithmetic as integers; GFqExt*: init(E&,double)/convert(double&) on 6 values",
    "Extension": "characteristic() x3 overloads, cardinality() x2, residu(), order(), exponent(), extension_type(), irreducible() x2, base_field(), polynomial_domain(), write; "
        "init(Integer), mul, add, sub, inv, div, axpy, neg, convert(Integer&), isZero, isOne, isMOne, isUnit, areEqual on 8 operand triples",
    "Poly1Dom / Poly1FactorDom": "init(Degree), init(Degree, coefficient), mul, mulin, add, addin, sub, divmod, mod, gcd, degree, leadcoef, diff, write, zero/one/mOne, isZero, isOne, "
        "areEqual, getdomain() (+ its constants), getIndeter(); FactorDom: is_irreducible on 7 polynomials",
    "IntRNSsystem / RNSsystem": "NumOfPrimes()/size(), product(), RingToRns, RnsToRing, RnsToMixedRadix, MixedRadixToRing on 6 integers, Reciprocals(), reciprocal(i), Primes(), ith(i); "
        "RNSsystem::setPrimes as mutator",
    "special members (events)": "every constructor overload (constructor_overloads), copy constructor, operator= (incl. self-assignment), destructor, in-place mutators "
        "read(istream&) / setPrimes",
}


# classes whose read(istream&) takes the text "(z, <p>)": also driven with truncated / malformed texts (event fN:q, q = P + 4 * variant)
FAILED_READ = ("Modular<int32_t>", "Modular<uint32_t>", "Modular<int64_t>", "Modular<uint64_t>", "Modular<float>", "Modular<double>", "Modular<int16_t>", "Modular<uint16_t>",
               "Modular<Integer>", "Modular<Log16>")


def iso_ok(cls, q):
    q = base_q(cls, q)
    return cls not in NON_ISO or (q >> 2) in DET_VARIANTS.get(cls, ())


def tooling_failure(text):
    """does this log show that OUR tooling ran out of time / memory / disk (as opposed to rejecting the source)?"""
    return any(m in (text or "") for m in TOOLING_MARKS)


def inconclusive(chk, what, detail=""):
    """a stream that could not be evaluated because of the tooling: recorded in the evidence, not a verdict"""
    chk.cov.setdefault("inconclusive", []).append({"what": what, "detail": (detail or "")[-600:]})
    chk.notes.append("INCONCLUSIVE (tooling): " + what)


# classes with an in-place re-parameterisation (event sN:P): RNSsystem::setPrimes, Modular<T>::read(istream&), Modular<Log16>::read
# (Modular<int8_t|uint8_t>::read extracts the modulus into an unsigned char, i.e. reads ONE CHARACTER: "(z, 11)" gives the ring modulo '1' = 49 --
#  an input-format defect outside this property; the object it leaves is consistent, so the 8-bit rings are not driven through read)
MUTABLE = ["Poly1Dom<Modular<double>,Dense>", "Poly1FactorDom<Modular<double>,Dense>", "GFqDom<int64_t>", "GFqDom<int32_t>", "ModularExtended<double>", "ModularExtended<float>", "Modular<int16_t>", "Modular<uint16_t>", "Modular<int32_t>", "Modular<uint32_t>", "Modular<int64_t>", "Modular<uint64_t>", "Modular<float>", "Modular<double>",
           "Modular<Integer>", "Modular<Log16>", "RNSsystem<Integer,Modular<double>>"]
MUT_DIRECTED = [
    "c0:A s0:B", "c0:A s0:B s0:A", "c0:B s0:C s0:B s0:C", "c0:A s0:D s0:A", "c0:A s0:A", "c0:C s0:B s0:C",
    "c0:A k1:0 s0:B d0 u1", "c0:A k1:0 s1:B s0:C", "c0:A c1:B s0:B a1:0 s0:A u1", "c0:B c1:C s1:B a0:1 s1:C u0", "c0:A s0:B k1:0 d0 u1",
    "c0:D s0:A k1:0 s1:D a0:1", "c0:B u0 u0 s0:C u0 s0:A s0:D",
]
GFQ_PARAMS = {0: (3, 2), 1: (5, 2), 2: (2, 4), 3: (7, 1)}          # as in harness/c16_history.C (GP, GE)


POLY_VARIANTS = (1, 2, 4, 5)          # constructor overloads with a prescribed polynomial: parameter set 3 is GF(7^2) there


def gfq_params(cls, q):
    """(p, e) of the field built by constructor overload q >> 2 from parameter set q & 3 (harness/c16_probes.h make())"""
    q = base_q(cls, q)
    p, e = GFQ_PARAMS[q & 3]
    if e == 1 and (cls.startswith("GFqExt") or (q >> 2) in POLY_VARIANTS):
        e = 2
    return p, e


def pf_oracle(cls, q):
    """specification of the arithmetic inside the prime subfield: the integers modulo p, whatever irreducible polynomial / generator was chosen"""
    p, _ = gfq_params(cls, q)
    out = []
    for i in range(6):
        for j in range(1, 4):
            a, b = (i * 5 + 1) % p, (j * 3 + 2) % p
            r = [(a + b) % p, (a * b) % p, (a - b) % p, (-a) % p]
            t = ".".join(str(x) for x in r) + "."
            if b:
                t += str((a * pow(b, p - 2, p)) % p)
            out.append(t)
    return ";".join(out) + ";"


def vecval_oracle(cls, p_idx):
    """specification of GFqDom::init(Rep&, Vector) for a polynomial of degree < e: its p-adic value"""
    p, e = gfq_params(cls, p_idx)
    out = []
    for k in range(3):
        v = (2 + k) % p
        if e > 1:
            v += ((1 + k) % p) * p
        out.append(str(v))
    return ";".join(out) + ";"


# ------------------------------------------------------------------------------------------------ description + Coq

def generate(chk):
    """regenerate coq/C16/gen/*.v from the current source.  returns (descs, meta) or (None, None)"""
    descs, meta, err = om.build_descriptions()
    if (err or not descs) and tooling_failure(err):
        descs, meta, err = om.build_descriptions()          # once more
    if (err or not descs) and tooling_failure(err):
        inconclusive(chk, "object-model translator: clang ran out of time / memory; no description, no Coq decisions in this run", err)
        return None, None
    if err or not descs:
        chk.broke("object-model translator failed on /repo's current source (harness/c16_inst.C no longer compiles under clang?)", err or "no description")
        return None, None
    if meta.get("missing"):
        chk.broke("object-model translator: classes missing from the AST dump: %s" % ", ".join(meta["missing"]))
    gen = os.path.join(vf.coq_dir(AREA), "gen")
    write_atomic_if_changed(os.path.join(gen, "Desc.v"), om.emit_coq(descs, meta))
    write_atomic_if_changed(os.path.join(gen, "Decide.v"), om.emit_decide(descs))
    return descs, meta


def write_atomic_if_changed(path, text):
    """checks/C18.py regenerates the same files (same content on the same source): never leave a half-written file behind"""
    try:
        with open(path) as f:
            if f.read() == text:
                return False
    except OSError:
        pass
    vf.mkdir(os.path.dirname(path))
    tmp = "%s.tmp%d" % (path, os.getpid())
    with open(tmp, "w") as f:
        f.write(text)
    os.replace(tmp, path)
    return True


# callees DECLARED in the library (namespace Givaro) that have no body even after the library unit harness/c16_lib.C was linked in: each one
# is accepted here with its reason; any other is a broken obligation (the translator would silently assume "no effect")
ACCEPTED_LIBRARY_CALLEES = {
    "nonzerorandom : Givaro::Integer &(Givaro::Integer &, const Givaro::Integer &)": "member template of Integer (gmp++_int_rand.inl) that no unit instantiates; advances the GMP random state: randomised operation, outside the claim",
    "nonzerorandom : Givaro::Integer (const long &)": "same member template (randomised)",
    "nonzerorandom : Givaro::Integer &(Givaro::Integer &, const long &)": "same member template (randomised)",
    "Givaro::IntPrimeDom *::nextprime : member": "IntPrimeDom::nextprime(Rep&, const Rep&, int) is declared in givintprime.h and defined nowhere in /repo; its only caller is IntFactorDom::Lenstra, "
                                                  "which no described class reaches from a claimed method",
}
# ceiling for the explained categories (call sites): a jump means the dump lost bodies (other clang, filter, include layout)
UNRESOLVED_CEILING = 3200


def translator_gate(chk, meta):
    """the translator's blind spot, classified: call sites whose callee has no body in the dump"""
    cats = meta.get("unresolved_by_category") or {}
    names = meta.get("unresolved_callees") or {}
    chk.cov["unresolved_call_sites_by_category"] = cats
    chk.cov["effect_table"] = {n: t for n, t, _ in om.EFFECT_TABLE}
    chk.cov["library_definitions_linked"] = meta.get("linked_to_library_definitions")
    chk.cov["recint_static_scan"] = meta.get("recint_static_scan")
    unexplained = [n for n, c in names.get("UNEXPLAINED", [])]
    lib = [n for n, c in names.get("DECLARED IN THE LIBRARY, NO BODY IN THE DUMP", []) if n not in ACCEPTED_LIBRARY_CALLEES]
    chk.cov["library_callees_accepted_without_body"] = {n: ACCEPTED_LIBRARY_CALLEES[n] for n, c in names.get("DECLARED IN THE LIBRARY, NO BODY IN THE DUMP", []) if n in ACCEPTED_LIBRARY_CALLEES}
    if unexplained:
        chk.broke("object-model translator: %d callee(s) without a body match no entry of the effect table (assumed effect-free without a reason): %s" % (len(unexplained), "; ".join(unexplained[:12])))
    if lib:
        chk.broke("object-model translator: callee(s) declared in the library have no body in the dump (harness/c16_inst.C + c16_lib.C) and are not on the accepted list: %s" % "; ".join(lib[:12]))
    if sum(cats.values()) > UNRESOLVED_CEILING:
        chk.broke("object-model translator: %d call sites without a body (ceiling %d): the dump lost function bodies" % (sum(cats.values()), UNRESOLVED_CEILING), json.dumps(cats))
    fls = (meta.get("recint_static_scan") or {}).get("function_local_statics")
    if fls:
        chk.broke("RecInt headers (value types outside the dump) contain function-local statics: the effect-table entry 'RecInt value types' no longer holds", "; ".join(fls))


def describe_for_evidence(descs):
    out = {}
    for d in descs:
        mi = om.Mirror(d)
        cm = [m for m in d["methods"] if m["const"]]
        out[d["name"]] = {"members": len(d["members"]), "methods": len(d["methods"]), "const_methods": len(cm),
                          "claimed": sum(1 for m in cm if mi.claimed(m)), "self_contained": sum(1 for m in cm if mi.claimed(m) and mi.method_sc(m)),
                          "self_contained_stateful": sum(1 for m in cm if mi.claimed(m) and mi.method_sc(m) and not mi.stateless(m)),
                          "stateless": sum(1 for m in cm if mi.claimed(m) and mi.stateless(m)),
                          "race_free": sum(1 for m in cm if mi.claimed(m) and mi.method_rf(m)),
                          "randomised": sum(1 for m in cm if mi.randomized(m)), "source": d.get("source"),
                          "constructors": len(d.get("ctors") or []), "constructor_effects": [list(e) for e in mi.ctor_eff], "constructors_pure": mi.ctor_pure(),
                          "init_kinds": d.get("init_kinds"), "init_consistent": mi.init_consistent()}
    return out


def structural_c16(chk, descs):
    """turn the decisions on the description into verdict items.  returns counters"""
    n_meth = n_ok = 0
    partial = []
    partial_setters = []
    chk.cov["partial_setters_decided"] = partial_setters
    for d in descs:
        mi = om.Mirror(d)
        name = d["name"]
        claimed = [m for m in d["methods"] if mi.claimed(m)]
        n_meth += len(claimed)
        off = mi.sc_offenders()
        n_ok += len(claimed) - len(off)
        if name in NO_VERDICT:
            if off:
                chk.notes.append("%s: %d methods outside the theorem (%s)" % (name, len(off), NO_VERDICT[name]))
            continue
        not_copied, not_assigned, bad_rc = set(), set(), set()
        for m in off:
            why = mi.why_sc(m)
            stat = sorted(set(x for k, x in why if k in ("static-local", "global-write", "global-read")))
            if stat:
                kinds = sorted(set(k for k, x in why if k in ("static-local", "global-write", "global-read")))
                chk.fail_input(om.msite(m), "%s:%s" % ("+".join(kinds), ",".join(stat)),
                               {"class": name, "method": om.mname(m), "signature": m.get("sig"), "effects": [list(e) for e in mi.eff[id(m)]]},
                               "a const operation reads and writes only its object and its operands",
                               "%s touches %s" % (m["name"], ", ".join(stat)),
                               "description generated from the source: the result of this operation depends on state outside the object (history dependence)")
            own = sorted(set(x for k, x in why if k in ("own-write", "reads-member-written-on-const-path")))
            if own:
                new = [x for x in own if x not in ACCEPTED_CACHES.get(name, set())]
                if new:
                    chk.broke("%s: %s writes / depends on own member(s) %s on a const path (mutable / cast): outside the proved fragment, not a known lazy cache"
                              % (name, om.msite(m), ",".join(new)))
                else:
                    partial.append("%s::%s (lazy cache %s)" % (name, m["name"], ",".join(own)))
            not_copied |= set(x for k, x in why if k == "reads-member-not-copied")
            not_assigned |= set(x for k, x in why if k == "reads-member-not-assigned")
            bad_rc |= set(x for k, x in why if k == "reads-shared-heap-with-bad-refcount")
        # constructors: a function-local static / a mutable global touched while an object is built is state shared by all objects
        if not mi.ctor_pure():
            seen_ct = set()
            for ct in d.get("ctors") or []:
                fx = [e for e in om.norm_effects(d, ct.get("writes") or []) if e[0] not in ("RExcluded", "WOwn")]
                if not fx:
                    continue
                kinds = sorted(set({"WStaticLocal": "static-local", "WStaticInit": "static-local", "WGlobal": "global-write", "RGlobal": "global-read"}.get(e[0], "effect") for e in fx))
                names_ = sorted(set(e[1] for e in fx))
                site = "%s::%s(%s)" % (ct.get("cls"), ct.get("cls"), ct.get("params", ""))
                if site in seen_ct:
                    continue
                seen_ct.add(site)
                chk.fail_input(site, "constructor-%s:%s" % ("+".join(kinds), ",".join(names_)),
                               {"class": name, "constructor": site, "effects": [list(e) for e in fx], "via": [w.get("via") for w in ct.get("writes") or []][:4],
                                "parameter_members": d.get("param_members")},
                               "a constructor reads and writes only the object under construction and its arguments",
                               "the constructor touches %s" % ", ".join(names_),
                               "description generated from the source: the members of an object built through this constructor depend on state shared by all "
                               "objects of the process (the first construction initialises a function-local static): C16_static_ctor_refuted / "
                               "C16_static_parameter_init_refuted exhibit the failing history")
        # a member that shares storage with an ARGUMENT of a constructor / setter depends on an object outside the lineage
        seen_as = set()
        for a in d.get("arg_shared") or []:
            if a["member"] not in mi.arg_shared_offenders() or (a["where"], a["member"]) in seen_as:
                continue
            seen_as.add((a["where"], a["member"]))
            chk.fail_input(a["where"], "argument-shared:%s" % a["member"],
                           {"class": name, "where": a["where"], "member": a["member"], "argument": a["param"], "form": a["form"]},
                           "every member holds a VALUE copy of what the constructor / setter receives (givWithCopy, copy constructor, assign)",
                           "%s is a %s of the argument `%s`" % (a["member"], a["form"], a["param"]),
                           "description generated from the source: the member shares storage with an object the caller still owns; overwriting, reusing or destroying the "
                           "argument changes the object (C16_arg_shared_refuted exhibits the failing history: Construct, Outside, Use)")
        # partial setters (a member that rewrites ONE construction parameter from its argument: setdomain, setIndeter): everything co-dependent
        # with what they set (derived by some constructor from the same constructor parameter) must be rewritten too
        for m in d["methods"]:
            if mi.is_partial_setter(m):
                partial_setters.append("%s::%s sets %s" % (name, m["name"], ",".join(m.get("definite_writes", []))))
                miss = mi.partial_setter_missing(m)
                if miss:
                    chk.fail_input(om.msite(m), "partial-setter-leaves:" + ",".join(miss),
                                   {"class": name, "method": om.mname(m), "sets": m.get("definite_writes"), "co_dependent": sorted(mi.setter_closure(m))},
                                   "a member that rewrites a construction parameter from its argument rewrites every member the constructors derive from the same parameter",
                                   "%s leaves %s" % (m["name"], ",".join(miss)),
                                   "description generated from the source: after %s the object is not the object a constructor would build from the new parameter" % m["name"])
        for m in mi.mutator_offenders():
            miss = mi.mutator_missing(m)
            chk.fail_input(om.msite(m), "mutator-leaves:" + ",".join(miss),
                           {"class": name, "method": om.mname(m), "writes": m.get("mut_writes"), "parameter_members": d.get("param_members")},
                           "a member that re-parameterises the object in place rewrites every parameter-derived member and resets every cache",
                           "%s leaves %s" % (m["name"], ",".join(miss)),
                           "description generated from the source: after %s the object is not the object a constructor would build from the new parameters" % m["name"])
        if not_copied:
            chk.fail_input("%s::copy-constructor" % name, "not-copied:" + ",".join(sorted(not_copied)),
                           {"class": name, "copy_map": d.get("copy_map")}, "every member read by an operation is copied from the same member of the source",
                           "members %s are not" % ",".join(sorted(not_copied)), "copy map extracted from the source")
        if not_assigned:
            chk.fail_input("%s::operator=" % name, "not-assigned:" + ",".join(sorted(not_assigned)),
                           {"class": name, "assign_map": d.get("assign_map")}, "every member read by an operation is assigned from the same member of the source",
                           "members %s are not" % ",".join(sorted(not_assigned)), "assignment map extracted from the source")
        if bad_rc:
            rc = d.get("rc") or {}
            klass = "refcount:" + ("counter-narrower-than-int" if not rc.get("counter_wide", True) else "copy-does-not-count" if not rc.get("copy_incs") else "destructor-does-not-release" if not (rc.get("destroy_decs") and rc.get("destroy_frees")) else str(rc.get("assign_order")))
            chk.fail_input("%s::refcount-protocol" % name, klass, {"class": name, "rc": rc, "shared": d.get("shared_heap_members")},
                           "shared heap parts are reference-counted so that no live object ever refers to a freed block (Refcount.refcount_safe)",
                           "protocol extracted from the source is not accepted: %s" % klass, "C16_unguarded_assign_refuted / C16_uncounted_copy_refuted exhibit the failing history")
    return n_meth, n_ok, partial


# ------------------------------------------------------------------------------------------------ histories

def valid_events(live, slots, nparams):
    ev = []
    free = [i for i in range(slots) if i not in live]
    for i in free[:1]:                      # constructing into the lowest free slot is enough (slots are symmetric)
        for p in range(nparams):
            ev.append("c%d:%d" % (i, p))
        for m in sorted(live):
            ev.append("k%d:%d" % (i, m))
    for n in sorted(live):
        for m in sorted(live):
            ev.append("a%d:%d" % (n, m))
        ev.append("u%d" % n)
        ev.append("d%d" % n)
    return ev


def apply_event(live, e):
    k, n = e[0], int(e[1])
    live = dict(live)
    if k in "cs":
        live[n] = int(e[3:]) & 3
    elif k == "k":
        live[n] = live[int(e[3:])]
    elif k == "a":
        live[n] = live[int(e[3:])]
    elif k == "d":
        del live[n]
    return live


DIRECTED = [
    "c0:A", "c0:B", "c0:A c1:B u0 u1", "c1:B u1 c0:A u0 u1", "c0:A u0 c1:B u1 u0", "c0:A k1:0 u1 d0 u1", "c0:A k1:0 d1 u0",
    "c0:A c1:B a1:0 u1 d0 u1", "c0:A c1:B a0:1 u0 u1 d1 u0", "c0:A a0:0 u0", "c0:A u0 a0:0 u0 k1:0 d0 u1", "c0:A k1:0 a0:1 u0 d1 u0",
    "c0:A k1:0 a1:0 d0 u1", "c0:A c1:B k2:1 a2:0 u2 d0 d1 u2", "c0:A c1:B k2:0 a0:1 a1:2 d2 u0 u1", "c0:A c1:B c2:C a0:1 a1:2 a2:0 u0 u1 u2",
    "c0:A k1:0 k2:1 d0 d1 u2", "c0:A c1:B a0:1 a0:0 a1:0 d1 u0", "c0:B d0 c0:A u0", "c0:A c1:B d1 c1:C k2:1 a2:0 d0 u2",
    "c0:A c1:B w0:1 u0 u1 d0 u1", "c0:A c1:B k2:0 w2:1 d0 u1 u2 a1:2 d2 u1", "c0:A c1:B m0:1 u0 d1 u0", "c0:A c1:B m1:0 a0:1 u0 u1 d1 u0", "c0:A k1:0 m0:1 d1 u0 w0:0 u0",
    "c0:C c1:A a1:0 a1:1 u1", "c0:A c1:A a0:1 u0 d1 u0", "c0:A c1:A k2:0 a2:1 u2 d1 u2", "c0:B c1:B a1:0 u1", "c0:A k1:0 k2:0 a1:2 d0 d2 u1", "c0:D c1:A u1 a0:1 u0", "c0:A c1:D a1:0 u1 k2:1 d1 d0 u2",
]


def gen_mut_histories(rng, tier):
    """histories with in-place re-parameterisation, for the classes that have a mutator"""
    hs = []
    for perm in ((0, 1, 2, 3), (1, 2, 3, 0), (3, 0, 1, 2), (2, 3, 0, 1)):
        for h in MUT_DIRECTED:
            for ch, v in zip("ABCD", perm):
                h = h.replace(ch, str(v))
            hs.append(h)
    for _ in range(30 if tier == "quick" else 600):
        live, h = {}, []
        for _ in range(rng.range(3, 8)):
            ev = valid_events(live, 3, 4)
            muts = ["s%d:%d" % (n, q) for n in sorted(live) for q in range(4)]
            e = rng.choice(muts) if (muts and rng.chance(2, 5)) else rng.choice(ev)
            h.append(e)
            live = apply_event(live, e)
        if any(e[0] == "s" for e in h):
            hs.append(" ".join(h))
    seen, out = set(), []
    for h in hs:
        if h not in seen:
            seen.add(h); out.append(h)
    return out


# thorough tier: the complete enumeration of short histories is run on one instantiation per family of the Modular_implem template
# (integral / floating / Integer / ruint storage share the special members textually); the other instantiations get the directed and
# the random histories only
NO_EXHAUSTIVE = {"Modular<uint32_t>", "Modular<int64_t>", "Modular<uint64_t>", "Modular<float>", "Modular<int8_t>", "Modular<uint8_t>",
                 "Modular<int16_t>", "Modular<uint16_t>", "GFqDom<int32_t>", "ModularExtended<float>"}      # (same template as the int64_t / double instantiation)


def gen_histories(rng, tier, exhaustive=True):
    hs = []
    for pa, pb, pc, pd in ((0, 1, 2, 3), (1, 0, 3, 2)) + (((2, 3, 0, 1),) if tier != "quick" else ()):
        for h in DIRECTED:
            hs.append(h.replace("A", str(pa)).replace("B", str(pb)).replace("C", str(pc)).replace("D", str(pd)))
    nrand = 40 if tier == "quick" else 1000
    for _ in range(nrand):
        live, h = {}, []
        for _ in range(rng.range(3, 8 if tier == "quick" else 10)):
            ev = valid_events(live, 4, 4)
            # favour copies / assignments once something is alive
            e = rng.choice(ev)
            if live and rng.chance(1, 2):
                e = rng.choice([x for x in ev if x[0] in "kad"] or ev)
            h.append(e)
            live = apply_event(live, e)
        hs.append(" ".join(h))
    if tier != "quick" and exhaustive:
        # exhaustive: every valid history of up to 5 events over 3 slots and 2 parameter sets
        def rec(live, h, depth):
            if h:
                hs.append(" ".join(h))
            if depth == 0:
                return
            for e in valid_events(live, 3, 2):
                if e[0] == "u" and h and h[-1] == e:
                    continue
                rec(apply_event(live, e), h + [e], depth - 1)
        rec({}, [], 5)
    seen, out = set(), []
    for h in hs:
        if h not in seen:
            seen.add(h); out.append(h)
    return out


def parse_line(line):
    """'<class> | ev o=part:hash,... | ... | end' -> (class, [(ev, {obj: {part: hash or None}})], crash or None)"""
    segs = [s.strip() for s in line.split("|")]
    cls = segs[0]
    steps, crash = [], None
    for s in segs[1:]:
        if s == "end" or not s:
            continue
        if s.startswith("X "):
            crash = s[2:]
            continue
        toks = s.split()
        objs = {}
        for t in toks[1:]:
            if "=" not in t:
                continue
            o, parts = t.split("=", 1)
            objs[int(o)] = {}
            for pp in parts.split(","):
                if ":" in pp:
                    a, b = pp.split(":", 1)
                    objs[int(o)][a] = b if b else None
        steps.append((toks[0], objs))
    return cls, steps, crash


def category(ev, obj):
    k, n = ev[0], int(ev[1])
    m = int(ev[3:]) if ":" in ev and k in "kawm" else None
    if k == "w":
        return "swap" if obj in (n, m) else "swap-other"
    if k == "m":
        return "move-target" if n == obj else ("moved-from" if m == obj else "move-other")
    if k == "c":
        return "construct" if n == obj else "construct-other"
    if k == "k":
        return "copy" if n == obj else ("copied-from" if m == obj else "copy-other")
    if k == "a":
        if n == m:
            return "self-assign" if n == obj else "self-assign-other"
        return "assign-target" if n == obj else ("assign-source" if m == obj else "assign-other")
    if k == "d":
        return "destroy-other"
    if k == "s":
        return "mutate" if n == obj else "mutate-other"
    if k == "f":
        return "failed-mutate" if n == obj else "failed-mutate-other"
    return "use" if n == obj else "use-other"


def klass_of(evs, idx, ev, obj):
    """input class of a divergence: anything at or after a self-assignment is keyed as such"""
    if ev[0] == "c" and int(ev[1]) == obj and (int(ev[3:]) >> 2) in RECYCLED:
        return "caller-arguments-recycled"
    if any(e[0] == "s" for e in evs[:idx + 1]):
        return "after-mutate"
    for e in evs[:idx + 1]:
        if e[0] == "a" and e[1] == e[3:]:
            return "after-self-assign"
    return category(ev, obj)


def check_history(chk, cls, hist, steps, crash, iso):
    """compare every probe with the lineage's reference.  returns number of comparisons; reports the FIRST divergence per part"""
    ref = {}          # object -> (param, {part: hash})   reference of its lineage
    ncmp = 0
    reported = set()
    evs = hist.split()
    last_ev = None
    spec = cls.split("&")          # several classes alive in one process: slot N holds an object of the (N mod k)-th class
    multi = len(spec) > 1
    for idx, (ev, objs) in enumerate(steps):
        last_ev = ev
        k, n = ev[0], int(ev[1])
        cls = spec[n % len(spec)]
        if k == "w":
            m = int(ev[3:])
            ref[n], ref[m] = ref.get(m), ref.get(n)
            for o in (n, m):
                if ref.get(o) is None:
                    ref.pop(o, None)
        elif k == "m":
            m = int(ev[3:])
            if m in ref and m != n:
                ref[n] = ref.pop(m)          # the moved-from object is alive but unspecified: no longer compared (a crash is still seen)
        elif k == "c":
            p = int(ev[3:])
            base = dict(objs.get(n, {}))
            if iso.get((cls, base_q(cls, p))):
                base = dict(iso[(cls, base_q(cls, p))])         # deterministic construction: the reference is the isolated process (without recycling of the arguments)
            ref[n] = (p, base)
        elif k == "f":
            # read() from a TRUNCATED / malformed text: the object must either be unchanged (old parameters) or be entirely the object of the
            # new parameters; a half-updated object is a failing input
            p = int(ev[3:]) & 3
            now = objs.get(n, {})
            old = ref.get(n)
            new = iso.get((cls, p))
            same = lambda exp: exp is not None and all(exp.get(pt) == h for pt, h in now.items() if h is not None and exp.get(pt) is not None)
            if old is not None and same(old[1]):
                pass
            elif same(new):
                ref[n] = (p, dict(new))
            elif old is not None:
                bad = next((pt for pt, h in now.items() if h is not None and old[1].get(pt) not in (None, h)), "?")
                if (cls, "failed-mutate") not in reported:
                    reported.add((cls, "failed-mutate"))
                    chk.fail_input("history:%s:%s" % (cls, bad), "after-failed-mutate",
                                   {"class": cls, "history": hist, "event_index": idx, "event": ev, "object": n, "old_param": old[0], "new_param": p, "text_variant": int(ev[3:]) >> 2},
                                   "probe of the old parameters (object unchanged) or of the new parameters", now.get(bad),
                                   "after read() of a truncated / malformed text the object is neither the old nor the new one: half-updated (replay: echo '%s %s' | C16_VERBOSE=1 c16_history)" % (cls, hist))
                ref.pop(n, None)
        elif k == "s":
            p = int(ev[3:])              # re-parameterised in place: from now on a fresh object of parameter set p
            ref[n] = (p, dict(iso.get((cls, p)) or objs.get(n, {})))
        elif k in "ka":
            m = int(ev[3:])
            if m in ref:
                ref[n] = ref[m]
        elif k == "d":
            ref.pop(n, None)
        for o, parts in objs.items():
            if o not in ref:
                continue
            p, exp = ref[o]
            cls = spec[o % len(spec)]
            for part, h in parts.items():
                ncmp += 1
                e = exp.get(part)
                if h is None:
                    continue          # crash inside this part: handled below
                if part == "vecval":
                    e = vecval_oracle(cls, p)          # independent specification, not the object's own earlier answer
                elif part == "pf":
                    e = pf_oracle(cls, p)
                elif part == "args":
                    e = "independent"                  # the probe did not change when the caller overwrote / reused / destroyed the constructor's arguments
                if e is not None and h != e and (cls, part) not in reported:
                    reported.add((cls, part))
                    chk.fail_input("history:%s:%s" % (cls, part), ("cross-class:" if multi else "") + klass_of(evs, idx, ev, o),
                                   {"class": cls, "classes_in_process": "&".join(spec), "history": hist, "event_index": idx, "event": ev, "object": o, "lineage_param": p & 3,
                                    "constructor_overload": p >> 2, "part": part},
                                   e, h, "probe of object %d differs from its lineage's reference after event %s (replay: echo '%s %s' | C16_VERBOSE=1 c16_history)"
                                   % (o, ev, "&".join(spec), hist))
    cls = "&".join(spec)
    if crash is not None and (crash.startswith("skipped") or crash in WATCHDOG or crash == "no-such-constructor"):
        return ncmp           # skipped after repeated crashes (already reported) / tooling limits (handled by the caller)
    if crash is not None:
        # which part was being computed?
        part, obj, ev = "?", None, (evs[len(steps)] if len(steps) < len(evs) else (last_ev or "?"))
        if steps:
            for o, parts in steps[-1][1].items():
                for pn, h in parts.items():
                    if h is None:
                        part, obj, ev = pn, o, steps[-1][0]
        if obj is None and len(steps) >= len(evs):
            ev = "end"            # crash in the destructors at the end of the history
        # attribute the crash to the most recent copy / assignment / destruction when it happens in a later event
        cat = category(ev, obj if obj is not None else (int(ev[1]) if ev != "end" and len(ev) > 1 else -1)) if ev != "end" else "destructors-at-end"
        if any(e[0] == "a" and e[1] == e[3:] for e in evs[:len(steps) + 1]):
            cat = "after-self-assign"
        if any(e[0] == "s" for e in evs[:len(steps) + 1]):
            cat = "after-mutate"
        if obj is not None:
            cls = spec[obj % len(spec)]
        if (cls, part) not in reported:
            chk.fail_input("history:%s:%s" % (cls, part), ("cross-class:" if multi else "") + cat,
                           {"class": cls, "history": hist, "crash": crash, "during_event": ev, "object": obj, "part": part}, "no crash", crash,
                           "the process died (%s) while evaluating part '%s' (replay: echo '%s %s' | c16_history)" % (crash, part, cls, hist))
    return ncmp


def run_harness(binary, text, timeout, env=None):
    """run the harness on a request list.  returns (rc, complete output lines, stderr); rc 124 = our own time-out"""
    import subprocess
    e = dict(os.environ)
    e.update(env or {})
    try:
        pr = subprocess.run([binary], input=text, stdout=subprocess.PIPE, stderr=subprocess.PIPE, timeout=timeout, env=e,
                            universal_newlines=True, errors="replace")
        rc, out, err = pr.returncode, pr.stdout, pr.stderr
    except subprocess.TimeoutExpired as ex:
        out = ex.stdout or ""
        out = out.decode("utf-8", "replace") if isinstance(out, bytes) else out
        rc, err = 124, "[timeout after %ss]" % timeout
    except OSError as ex:
        rc, out, err = 125, "", "cannot start the harness: %s" % ex
    lines = out.split("\n")
    if lines and not out.endswith("\n"):
        lines = lines[:-1]            # a truncated last line
    return rc, [l for l in lines if l], err


def run_parallel(binary, lines, jobs=6, timeout=3000):
    """run the harness on chunks of the request list concurrently.  returns (output lines in request order, None where the harness
    produced nothing, list of (rc, stderr) of chunks that did not finish)"""
    import threading
    n = max(1, min(jobs, len(lines) // 50 + 1))
    chunks = [lines[i::n] for i in range(n)]
    res = [None] * n

    def work(i):
        res[i] = run_harness(binary, "".join(chunks[i]), timeout)
    ts = [threading.Thread(target=work, args=(i,)) for i in range(n)]
    for t in ts:
        t.start()
    for t in ts:
        t.join()
    out = [None] * len(lines)
    bad = []
    for i in range(n):
        rc, o, e = res[i]
        if len(o) != len(chunks[i]):
            bad.append((rc, (e or "")[-300:]))
            o = o[:len(chunks[i])]
        for j, l in enumerate(o):
            # every answer starts with the class name of its request: a line that does not is not an answer
            if l.startswith(chunks[i][j].split(" ", 1)[0]):
                out[i + j * n] = l
    return out, bad


def report_stream_loss(chk, what, missing, total, bad):
    """the harness process itself did not deliver every answer: our time-out / a kill by the system is inconclusive, a crash of the
    dispatcher (which only forks) is a broken stream"""
    rcs = sorted(set(rc for rc, _ in bad))
    detail = "%d of %d answers missing; harness exit codes %s; %s" % (missing, total, rcs, " / ".join(e for _, e in bad)[:400])
    if all(rc in (124, 125, -9, -15, 137, 143) or tooling_failure(e) for rc, e in bad):
        inconclusive(chk, "%s: harness stopped by a time-out / by the system" % what, detail)
    else:
        chk.broke("%s: the history harness died (lost output lines)" % what, detail)


# budgets (CPU seconds: load independent).  Normal cost of one history: 0.01-0.3 s (the slowest constructions, Extension(p, e, Indeter) and the
# AddressSanitizer build, stay below 1 s).  First stage 10 s per history (harness default); confirmation alone 30 s; at most 3 confirmations
# and 6 first-stage overruns per run (the harness dispatchers share that cap and stop driving a class after its FIRST overrun).
CONFIRM_CPU = 30
MAX_CONFIRMATIONS = 3


def resolve_watchdog(chk, hb, cls, hist, crash, tier, budget):
    """A child stopped by the harness's own CPU budget is re-run ALONE with a budget of 30 s CPU (>= 100 x its normal cost).  If it completes
    there, its answer is evaluated normally.  If it overruns again it DOES NOT RETURN: a concrete failing input (klass does-not-return); the
    constructions of the history are also run alone, to tell whether the hang is in a construction or specific to the history.  A child
    killed by the system (memory) or by the wall-clock alarm is never confirmed: inconclusive.
    returns the output line to evaluate, or None"""
    rec = {"class": cls, "history": hist, "first_run": crash}
    chk.cov.setdefault("watchdog", []).append(rec)
    done = set(f["case"].get("class") for f in chk.failing if f["klass"] == "does-not-return")
    if any(m in done for m in cls.split("&") + [cls]):
        rec["verdict"] = "not re-run: a history of this class is already confirmed as not returning (the class is not driven any more in this run)"
        return None
    if budget[0] <= 0:
        rec["verdict"] = "not confirmed: the %d confirmations of this run are used up" % MAX_CONFIRMATIONS
        if not any(f["klass"] == "does-not-return" for f in chk.failing):
            inconclusive(chk, "history '%s %s' stopped by the harness watchdog (%s); not re-run" % (cls, hist, crash))
        return None
    budget[0] -= 1
    cpu, wall = CONFIRM_CPU, 900
    env = {"C16_CPU_LIMIT": str(cpu), "C16_WALL_LIMIT": str(wall), "C16_SHARED": ""}
    t0 = time.time()
    rc, out, err = run_harness(hb, "%s %s\n" % (cls, hist), wall + 60, env)
    rec["rerun_seconds"] = round(time.time() - t0, 1)
    line = out[0] if out else None
    crash2 = parse_line(line)[2] if line else "no answer (rc %s)" % rc
    if line and (crash2 is None or crash2 not in WATCHDOG):
        rec["verdict"] = "re-run alone with a CPU budget of %d s: completed; evaluated normally" % cpu
        return line
    rec["rerun"] = crash2
    if crash2 != "watchdog-cpu":
        rec["verdict"] = "inconclusive: the re-run was stopped by the system / the wall-clock alarm (%s), not by the CPU budget" % crash2
        inconclusive(chk, "history '%s %s' stopped twice (%s, then %s): not a CPU-budget overrun" % (cls, hist, crash, crash2))
        return None
    # the constructions of this history, each alone: is the hang in a construction or specific to the history?
    ctl = sorted(set(e[3:] for e in hist.split() if e[0] == "c"))[:3]
    import resource
    worst, ctl_ok = 0.0, True
    env2 = dict(env, C16_CPU_LIMIT="10")
    if len(hist.split()) > 1 and "&" not in cls:
        for q in ctl:
            r0 = resource.getrusage(resource.RUSAGE_CHILDREN)
            rc, o2, _ = run_harness(hb, "%s c0:%s\n" % (cls, q), 300, env2)
            r1 = resource.getrusage(resource.RUSAGE_CHILDREN)
            worst = max(worst, (r1.ru_utime + r1.ru_stime) - (r0.ru_utime + r0.ru_stime))
            c2 = parse_line(o2[0])[2] if o2 else "no answer"
            ctl_ok = ctl_ok and c2 is None
        rec["control_constructions_alone"] = {"parameters": ctl, "all_completed": ctl_ok, "slowest_cpu_seconds": round(worst, 2)}
    steps = parse_line(line)[1] if line else []
    evs = hist.split()
    ev = evs[len(steps)] if len(steps) < len(evs) else "end"
    part = "?"
    if steps:
        for o, parts in steps[-1][1].items():
            for pn, h in parts.items():
                if h is None:
                    part, ev = pn, steps[-1][0]
    rec["verdict"] = "does not return: overran %d s of CPU alone (first stage: %s)" % (cpu, crash)
    chk.fail_input("history:%s:hang" % cls, "does-not-return",
                   {"class": cls, "history": hist, "during_event": ev, "part": part, "cpu_budget_s": cpu, "constructions_alone": rec.get("control_constructions_alone")},
                   "terminates", "does not return: no answer within %d s of CPU time when run alone (the first-stage budget was overrun before); a history of this kind needs < 0.5 s" % cpu,
                   "replay: echo '%s %s' | C16_CPU_LIMIT=%d c16_history" % (cls, hist, cpu))
    return None


def gen_ctor_histories(have, tier):
    """several objects of ONE class built in ONE process through every constructor overload, with different parameters, in both
    orders, mixed with the usual constructor and with each other; `have` = the construct parameters q = P + 4V the class supports"""
    hs = []
    vs = sorted(set(q >> 2 for q in have if q >> 2))

    def q(P, V):
        return P + 4 * V
    pairs = [(0, 1), (1, 0), (3, 2)] if tier == "quick" else [(0, 1), (1, 0), (2, 3), (3, 2), (0, 2), (3, 1), (2, 1)]
    for V in vs:
        for A, B in pairs:
            if q(A, V) not in have or q(B, V) not in have:
                continue
            hs.append("c0:%d c1:%d u0 u1" % (q(A, V), q(B, V)))
            hs.append("c0:%d c1:%d u1 u0 a0:1 u0 k2:1 d1 u2 u0" % (A, q(B, V)))        # the usual constructor first, then the overload
            hs.append("c0:%d c1:%d u1 d0 u1 k0:1 u0" % (q(A, V), B))                  # the overload first, then the usual constructor
        trip = [P for P in range(4) if q(P, V) in have]
        if len(trip) >= 3:
            hs.append("c0:%d c1:%d c2:%d u0 u1 u2 d0 u2 u1" % tuple(q(P, V) for P in trip[:3]))
            hs.append("c0:%d c1:%d c2:%d u0 a0:2 u0 u1 a1:0 u1" % tuple(q(P, V) for P in reversed(trip[-3:])))
        if len(trip) >= 2:
            hs.append("c0:%d d0 c0:%d u0 c1:%d u1 u0" % (q(trip[0], V), q(trip[1], V), q(trip[0], V)))      # the first one is gone when the second is built
            hs.append("c0:%d c1:%d a0:1 u0 d1 u0" % (q(trip[-1], V), q(trip[-1], V)))                   # same parameters twice, then assigned
        for W in vs:
            if W > V:
                for A, B in (((0, 1),) if tier == "quick" else ((0, 1), (2, 3))):
                    if q(A, V) in have and q(B, W) in have:
                        hs.append("c0:%d c1:%d u0 u1 a1:0 u1" % (q(A, V), q(B, W)))
                        hs.append("c0:%d c1:%d u0 u1 k2:0 d0 u2" % (q(B, W), q(A, V)))
        # the SAME parameter set through two overloads (the objects may differ in derived members: base field of another degree,
        # other irreducible polynomial), assigned in both directions: an operator= that skips members when "the parameters are equal"
        for W in [0] + vs:
            if W != V:
                for A in ((0, 3) if tier == "quick" else (0, 1, 2, 3)):
                    if q(A, V) in have and q(A, W) in have:
                        hs.append("c0:%d c1:%d a0:1 u0 d1 u0" % (q(A, V), q(A, W)))
    seen, out = set(), []
    for h in hs:
        if h not in seen:
            seen.add(h); out.append(h)
    return out


# two or three classes alive together in ONE process (the property: "unaffected by which other domain objects exist or were used earlier")
CROSS_COMBOS = [
    ("GFqDom<int64_t>", "Extension<GFqDom<int64_t>>", "Poly1Dom<GFqDom<int64_t>,Dense>"),
    ("Modular<int32_t>", "Modular<Log16>", "ModularBalanced<double>"),
    ("GFqExt<int64_t>", "GFqDom<int32_t>", "GFqExtFast<int64_t>"),
    ("IntRNSsystem<vector>", "RNSsystem<Integer,Modular<double>>", "Modular<double>"),
    ("Poly1FactorDom<GFqDom<int64_t>,Dense>", "Modular<Integer>", "Extension<Modular<double>>"),
    ("Montgomery<int32_t>", "Montgomery<ruint<7>>", "ModularExtended<double>"),
    ("Poly1FactorDom<Modular<double>,Dense>", "Poly1Dom<Modular<double>,Dense>", "Modular<float>"),
    ("Modular<ruint<7>>", "ModularBalanced<int64_t>", "Modular<uint64_t>"),
    ("GFqDom<int64_t>", "Modular<Log16>"),
    ("Extension<GFqDom<int64_t>>", "GFqExt<int64_t>"),
]
CROSS_SHAPES3 = [          # k = 3: slots 0,3 / 1,4 / 2,5
    "c0:A c1:B c2:C u0 u1 u2 k3:0 c4:D a1:4 d0 u3 u1 u2 d2 u4 u3",
    "c2:B c1:A c0:D u2 u1 u0 k5:2 d2 u5 u0 a0:0 u1 c3:A a3:0 u3 u1",
    "c0:A u0 c1:A u1 u0 c2:A u2 u1 u0 d1 u0 u2 c4:C u4 u0",
    "c1:C c4:A w1:4 u1 u4 c0:B c3:D m0:3 u0 u1 d4 u1 u0",
]
CROSS_SHAPES2 = [          # k = 2: even / odd slots
    "c0:A c1:B u0 u1 k2:0 k3:1 d0 d1 u2 u3 a2:2 u3",
    "c1:A c0:C u1 u0 c3:B a1:3 u0 d3 u1 u0 c2:D w0:2 u0 u2",
]


def gen_cross_histories(rng, tier, classes):
    out = []
    combos = [c for c in CROSS_COMBOS if all(x in classes for x in c)]
    cl = sorted(classes)
    for _ in range(6 if tier == "quick" else 60):          # plus seeded random triples
        a, b, c = rng.choice(cl), rng.choice(cl), rng.choice(cl)
        if len({a, b, c}) == 3:
            combos.append((a, b, c))
    perms = ((0, 1, 2, 3), (3, 2, 1, 0)) if tier == "quick" else ((0, 1, 2, 3), (3, 2, 1, 0), (1, 3, 0, 2), (2, 0, 3, 1))
    for combo in combos:
        for sh in (CROSS_SHAPES3 if len(combo) == 3 else CROSS_SHAPES2):
            for pm in perms:
                h = sh
                for ch, v in zip("ABCD", pm):
                    h = h.replace(":" + ch, ":" + str(v))
                out.append(("&".join(combo), h))
    return out


# AddressSanitizer build of the same harness: a read of freed tables / a double free after copy-assign-destroy is an error there even when the
# bytes happen to be unchanged.  Run on the directed copy / assign / swap / move / destroy histories.
ASAN_FLAGS = ("-fsanitize=address", "-fno-omit-frame-pointer", "-O1", "-g0")
ASAN_ENV = {"ASAN_OPTIONS": "exitcode=77:detect_leaks=0:abort_on_error=0:allocator_may_return_null=1", "C16_CPU_LIMIT": "10"}


def run_asan(chk, rng, tier, classes, iso):
    hb, log = vf.build_harness("c16_history.C", deps=("c16_probes.h",), extra_flags=ASAN_FLAGS, name="c16_history_asan")
    if hb is None and tooling_failure(log):
        hb, log = vf.build_harness("c16_history.C", deps=("c16_probes.h",), extra_flags=ASAN_FLAGS, name="c16_history_asan", timeout=2400)
    if hb is None:
        # no sanitizer runtime / compiler out of resources: the plain build still ran everything
        inconclusive(chk, "AddressSanitizer build of the history harness not available: the destroy / use-after-free histories ran without it", log)
        return
    hists = []
    for pm in ((0, 1, 2, 3), (1, 0, 3, 2)):
        for h in DIRECTED:
            if any(t[0] in "kadwm" for t in h.split()):
                for ch, v in zip("ABCD", pm):
                    h = h.replace(ch, str(v))
                hists.append(h)
    hists = sorted(set(hists))
    if tier == "quick":
        hists = [h for i, h in enumerate(hists) if i % 2 == (chk.seed & 1)]
    want = [(c, h) for c in classes for h in hists] + gen_cross_histories(vf.Rng(chk.seed + 7), "quick", classes)[::3]
    e = dict(os.environ); e.update(ASAN_ENV)
    old = dict(os.environ)
    os.environ.update(ASAN_ENV)
    try:
        out, bad = run_parallel(hb, ["%s %s\n" % ch for ch in want], jobs=6 if tier == "quick" else 12)
    finally:
        for k in ASAN_ENV:
            if k in old:
                os.environ[k] = old[k]
            else:
                os.environ.pop(k, None)
    if bad:
        report_stream_loss(chk, "AddressSanitizer histories", sum(1 for l in out if l is None), len(out), bad)
    n = nerr = 0
    for (c, h), line in zip(want, out):
        if line is None:
            continue
        cls, steps, crash = parse_line(line)
        if crash in WATCHDOG and crash != "skipped-after-watchdog":
            resolve_watchdog(chk, hb, c, h, crash, tier, getattr(chk, "c16_budget", [0]))
        if crash in WATCHDOG or crash == "no-such-constructor":
            continue
        n += 1
        if crash == "exit-77":
            nerr += 1
            evs = h.split()
            ev = evs[len(steps)] if len(steps) < len(evs) else "end"
            chk.fail_input("history:%s:asan" % c, "memory-error",
                           {"class": c, "history": h, "during_event": ev, "events_completed": len(steps)}, "no memory error", "AddressSanitizer error (exit 77)",
                           "use after free / double free / overflow reported by AddressSanitizer (replay: echo '%s %s' | ASAN_OPTIONS=detect_leaks=0 c16_history_asan)" % (c, h))
        else:
            check_history(chk, c, h, steps, crash, iso)          # same comparisons on the instrumented build
    chk.cov["asan_histories_evaluated"] = n
    chk.cov["asan_errors"] = nerr


def build_history_harness(chk):
    hb, log = vf.build_harness("c16_history.C", deps=("c16_probes.h",))
    if hb is None and tooling_failure(log):
        hb, log = vf.build_harness("c16_history.C", deps=("c16_probes.h",), timeout=2400)      # once more, more time
    if hb is None and tooling_failure(log):
        inconclusive(chk, "history harness: the compiler ran out of time / memory; no histories in this run", log)
        return None
    if hb is None:
        chk.broke("history harness does not compile against /repo", log)
    return hb


def run_histories(chk, rng, tier, classes=None):
    hb = build_history_harness(chk)
    if hb is None:
        return 0
    classes = classes or HIST_CLASSES
    budget = chk.c16_budget = [MAX_CONFIRMATIONS]         # confirmations (re-runs alone) of histories that overran the first-stage CPU budget
    # caps shared by all dispatcher processes of this run (one directory, one empty file per overrun / crash)
    import tempfile, shutil, atexit
    shared = tempfile.mkdtemp(prefix="c16-shared-", dir=vf.mkdir(os.path.join(vf.BUILD, "tmp")))
    os.environ["C16_SHARED"] = shared
    atexit.register(lambda: (shutil.rmtree(shared, ignore_errors=True), os.environ.pop("C16_SHARED", None)))
    # ---- isolated references: every constructor overload of every class, each in a process of its own
    reqs = [(c, q) for c in classes for q in range(4 * NVARIANTS)]
    out, bad = run_parallel(hb, ["%s c0:%d\n" % cq for cq in reqs], jobs=4, timeout=1500)
    if bad:
        report_stream_loss(chk, "isolated references", sum(1 for l in out if l is None), len(out), bad)
    iso, have = {}, {}
    recycled_iso = []
    for (c, q), line in zip(reqs, out):
        if line is None:
            continue
        cls, steps, crash = parse_line(line)
        if crash == "no-such-constructor":
            continue
        if crash == "skipped-after-watchdog":
            chk.cov["skipped_after_watchdog"] = chk.cov.get("skipped_after_watchdog", 0) + 1
            continue
        if crash in WATCHDOG:
            line = resolve_watchdog(chk, hb, c, "c0:%d" % q, crash, tier, budget)
            if line is None:
                continue
            cls, steps, crash = parse_line(line)
        have.setdefault(c, set()).add(q)
        if steps and crash is None and 0 in steps[0][1]:
            if iso_ok(c, q) and (q >> 2) not in RECYCLED:
                iso[(c, q)] = steps[0][1][0]
            elif (q >> 2) in RECYCLED:
                recycled_iso.append((c, q, steps[0][1][0]))
        elif crash is not None:
            chk.fail_input("history:%s:construct" % c, "isolated", {"class": c, "constructor_overload": q >> 2, "parameter_set": q & 3, "line": line[:200]},
                           "no crash", crash, "construction + probe in an empty process crashes")
    # the overloads declared deterministic for classes whose usual constructor is randomised: build them once more, in another order;
    # a difference means the declaration is wrong (then only the in-process lineage reference is used)
    again = [(c, q) for (c, q) in sorted(iso, reverse=True) if c in NON_ISO]
    out2, bad2 = run_parallel(hb, ["%s c0:%d\n" % cq for cq in again], jobs=2, timeout=1500)
    for (c, q), line in zip(again, out2):
        cls, steps, crash = parse_line(line) if line else (c, [], "no answer")
        if not (steps and crash is None and steps[0][1].get(0) == iso[(c, q)]):
            del iso[(c, q)]
            chk.notes.append("%s constructor overload %d, parameter set %d: two isolated constructions differ (randomised?): lineage reference only" % (c, q >> 2, q & 3))
    # the isolated constructions with recycled arguments are histories of their own ("cN:q" alone): evaluate them
    for c, q, parts in recycled_iso:
        check_history(chk, c, "c0:%d" % q, [("c0:%d" % q, {0: parts})], None, iso)
    chk.cov["constructor_overloads"] = {c: sorted(set(q >> 2 for q in have.get(c, ()))) for c in classes}
    chk.cov["constructor_overload_names"] = VARIANT_NAMES
    # ---- histories
    hists = gen_histories(rng, tier)
    hists_short = [h for h in gen_histories(vf.Rng(chk.seed + 1), tier, exhaustive=False)] if tier != "quick" else hists
    want = [(c, h) for c in classes for h in (hists_short if c in NO_EXHAUSTIVE else hists)]
    chk.cov["classes_without_exhaustive_enumeration"] = sorted(NO_EXHAUSTIVE & set(classes)) if tier != "quick" else []
    mh = gen_mut_histories(rng, tier)
    want += [(c, h) for c in classes if c in MUTABLE for h in mh]
    nct = {}
    for c in classes:
        ch = gen_ctor_histories(have.get(c, set()), tier)
        nct[c] = len(ch)
        want += [(c, h) for h in ch]
    cross = gen_cross_histories(rng, tier, classes)
    want += cross
    chk.cov["cross_class_histories"] = len(cross)
    chk.cov["cross_class_combinations"] = sorted(set(c for c, h in cross))[:40]
    chk.cov["constructor_histories_per_class"] = nct
    fm = ["c0:%d f0:%d u0" % (a, b + 4 * t) for t in (0, 2, 3) for a, b in ((0, 1), (1, 0), (2, 3))] + ["c0:0 k1:0 f1:%d u1 u0 s1:2 u1" % (1 + 4 * t) for t in (0, 2, 3)]          # (variant 1, a missing comma, makes read() take "01" as the modulus: garbage in, a consistent ring modulo 1)
    want += [(c, h) for c in classes if c in FAILED_READ for h in fm]
    chk.cov["failed_read_histories_per_class"] = len(fm)
    chk.cov["mutator_histories_per_class"] = len(mh)
    chk.cov["classes_with_mutator"] = [c for c in classes if c in MUTABLE]
    out, bad = run_parallel(hb, ["%s %s\n" % (c, h) for c, h in want], jobs=6 if tier == "quick" else 12)
    if bad:
        report_stream_loss(chk, "histories", sum(1 for l in out if l is None), len(out), bad)
    ncmp = nrun = 0
    per_class = {}
    forms = {}
    cmp_class = {}
    for (c, h), line in zip(want, out):
        if line is None:
            continue
        cls, steps, crash = parse_line(line)
        if crash in WATCHDOG:
            if crash == "skipped-after-watchdog":
                chk.cov["skipped_after_watchdog"] = chk.cov.get("skipped_after_watchdog", 0) + 1
                continue
            line = resolve_watchdog(chk, hb, c, h, crash, tier, budget)
            if line is None:
                continue
            cls, steps, crash = parse_line(line)
        n = check_history(chk, c, h, steps, crash, iso)
        ncmp += n
        nrun += 1
        cmp_class[c] = cmp_class.get(c, 0) + n
        per_class[c] = per_class.get(c, 0) + 1
        for t in h.split():
            if t[0] == "c":
                k = "overload %d" % (int(t[3:]) >> 2)
                forms.setdefault(c, {}).setdefault(k, 0)
                forms[c][k] += 1
        nontrivial = any(t[0] in "kas" for t in h.split()) or len(set(t[1] for t in h.split())) > 1
        chk.count((c, h), nontrivial)
        if len(chk.cov["samples"]) < 10 and nontrivial and __import__("zlib").crc32(("%s %s" % (c, h)).encode()) % 211 == 0:
            chk.sample({"class": c, "history": h, "observed": line[:300]})
    if not chk.cov["samples"] and want and out[len(want) // 2]:
        chk.sample({"class": want[len(want) // 2][0], "history": want[len(want) // 2][1], "observed": out[len(want) // 2][:300]})
    if chk.cov.get("skipped_after_watchdog"):
        inconclusive(chk, "%d histories skipped after the watchdog stopped a history of their class" % chk.cov["skipped_after_watchdog"])
    chk.cov["histories_per_class"] = len(hists)
    chk.cov["histories_evaluated"] = nrun
    chk.cov["histories_evaluated_per_class"] = per_class
    chk.cov["construct_events_per_class_and_overload"] = forms
    chk.cov["probe_evaluations_per_class"] = cmp_class          # every evaluation runs ALL call forms below on the object
    chk.cov["call_forms_per_probe"] = CALL_FORMS
    chk.cov["classes_in_history_harness"] = len(classes)
    chk.cov["probe_comparisons"] = ncmp
    chk.cov["isolated_references"] = len(iso)
    run_asan(chk, rng, tier, [c for c in classes if c in ASAN_CLASSES], iso)
    # floors: what a run must have compared to count as a run (tooling trouble must not look like a pass)
    missed = []
    if nrun < 0.9 * len(want):
        missed.append("histories evaluated %d of %d requested" % (nrun, len(want)))
    if len(iso) < 0.9 * sum(1 for c in classes for q in have.get(c, ()) if iso_ok(c, q) and (q >> 2) not in RECYCLED):
        missed.append("isolated references %d" % len(iso))
    if chk.cov.get("asan_histories_evaluated", 0) < 100:
        missed.append("AddressSanitizer histories evaluated %d (< 100)" % chk.cov.get("asan_histories_evaluated", 0))
    if missed:
        chk.cov.setdefault("floor_missed", []).extend(missed)
        chk.notes.insert(0, "FLOOR MISSED (tooling): " + "; ".join(missed))
    return ncmp


def main(tier, replay=None):
    chk = vf.Check("C16", tier, "proof")
    rng = vf.Rng(chk.seed)
    chk.cov["trusted_base"] = [
        "Coq 8.16.1 kernel + vm_compute (no native_compute); theorems closed under the global context",
        "harness/c16_objmodel.py (clang 14 JSON AST -> class descriptions: members, copy/assign maps, read/write footprints, refcount protocol) "
        "and clang's own template instantiation / overload resolution; callees without a body in the dump (std::, GMP, RecInt) are assumed const-correct",
        "the hypotheses run_footprint / own_footprint / ctor_footprint of SelfContained.v (\"the code respects its description\") are what the translator "
        "extracts; they are validated, not proved, by the history harness",
        "harness/c16_history.C, checks/C16.py (history generator, lineage bookkeeping); g++ 12 / x86-64 for the implementation side",
    ]
    chk.assumptions = [
        "value-semantic members (std::vector, Integer, ruint, GivRandom, Indeter) copy faithfully (C17 covers Array0 / the allocator)",
        "documented globals excluded by the property text: Rational::flags, allocator free lists, GMP random state; randomised operations "
        "(those advancing a generator member or the GMP random state) are outside the claim",
    ]
    if replay:
        rp = json.load(open(replay))
        hb = build_history_harness(chk)
        for f in rp.get("failing_inputs", []):
            c = f.get("case", {})
            if hb and "history" in c:
                rc, out, err = vf.sh2([hb], stdin="%s %s\n" % (c["class"], c["history"]))
                print(out.strip()[:2000])
    descs, meta = generate(chk)
    res = vf.coq_check_props(AREA)
    if not res["ok"] and not res["forbidden"] and tooling_failure(res["log"]):
        res = vf.coq_check_props(AREA)          # once more
    keep = [t for t in res["theorems"] if t.startswith("C16_")]          # coq/C16 also holds the C18 theorems (checks/C18.py)
    res = dict(res, theorems=keep, assumptions={k: v for k, v in res["assumptions"].items() if k in keep})
    if not res["ok"] and not res["forbidden"] and tooling_failure(res["log"]):
        chk.cov["obligations"] += len(keep)
        inconclusive(chk, "Coq build of coq/C16 ran out of time / memory: %d obligations not re-checked in this run" % len(keep), res["log"])
    else:
        chk.proof_result(res, AREA)
    if descs:
        n_meth, n_ok, partial = structural_c16(chk, descs)
        translator_gate(chk, meta)
        for d in descs:
            if not d["methods"]:
                chk.broke("class %s is described with NO method (nothing instantiates its members in harness/c16_inst.C): every decision about it would be vacuous" % d["name"])
        verdict = [(d, om.Mirror(d)) for d in descs if d["name"] not in NO_VERDICT]
        stateful = sum(1 for d, mi in verdict for m in d["methods"] if mi.claimed(m) and mi.method_sc(m) and not mi.stateless(m))
        stateless = sum(1 for d, mi in verdict for m in d["methods"] if mi.claimed(m) and mi.stateless(m))
        chk.cov["claimed_const_methods"] = n_meth
        chk.cov["methods_decided_self_contained"] = n_ok
        chk.cov["methods_decided_self_contained_reading_state"] = stateful          # acceptance says something only for these
        chk.cov["methods_stateless"] = stateless                                  # read no member, no effect: accepted trivially (inherited ZRing members, areEqual, ...)
        chk.cov["classes_without_verdict"] = NO_VERDICT
        chk.cov["outside_proved_fragment"] = sorted(set(partial))[:40]
        chk.cov["mutators_decided"] = sorted("%s::%s writes %s" % (d["name"], m["name"], ",".join(m.get("mut_writes", [])))
                                             for d in descs if d["name"] not in NO_VERDICT for m in d["methods"] if om.Mirror(d).is_mutator(m))[:40]
        chk.cov["classes"] = describe_for_evidence(descs)
        chk.cov["constructors_analysed"] = {d["name"]: sorted(set("%s(%s)%s" % (c.get("cls"), c.get("params", ""), " [template pattern]" if c.get("pattern") else "") for c in d.get("ctors") or []))
                                            for d in descs}
        chk.cov["constructors_not_analysed"] = {d["name"]: d.get("ctors_unanalysed") for d in descs if d.get("ctors_unanalysed")}
        chk.cov["argument_sharing"] = {d["name"]: d.get("arg_shared") for d in descs if d.get("arg_shared")}
        chk.cov["classes_without_argument_sharing"] = sum(1 for d in descs if not d.get("arg_shared"))
        chk.cov["classes_with_pure_constructors"] = sum(1 for d in descs if om.Mirror(d).ctor_pure())
        chk.cov["benign_statics"] = {d["name"]: d.get("benign_statics") for d in descs if d.get("benign_statics")}
        for d in descs:
            io = om.Mirror(d).init_offenders()
            if io and d["name"] not in NO_VERDICT:
                chk.notes.append("%s: constructor description inconsistent for %s (member default-initialised by the copy constructor but not by every constructor)" % (d["name"], ",".join(io)))
        chk.cov["translator"] = {k: meta.get(k) for k in ("ast_objects", "decls_indexed", "classes_in_dump", "stats", "cached", "seconds", "nested_domain_members")}
        for d in descs:
            for n in d.get("notes", []):
                chk.notes.append("%s: %s" % (d["name"], n))
    run_histories(chk, rng, tier)
    chk.cov["rule"] = ("per class: directed histories (two/three objects of different parameters alive at once, copy survives the original and vice versa, "
                       "assignment in both directions, self-assignment, assignment from an own copy, rotation through a temporary) x 2-3 parameter permutations "
                       "+ seeded random valid histories of 3-8 events over 4 slots and 4 parameter sets + constructor-overload histories (several objects of different "
                       "parameters through EVERY constructor overload in both orders, overload mixed with the usual constructor and with other overloads, the same parameter "
                       "set through two overloads assigned) + mutate histories for the classes with an in-place mutator (thorough: + every valid history of <= 5 events over "
                       "3 slots / 2 parameter sets, for one instantiation per template family); after EVERY event the probe (all call forms: call_forms_per_probe) of every live "
                       "object is compared with its lineage's reference, with the same construction in an empty process when the construction is deterministic, and with the "
                       "python oracles (vecval, pf); non-trivial = the history copies/assigns/mutates or has >= 2 objects; distinct = (class, history)")
    # floors (tooling trouble must not look like a pass)
    if chk.cov["discharged"] < chk.cov["obligations"] and not any("coq/C16" in b["what"] for b in chk.broken):
        chk.cov.setdefault("floor_missed", []).append("theorems re-checked %d of %d" % (chk.cov["discharged"], chk.cov["obligations"]))
    if not descs:
        chk.cov.setdefault("floor_missed", []).append("no class description in this run (translator)")
    if chk.cov.get("floor_missed"):
        print("NOTE property=C16 floor missed (tooling): %s" % "; ".join(chk.cov["floor_missed"]))
    if len(chk.broken) > 20:
        chk.broken = chk.broken[:20] + [{"what": "... %d more" % (len(chk.broken) - 20), "detail": ""}]
    return chk.finish()
