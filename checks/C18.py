# C18 — Const use of a shared domain object from several threads is race-free.   (DESIGN 5/C18)  claimed PARTIAL
# proof : coq/C16/RaceFree.v — for any number of threads and any interleaving of operations whose write footprint contains no
#         shared location: no conflicting access pair, and every thread's results equal its sequential results; the per-class
#         decision (which const operations / copy-construction write shared state) is re-computed by vm_compute on the
#         description generated from /repo's current source (shared with C16: harness/c16_objmodel.py).
#         coq/C16/RaceFreeDisjoint.v — the same two conclusions for DISJOINT footprints (each thread writes only what no other thread
#         touches: thread-private elements, independent values); coq/C16/RaceFreeValues.v — independent big integers / rationals /
#         fixed-precision integers: calls accepted by the decider on thread-owned objects; the list of EVERY function body of the
#         value classes with the statics it touches is generated from the current source (harness/c18_values.py ->
#         coq/C16/gen/RaceFreeGen.v) and decided by vm_compute on every run (RaceFreeProps.v).
# tie   : translators (clang AST -> footprints); support runs: harness/c18_threads.C with 2-9 std::threads on one shared object
#         (per-thread digests against the sequential digest) and on thread-private values (Mixed<values>: every thread a different
#         family of operations), and the same file + a ThreadSanitizer-instrumented library built with -fsanitize=thread.
# NOT modelled: the C++ memory model, the compiler, the thread library, the hardware.
# Scheduler / load dependent outcomes (a run that did not finish in time, a sanitizer build or run that failed, a digest difference
# or crash that does not reproduce in a second run) are INCONCLUSIVE streams recorded in the evidence, never violations.
import glob, json, os, re, subprocess, sys, threading, time
import vf
import C16
sys.path.insert(0, os.path.join(vf.ROOT, "harness"))
import c16_objmodel as om
import c18_values as cv

AREA = "C16"
THREAD_CLASSES = C16.HIST_CLASSES + ["QField<Rational>", "Independent<Integer,Rational,ruint>"]
# rarely instantiated storage types / specialisations (built by make18 of harness/c18_threads.C, not among C16's history classes)
EXTRA_RINGS = ["Modular<int8_t>", "Modular<uint8_t>", "Modular<int16_t>", "Modular<uint16_t>", "Modular<int32_t,int64_t>", "Modular<uint32_t,uint64_t>",
               "Modular<float,double>", "Modular<ruint<6>>", "ModularExtended<double>", "ModularExtended<float>"]
# domains built over the reference-counted log-table ring (make18 of harness/c18_threads.C)
REFCOUNTED = {"Modular<Log16>": 20000, "Poly1Dom<Modular<Log16>,Dense>": 5000, "Extension<Modular<Log16>>": 2000}       # class -> live copies per thread
THREAD_CLASSES = THREAD_CLASSES + EXTRA_RINGS + list(REFCOUNTED)
THREAD_CLASSES = [c for i, c in enumerate(THREAD_CLASSES) if c not in THREAD_CLASSES[:i]]          # (C16 may add the same classes to its history list)
MIXED = ("Mixed<values>", "MixedRotate<values>")
EXTRA_V = ["RaceFreeDisjoint.v", "RaceFreeValues.v", "RaceFreeAtomic.v", "RaceFreeRefcount.v", "RaceFreeDomains.v", "gen/RaceFreeGen.v", "RaceFreeProps.v"]        # (gen imports RaceFreeAtomic)      # the C18 engineer's part of coq/C16
TRANSIENT = re.compile(r"inconsistent assumptions|bad version number|End_of_file|Cannot find a physical path|not a valid|No such file|Cannot open|Compiled library")


def inconclusive(chk, what, detail=""):
    chk.cov.setdefault("inconclusive_streams", []).append({"what": what, "detail": str(detail)[-400:]})
    chk.notes.append("INCONCLUSIVE (not a verdict): " + what)


# ------------------------------------------------------------------------------------------------ value classes: footprints + Coq

def values_model(chk):
    """regenerate coq/C16/gen/RaceFreeGen.v from the current source and turn the decision into verdict items"""
    try:
        res, err, timed_out = cv.build()
    except Exception:
        import traceback
        res, err, timed_out = None, "harness/c18_values.py raised:\n" + traceback.format_exc(), False
    if res is None:
        if timed_out:
            inconclusive(chk, "value-class footprint generator: clang did not finish in time", err)
        else:
            chk.broke("value-class footprint generator failed on /repo's current source (harness/c18_inst.C no longer compiles under clang?)", err or "")
        return None
    vf.write_if_changed(os.path.join(vf.coq_dir(AREA), "gen", "RaceFreeGen.v"), cv.emit_coq(res))
    off, doc = cv.decide(res)
    for o in off:
        w = sorted(set(cv.writes_of(o) + cv.random_of(o)))
        own = sorted(set(t[1] for t in o["effects"] if t[0] == "WOwn"))
        stat = [x for x in w if x not in own]
        klass = "+".join(([("static-write:" + ",".join(stat))] if stat else []) + ([("own-write:" + ",".join(own))] if own else []))
        chk.fail_input(o["site"], klass,
                       {"operation": o["uid"], "kind": o["kind"], "effects": o["effects"], "via": o["via"]},
                       "no operation writes process-wide state (only the documented setters / generators / allocator do) and no const member writes its own object",
                       "%s writes %s" % (o["fn"], ",".join(w)),
                       "description generated from the source: a thread running this operation races with every thread that reads or writes %s "
                       "(C18_mode_switch_refuted exhibits the failing interleaving)" % ",".join(w))
    # the premise of C18_atomic_counter, read from the source: every update of a shared std::atomic counter is ONE read-modify-write
    for o in cv.atomic_offenders(res):
        acc = o["atomic"]["accesses"]
        ctr = ",".join(sorted(set(a[1] for a in acc if a[0] == "store")))
        chk.fail_input(o["site"], "split-atomic-update:" + ctr, {"operation": o["uid"], "kind": o["kind"], "atomic_accesses_in_evaluation_order": acc},
                       "a shared reference count is updated by one atomic read-modify-write (fetch_add / fetch_sub / ++ / -- / compare_exchange)",
                       "%s updates %s with %s" % (o["fn"], ctr, " then ".join(a[0] for a in acc)),
                       "every access is atomic (no data race in the C++ sense, ThreadSanitizer silent) but the update is not: two threads copy-constructing from one "
                       "shared object lose an increment (C18_split_increment_refuted exhibits the interleaving), the count reaches 0 while the tables are in use")
    # documented process-wide configuration must be ONE object per process: a storage-class change (thread_local / __thread) of a static
    # that a documented setter writes makes the main thread's setting invisible to the workers
    tls = cv.tls_offenders(res)
    if tls:
        chk.broke("documented process-wide state is no longer shared: %s declared thread_local (VarDecl tls kind in the clang AST): a mode / module / domain / seed "
                  "set by the main thread through the documented setter is not seen by worker threads, which then compute other results than the sequential run"
                  % ", ".join(tls), json.dumps(res["meta"].get("thread_local_variables")))
    chk.cov["process_wide_configuration"] = {"statics_written_by_documented_setters": cv.process_wide_statics(),
                                             "thread_local_variables_in_the_library": res["meta"].get("thread_local_variables"), "of_which_documented_process_wide": tls}
    chk.cov["atomic_counter_accesses"] = {o["uid"]: {"operations": [a[0] + ":" + a[1] for a in o["atomic"]["accesses"]], "fresh_object": o["atomic"]["fresh_object"]}
                                          for o in cv.atomic_sites(res)}
    m = res["meta"]
    if len(m.get("families_in_dump", [])) < 9 or m.get("reachable_from_families", 0) < 300:
        chk.broke("value-class footprint generator: the operation families of harness/c18_values.h are not in the AST dump", json.dumps(m)[:1500])
    if m.get("note"):
        chk.notes.append("value-class footprint generator ran in a reduced configuration: " + str(m["note"])[-300:])
    # the translator's blind spot: a callee declared in the repository's namespaces without a body in the unit is a hole in the view
    if m.get("repo_callees_without_body"):
        chk.broke("footprint translator: %d callees declared in the repository have no body in the analysed unit (their effects are unknown): add their "
                  "source file to LIB_DIRS of harness/c18_values.py or list them in REPO_NOBODY_OK with a reason" % len(m["repo_callees_without_body"]),
                  "\n".join(m["repo_callees_without_body"][:60]))
    if m.get("external_callees_not_in_table"):
        chk.notes.append("external (libstdc++/GMP/libc) callees not in the effect table of harness/c18_values.py, assumed effect-free: " +
                         ", ".join("%s x%d" % kv for kv in sorted(m["external_callees_not_in_table"].items())))
    reads = {}
    for o in res["ops"]:
        for t in o["effects"]:
            if t[0] in ("RGlobal", "RExcluded", "WStaticInit"):
                reads.setdefault("%s %s" % tuple(t), 0)
                reads["%s %s" % tuple(t)] += 1
    chk.cov["value_classes"] = {
        "function_bodies_decided": len(res["ops"]), "reachable_from_thread_families": m.get("reachable_from_families"),
        "template_patterns_skipped": m.get("template_patterns_skipped"), "library_sources": m.get("library_sources"),
        "writers_of_statics_all_documented (category, function, statics)": sorted("[%s] %s -> %s" % (c, o["uid"], ",".join(cv.writes_of(o) + cv.random_of(o))) for o, c, _ in doc),
        "documented_writer_rules (name pattern, statics, category, reason)": [[rx, sorted(names) if names else "any", cat, why] for rx, names, cat, why in cv.DOCUMENTED_WRITERS],
        "callees_without_body": {"calls_seen": m.get("calls_seen"), "declared_in_repository_not_allowed": m.get("repo_callees_without_body"),
                                 "declared_in_repository_allowed": {"%s -> %s" % k: v for k, v in cv.REPO_NOBODY_OK.items()},
                                 "external_effect_free_by_table": m.get("external_callees_effect_free_by_table"),
                                 "external_unsafe_counted_as_static_writes": m.get("external_callees_unsafe"),
                                 "external_not_in_table_assumed_effect_free": m.get("external_callees_not_in_table")},
        "undocumented_writers": [o["uid"] for o in off],
        "ignored_statics (I/O streams: not domain state)": sorted(cv.IGNORED),
        "thread_unsafe_externals_treated_as_static_writes": sorted(cv.UNSAFE_EXTERNALS),
        "domain_classes_of_c16_inst_included": m.get("domain_classes_included"),
        "statics_only_read_or_excluded (effect, number of operations)": reads,
        "translator": {k: m.get(k) for k in ("cached", "seconds", "clang_seconds", "ast_objects", "decls_indexed", "calls_resolved", "calls_unresolved")}}
    return res


def coq_extra(chk):
    """compile the C18 engineer's files of coq/C16 (not in the shared _CoqProject: gen/RaceFreeGen.v is generated by THIS check) and
    collect Print Assumptions of RaceFreeProps.v.  Same result shape as vf.coq_check_props."""
    d = vf.coq_dir(AREA)
    res = {"ok": False, "theorems": vf.coq_theorems(os.path.join(d, "RaceFreeProps.v")), "assumptions": {}, "log": "", "forbidden": vf.forbidden_scan(d)}

    def stale(v):
        vo = os.path.join(d, v[:-2] + ".vo")
        if not os.path.exists(vo):
            return True
        t = os.path.getmtime(vo)
        deps = [os.path.join(d, v), os.path.join(d, "ObjModel.vo"), os.path.join(d, "RaceFree.vo")] + \
               [os.path.join(d, x[:-2] + ".vo") for x in EXTRA_V[:EXTRA_V.index(v)]]
        return any(os.path.exists(p) and os.path.getmtime(p) > t for p in deps)

    def once(force):
        log = ""
        for v in EXTRA_V:
            last = v == EXTRA_V[-1]
            if not (force or last or stale(v)):
                continue
            rc, o = vf.sh(["coqc", "-Q", ".", "C16", v], cwd=d, timeout=1500)
            log += "== coqc %s (rc %d)\n%s\n" % (v, rc, o[-3000:] if rc else "")
            if rc != 0:
                return rc, log, o
            force = True                      # everything after a rebuilt file is rebuilt
            if last:
                return 0, log, o
        return 0, log, ""
    rc, log, out = once(False)
    if rc != 0 and rc != 124 and TRANSIENT.search(log):
        # coq/C16 is shared with the C16 check, which may have rebuilt ObjModel.vo / RaceFree.vo under our feet: build once more
        vf.coq_make(AREA)
        rc, log, out = once(True)
    res["log"] = log[-6000:]
    if rc == 124:
        res["timeout"] = True
        return res
    if rc == 0:
        res["assumptions"] = vf.parse_assumptions(out, res["theorems"])
        res["ok"] = not res["forbidden"]
    return res


NO_COPY_IN_THREADS = {"RNSsystem<Integer,Modular<double>>"}   # Array0 members live in the process-wide free lists (excluded by the property text)
ALLOCATOR_MARKS = ("GivMMFreeList", "GivMMRefCount", "GivMMInfo", "givaromm", "BlocFreeList")


OUTSIDE_WHY = {
    "StaticElement<Modular<double>>": "not a ring / field / polynomial-domain OBJECT: an element wrapper whose domain is the documented class static _domain "
        "(StaticElement::setDomain is the documented setter, decided as such in the value sweep); its const members READ that static (effect RGlobal _domain), which "
        "C16's decider counts as history dependence and therefore lists in C18_decided_race_free; for C18 a read of a parameter that only the documented setter "
        "writes is no race (same rule as Rational::flags / rmint::p): checked here, any other effect is a failing input",
    "GFqKronecker<TT,Ints>": "gfqkronecker.h does not compile in this tree (includes givaro/givzpz.h and givzpzInt.h, which do not exist): the class cannot be "
        "instantiated, hence cannot be shared between threads; described by a textual scan only (the function-local static of polywrite is listed)",
}


def structural_c18(chk, descs):
    n_meth = n_ok = 0
    for d in descs:
        mi = om.Mirror(d)
        name = d["name"]
        claimed = [m for m in d["methods"] if mi.claimed(m)]
        off = mi.rf_offenders()
        n_meth += len(claimed)
        n_ok += len(claimed) - len(off)
        if name in C16.NO_VERDICT:
            # classes described but outside the property: say why, per class, and list what is hidden -- in full
            hidden = []
            for m in off:
                fx = [e for e in mi.eff[id(m)] if e[0] not in ("RExcluded", "WStaticInit")]
                hidden.append({"method": om.msite(m), "effects": [list(e) for e in fx]})
                if name.startswith("StaticElement") and any(e[0] != "RGlobal" or e[1] != "_domain" for e in fx):
                    # StaticElement's const members may READ the documented class static _domain (set by setDomain only); anything else is a finding
                    chk.fail_input(om.msite(m), "static-element:" + ",".join(sorted(set("%s %s" % (e[0], e[1]) for e in fx))),
                                   {"class": name, "method": om.mname(m), "effects": [list(e) for e in fx]},
                                   "const members of StaticElement only read the documented static _domain", "%s: %s" % (m["name"], fx), "")
            chk.cov.setdefault("classes_outside_the_property", {})[name] = {
                "why": OUTSIDE_WHY.get(name, C16.NO_VERDICT[name]), "listed_in_C18_decided_race_free": len(off), "methods": hidden}
            continue
        for m in off:
            fx = [e for e in mi.eff[id(m)] if e[0] not in ("RExcluded", "WStaticInit")]
            kinds = {"WOwn": "own-write", "WStaticLocal": "static-write", "WGlobal": "global-write", "RGlobal": "global-read"}
            klass = "+".join(sorted(set(kinds[e[0]] for e in fx))) + ":" + ",".join(sorted(set(e[1] for e in fx)))
            chk.fail_input(om.msite(m), klass,
                           {"class": name, "method": om.mname(m), "signature": m.get("sig"), "effects": [list(e) for e in mi.eff[id(m)]]},
                           "a const operation writes nothing another thread can see", "%s writes %s" % (m["name"], klass),
                           "description generated from the source: two threads calling this operation on one shared object race")
        if not mi.copy_rf():
            ce = om.copy_effects_of(d)
            chk.fail_input("%s::copy-constructor" % name, "shared-write:" + ",".join(sorted(set(e[1] for e in ce))),
                           {"class": name, "copy_effects": [list(e) for e in ce]}, "copy-construction from a shared object writes nothing shared",
                           "writes %s" % ",".join(sorted(set(e[1] for e in ce))),
                           "two threads copy-constructing from one shared object race on a non-atomic reference count (C18_shared_write_refuted)")
    # shared heap parts whose counter is a std::atomic: the copy constructor's increment is no data race (C18_atomic_counter: no update is
    # lost in any interleaving); a plain counter is reported above (shared-write)
    atomic = {}
    for d in descs:
        rc = d.get("rc") or {}
        if rc.get("counter"):
            ty = {f["name"]: f.get("type", "") for f in d["members"]}.get(rc["counter"], "")
            atomic[d["name"]] = {"counter": rc["counter"], "type": ty, "atomic": "atomic" in ty}
    chk.cov["reference_counts"] = atomic
    # const methods the C16 decider drops from the claim as "randomised" (claimed_b = const && !randomised): only the NAMED random entry
    # points / randomised algorithms may be dropped; an arithmetic / init / convert / comparison operation that advances a generator is a
    # failing input.  Listed in full.
    rand = []
    for d in descs:
        if d["name"] in C16.NO_VERDICT:
            continue
        mi = om.Mirror(d)
        for m in d["methods"]:
            if m["const"] and mi.randomized(m):
                names = sorted(set(e[1] for e in mi.eff[id(m)] if e[0] == "WRandom"))
                fn = "%s::%s" % (m.get("cls") or d.get("clang_name") or d["name"], m["name"])
                docd = cv.documented(fn, names)
                rand.append("%s::%s [%s] %s" % (d["name"], m["name"], ",".join(names), docd[0] if docd else "NOT A NAMED RANDOM ENTRY POINT"))
                if docd is None or not docd[0].startswith("random"):
                    chk.fail_input(om.msite(m), "random-state:" + ",".join(names), {"class": d["name"], "method": om.mname(m), "effects": [list(e) for e in mi.eff[id(m)]]},
                                   "only the named random entry points (random / nonzerorandom / seeding / RandIter / the randomised factorisation algorithms) advance a generator",
                                   "%s advances %s" % (m["name"], ",".join(names)),
                                   "a const operation of a shared object that draws from a generator writes state other threads use")
    return n_meth, n_ok, sorted(set(rand))


def _short_fn(fn):
    short = fn
    while re.search(r"<[^<>]*>", short):
        short = re.sub(r"<[^<>]*>", "", short)
    short = re.sub(r"\(.*$", "", short).strip()
    parts = [x for x in short.split("::") if x and x != "Givaro"]
    return "::".join(parts[-2:]) if parts else fn[:40]


def tsan_reports(stderr):
    """[(class under test, where, klass, excluded?, text, kind)] -- klass names the racing pair: for each of the two accesses the
    innermost function of the library (first frame below /src/ of the repository) and whether it writes"""
    out = []
    cur = "?"
    repo_mark = os.path.join(vf.REPO, "src") + "/"
    blocks = re.split(r"(?m)^(C18CLASS .*)$", stderr)
    for b in blocks:
        if b.startswith("C18CLASS "):
            cur = b[9:].strip()
            continue
        for rep in re.split(r"(?m)^=+\n", b):
            if "WARNING: ThreadSanitizer:" not in rep:
                continue
            m = re.search(r"SUMMARY: ThreadSanitizer: ([a-z\- ]+) (\S+?):(\d+)(?::\d+)? in (.*)", rep)
            kind, f, line = (m.group(1).strip(), os.path.basename(m.group(2)), m.group(3)) if m else ("data race", "?", "0")
            # the two access stacks
            acc = []
            for hm in re.finditer(r"(?m)^  ((?:Previous )?(?:[Aa]tomic )?(?:[Ww]rite|[Rr]ead)) of size \d+ at \S+ by [^\n]*\n((?:    #\d+ [^\n]*\n)+)", rep):
                w = "write" if "rite" in hm.group(1) else "read"
                fn = None
                base = re.sub(r"<.*$", "", cur)          # class under test without template arguments
                for fl in hm.group(2).splitlines():
                    fm = re.match(r"\s+#\d+ (.*?) (/\S+?):(\d+)", fl)
                    if fm and (repo_mark in fm.group(2) or "/src/kernel/" in fm.group(2) or "/src/library/" in fm.group(2)):
                        sf = _short_fn(fm.group(1))
                        if fn is None:
                            fn = sf                        # innermost library function
                        if sf.split("::")[0] == base:
                            fn = sf                        # ... preferably the innermost member of the class under test
                            break
                acc.append("%s-in:%s" % (w, fn or "?"))
            # key: the function(s) performing the WRITE (stable across schedules); the reading side only when no write stack survived
            wr = sorted(set(a for a in acc if a.startswith("write-in:") and not a.endswith(":?")))
            klass = "|".join(wr or sorted(set(acc))) or kind
            # excluded = the racing ACCESSES themselves are inside the GivMM allocator (free lists: excluded by the property text); the
            # "heap block allocated by" / thread-creation stacks do not count: a race on a cell that was merely allocated through GivMM is reported
            stacks = re.findall(r"(?m)^  (?:Previous )?(?:[Aa]tomic )?(?:[Ww]rite|[Rr]ead) of size \d+ at \S+ by [^\n]*\n((?:    #\d+ [^\n]*\n)+)", rep)
            excl = bool(stacks) and all(any(k in st for k in ALLOCATOR_MARKS) for st in stacks)
            out.append((cur, "%s:%s" % (f, line), klass, excl, rep[:3000], kind))
    return out


# ---- bounded cost of hangs / deadlocks / crashes (budgets = measured normal times x a generous factor: a std request normally takes
# <= 0.9 s CPU / 0.3 s wall, a ThreadSanitizer request <= 6 s CPU / 4 s wall on this machine)
BUDGET = {"std": {"cpu1": 10, "cpu2": 30, "wall1": 30, "wall2": 30}, "tsan": {"cpu1": 60, "cpu2": 120, "wall1": 90, "wall2": 90}}
MAX_OVERRUNS, MAX_CONFIRMATIONS, MAX_CRASHES = 6, 3, 4


class Caps:
    """shared by every stream, worker and re-run of one check run"""

    def __init__(self):
        self.lock = threading.Lock()
        self.gate = threading.Lock()          # held by a confirmation run: no new request starts meanwhile ("alone")
        self.overruns = self.confirmations = 0
        self.banned, self.crashes, self.form_locks = {}, {}, {}
        self.stopped = None
        self.skipped = []


def form_of(req):
    c = req.split()[0]
    return c.split(":", 1)[1] if c.startswith("CopyStorm:") else c


def run_one(binary, req, env, cpu, wall):
    """one request in its own harness process (own session: killed by its process-group id if it outlives the guards).  The harness child has
    RLIMIT_CPU = cpu (spinning threads: 'C cpu-limit') and alarm(wall) (deadlock: all threads blocked, no CPU: 'T timeout')"""
    e = dict(os.environ)
    e.update(env or {})
    e.update({"C18_CPU": str(cpu), "C18_ALARM": str(wall)})
    try:
        p = subprocess.Popen([binary], stdin=subprocess.PIPE, stdout=subprocess.PIPE, stderr=subprocess.PIPE, universal_newlines=True, errors="replace",
                             env=e, start_new_session=True)
    except Exception as ex:
        return None, "", "cannot start the harness: %s" % ex
    try:
        so, se = p.communicate(req, timeout=wall + 60)
    except subprocess.TimeoutExpired:
        try:
            os.killpg(p.pid, 9)               # our own process group only
        except OSError:
            pass
        so, se = p.communicate()
        t = req.split()
        so = (so or "") + "%s %s %s T timeout\n" % (t[0], t[1], t[2])
    lines = []
    for l in (so or "").splitlines():
        if l not in lines:
            lines.append(l)
    k = tuple(req.split()[:3])
    mine = [l for l in lines if tuple(l.split()[:3]) == k]
    return (" || ".join(mine) if mine else None), se or "", None


def run_requests(chk, caps, binary, reqs, jobs, kind="std", env=None):
    """drive the requests one per harness process from a shared queue.  returns ({request: answer}, stderr text).
    An answer 'C cpu-limit' / 'T timeout' is a first-stage overrun: the request is re-run ALONE with the larger budget; reproduced -> failing input
    `does-not-return`, and its form (class) is not driven any more in this run, in any stream; caps: MAX_OVERRUNS first-stage overruns and
    MAX_CONFIRMATIONS confirmations per run, then every stream stops; MAX_CRASHES crashes of a form: the form is not driven any more"""
    bud = BUDGET[kind]
    out, errs = {}, []
    todo = list(reqs)
    qlock = threading.Lock()

    def confirm(r, line):
        f = form_of(r)
        with caps.lock:
            flock = caps.form_locks.setdefault(f, threading.Lock())
        with flock:                                    # one confirmation per form; the others wait for its verdict
            with caps.lock:
                if f in caps.banned or caps.stopped:
                    return
                if caps.confirmations >= MAX_CONFIRMATIONS:
                    caps.stopped = "%d confirmations of 'does not return' in this run" % caps.confirmations
                    return
                caps.confirmations += 1
            with caps.gate:
                l2, _, _ = run_one(binary, r, env, bud["cpu2"], bud["wall2"])
            t = r.split()
            if l2 is not None and (" C cpu-limit" in l2 or " T timeout" in l2):
                how = "burn CPU without finishing" if " C cpu-limit" in l2 else "are all blocked (no CPU consumed: deadlock)"
                chk.fail_input("threads:%s" % t[0], "does-not-return", {"class": t[0], "param": int(t[1]), "threads": int(t[2]), "iterations": int(t[3]), "stream": kind},
                               "the request returns (normally within %s)" % ("0.9 s CPU / 0.3 s" if kind == "std" else "6 s CPU / 4 s"),
                               "%s | alone, budget %d s CPU / %d s wall: %s" % (line, bud["cpu2"], bud["wall2"], l2),
                               "the threads of this request %s: first stage %d s CPU / %d s wall, then alone %d s CPU / %d s wall; replay: echo '%s' | C18_CPU=%d C18_ALARM=%d c18_threads"
                               % (how, bud["cpu1"], bud["wall1"], bud["cpu2"], bud["wall2"], r.strip(), bud["cpu2"], bud["wall2"]))
                with caps.lock:
                    caps.banned[f] = "does not return (%s)" % r.strip()
            else:
                inconclusive(chk, "%s run: '%s' overran the first-stage budget (%s), alone it answered '%s': not reported" % (kind, r.strip(), line, l2))
                if l2 is not None:
                    out[r] = l2

    def work():
        while True:
            with qlock:
                if not todo:
                    return
                r = todo.pop(0)
            f = form_of(r)
            with caps.lock:
                if caps.stopped or f in caps.banned:
                    caps.skipped.append("%s: %s (%s)" % (kind, r.strip(), caps.stopped or caps.banned.get(f)))
                    continue
            with caps.gate:
                pass
            line, err, prob = run_one(binary, r, env, bud["cpu1"], bud["wall1"])
            with qlock:
                errs.append(err)
            if prob:
                inconclusive(chk, "%s run: %s" % (kind, prob))
                continue
            if line is None:
                inconclusive(chk, "%s run: no answer for '%s'" % (kind, r.strip()))
                continue
            if " C cpu-limit" in line or " T timeout" in line:
                with caps.lock:
                    caps.overruns += 1
                    if caps.overruns > MAX_OVERRUNS and not caps.stopped:
                        caps.stopped = "%d first-stage overruns in this run" % caps.overruns
                confirm(r, line)
                continue
            if " X " in line:
                with caps.lock:
                    caps.crashes[f] = caps.crashes.get(f, 0) + 1
                    if caps.crashes[f] >= MAX_CRASHES and f not in caps.banned:
                        caps.banned[f] = "%d crashes" % caps.crashes[f]
            out[r] = line
    ths = [threading.Thread(target=work) for _ in range(max(1, min(jobs, len(reqs))))]
    for t in ths:
        t.start()
    for t in ths:
        t.join()
    return out, "".join(errs)


def build_tsan(chk):
    """harness + a ThreadSanitizer-instrumented build of the library's own .C files (Rational, Integer, allocator ... live there)"""
    flags = ("-O1", "-g", "-fsanitize=thread")
    lib, log = vf.build_repo_lib(extra_flags=flags, tag="tsan")
    if lib is None:
        return None, "instrumented library: " + log[-600:]
    srcp = os.path.join(vf.ROOT, "harness", "c18_threads.C")
    key = vf.file_hash(vf.repo_sources() + [srcp] + [os.path.join(vf.ROOT, "harness", x) for x in ("c16_probes.h", "c18_values.h")], " ".join(flags) + "tsan-lib-v2")
    d = vf.mkdir(os.path.join(vf.CACHE, "h-c18_threads_tsan-%s" % key))
    b = os.path.join(d, "c18_threads_tsan")
    if os.path.exists(b):
        return b, ""
    tmpb = "%s.tmp%d" % (b, os.getpid())
    cmd = [vf.CXX] + vf.BASE_FLAGS + ["-O0", "-g", "-fsanitize=thread"] + vf.inc_flags() + ["-I" + os.path.join(vf.ROOT, "harness"), srcp, "-o", tmpb, lib,
                                                                                             "-lgmpxx", "-lgmp", "-lpthread"]
    rc, out = vf.sh(cmd, timeout=1500)
    if rc != 0:
        try:
            os.remove(tmpb)
        except OSError:
            pass
        return None, out
    os.rename(tmpb, b)
    vf.prune_cache("h-c18_threads_tsan-", keep=4)
    return b, out


def thread_requests(tier):
    reqs = []
    its = 25 if tier == "quick" else 300
    for c in THREAD_CLASSES:
        for (P, T) in ((0, 2), (1, 4), (2, 8)) if tier == "quick" else ((0, 2), (1, 3), (2, 4), (3, 8), (1, 8), (0, 6)):
            reqs.append("%s %d %d %d%s\n" % (c, P, T, its, " nocopy" if c in NO_COPY_IN_THREADS else ""))
    # thread-private values, every thread a different family (all 9 at once; pairs/quadruples at every offset; rotation)
    mi = 12 if tier == "quick" else 120
    reqs.append("Mixed<values> 0 9 %d\n" % mi)
    reqs.append("Mixed<values> 0 18 %d\n" % (mi // 2))
    for P in range(9):
        reqs.append("Mixed<values> %d 2 %d\n" % (P, mi))
    for P in (0, 3, 6):
        reqs.append("Mixed<values> %d 4 %d\n" % (P, mi))
    reqs.append("MixedRotate<values> 0 9 %d\n" % (2 * mi))
    reqs.append("MixedRotate<values> 4 5 %d\n" % (2 * mi))
    # process-wide configuration the threads must SEE: the documented setter is called in the main thread before the workers start
    for what in ("flags", "rmint", "domain", "seed-integer", "seed-recint"):
        for P in (0, 1):
            reqs.append("Config:%s %d %d %d\n" % (what, P, 1 if what.startswith("seed") else 4, 3 if tier == "quick" else 20))
    # copy storm: T threads make K LIVE copies each of one shared const object, then destroy them concurrently; exact sharer count of the
    # reference-counted classes after each phase, the shared object must still work
    for c in THREAD_CLASSES:
        if c in NO_COPY_IN_THREADS or c.startswith("Independent<"):
            continue
        if c in REFCOUNTED:
            k = REFCOUNTED[c] * (1 if tier == "quick" else 4)
            reqs.append("CopyStorm:%s 2 8 %d\n" % (c, k))
            reqs.append("CopyStorm:%s 1 16 %d\n" % (c, k // 2))
            reqs.append("CopyStorm:%s 0 2 %d\n" % (c, k))
        else:
            reqs.append("CopyStorm:%s 1 6 %d\n" % (c, 100 if tier == "quick" else 1000))
    return [r for i, r in enumerate(reqs) if r not in reqs[:i]]


def is_ok(line):
    return line is not None and line.rstrip().endswith(" ok") and "||" not in line


def report_thread_line(chk, r, line, second=None):
    t = r.split()
    kind = "crash" if " X " in line else "diff"
    fam = re.search(r"what=(\S+)", line)
    klass = kind + (":" + fam.group(1) if (t[0] in MIXED and fam) else "")
    if t[0].startswith("Config:") and fam:
        klass = kind + ":" + fam.group(1)
    if t[0].startswith("CopyStorm:") and fam:
        klass = kind + ":" + fam.group(1).split(":")[0]          # count-live / count-end / digest-...
    chk.fail_input("threads:%s" % t[0], klass, {"class": t[0], "param": int(t[1]), "threads": int(t[2]), "iterations": int(t[3])},
                   "every thread's digests equal the sequential digest", line + ((" | second run: " + second) if second else ""),
                   "replay: echo '%s' | c18_threads   (reproduced in a second run)" % r.strip())


def start_builds(chk):
    """both harness builds (plain, ThreadSanitizer + instrumented library) in the background while the translators and Coq run"""
    res = {}

    def build_std():
        try:
            res["std"] = vf.build_harness("c18_threads.C", deps=("c16_probes.h", "c18_values.h"), name="c18_threads_std", timeout=2400)
        except Exception as ex:
            res["std"] = (None, str(ex))

    def build_san():
        try:
            res["tsan"] = build_tsan(chk)
        except Exception as ex:
            res["tsan"] = (None, str(ex))

    def both():
        vf.build_repo_lib()              # once, before the two harness builds run concurrently
        jobs = [threading.Thread(target=build_std), threading.Thread(target=build_san)]
        for j in jobs:
            j.start()
        for j in jobs:
            j.join()
    t = threading.Thread(target=both)
    t.start()
    return res, t


def run_threads(chk, tier, res, builder):
    builder.join()
    caps = Caps()
    chk.cov["hang_handling"] = {"budgets_s": BUDGET, "max_first_stage_overruns": MAX_OVERRUNS, "max_confirmations": MAX_CONFIRMATIONS, "max_crashes_per_form": MAX_CRASHES}
    try:
        _run_threads(chk, tier, res, caps)
    finally:
        chk.cov["hang_handling"].update({"first_stage_overruns": caps.overruns, "confirmations": caps.confirmations, "forms_not_driven_any_more": caps.banned,
                                         "streams_stopped": caps.stopped, "requests_not_driven": caps.skipped[:60], "requests_not_driven_count": len(caps.skipped)})
        if caps.stopped or caps.banned:
            chk.notes.append("hang / crash caps in force: %s; forms not driven any more: %s; %d requests not driven (not counted as compared)"
                             % (caps.stopped, caps.banned, len(caps.skipped)))


def _run_threads(chk, tier, res, caps):
    hb, log = res.get("std", (None, "build thread died"))
    n = 0
    forms = {}
    floor = chk.cov.setdefault("floors", {})
    if hb is None:
        chk.broke("thread harness does not compile against /repo", log)
    else:
        rc, fo = vf.sh([hb, "--families"], timeout=120)
        for l in fo.splitlines():
            if "\t" in l:
                forms[l.split("\t")[0]] = {"call_forms": l.split("\t", 1)[1], "thread_runs": 0, "tsan_runs": 0}
        reqs = thread_requests(tier)
        out, err = run_requests(chk, caps, hb, reqs, jobs=3, kind="std")
        redo = []
        for r in reqs:
            line = out.get(r)
            if line is None:
                continue                         # not answered (a process timed out): already recorded as inconclusive
            t = r.split()
            if " T timeout" in line or " C cpu-limit" in line:
                continue                         # (handled inside run_requests)
            n += 1                               # only requests that were actually compared count
            chk.count(("threads", r), True)
            if t[0] in MIXED:
                nf = max(1, len(forms))
                for i, fam in enumerate(list(forms)):
                    # family (thread + offset) mod NFAM: which families this request ran concurrently
                    if t[0] == "MixedRotate<values>" or any((th + int(t[1])) % nf == i for th in range(int(t[2]))):
                        forms[fam]["thread_runs"] += int(t[3]) if t[0] == "Mixed<values>" else max(1, int(t[3]) // nf)
            if len(chk.cov["samples"]) < 6 and n % 17 == 1:
                chk.sample({"request": r.strip(), "observed": line})
            if not is_ok(line):
                redo.append((r, line))
        if redo:
            # a difference / crash must reproduce before it is reported: same request, twice the iterations
            again = ["%s %s %s %d%s\n" % (r.split()[0], r.split()[1], r.split()[2], 2 * int(r.split()[3]), " nocopy" if "nocopy" in r else "") for r, _ in redo]
            out2, _ = run_requests(chk, caps, hb, again, jobs=min(3, len(again)), kind="std")
            for (r, line), r2 in zip(redo, again):
                l2 = out2.get(r2)
                if l2 is not None and not is_ok(l2) and " T timeout" not in l2 and " C cpu-limit" not in l2:
                    report_thread_line(chk, r, line, l2)
                else:
                    inconclusive(chk, "std::thread run: '%s' answered '%s' once and '%s' in the second run (not reproduced: not reported)" % (r.strip(), line, l2))
        floor["thread_requests"] = {"compared": n, "requested": len(reqs), "floor": int(0.9 * len(reqs))}
    chk.cov["thread_runs"] = n
    tb, tlog = res.get("tsan", (None, "build thread died"))
    if tb is None:
        inconclusive(chk, "ThreadSanitizer build failed (support run skipped)", tlog)
        chk.cov["call_forms_values"] = forms
        floor["tsan_requests"] = {"compared": 0, "requested": None, "floor": 1}
        return
    reqs = []
    for c in THREAD_CLASSES:
        reqs.append("%s 1 3 %d%s\n" % (c, 2 if tier == "quick" else 6, " nocopy" if c in NO_COPY_IN_THREADS else ""))
    reqs.append("Mixed<values> 0 9 %d\n" % (1 if tier == "quick" else 3))
    reqs.append("MixedRotate<values> 0 3 %d\n" % (9 if tier == "quick" else 18))
    for c in REFCOUNTED:
        reqs.append("CopyStorm:%s 2 4 %d\n" % (c, 300 if tier == "quick" else 2000))
    for what in ("flags", "rmint", "domain"):
        reqs.append("Config:%s 1 3 1\n" % what)
    env = {"TSAN_OPTIONS": "halt_on_error=0 exitcode=0 report_signal_unsafe=0 history_size=4"}
    out, err = run_requests(chk, caps, tb, reqs, jobs=5, kind="tsan", env=env)
    if "ThreadSanitizer" in err and re.search(r"FATAL: ThreadSanitizer|ThreadSanitizer: (unexpected memory mapping|failed to)", err):
        inconclusive(chk, "ThreadSanitizer runtime unavailable in this environment", err[-300:])
    nt = 0
    for r in reqs:
        line = out.get(r)
        if line is None:
            continue
        if " T timeout" in line or " C cpu-limit" in line:
            continue
        nt += 1
        if r.split()[0] in MIXED:
            for fam in forms:
                forms[fam]["tsan_runs"] += 1
    reports = tsan_reports(err)
    first, nexcl = {}, 0
    for cls, where, klass, excl, text, kind in reports:
        if excl:
            nexcl += 1
            continue
        first.setdefault((cls, klass), (where, text, kind))
    if first:
        # like a digest difference, a sanitizer report must reproduce: the requests of the reported classes once more
        again = [r for r in reqs if r.split()[0] in set(c for c, _ in first)]
        out2, err2 = run_requests(chk, caps, tb, again, jobs=min(5, len(again)), kind="tsan", env=env)
        second = [(c, w, k) for c, w, k, ex, _, _ in tsan_reports(err2) if not ex]
        for (cls, klass), (where, text, kind) in first.items():
            if any(c == cls and (k == klass or w == where) for c, w, k in second):
                chk.fail_input("tsan:" + cls, klass, {"class": cls, "where": where, "kind": kind, "threads": 3}, "no ThreadSanitizer report", text[:2500],
                               "ThreadSanitizer build of harness/c18_threads.C + instrumented library: %s at %s (%s), reported again in a second run" % (kind, where, klass))
            else:
                inconclusive(chk, "ThreadSanitizer reported %s at %s for %s once, not in the second run of the same request: not reported" % (klass, where, cls), text[:300])
    chk.cov["tsan_classes_run"] = nt
    chk.cov["tsan_reports"] = len(reports)
    chk.cov["tsan_reports_in_excluded_allocator (both racing accesses inside GivMM)"] = nexcl
    chk.cov["call_forms_values"] = forms
    floor["tsan_requests"] = {"compared": nt, "requested": len(reqs), "floor": int(0.9 * len(reqs))}


def main(tier, replay=None):
    chk = vf.Check("C18", tier, "proof")
    chk.cov["trusted_base"] = [
        "Coq 8.16.1 kernel + vm_compute; theorems closed under the global context",
        "harness/c16_objmodel.py (clang 14 JSON AST -> per-method write footprints on shared state: own members through mutable / casts / "
        "pointers, function-local statics, class and namespace statics; callees without a body in the dump are assumed const-correct)",
        "harness/c18_values.py (same access-path analysis, looking through parentheses, on the library's own .C files + harness/c18_inst.C: "
        "every function body of Integer / Rational / RecInt / the integer domains with the statics it reads and writes; uninstantiated "
        "template patterns are skipped, their instantiations are analysed; GMP and libstdc++ bodies are not in the dump)",
        "the allow-list DOCUMENTED_WRITERS of harness/c18_values.py: setters of documented switches (Rational::SetReduce/SetNoReduce, "
        "rmint::init_module), random generators, the GivMM allocator, library start-up are the only functions that may write a static",
        "the model's notion of execution: an operation is an atomic step whose effect respects its footprint (exec_frame, exec_det); guarded "
        "initialisation of a function-local static is synchronised by the language (C++11 [stmt.dcl]/4)",
        "NOT modelled (why the claim is partial): the C++ memory model, compiler transformations, libstdc++/pthread, GMP, the hardware; "
        "ThreadSanitizer (g++ 12) and the std::thread digest runs are support, not proof",
        "harness/c18_threads.C, harness/c18_values.h, harness/c16_probes.h, checks/C18.py",
    ]
    chk.assumptions = [
        "excluded by the property text: process-wide allocator free lists (GivMMFreeList), GMP / RecInt random state; randomised operations "
        "(advancing a generator member such as Poly1FactorDom::_g) are outside the claim, which lists arithmetic, init, convert, comparisons, copy-construction",
        "elements / operands are thread-private; documented setters of process-wide parameters (Rational::SetReduce/SetNoReduce, rmint::init_module) "
        "are not called while other threads compute",
    ]
    builds, builder = start_builds(chk)
    descs, meta = C16.generate(chk)
    vres = values_model(chk)
    res = vf.coq_check_props(AREA)
    keep = [t for t in res["theorems"] if t.startswith("C18_")]
    res = dict(res, theorems=keep, assumptions={k: v for k, v in res["assumptions"].items() if k in keep})
    chk.proof_result(res, AREA)
    if vres is not None:
        res2 = coq_extra(chk)
        if res2.get("timeout"):
            inconclusive(chk, "coqc on the RaceFree* files of coq/C16 did not finish in time", res2["log"])
        else:
            chk.proof_result(res2, AREA, propfile="RaceFreeProps.v")
            chk.cov["checker_cmd"] += " (RaceFreeDisjoint.v, RaceFreeValues.v, RaceFreeAtomic.v, RaceFreeRefcount.v, RaceFreeDomains.v, gen/RaceFreeGen.v, RaceFreeProps.v are compiled by checks/C18.py with coqc -Q . C16, in this order)"
    if descs:
        n_meth, n_ok, rand = structural_c18(chk, descs)
        chk.cov["claimed_const_methods"] = n_meth
        chk.cov["methods_decided_race_free"] = n_ok
        chk.cov["randomised_operations_outside_claim (class::method [generator state] rule)"] = rand
        chk.cov["classes"] = C16.describe_for_evidence(descs)
    run_threads(chk, tier, builds, builder)
    # floors: what must actually have been compared / re-checked for this run to count; tooling problems never pass silently
    fl = chk.cov.setdefault("floors", {})
    fl["theorems_rechecked"] = {"compared": chk.cov.get("discharged", 0), "requested": chk.cov.get("obligations", 0), "floor": 30}
    fl["function_bodies_decided"] = {"compared": (chk.cov.get("value_classes") or {}).get("function_bodies_decided", 0), "requested": None, "floor": 3000}
    missed = sorted(k for k, v in fl.items() if (v.get("compared") or 0) < (v.get("floor") or 0))
    chk.cov["floor_missed"] = missed
    chk.cov["inconclusive"] = [x["what"] for x in chk.cov.get("inconclusive_streams", [])]
    if missed:
        chk.notes.insert(0, "FLOOR MISSED (tooling, not a verdict): %s -- this run did NOT compare what a full run compares" % ", ".join(missed))
    chk.cov["rule"] = ("per class in scope: one shared object, (parameter set, threads) in {(0,2),(1,4),(2,8)} (thorough: 6 combinations up to 8 threads, "
                       "300 iterations); each thread repeats probe(shared) / copy-construct / probe(copy) / destroy and compares every digest with the "
                       "sequential digest; Mixed<values>: 9 operation families on thread-private Integer / Rational / ruint / rint / rmint values "
                       "(constructors from every native type incl. +-0 / denormal / huge doubles, arithmetic, comparisons, I/O to private streams, "
                       "conversions), thread t runs family (t+offset) mod 9: all 9 at once, 18 threads, every pair of neighbours, quadruples, rotation; "
                       "every digest against the family's sequential digest, all families once more after the threads ended; CopyStorm:<class>: T threads make K live "
                       "copies each of one shared const object and destroy them concurrently; Config:<flags|rmint|domain|seed-integer|seed-recint>: the documented process-wide "
                       "setter is called in the main thread before 4 workers (1 for seeds) start, every worker must give the main thread's digest; CopyStorm counts: exact sharer count of Modular<Log16> and the domains over it "
                       "(K = 20000 / 5000 / 2000; 2, 8, 16 threads) after each phase, every other class 6 x 100 copies; plus a ThreadSanitizer "
                       "build (harness + instrumented library) of the same scenarios; a difference must reproduce in a second run; every run is "
                       "non-trivial (>= 2 threads); distinct = (class, parameter set, threads, iterations)")
    return chk.finish()
