# C18 — Const use of a shared domain object from several threads is race-free.   (DESIGN 5/C18)  claimed PARTIAL
# proof : coq/C16/RaceFree.v — for any number of threads and any interleaving of operations whose write footprint contains no
#         shared location: no conflicting access pair, and every thread's results equal its sequential results; the per-class
#         decision (which const operations / copy-construction write shared state) is re-computed by vm_compute on the
#         description generated from /repo's current source (shared with C16: harness/c16_objmodel.py).
# tie   : translator (clang AST -> footprints); support runs: harness/c18_threads.C with 2-8 std::threads on one shared object
#         (per-thread digests against the sequential digest) and the same file built with -fsanitize=thread.
# NOT modelled: the C++ memory model, the compiler, the thread library, the hardware.
import json, os, re, sys, threading, time
import vf
import C16
sys.path.insert(0, os.path.join(vf.ROOT, "harness"))
import c16_objmodel as om

AREA = "C16"
THREAD_CLASSES = C16.HIST_CLASSES + ["QField<Rational>", "Independent<Integer,Rational,ruint>"]
NO_COPY_IN_THREADS = {"RNSsystem<Integer,Modular<double>>"}   # Array0 members live in the process-wide free lists (excluded by the property text)
ALLOCATOR_MARKS = ("GivMMFreeList", "GivMMRefCount", "GivMMInfo", "givaromm", "BlocFreeList")


def structural_c18(chk, descs):
    n_meth = n_ok = 0
    for d in descs:
        mi = om.Mirror(d)
        name = d["name"]
        claimed = [m for m in d["methods"] if mi.claimed(m)]
        off = mi.rf_offenders()
        n_meth += len(claimed)
        n_ok += len(claimed) - len(off)
        if name in C16.NO_VERDICT:
            if off:
                chk.notes.append("%s: %d const methods touch shared state (%s)" % (name, len(off), C16.NO_VERDICT[name]))
            continue
        for m in off:
            fx = [e for e in mi.eff[id(m)] if e[0] not in ("RExcluded", "WStaticInit")]
            kinds = {"WOwn": "own-write", "WStaticLocal": "static-write", "WGlobal": "global-write", "RGlobal": "global-read"}
            klass = "+".join(sorted(set(kinds[e[0]] for e in fx))) + ":" + ",".join(sorted(set(e[1] for e in fx)))
            chk.fail_input(om.msite(m), klass,
                           {"class": name, "method": om.mname(m), "signature": m.get("sig"), "effects": [list(e) for e in mi.eff[id(m)]]},
                           "a const operation writes nothing another thread can see", "%s writes %s" % (m["name"], klass),
                           "description generated from the source: two threads calling this operation on one shared object race")
        if not mi.copy_rf():
            ce = om.copy_effects_of(d)
            chk.fail_input("%s::copy-constructor" % name, "shared-write:" + ",".join(sorted(set(e[1] for e in ce))),
                           {"class": name, "copy_effects": [list(e) for e in ce]}, "copy-construction from a shared object writes nothing shared",
                           "writes %s" % ",".join(sorted(set(e[1] for e in ce))),
                           "two threads copy-constructing from one shared object race on a non-atomic reference count (C18_shared_write_refuted)")
    rand = sorted(set("%s::%s" % (d["name"], m["name"]) for d in descs if d["name"] not in C16.NO_VERDICT
                      for m in d["methods"] if m["const"] and om.Mirror(d).randomized(m)))
    return n_meth, n_ok, rand


def _short_fn(fn):
    short = fn
    while re.search(r"<[^<>]*>", short):
        short = re.sub(r"<[^<>]*>", "", short)
    short = re.sub(r"\(.*$", "", short).strip()
    parts = [x for x in short.split("::") if x and x != "Givaro"]
    return "::".join(parts[-2:]) if parts else fn[:40]


def tsan_reports(stderr):
    """[(class under test, where, klass, excluded?, text, kind)] -- klass names the racing pair: for each of the two accesses the
    innermost function of the library (first frame below /src/ of the repository) and whether it writes"""
    out = []
    cur = "?"
    repo_mark = os.path.join(vf.REPO, "src") + "/"
    blocks = re.split(r"(?m)^(C18CLASS .*)$", stderr)
    for b in blocks:
        if b.startswith("C18CLASS "):
            cur = b[9:].strip()
            continue
        for rep in re.split(r"(?m)^=+\n", b):
            if "WARNING: ThreadSanitizer:" not in rep:
                continue
            m = re.search(r"SUMMARY: ThreadSanitizer: ([a-z\- ]+) (\S+?):(\d+)(?::\d+)? in (.*)", rep)
            kind, f, line = (m.group(1).strip(), os.path.basename(m.group(2)), m.group(3)) if m else ("data race", "?", "0")
            # the two access stacks
            acc = []
            for hm in re.finditer(r"(?m)^  ((?:Previous )?(?:[Aa]tomic )?(?:[Ww]rite|[Rr]ead)) of size \d+ at \S+ by [^\n]*\n((?:    #\d+ [^\n]*\n)+)", rep):
                w = "write" if "rite" in hm.group(1) else "read"
                fn = None
                base = re.sub(r"<.*$", "", cur)          # class under test without template arguments
                for fl in hm.group(2).splitlines():
                    fm = re.match(r"\s+#\d+ (.*?) (/\S+?):(\d+)", fl)
                    if fm and (repo_mark in fm.group(2) or "/src/kernel/" in fm.group(2) or "/src/library/" in fm.group(2)):
                        sf = _short_fn(fm.group(1))
                        if fn is None:
                            fn = sf                        # innermost library function
                        if sf.split("::")[0] == base:
                            fn = sf                        # ... preferably the innermost member of the class under test
                            break
                acc.append("%s-in:%s" % (w, fn or "?"))
            # key: the function(s) performing the WRITE (stable across schedules); the reading side only when no write stack survived
            wr = sorted(set(a for a in acc if a.startswith("write-in:") and not a.endswith(":?")))
            klass = "|".join(wr or sorted(set(acc))) or kind
            excl = any(k in rep for k in ALLOCATOR_MARKS)
            out.append((cur, "%s:%s" % (f, line), klass, excl, rep[:3000], kind))
    return out


def run_threads(chk, tier):
    res = {}
    vf.build_repo_lib()              # once, before the two harness builds run concurrently

    def build(tag, flags):
        res[tag] = vf.build_harness("c18_threads.C", extra_flags=flags, deps=("c16_probes.h",), name="c18_threads_" + tag)
    jobs = [threading.Thread(target=build, args=("std", ())), threading.Thread(target=build, args=("tsan", ("-O0", "-g", "-fsanitize=thread")))]
    for j in jobs:
        j.start()
    for j in jobs:
        j.join()
    hb, log = res["std"]
    n = 0
    if hb is None:
        chk.broke("thread harness does not compile against /repo", log)
    else:
        reqs = []
        its = 25 if tier == "quick" else 300
        for c in THREAD_CLASSES:
            for (P, T) in ((0, 2), (1, 4), (2, 8)) if tier == "quick" else ((0, 2), (1, 3), (2, 4), (3, 8), (1, 8), (0, 6)):
                reqs.append("%s %d %d %d%s\n" % (c, P, T, its, " nocopy" if c in NO_COPY_IN_THREADS else ""))
        ok, out, err = C16.run_parallel(hb, reqs, jobs=3, timeout=1500)
        if not ok:
            chk.broke("thread harness failed (lost output lines)", err[-2000:])
        else:
            for r, line in zip(reqs, out):
                t = r.split()
                n += 1
                chk.count(("threads", r), True)
                if len(chk.cov["samples"]) < 6 and n % 17 == 1:
                    chk.sample({"request": r.strip(), "observed": line})
                if " ok" in line:
                    continue
                kind = "crash" if " X " in line else "diff"
                chk.fail_input("threads:%s" % t[0], kind, {"class": t[0], "param": int(t[1]), "threads": int(t[2]), "iterations": int(t[3])},
                               "every thread's digests equal the sequential digest", line,
                               "replay: echo '%s' | c18_threads" % r.strip())
    chk.cov["thread_runs"] = n
    tb, tlog = res["tsan"]
    if tb is None:
        chk.notes.append("ThreadSanitizer build failed (support run skipped): " + tlog[-300:])
        return
    reqs = []
    for c in THREAD_CLASSES:
        reqs.append("%s 1 3 %d%s\n" % (c, 2 if tier == "quick" else 6, " nocopy" if c in NO_COPY_IN_THREADS else ""))
    env = {"TSAN_OPTIONS": "halt_on_error=0 exitcode=0 report_signal_unsafe=0 history_size=4"}
    reports = []
    lock = threading.Lock()

    def work(chunk):
        try:
            import subprocess
            e = dict(os.environ); e.update(env)
            p = subprocess.run([tb], input="".join(chunk), stdout=subprocess.PIPE, stderr=subprocess.PIPE, universal_newlines=True,
                               errors="replace", timeout=1500, env=e)
            with lock:
                reports.extend(tsan_reports(p.stderr))
                res.setdefault("tsan_out", []).extend(p.stdout.splitlines())
        except Exception as ex:
            with lock:
                res.setdefault("tsan_err", []).append(str(ex))
    nj = 4
    ths = [threading.Thread(target=work, args=(reqs[i::nj],)) for i in range(nj)]
    for t in ths:
        t.start()
    for t in ths:
        t.join()
    if res.get("tsan_err"):
        chk.notes.append("ThreadSanitizer run problems: " + "; ".join(res["tsan_err"])[:300])
    seen = set()
    nexcl = 0
    for cls, where, klass, excl, text, kind in reports:
        if excl:
            nexcl += 1
            continue
        key = (cls, klass)
        if key in seen:
            continue
        seen.add(key)
        chk.fail_input("tsan:" + cls, klass, {"class": cls, "where": where, "kind": kind, "threads": 3}, "no ThreadSanitizer report", text[:2500],
                       "ThreadSanitizer build of harness/c18_threads.C: %s at %s (%s)" % (kind, where, klass))
    chk.cov["tsan_classes_run"] = len(res.get("tsan_out", []))
    chk.cov["tsan_reports"] = len(reports)
    chk.cov["tsan_reports_in_excluded_allocator"] = nexcl


def main(tier, replay=None):
    chk = vf.Check("C18", tier, "proof")
    chk.cov["trusted_base"] = [
        "Coq 8.16.1 kernel + vm_compute; theorems closed under the global context",
        "harness/c16_objmodel.py (clang 14 JSON AST -> per-method write footprints on shared state: own members through mutable / casts / "
        "pointers, function-local statics, class and namespace statics; callees without a body in the dump are assumed const-correct)",
        "the model's notion of execution: an operation whose write footprint is empty is an atomic read-only step; guarded initialisation of a "
        "function-local static is synchronised by the language (C++11 [stmt.dcl]/4)",
        "NOT modelled (why the claim is partial): the C++ memory model, compiler transformations, libstdc++/pthread, the hardware; "
        "ThreadSanitizer (g++ 12, -O0) and the std::thread digest run are support, not proof",
        "harness/c18_threads.C, harness/c16_probes.h, checks/C18.py",
    ]
    chk.assumptions = [
        "excluded by the property text: process-wide allocator free lists (GivMMFreeList), GMP random state; randomised operations "
        "(advancing a generator member such as Poly1FactorDom::_g) are outside the claim, which lists arithmetic, init, convert, comparisons, copy-construction",
        "elements / operands are thread-private",
    ]
    descs, meta = C16.generate(chk)
    res = vf.coq_check_props(AREA)
    keep = [t for t in res["theorems"] if t.startswith("C18_")]
    res = dict(res, theorems=keep, assumptions={k: v for k, v in res["assumptions"].items() if k in keep})
    chk.proof_result(res, AREA)
    if descs:
        n_meth, n_ok, rand = structural_c18(chk, descs)
        chk.cov["claimed_const_methods"] = n_meth
        chk.cov["methods_decided_race_free"] = n_ok
        chk.cov["randomised_operations_outside_claim"] = rand[:60]
        chk.cov["classes"] = C16.describe_for_evidence(descs)
    run_threads(chk, tier)
    chk.cov["rule"] = ("per class in scope: one shared object, (parameter set, threads) in {(0,2),(1,4),(2,8)} (thorough: 6 combinations up to 8 threads, "
                       "300 iterations); each thread repeats probe(shared) / copy-construct / probe(copy) / destroy and compares every digest with the "
                       "sequential digest; plus a ThreadSanitizer build of the same harness with 3 threads; every run is non-trivial (>= 2 threads); "
                       "distinct = (class, parameter set, threads, iterations)")
    return chk.finish()
