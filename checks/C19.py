# C19 — text output read back yields the same value.   (DESIGN 5/C19, frag/C19.design.md)
# proof:  coq/C19 (printers/parsers on character lists with the eof/fail bits; round-trip theorems for all values)
# tie:    correspondence: extracted model  vs  the stream operators / read / write members of /repo's current sources
# search: python specification oracles written at grammar level (decimal integers, n/d, "deg c_deg .. c_0",
#         the algebraic polynomial syntax), independent of the Coq model; they decide what is a failing input
import os, re, sys, math
from fractions import Fraction
import vf

AREA = "C19"
WS = "\t\n\v\f\r "


def hx(s):
    return "".join("%02x" % ord(c) for c in s) if s else "-"


def unhx(h):
    return "" if h == "-" else "".join(chr(int(h[i:i + 2], 16)) for i in range(0, len(h), 2))


# ------------------------------------------------------------------ specification oracles (python)
def py_int_read(t, old, base=10):
    """formatted extraction of an integer: white space, optional sign, digits.  -> (value, rest, eof, fail)"""
    digs = {10: "0123456789", 16: "0123456789abcdefABCDEF", 8: "01234567"}[base]
    n = len(t)
    i = 0
    while i < n and t[i] in WS:
        i += 1
    if i == n:
        return (old, "", True, True)
    neg = False
    if t[i] in "+-":
        neg = t[i] == "-"
        i += 1
        if i == n:
            return (old, "", True, True)
    j = i
    while j < n and t[j] in digs:
        j += 1
    if j == i:
        return (old, t[i:], False, True)
    v = int(t[i:j], base)
    return (-v if neg else v, t[j:], j == n, False)


def py_numget(t, lo, hi, old):
    """C++ num_get for a signed integral type with range [lo,hi] (C locale, dec, skipws)"""
    n = len(t)
    i = 0
    while i < n and t[i] in WS:
        i += 1
    if i == n:
        return (old, "", True, True)
    neg = False
    if t[i] in "+-":
        neg = t[i] == "-"
        i += 1
    j = i
    while j < n and t[j].isdigit() and t[j] in "0123456789":
        j += 1
    if j == i:
        return (0, t[i:], i == n, True)
    v = int(t[i:j])
    v = -v if neg else v
    if v < lo:
        return (lo, t[j:], j == n, True)
    if v > hi:
        return (hi, t[j:], j == n, True)
    return (v, t[j:], j == n, False)


class PStream:
    """stream state for reading several values in a row"""
    def __init__(self, t):
        self.t, self.e, self.f = t, False, False

    def good(self):
        return not self.e and not self.f

    def read_int(self, old):
        if not self.good():
            self.f = True
            return old
        v, r, e, f = py_int_read(self.t, old)
        self.t, self.e, self.f = r, e, f
        return v

    def read_rat(self):
        if not self.good():
            self.f = True
            return None
        v, r, e, f = py_rat_read(self.t)
        self.t, self.e, self.f = r, e, f
        return v


def gmp_fmt(z, base, width, fill, showpos, showbase, upper, adj):
    """GMP's operator<<(ostream&, mpz) under stream flags (documented in the GMP manual, C++ formatted output)"""
    mag = {10: "%d", 16: "%x", 8: "%o"}[base] % abs(z)
    pre = ""
    if showbase and base == 16:
        pre = "0x"
    elif showbase and base == 8:
        pre = "0"
    body = pre + mag
    if upper:
        body = body.upper()
    sign = "-" if z < 0 else "+" if showpos else ""
    pad = (fill or " ") * max(0, width - len(sign + body))
    return pad + sign + body if adj == "r" else sign + body + pad if adj == "l" else sign + pad + body


def nxc(t):
    return "--" if not t else "%02x" % ord(t[0])


SEPS = [" ", "\n", "\t", "  ", " \n ", "\r\n", "\v", "\f", " \t "]


STATE = {"tmp0": False}       # set by main from the sources: do the num_get-based readers initialise their temporary?


def py_coef_read(ps, reader, lohi):
    """one coefficient through the ring's reader on the PStream ps -> integer, or None when the reader's temporary is
    never assigned (`T tmp; is >> tmp;` whose sentry fails: stream not good, or only white space left)"""
    if reader == "int":
        return ps.read_int(0)
    if not ps.good():
        ps.f = True
        return 0 if STATE["tmp0"] else None
    if ps.t.strip(WS) == "":
        ps.t, ps.e, ps.f = "", True, True
        return 0 if STATE["tmp0"] else None
    v, r, e, f = py_numget(ps.t, lohi[0], lohi[1], 0)
    ps.t, ps.e, ps.f = r, e, f
    return v


def py_poly_read(text, p, fixed, reader="int", lohi=None, old=None):
    """Poly1Dom::read ("deg c_deg .. c_0") on ANY text, stream good at entry, P holding `old` (residues).
    fixed = the tree has the guarded body of frag/C19.fix-5.
    -> (coefficients low degree first mod p, None = unspecified; rest; eof; fail), or "UB" for the unguarded body when no
    degree is assigned / the degree is negative, or None when the degree is not usable here"""
    old = list(old or [])
    ps = PStream(text)
    if text.strip(WS) == "":
        return (old, "", True, True) if fixed else "UB"
    v, r, e, f = py_numget(text, I64[0], I64[1], 0)
    ps.t, ps.e, ps.f = r, e, f
    if f and fixed:
        return (old, r, e, True)
    if v < 0:
        return ([], r, e, f) if fixed else "UB"
    if v > 100000:
        return None
    cs = [py_coef_read(ps, reader, lohi) for _ in range(v + 1)]
    return ([None if c is None else c % p for c in reversed(cs)], ps.t, ps.e, ps.f)


def coefs_match(pred, got_text):
    """predicted coefficient list (None = unspecified) against the harness' comma list"""
    g = [] if got_text == "-" else got_text.split(",")
    return len(g) == len(pred) and all(x is None or str(x) == y for x, y in zip(pred, g))


def poly_rem(cs, irr, p):
    """cs mod irr over Z/p (lists low degree first), trailing zeros stripped"""
    cs = [c % p for c in cs]
    ir = [c % p for c in irr]
    while ir and ir[-1] == 0:
        ir.pop()
    inv = pow(ir[-1], -1, p)
    while len(cs) >= len(ir):
        q = cs[-1] * inv % p
        if q:
            for i in range(len(ir)):
                cs[len(cs) - len(ir) + i] = (cs[len(cs) - len(ir) + i] - q * ir[i]) % p
        cs.pop()
    while cs and cs[-1] == 0:
        cs.pop()
    return cs


def seq_expect(sp):
    """specification oracle for n reads into ONE variable: per read (value or None = not specified, 'ef' or None,
    next character or None), then the characters left (or None).  The value never depends on what the variable held,
    except that a failed Integer read leaves it untouched."""
    typ, ps, out = sp["typ"], PStream(sp["text"]), []
    cur = sp.get("old")
    degless = []
    curP = [c % sp["p"] for c in sp.get("oldcs", [])] if typ in ("poly", "ext") else None
    for _ in range(sp["n"]):
        entry_good = ps.good()
        v, ef_ok, nx_ok = None, True, True
        if typ == "int" and sp.get("base"):
            if not entry_good:
                ps.f = True
            else:
                cur, r, e, f = py_int_read(ps.t, cur, sp["base"])
                ps.t, ps.e, ps.f = r, e, f
            v = str(cur)
        elif typ == "int":
            cur = ps.read_int(cur)
            v = str(cur)
        elif typ == "rat":
            q = ps.read_rat()
            v = None if q is None else "EXC" if q == "EXC" else "%d/%d" % q
            if q == "EXC":
                ef_ok = False
            if ps.f or q == "EXC":
                nx_ok = False
        elif typ in ("elt", "gfq"):
            p = sp["p"]
            sentry_failed = False
            if not entry_good:
                ps.f = True
                z, f = 0, True
                sentry_failed = True
            elif sp["reader"] != "int" and ps.t.strip(WS) == "":
                ps.t, ps.e, ps.f = "", True, True
                z, f = 0, True
                sentry_failed = True
            elif sp["reader"] == "int":
                z, r, e, f = py_int_read(ps.t, 0)
                ps.t, ps.e, ps.f = r, e, f
            else:
                z, r, e, f = py_numget(ps.t, sp["lo"], sp["hi"], 0)
                ps.t, ps.e, ps.f = r, e, f
            if entry_good and not f and abs(z) < p and (z >= 0 or sp.get("neg_ok")):
                v = str(z % p)
            elif sentry_failed and (sp["reader"] == "int" or sp.get("tmp0")):
                v = "0"                 # the temporary is 0 (Integer tmp; / T tmp = 0;): the element becomes init(0)
        elif typ in ("ru", "ri"):
            N = 1 << sp["K"]
            if not entry_good:
                ps.f = True
                g = 0
            else:
                g, r, e, f = py_int_read(ps.t, 0, 16 if sp["hex"] else 10)
                ps.t, ps.e, ps.f = r, e, f
            w = g % 2**N
            if typ == "ri" and w >= 2**(N - 1):
                w -= 2**N
            if g >= 0 or typ == "ri":
                v = str(w)
        elif typ in ("poly", "ext"):
            # the specification is the guarded reader (no degree -> P untouched + failbit; negative degree -> zero polynomial);
            # the reads where the unguarded body is undefined are remembered in `degless`
            p = sp["p"]
            reader, lohi = sp.get("reader", "int"), sp.get("lohi")
            if not entry_good:
                ps.f = True
                degless.append(len(out))
            else:
                if py_poly_read(ps.t, p, False, reader, lohi, curP) == "UB":
                    degless.append(len(out))
                r = py_poly_read(ps.t, p, sp["fixed"] or bool(degless and degless[-1] == len(out)), reader, lohi, curP)
                if r is None:
                    ps.f = True
                    curP = None
                else:
                    curP, ps.t, ps.e, ps.f = list(r[0]), r[1], r[2], r[3]
            if curP is not None and all(x is not None for x in curP):
                cs = poly_rem(curP, sp["irr"], p) if typ == "ext" else curP
                if typ == "ext":
                    curP = cs
                v = ",".join(str(x) for x in cs) or "-"
        out.append((v, st(ps.e, ps.f) if ef_ok else None, nxc(ps.t) if nx_ok else None))
    return out, (hx(ps.t) if not (typ == "rat" and ps.f) else None), degless


def py_rat_read(t):
    """rational: INTEGER [ blanks '/' INTEGER ].  -> (value or None = unspecified or 'EXC', rest, eof, fail).
    A value printed without denominator may be followed by blanks (they are consumed as look-ahead); when
    the stream ends there the value is complete and the stream is at eof, not failed."""
    v, r, e, f = py_int_read(t, 0)
    if f:
        return (None, r, e, True)
    if e:
        return ((v, 1), "", True, False)
    k = 0
    while k < len(r) and r[k] == " ":
        k += 1
    r2 = r[k:]
    if r2 == "":
        return ((v, 1), "", True, False)
    if r2[0] != "/":
        return ((v, 1), r2, False, False)
    d, r3, e3, f3 = py_int_read(r2[1:], 1)
    if f3:
        return (None, r3, e3, True)
    if d == 0:
        return ("EXC", r3, e3, False)
    q = Fraction(v, d)
    return ((q.numerator, q.denominator), r3, e3, False)


def py_set_str(t):
    """mpz_set_str(.., 10) as the GMP manual states it: leading white space, optional '-', digits, white space
    ignored inside; anything else invalid (value 0 for mpz_init_set_str)"""
    m = re.match(r"^[\t\n\v\f\r ]*(-?)([0-9][0-9\t\n\v\f\r ]*)$", t)
    if not m:
        return 0
    v = int(re.sub(r"[\t\n\v\f\r ]", "", m.group(2)))
    return -v if m.group(1) else v


def py_poly_text(var, reps):
    cs = list(reps)
    while cs and cs[-1] == 0:
        cs.pop()
    if not cs:
        return "0"
    terms = []
    for i, c in enumerate(cs):
        if c == 0:
            continue
        if i == 0:
            terms.append("1" if c == 1 else "(%d)" % c)
        else:
            mono = var if i == 1 else "%s^%d" % (var, i)
            terms.append(mono if c == 1 else "(%d)*%s" % (c, mono))
    return " + ".join(terms)


def py_poly_parse(text, var):
    """the polynomial an algebraic text denotes (dict degree -> coefficient), or None when it is not a sum of
    terms  c | (c) | (c)*X | X | (c)*X^i | X^i"""
    if text == "0":
        return {}
    res = {}
    v = re.escape(var)
    for term in text.split(" + "):
        m = re.match(r"^(?:\((-?[0-9]+)\)|(1))$", term)
        if m:
            d, c = 0, int(m.group(1) or m.group(2))
        else:
            m = re.match(r"^(?:\((-?[0-9]+)\)\*)?" + v + r"(?:\^([0-9]+))?$", term)
            if not m:
                return None
            c = int(m.group(1)) if m.group(1) is not None else 1
            d = int(m.group(2)) if m.group(2) is not None else 1
        if d in res:
            return None
        res[d] = c
    return res


# ------------------------------------------------------------------ rings
# name -> (kind: mod|bal, reader: int | word(lo,hi) | dbl(bits), extra moduli)
I32 = (-2**31, 2**31 - 1)
I64 = (-2**63, 2**63 - 1)
RINGS = {
    "i8_i8": ("mod", "int", None), "i8_i16": ("mod", "int", None), "u8_u8": ("mod", "int", None), "u8_u16": ("mod", "int", None),
    "i16_i32": ("mod", "int", None), "u16_u32": ("mod", "int", None), "i32_i32": ("mod", "int", None),
    "i32_i64": ("mod", "int", None), "u32_u64": ("mod", "int", None), "i64_i64": ("mod", "int", None),
    "i64_u64": ("mod", "int", None), "u64_u64": ("mod", "int", None),
    "i16_i16": ("mod", "int", None), "u16_u16": ("mod", "int", None), "u32_u32": ("mod", "int", None),
    "i64_u128": ("mod", "int", None), "u64_u128": ("mod", "int", None),
    "f_f": ("mod", "int", None), "f_d": ("mod", "int", None), "d_d": ("mod", "int", None),
    "bi32": ("bal", "word", I32), "bi64": ("bal", "word", I64),
    "bf": ("bal", "dbl", (-2**24, 2**24)), "bd": ("bal", "dbl", (-2**53, 2**53)),
    "ef": ("mod", "word", I64), "ed": ("mod", "word", I64),
    "zz": ("mod", "int", None), "ru6_6": ("mod", "int", None), "ru7_7": ("mod", "int", None), "ru7_8": ("mod", "int", None),
    "mg32": ("mod", "int", None), "mgru7": ("mod", "int", None), "log16": ("mod", "int", None),
}
RING_CXX = {
    "bd": "ModularBalanced<double>", "bf": "ModularBalanced<float>", "bi32": "ModularBalanced<int32_t>",
    "bi64": "ModularBalanced<int64_t>", "ef": "ModularExtended<float>", "ed": "ModularExtended<double>",
    "rmint": "RecInt::rmint", "zz": "Modular<Integer>", "mg32": "Montgomery<int32_t>", "mgru7": "Montgomery<ruint<7>>", "log16": "Modular<Log16>",
}
PRIMES = [3, 5, 7, 11, 13, 101, 127, 251, 257, 4093, 8191, 16381, 32749, 40499, 65521, 131071, 2097143, 16777213, 94906249,
          189812507, 2147483629, 4294967291, 6074000981, 1125899906842597, 18446744073709551557,
          340282366920938463463374607431768211297]
POLY_RINGS = ["i32_i64", "d_d", "zz", "bi32", "i8_i16", "mg32", "bd", "u64_u64"]
VARS = ["X", "x", "Y1", "alpha", "T_0", "Z"]


def ring_moduli(name, maxc):
    if name == "zz":
        return [3, 101, 2**64 + 13, 10**30 + 57, 2147483629]
    ps = [p for p in PRIMES if p <= maxc]
    sel = [ps[0]] + ps[-2:] + ([101] if 101 <= maxc else []) + ([ps[len(ps) // 2]])
    if name not in ("log16", "mg32", "mgru7"):
        sel.append(maxc)          # the largest modulus need not be prime for text I/O
        if name in ("i8_i8", "u8_u8"):
            sel.append(10)
    out = []
    for p in sel:
        if p not in out and p >= 3:
            out.append(p)
    return out


def rep_of(kind, p, z):
    r = z % p
    if kind == "bal" and r > p // 2:
        r -= p
    return r


TAILS_ANY = ["", " ", "\n", "\t", "  ", " x", "x", ",", ";7", " 5", " -5", "-5", "+5", "/3", " /3", "  /  3", "/ -3", "/x", "/", " /",
             "5", "07", " \n", "\r\n", "a", "A", "/0"]
TAILS_ANY += [c + "7" for c in "!\"#$%&'()*,.:;<=>?@[\\]^_`{|}~"] + ["e5", "E5", ".5", "p1", "l", "L", "u", "\x7f", "\x80"]
TAILS_DBL = [t for t in TAILS_ANY if not t or t[0] not in ".eE0123456789"]


def int_boundaries():
    """values at representation boundaries: word limits of every width, limb limits, digit-count limits"""
    vs = [0, 1, 9, 10, 99, 100]
    for e in (7, 8, 15, 16, 31, 32, 53, 62, 63, 64, 65, 127, 128, 129, 191, 192, 256):
        vs += [2**e - 1, 2**e, 2**e + 1]
    for e in (9, 10, 18, 19, 20, 38, 39, 77, 78):
        vs += [10**e - 1, 10**e]
    vs += [2**63 + 12345, 2**64 - 2**32, 3 * 2**62]
    out = []
    for v in vs:
        for w in (v, -v):
            if w not in out:
                out.append(w)
    return out


def gen_int(rng):
    k = rng.below(12)
    if k == 0:
        return rng.choice([0, 1, -1, 9, -9, 10, -10, 99, 100, -100])
    if k == 1:
        e = rng.range(1, 80)
        v = 10 ** e + rng.choice([-1, 0, 1])
        return -v if rng.chance(1, 2) else v
    if k == 2:
        e = rng.choice([31, 32, 63, 64, 127, 128, 192, 256])
        v = 2 ** e + rng.choice([-1, 0, 1])
        return -v if rng.chance(1, 2) else v
    return vf.structured_int(rng, maxlimbs=5)


def gen_rat(rng):
    n = gen_int(rng)
    k = rng.below(6)
    if k == 0:
        d = 1
    elif k == 1:
        d = rng.choice([2, 3, 10, 2**64, 2**64 + 1, 10**20])
    else:
        d = abs(gen_int(rng)) or 1
    if rng.chance(1, 12):
        n = 0
    q = Fraction(n, d)
    return q.numerator, q.denominator


def adversarial(rng, alphabet=" \t\n+-/0123456789x", maxlen=9):
    return "".join(alphabet[rng.below(len(alphabet))] for _ in range(rng.below(maxlen + 1)))


def source_constants(chk):
    """constants / literals of /repo's CURRENT sources that the model and its theorems rely on, read on every run.
    A value that differs from the model's is a broken correspondence; a pattern that is no longer found is recorded as
    inconclusive (the behaviour is still covered by the correspondence run)."""
    out = {}

    def src(rel):
        try:
            return open(os.path.join(vf.REPO, rel), errors="replace").read()
        except OSError:
            return None
    # 1. RecInt display_dec: the digit buffer must hold every decimal digit of a 2^K-bit number (C19_ruint_dec_roundtrip
    #    models the repaired loop, which never cuts).  The size expression is evaluated for every K the recursion allows.
    t = src("src/kernel/recint/rudisplay.h")
    m = re.search(r"char\s+result\s*\[([^\]]+)\]", t or "")
    if not m:
        out["recint.display_dec.buffer"] = "pattern not found"
        chk.broke("source tie lost: `char result[...]` of display_dec not found in rudisplay.h (the buffer theorem C19_ruint_dec_buffer can no longer be re-checked against the source)")
    else:
        expr = m.group(1)
        pyexpr = re.sub(r"size_t\s*\(\s*(\d+)\s*\)", r"\1", expr)
        pyexpr = re.sub(r"\b(\d+)[uUlL]+\b", r"\1", pyexpr).replace("/", "//")
        bad = []
        sizes = {}
        try:
            if not re.fullmatch(r"[0-9K\s()+\-*/<>]+", pyexpr):
                raise ValueError("unexpected token")
            for K in range(6, 17):
                sz = int(eval(pyexpr, {"__builtins__": {}}, {"K": K}))
                need = int((2 ** K) * math.log10(2)) + 1       # decimal digits of 2^(2^K) - 1
                sizes[K] = [sz, need]
                if sz < need:
                    bad.append("K=%d: %d < %d digits" % (K, sz, need))
            out["recint.display_dec.buffer"] = {"expr": expr.strip(), "size_vs_digits": sizes}
            if bad:
                chk.broke("rudisplay.h: the digit buffer `char result[%s]` of display_dec is shorter than the longest decimal numeral of ruint<K>: %s"
                          % (expr.strip(), "; ".join(bad)))
        except Exception as ex:
            out["recint.display_dec.buffer"] = "expression `%s` not evaluated: %s" % (expr.strip(), ex)
            chk.broke("source tie lost: the size expression `%s` of display_dec's buffer cannot be evaluated (%s)" % (expr.strip(), ex))
    # 2. Rational reader: the only character skipped by the look-ahead, and the fraction bar (model: 32, 47)
    t = src("src/kernel/rational/givratio.C") or ""
    m1 = re.search(r"while\s*\(\s*\(\s*ch\s*==\s*'(.)'\s*\)\s*&&\s*\(?\s*in\s*\)?\s*\)", t)
    m2 = re.findall(r"if\s*\(\s*ch\s*==\s*'(.)'\s*\)", t)
    out["rational.lookahead.skip"] = m1.group(1) if m1 else "pattern not found"
    out["rational.lookahead.bar"] = m2 if m2 else "pattern not found"
    if not m1 or not m2:
        chk.broke("source tie lost: the look-ahead loop `while ((ch==' ') && (in))` / the test `if (ch == '/')` not found in givratio.C")
    m3 = re.search(r"if\s*\(\s*den\s*>\s*1\s*\)", t)           # Rational::print: denominator printed iff den > 1 (model: rat_write)
    out["rational.print.den_test"] = "den > 1" if m3 else "pattern not found"
    if not m3:
        chk.broke("source tie lost: `if (den > 1)` of Rational::print not found in givratio.C (model rat_write prints the denominator iff 1 < d)")
    if m1 and m1.group(1) != " ":
        chk.broke("givratio.C: the look-ahead skips %r, the model (blank_loop) skips ' '" % m1.group(1))
    if m2 and m2 != ["/"]:
        chk.broke("givratio.C: fraction bar tests %r, the model (rat_read) has only '/'" % m2)
    # 3. Integer(const char*): base handed to mpz_init_set_str (model: mpz_set_str10)
    t = src("src/kernel/gmp++/gmp++_int_cstor.C") or ""
    m = re.search(r"Integer::Integer\s*\(\s*const\s+char\s*\*\s*\w*\s*\)\s*\{[^}]*mpz_init_set_str\s*\([^,]+,[^,]+,\s*([0-9]+)\s*\)", t, re.S)
    out["integer.cstr.base"] = int(m.group(1)) if m else "pattern not found"
    if not m:
        chk.broke("source tie lost: Integer::Integer(const char*) { mpz_init_set_str(.., .., base) } not found in gmp++_int_cstor.C")
    if m and int(m.group(1)) != 10:
        chk.broke("gmp++_int_cstor.C: Integer(const char*) parses in base %s, the model (Integer_of_string) in base 10" % m.group(1))
    # 4. Poly1Dom::write: the string literals of the algebraic syntax (model: poly_write, proved parser poly_parse)
    t = src("src/library/poly1/givpoly1io.inl") or ""
    k = t.find("::write( std::ostream& o, const Rep& R)")
    if k < 0:
        out["poly.write.literals"] = "pattern not found"
        chk.broke("source tie lost: Poly1Dom::write( std::ostream& o, const Rep& R) not found in givpoly1io.inl")
    else:
        body = t[k:t.find("::read ( std::istream& i, Rep& P)", k)]
        lits = sorted(set(re.findall(r'"([^"\n]*)"', body)))
        out["poly.write.literals"] = lits
        if lits != sorted(["(", ")", ")*", " + ", "^", "0"]):
            chk.broke("givpoly1io.inl: Poly1Dom::write uses the literals %r, the model (poly_write) has '(' ')' ')*' ' + ' '^' '0'" % lits)
    # 5. display_hex: digits per limb (model hex_fixed: 16 per 64-bit limb) and the 1-byte element cast of Modular_implem::write
    t = src("src/kernel/recint/rudisplay.h") or ""
    m = re.search(r"std::setw\(\s*__RECINT_LIMB_BITS\s*/\s*4\s*\)\s*<<\s*std::setfill\(\s*'0'\s*\)", t)
    t2 = src("src/kernel/recint/recdefine.h") or src("src/kernel/recint/recint-config.h") or ""
    mb = re.search(r"#define\s+__RECINT_LIMB_BITS\s+\(?\s*([0-9]+)", t2)
    out["recint.display_hex.limb"] = {"setw": "__RECINT_LIMB_BITS/4, fill '0'" if m else "pattern not found", "LIMB_BITS": int(mb.group(1)) if mb else "not found"}
    if not m:
        chk.broke("source tie lost: `std::setw(__RECINT_LIMB_BITS/4) << std::setfill('0')` of display_hex not found in rudisplay.h (model: 16 hex digits per limb)")
    if mb and int(mb.group(1)) != 64:
        chk.broke("recint: __RECINT_LIMB_BITS is %s, the model has 64-bit limbs" % mb.group(1))
    t = src("src/kernel/ring/modular-implem.h") or ""
    m = re.search(r"sizeof\(E\)\s*==\s*1\)\s*inline\s+std::ostream&\s*write\s*\(std::ostream&\s*\w+,\s*const\s+E&\s*\w+\)\s*const\s*\{[^}]*int32_t\s*\(", t, re.S)
    out["modular.write.1byte_cast"] = "int32_t" if m else "pattern not found"
    if not m:
        chk.broke("source tie lost: the 1-byte specialisation of Modular_implem::write (cast to int32_t before printing) not found in modular-implem.h")
    out["poly.read.guarded"] = poly_read_is_guarded()
    chk.cov["source_constants"] = out


def inconclusive(chk, what):
    """a problem of our own tooling: recorded prominently, never a pass of the probes that did not run, never a violation"""
    chk.notes.append("INCONCLUSIVE: " + what)
    chk.cov.setdefault("inconclusive", []).append(what)
    chk.cov["floor_missed"] = ["nothing was compared: " + what]
    return chk.finish()


def poly_read_is_guarded():
    """does /repo's Poly1Dom::read have the body of frag/C19.fix-5 (`long deg = -1; ... if (!i) return i;`)?"""
    try:
        t = open(os.path.join(vf.REPO, "src/library/poly1/givpoly1io.inl"), errors="replace").read()
    except OSError:
        return False
    k = t.find("::read ( std::istream& i, Rep& P)")
    body = t[k:] if k >= 0 else t
    # the stream is tested before deg is used (or deg is initialised), and a negative degree does not reach init()
    return bool((re.search(r"long\s+deg\s*=\s*-?\s*[0-9]+\s*;", body) or re.search(r"if\s*\(\s*!\s*i\s*\)\s*return", body))
                and re.search(r"deg\s*<\s*0", body))


def reader_tmp_initialised():
    """do the six `T tmp; is >> tmp; init(x, tmp)` element readers initialise their temporary (frag/C19.fix-6)?"""
    files = {"src/kernel/ring/modular-balanced-double.inl": r"Element\s+tmp\s*=\s*0\s*;", "src/kernel/ring/modular-balanced-float.inl": r"Element\s+tmp\s*=\s*0\s*;",
             "src/kernel/ring/modular-balanced-int32.inl": r"Element\s+tmp\s*=\s*0\s*;", "src/kernel/ring/modular-balanced-int64.inl": r"Element\s+tmp\s*=\s*0\s*;",
             "src/kernel/ring/modular-extended.inl": r"int64_t\s+tmp\s*=\s*0\s*;", "src/kernel/field/gfq.inl": r"TT\s+t\s*=\s*0\s*;"}
    try:
        return all(re.search(rx, open(os.path.join(vf.REPO, f), errors="replace").read()) for f, rx in files.items())
    except OSError:
        return False


TMP_UNASSIGNED = ("element read through a temporary", "end of input (temporary never assigned)")


def tmp_unassigned_case(kind, sp):
    """does this case make a `T tmp; is >> tmp; init(x, tmp)` reader run with a failing sentry (stream not good / only white space)?"""
    if sp.get("tmp0", True):
        return False
    if kind in ("ring.read", "gfq.read"):
        rd = "word" if kind == "gfq.read" else RINGS[sp["ring"]][1]
        return rd != "int" and sp["text"].strip(WS) == ""
    if kind in ("ring.seqd", "ring.wseq", "gfq.seqd") and sp.get("reader") != "int":
        ps = PStream(sp["text"])
        for _ in range(sp["n"]):
            if not ps.good() or ps.t.strip(WS) == "":
                return True
            py_coef_read(ps, sp["reader"], (sp["lo"], sp["hi"]))
    return False


CPU_BUDGET = 10          # CPU seconds per case inside the harness (ITIMER_PROF); a case that exceeds it is re-run alone with 6x


CONFIRM_BUDGET = 30       # CPU seconds of the confirmation re-run (the case alone)
MAX_CONFIRMATIONS, MAX_OVERRUNS, MAX_CRASHES_PER_FORM = 3, 6, 4
HANG_CAPS = {"confirmations": 0, "overruns": 0, "banned": set(), "crashes": {}, "stopped": False}    # shared by every harness of one run


def form_of(line):
    """the call form a case drives: the operation name, with the ring for the ring / polynomial operations"""
    t = line.split()
    return t[0] + (":" + t[1] if t and t[0].split(".")[0] in ("ring", "poly") and len(t) > 1 else "")


def run_impl(himpl, lines, notes, caps=HANG_CAPS):
    """run the implementation harness.  A case that crashes or exceeds its CPU budget (ITIMER_PROF, %d s) yields a marker line for
    THAT case and the run continues behind it.  Bounded cost: an overrun is confirmed by re-running the case alone with %d CPU s;
    after the first confirmed `does not return` of a call form (or 4 crashes of it) the form is not driven any more in this run, in
    any harness; after 3 confirmations or 6 overruns the streams stop.  Cases not run are `NOT-RUN` (never counted as compared).
    -> (list of result lines or None, problem)""" % (CPU_BUDGET, CONFIRM_BUDGET)
    out = [None] * len(lines)
    pending = list(range(len(lines)))
    restarts = 0
    while pending:
        if caps["stopped"]:
            for j in pending:
                out[j] = "NOT-RUN"
            break
        run_now = [j for j in pending if form_of(lines[j]) not in caps["banned"]]
        for j in pending:
            if form_of(lines[j]) in caps["banned"]:
                out[j] = "NOT-RUN"
        if not run_now:
            break
        rc, o, err = vf.run_lines(himpl, "".join(lines[j] + "\n" for j in run_now), timeout=1500, args=(str(CPU_BUDGET),))
        if rc == 124:
            return None, "time-out"
        if rc == 0 and len(o) == len(run_now):
            for j, l in zip(run_now, o):
                out[j] = l
            break
        marker = o[-1] if o and o[-1].split()[:1] in (["CPU-TIMEOUT"], ["CRASHED"]) else None
        done = o[:-1] if marker else o
        if len(done) >= len(run_now):
            return None, "harness failed (rc=%s): %s" % (rc, err[-500:])
        for j, l in zip(run_now, done):
            out[j] = l
        k = run_now[len(done)]                  # the case that was running
        frm = form_of(lines[k])
        if marker is None:
            marker = "CRASHED rc=%s" % rc       # killed without a marker (e.g. SIGKILL)
        if marker.startswith("CPU-TIMEOUT"):
            caps["overruns"] += 1
            rc2, o2, _ = vf.run_lines(himpl, lines[k] + "\n", timeout=600, args=(str(CONFIRM_BUDGET),))
            if rc2 == 0 and len(o2) == 1:
                notes.append("slow case (more than %d CPU seconds): %s" % (CPU_BUDGET, lines[k][:200]))
                marker = o2[0]
            elif rc2 == 124:
                return None, "time-out"
            else:
                marker = "DOES-NOT-RETURN after %d CPU seconds (the case alone)" % CONFIRM_BUDGET
                caps["confirmations"] += 1
                caps["banned"].add(frm)
                notes.append("call form `%s` does not return: not driven any more in this run" % frm)
            if caps["confirmations"] >= MAX_CONFIRMATIONS or caps["overruns"] >= MAX_OVERRUNS:
                caps["stopped"] = True
                notes.append("streams stopped after %d confirmed `does not return` / %d CPU-budget overruns" % (caps["confirmations"], caps["overruns"]))
        else:
            caps["crashes"][frm] = caps["crashes"].get(frm, 0) + 1
            if caps["crashes"][frm] >= MAX_CRASHES_PER_FORM:
                caps["banned"].add(frm)
                notes.append("call form `%s` crashed %d times: not driven any more in this run" % (frm, caps["crashes"][frm]))
        out[k] = marker
        pending = run_now[len(done) + 1:]
        restarts += 1
        if restarts > 300:
            return None, "harness restarted more than 300 times"
    return [l if l is not None else "NOT-RUN" for l in out], None


# ------------------------------------------------------------------ preprocessor-selected I/O code
PP_ANCHORS = ["src/kernel/gmp++/gmp++_int_io.C", "src/kernel/gmp++/gmp++_int_cstor.C", "src/kernel/rational/givratio.C", "src/kernel/rational/givratcstor.C",
              "src/kernel/recint/rudisplay.h", "src/kernel/recint/rdisplay.h", "src/kernel/recint/rmdisplay.h", "src/kernel/recint/ruconvert.h",
              "src/kernel/recint/rconvert.h", "src/kernel/ring/modular-implem.h", "src/kernel/ring/modular-balanced-double.inl",
              "src/kernel/ring/modular-balanced-float.inl", "src/kernel/ring/modular-balanced-int32.inl", "src/kernel/ring/modular-balanced-int64.inl",
              "src/kernel/ring/modular-extended.inl", "src/kernel/ring/montgomery-int32.inl", "src/kernel/ring/montgomery-ruint.inl",
              "src/kernel/ring/modular-log16.inl", "src/kernel/field/gfq.inl", "src/kernel/field/extension.h", "src/kernel/field/gf2.inl",
              "src/library/poly1/givpoly1io.inl", "src/library/poly1/givindeter.C"]
# what each selecting macro is about; "io" = selects reader/writer code of the property: its alternative must be built and driven
PP_MACROS = {
    "__GIVARO_GMP_NO_CXX": ("io", "Integer::print / operator>> without the GMP C++ streams: alternative built with -D__GIVARO_GMP_NO_CXX and driven (alt.* streams)"),
    "__PATHCC__": ("io", "same branch as __GIVARO_GMP_NO_CXX (PathScale compiler)"),
    "__GIVARO_OLD_SSTREAM__": ("io", "Rational(const char*) through std::istrstream: built when this compiler can"),
    "__GIVARO_SIZEOF_LONG": ("abi", "32-bit `long` limb splitting: fixed by the ABI of this machine (LP64), the alternative cannot be built here"),
    "__GIVARO_INLINE_ALL": ("structure", "include structure of the gmp++ units, no reader/writer text"),
    "__GMPplusplus_CSTOR_C__": ("structure", "include guard"),
    "__GIVARO_DEBUG": ("other", "syntax checks of the DOMAIN-description readers (outside the element / polynomial I/O of the property) and division-by-zero checks"),
    "NDEBUG": ("other", "assertions in ModularExtended arithmetic"),
    "FP_FAST_FMA": ("other", "ModularExtended multiplication kernels"), "FP_FAST_FMAF": ("other", "ModularExtended multiplication kernels"),
    "__SSE_MATH__": ("other", "ModularExtended multiplication kernels"),
    "__GIVARO_COUNT__": ("other", "operation counters of GFqDom"), "GIVARO_RANDOM_IRREDUCTIBLE_PRIMITIVE_ROOT": ("other", "GFqDom construction"),
    "HAVE_BIG_ENDIAN": ("other", "Rational(double) bit layout"), "__MWERKS__": ("other", "compiler work-around in givratcstor.C"), "__GNUC__": ("other", "compiler work-around in givratcstor.C"),
}


def scan_pp_chains():
    """every #if/#ifdef/#ifndef ... #elif/#else ... #endif chain of the anchor files, from the CURRENT sources (include guards left out)"""
    chains = []
    for rel in PP_ANCHORS:
        try:
            lines = open(os.path.join(vf.REPO, rel), errors="replace").read().split("\n")
        except OSError:
            chains.append({"file": rel, "line": 0, "cond": "<file missing>", "macros": [], "branches": 0})
            continue
        stack = []
        for i, l in enumerate(lines):
            m = re.match(r"\s*#\s*(if|ifdef|ifndef|elif|else|endif)\b(.*)", l)
            if not m:
                continue
            d, rest = m.group(1), re.sub(r"/\*.*?\*/|//.*", "", m.group(2)).strip()
            if d in ("if", "ifdef", "ifndef"):
                guard = d == "ifndef" and any(re.match(r"\s*#\s*define\s+" + re.escape(rest) + r"\b", x) for x in lines[i + 1:i + 3])
                cond = rest if d == "if" else ("defined(%s)" % rest if d == "ifdef" else "!defined(%s)" % rest)
                stack.append({"file": rel, "line": i + 1, "cond": cond, "branches": 1, "guard": guard, "elif": []})
            elif d in ("elif", "else") and stack:
                stack[-1]["branches"] += 1
                if d == "elif":
                    stack[-1]["elif"].append(rest)
            elif d == "endif" and stack:
                c = stack.pop()
                if not c.pop("guard"):
                    c["macros"] = sorted(set(x for x in re.findall(r"[A-Za-z_][A-Za-z0-9_]*", " ".join([c["cond"]] + c["elif"])) if x != "defined"))
                    chains.append(c)
    return chains


def probe_selected(chains):
    """let the compiler say which branch it selects for each chain's first condition (the repository's flags, after the headers)"""
    conds = sorted(set(c["cond"] for c in chains if c["line"]))
    src = ["#include <cmath>", '#include "givinteger.h"', '#include "givrational.h"', '#include "modular-extended.h"', "#include <recint/recint.h>", "#include <cstdio>", "int main() {"]
    for k, cd in enumerate(conds):
        src += ["#if %s" % cd, '  std::printf("%d 1\\n");' % k, "#else", '  std::printf("%d 0\\n");' % k, "#endif"]
    src += ["  return 0; }"]
    text = "\n".join(src) + "\n"
    d = vf.mkdir(os.path.join(vf.CACHE, "c19-pp-%s" % vf.file_hash([os.path.join(vf.REPO, f) for f in PP_ANCHORS], text)))
    res = os.path.join(d, "selected.txt")
    if not os.path.exists(res):
        open(os.path.join(d, "probe.C"), "w").write(text)
        rc, out = vf.sh([vf.CXX] + vf.BASE_FLAGS + vf.inc_flags() + [os.path.join(d, "probe.C"), "-o", os.path.join(d, "probe"), "-lgmpxx", "-lgmp"], timeout=600)
        if rc != 0:
            return None, out[-800:]
        rc, out = vf.sh([os.path.join(d, "probe")], timeout=60)
        if rc != 0:
            return None, out[-300:]
        open(res + ".tmp", "w").write(out)
        os.replace(res + ".tmp", res)
    sel = {}
    for l in open(res).read().split("\n"):
        t = l.split()
        if len(t) == 2 and t[0].isdigit():
            sel[conds[int(t[0])]] = t[1] == "1"
    return sel, ""


def build_alt_nocxx():
    """the Integer / Rational part of the harness against gmp++_int_io.C compiled with -D__GIVARO_GMP_NO_CXX, linked in front of the
    library archive (its four functions then come from the freshly compiled unit)"""
    srcp = os.path.join(vf.ROOT, "harness", "c19_io.C")
    unit = os.path.join(vf.REPO, "src/kernel/gmp++/gmp++_int_io.C")
    key = vf.file_hash(vf.repo_sources() + [srcp], "alt-nocxx")
    d = vf.mkdir(os.path.join(vf.CACHE, "h-c19_alt-%s" % key))
    b = os.path.join(d, "c19_alt")
    if os.path.exists(b):
        return b, ""
    lib, log = vf.build_repo_lib()
    if lib is None:
        return None, "library build failed:\n" + log
    import shutil
    mylib = os.path.join(d, "libgivaro_verif.%d.a" % os.getpid())
    try:
        shutil.copyfile(lib, mylib)
    except OSError as ex:
        return None, "library vanished from the cache while copying: %s" % ex
    tmpb = "%s.tmp%d" % (b, os.getpid())
    rc, out = vf.sh([vf.CXX] + vf.BASE_FLAGS + ["-DC19_NOCXX", "-D__GIVARO_GMP_NO_CXX"] + vf.inc_flags() + [srcp, unit, "-o", tmpb, mylib, "-lgmpxx", "-lgmp", "-lpthread"], timeout=900)
    try:
        os.remove(mylib)
    except OSError:
        pass
    if rc != 0:
        return None, out
    os.rename(tmpb, b)
    vf.prune_cache("h-c19_alt-", keep=4)
    return b, out


def nocxx_table():
    """the powers-of-ten table of the packet reader, from the current source"""
    try:
        t = open(os.path.join(vf.REPO, "src/kernel/gmp++/gmp++_int_io.C"), errors="replace").read()
    except OSError:
        return None
    m = re.search(r"\bbase\s*\[\s*[0-9]*\s*\]\s*=\s*\{([^}]*)\}", t)
    if not m:
        return None
    body = re.sub(r"/\*.*?\*/|//[^\n]*", "", m.group(1), flags=re.S)
    try:
        return [int(x.strip().rstrip("lLuU")) for x in body.split(",") if x.strip()]
    except ValueError:
        return None


def py_nocxx_read(t, old, e, f):
    """operator>>(istream&, Integer&) of the build without the GMP C++ streams, at grammar level (the value is int() of the digits)
    -> (value or "UB", rest, eof, fail)"""
    if f:
        return old, t, e, f
    if e:
        return "UB", t, e, True
    t = t.lstrip(WS)
    if t == "":
        return "UB", "", True, True
    ch, t = t[0], t[1:]
    if ch not in "+-0123456789":
        return 0, t, False, False
    if ch in "0123456789":
        t = ch + t
    t = t.lstrip(WS)
    if t == "":
        return 0, "", True, True
    j = 0
    while j < len(t) and t[j] in "0123456789":
        j += 1
    a = int(t[:j]) if j else 0
    if ch == "-":
        a = -a
    if j == len(t):
        return a, "", True, True
    return a, t[j:], False, False


def judge_alt(chk, c, got, mline):
    """cases run on the build without the GMP C++ streams"""
    kind, sp = c["kind"], c["spec"]
    raw = " ".join(got)
    case = {"impl": c["impl"], "model": c["model"], "kind": kind, "spec": {k: (v if not isinstance(v, int) or abs(v) < 10**40 else str(v)) for k, v in sp.items()}}
    site = "Integer I/O without the GMP C++ streams (-D__GIVARO_GMP_NO_CXX)"
    mt = mline.split() if mline is not None else None

    def fail(klass, expected, detail=""):
        chk.fail_input(site, klass, case, expected, raw[:600], detail)
    if got[:1] in (["CRASHED"], ["DOES-NOT-RETURN"], ["CPU-TIMEOUT"]):
        fail("crash" if got[0] == "CRASHED" else "does-not-return", "a result line", raw)
        return
    if kind == "alt.int.write":
        exp = [hx(str(abs(sp["z"]) if sp["variant"] == "abs" else sp["z"]))]
        if got != exp:
            fail("write " + sp["variant"], exp[0], "decimal numeral expected")
    elif kind == "alt.int.rt":
        t = str(sp["z"])
        v, r, e, f = py_nocxx_read(t + sp["tail"], sp["old"], False, False)
        exp = [hx(t), str(v), hx(r), st(e, f)]
        if got[:3] != exp[:3]:
            fail("roundtrip, %d digits" % len(str(abs(sp["z"]))), " ".join(exp), "write then read, form %s" % sp["variant"])
        elif got != exp:
            chk.broke("alt build: stream state differs from the branch's reader as written on `%s`: %s, expected %s" % (c["impl"][:200], raw[:200], " ".join(exp)))
        if mt is not None and got[1:] != mt and got[:3] == exp[:3]:
            chk.broke("correspondence model/implementation (no-C++-streams reader) differs on `%s`: model=%s impl=%s" % (c["impl"][:200], mline[:200], raw[:200]))
    elif kind == "alt.int.seqd":
        e, f, cur, t, exp = False, False, sp["old"], sp["text"], []
        for _ in range(sp["n"]):
            v, t, e, f = py_nocxx_read(t, cur, e, f)
            if v == "UB":
                exp.append(None)
                break
            cur = v
            exp.append("%d:%s:%s" % (v, st(e, f), nxc(t)))
        toks = got[:-1]
        ok = len(toks) >= len([x for x in exp if x is not None]) and all(x is None or x == y for x, y in zip(exp, toks))
        if not ok:
            fail("sequence", " ".join(str(x) for x in exp), "%d reads from `%s`" % (sp["n"], sp["text"][:100]))
        elif mt is not None:
            mtoks = mt[:-1]
            k = len(mtoks)
            if toks[:k] != mtoks or (mt[-1] != "UB" and mt[-1] != got[-1]):
                chk.broke("correspondence model/implementation (no-C++-streams reader) differs on `%s`: model=%s impl=%s" % (c["impl"][:200], mline[:300], raw[:300]))
    elif kind == "alt.rat.rt":
        t = str(sp["n"]) if sp["d"] == 1 else "%d/%d" % (sp["n"], sp["d"])
        exp = [hx(t), "%d/%d" % (sp["n"], sp["d"])]
        if got[:2] != exp:
            fail("Rational through that reader", " ".join(exp))
    elif kind == "alt.int.rtb":
        exp = [hx(str(sp["z"])), str(sp["z"])]       # the branch ignores the stream's basefield on both sides: decimal text, read back
        if got[:2] != exp:
            fail("stream in hex / oct mode", " ".join(exp))


def main(tier, replay=None):
    chk = vf.Check("C19", tier, "proof")
    HANG_CAPS.update({"confirmations": 0, "overruns": 0, "banned": set(), "crashes": {}, "stopped": False})
    rng = vf.Rng(chk.seed)
    chk.cov["trusted_base"] = [
        "Coq 8.16.1 kernel + vm_compute (no native_compute)",
        "extraction: ExtrOcamlBasic only; OCaml 4.13.1; zarith only for text I/O in harness/zio.ml",
        "Model.v specifications of GMP's operator<< / operator>> on mpz (decimal/hex, skipws), mpz_set_str, libstdc++ "
        "istream::get/putback and num_get for integral types: trusted restatements, validated on every run by the correspondence "
        "run and by the python grammar oracles",
        "num_get<float/double> (ModularBalanced<float/double>::read) is modelled only on decimal integer literals of magnitude "
        "< 2^24 / 2^53 not followed by '.', 'e', 'E'",
        "harness/c19_io.C, checks/C19.py (case generators, python oracles)",
        "g++ / libstdc++ / libgmpxx of this machine for the implementation side",
    ]
    chk.assumptions = ["model is hand-written after givaro's I/O code; the tie is differential testing on generated values and texts",
                       "the model follows the behaviour repaired by /repo commits 654e42a, 1791f55, 08a44d6 (frag/C19.fix-1..3)",
                       "domain-level I/O (write(os)/read(is) of ring objects) is outside the property"]
    # 1. proofs
    res = vf.coq_check_props(AREA)
    chk.proof_result(res, AREA)
    source_constants(chk)
    # The repairs frag/C19.fix-5 (ee602ef) and fix-6 (2a4e54f) are in /repo: the model and the oracles describe the repaired bodies and
    # every comparison is unconditional.  That the sources still have those bodies is a tie that fails closed (a tree without them
    # is compared with the repaired model all the same: its crashes and garbage values are concrete failing inputs).
    TMP0, POLY_FIXED = True, True
    STATE["tmp0"] = True
    chk.cov["source_constants"]["reader.tmp.initialised"] = reader_tmp_initialised()
    if not chk.cov["source_constants"]["reader.tmp.initialised"]:
        chk.broke("source tie lost: the num_get-based element readers (ModularBalanced<*>, ModularExtended, GFqDom ::read) no longer initialise their temporary (`T tmp = 0;`), which the model (elt_read_word .. 0) relies on")
    if not chk.cov["source_constants"]["poly.read.guarded"]:
        chk.broke("source tie lost: Poly1Dom::read no longer has the guarded body `long deg = -1; i >> deg; if (!i) return i; if (deg < 0) ...` that the model (poly_read_into) describes")
    # 2. executables
    drv, l1 = vf.ocaml_build(AREA) if os.path.exists(os.path.join(vf.coq_dir(AREA), "ocaml", "model.ml")) else (None, "extraction did not run")
    if drv is None:
        chk.broke("extracted model driver does not build", l1)
    himpl, l2 = build_harness_private("c19_io.C")
    if himpl is None and ("[timeout" in l2 or "vanished from the cache" in l2 or "library build failed" in l2 and "[timeout" in l2):
        chk.notes.append("harness build hit a time-out / cache race, retrying once: " + l2[-200:])
        himpl, l2 = build_harness_private("c19_io.C")
        if himpl is None and ("[timeout" in l2 or "vanished from the cache" in l2):
            return inconclusive(chk, "implementation harness could not be built (compiler time-out under load or cache race): " + l2[-300:])
    if himpl is None:
        chk.broke("implementation harness does not compile against /repo", l2)
        return chk.finish()
    rc, mc, err = vf.run_lines(himpl, "".join("ring.maxc %s 3\n" % n for n in sorted(RINGS)))
    if rc == 124:
        return inconclusive(chk, "the implementation harness timed out on ring.maxc")
    if rc != 0 or len(mc) != len(RINGS):
        chk.broke("harness failed on ring.maxc", err)
        return chk.finish()
    maxc = {}
    for n, l in zip(sorted(RINGS), mc):
        try:
            maxc[n] = int(l)
        except ValueError:
            maxc[n] = 0
    big = tier != "quick"
    S = 30 if big else 1         # scale

    # 3. cases:  each = dict(impl=<line>, model=<line or None>, kind, spec)   spec is what the python oracle needs
    cases = []

    def add(kind, impl, model, **spec):
        spec.setdefault("tmp0", TMP0)
        cases.append({"kind": kind, "impl": impl, "model": model, "spec": spec})

    # ---- Integer
    for z in int_boundaries():      # every call form on every boundary value
        for v in ("op", "print", "string", "zring"):
            add("int.write", "int.write.%s %d" % (v, z), "int.write %d" % z, z=z, variant=v)
        add("int.abs", "int.write.abs %d" % z, "int.abs %d" % z, z=z)
        tail = rng.choice(TAILS_ANY)
        for v in ("op", "zring", "print"):
            add("int.rt", "int.rt.%s %d 7 %s" % (v, z, hx(tail)), "int.rt %d 7 %s" % (z, hx(tail)), z=z, old=7, tail=tail, variant=v)
        add("int.strrt", "int.strrt %d" % z, "int.write %d" % z, z=z)
        for b in (16, 8):
            tl = rng.choice(["", " ", "\n", "x", "g", "-", ",", "/", " 1", "8", "9"])
            add("int.rtb", "int.rtb %d %d 7 %s" % (b, z, hx(tl)), "int.rtb %d %d 7 %s" % (b, z, hx(tl)), z=z, base=b, tail=tl, old=7)
        if z > 1:                   # as numerator and as denominator of a canonical rational
            for (n, d) in ((z, 1), (-z, 1), (1, z), (-1, z), (z, z - 1), (z - 1, z), (-(z + 1), z)):
                if math.gcd(n, d) == 1:
                    tail = rng.choice(TAILS_ANY)
                    add("rat.write", "rat.write.op %d %d" % (n, d), "rat.write %d %d" % (n, d), n=n, d=d)
                    add("rat.rt", "rat.rt.op %d %d %s" % (n, d, hx(tail)), "rat.rt %d %d %s" % (n, d, hx(tail)), n=n, d=d, tail=tail)
                    add("rat.strrt", "rat.strrt %d %d" % (n, d), "rat.rt %d %d -" % (n, d), n=n, d=d)
    for i in range(60 * S):
        z, b = gen_int(rng), rng.choice([16, 8])
        tl = rng.choice(["", " ", "\n", "x", "g", "-", ",", "/", " 1", "8", "9", "f", "A"])
        add("int.rtb", "int.rtb %d %d 7 %s" % (b, z, hx(tl)), "int.rtb %d %d 7 %s" % (b, z, hx(tl)), z=z, base=b, tail=tl, old=7)
    for i in range(220 * S):
        z = gen_int(rng)
        for v in ("op", "print", "string", "zring"):
            if i % 4 == ("op", "print", "string", "zring").index(v) or i < 12:
                add("int.write", "int.write.%s %d" % (v, z), "int.write %d" % z, z=z, variant=v)
        if i % 3 == 0:
            add("int.abs", "int.write.abs %d" % z, "int.abs %d" % z, z=z)
        tail = rng.choice(TAILS_ANY)
        pre = rng.choice(["", "", "", " ", "\n ", "\t"])
        v = rng.choice(["op", "zring", "print"])
        old = rng.choice([0, 7, -3])
        add("int.rt", "int.rt.%s %d %d %s" % (v, z, old, hx(tail)), "int.rt %d %d %s" % (z, old, hx(tail)), z=z, old=old, tail=tail, variant=v)
        if pre:
            t = pre + str(z) + tail
            add("int.read", "int.read.%s %d %s" % (rng.choice(["op", "zring"]), old, hx(t)), "int.read %d %s" % (old, hx(t)), old=old, text=t)
        if i % 2 == 0:
            add("int.strrt", "int.strrt %d" % z, "int.write %d" % z, z=z)
    if big:      # every integer of up to four digits, with every tail
        for z in range(-10100, 10101):
            tail = TAILS_ANY[z % len(TAILS_ANY)]
            add("int.rt", "int.rt.op %d 0 %s" % (z, hx(tail)), "int.rt %d 0 %s" % (z, hx(tail)), z=z, old=0, tail=tail, variant="op")
        for n in range(-60, 61):
            for d in range(1, 41):
                if math.gcd(n, d) == 1:
                    tail = TAILS_ANY[(n * 41 + d) % len(TAILS_ANY)]
                    add("rat.rt", "rat.rt.op %d %d %s" % (n, d, hx(tail)), "rat.rt %d %d %s" % (n, d, hx(tail)), n=n, d=d, tail=tail)
    for i in range(260 * S):
        t = adversarial(rng)
        if i < 10:
            t = ["010", "0x1f", "-017 ", "00", "0b11", " 0012x", "0x", "-0", "+08", "0777/2"][i]
        old = rng.choice([0, 7, -3])
        add("int.read", "int.read.%s %d %s" % (rng.choice(["op", "zring"]), old, hx(t)), "int.read %d %s" % (old, hx(t)), old=old, text=t)
    for i in range(160 * S):
        if i % 2:
            t = adversarial(rng, " \t\n-+0123456789x", 8)
        else:
            t = rng.choice(["", " ", "  \n"]) + str(gen_int(rng)) + rng.choice(["", "", " ", " 1", "x", "\n"])
            if rng.chance(1, 3) and len(t) > 3:
                k = rng.range(1, len(t) - 1)
                t = t[:k] + rng.choice([" ", "\t", "+"]) + t[k:]
        if i < 14:          # numerals another base would read differently
            t = ["010", "0x1f", "0X1F", "0b11", "-017", "00", "0", "-0", "08", " 0012", "0x", "1e3", "0777", "-0x10"][i]
        if "\0" in t:
            continue
        add("int.cstr", "int.cstr %s" % hx(t), "int.cstr %s" % hx(t), text=t)
    for i in range(120 * S):
        n = rng.range(1, 5)
        seps = [rng.choice([" ", "\n", "  ", "\t", " \n "]) for _ in range(n)]
        zs = [gen_int(rng) for _ in range(n)]
        t = "".join(str(z) + s for z, s in zip(zs, seps))
        if rng.chance(1, 3):
            t = t.rstrip(WS)
        if rng.chance(1, 8):
            t = t.replace(" ", ",", 1)
        k = n + rng.below(2)
        add("int.seq", "int.seq %d %s" % (k, hx(t)), "int.seq %d %s" % (k, hx(t)), n=k, text=t)
    # ---- Rational
    for i in range(320 * S):
        n, d = gen_rat(rng)
        v = rng.choice(["op", "print", "qfield"])
        add("rat.write", "rat.write.%s %d %d" % (v, n, d), "rat.write %d %d" % (n, d), n=n, d=d)
        if i < 25 * S and n != 0:      # stored unreduced: printing does not depend on reducedness
            k = rng.range(2, 9)
            add("rat.write", "rat.write.op %d %d" % (n * k, d * k), "rat.write %d %d" % (n * k, d * k), n=n * k, d=d * k)
        tail = rng.choice(TAILS_ANY)
        add("rat.rt", "rat.rt.%s %d %d %s" % (v, n, d, hx(tail)), "rat.rt %d %d %s" % (n, d, hx(tail)), n=n, d=d, tail=tail)
        if i % 3 == 0:
            add("rat.strrt", "rat.strrt %d %d" % (n, d), "rat.rt %d %d -" % (n, d), n=n, d=d)
    for i in range(260 * S):
        if i % 2:
            t = adversarial(rng, " \t\n+-//0123456789x:.,\\", 10)
        else:
            n, d = gen_rat(rng)
            t = rng.choice(["", " ", "\n"]) + str(n) + rng.choice(["", " ", "  "]) + "/" + rng.choice(["", " ", "  ", "\n", "-", "+"]) + str(d) + rng.choice(TAILS_ANY)
        v = rng.choice(["op", "qfield"])
        add("rat.read", "rat.read.%s %s" % (v, hx(t)), "rat.read %s" % hx(t), text=t)
        if i % 4 == 0 and "\0" not in t:
            add("rat.cstr", "rat.cstr %s" % hx(t), "rat.read %s" % hx(t), text=t)
    for i in range(40 * S):
        n, d = gen_int(rng), gen_int(rng)
        if rng.chance(1, 6):
            n = 0
        if rng.chance(1, 10):
            d = 0
        add("rat.norm", "rat.norm %d %d" % (n, d), "rat.norm %d %d" % (n, d), n=n, d=d)
    for i in range(160 * S):
        n = rng.range(1, 5)
        qs = [gen_rat(rng) for _ in range(n)]
        t = ""
        for (a, b) in qs:
            t += (str(a) if b == 1 else "%d/%d" % (a, b)) + rng.choice([" ", "\n", "  ", "\t", " \n "])
        if rng.chance(1, 3):
            t = t.rstrip(WS)
        k = n + rng.below(2)
        add("rat.seq", "rat.seq %d %s" % (k, hx(t)), "rat.seq %d %s" % (k, hx(t)), n=k, text=t)
    # ---- num_get (trusted libstdc++ specification, validated here)
    for i in range(120 * S):
        w = rng.choice([32, 64])
        lo, hi = I32 if w == 32 else I64
        if i % 2:
            t = adversarial(rng, " \n+-0123456789x", 8)
        else:
            t = rng.choice(["", " "]) + str(rng.choice([lo, hi, lo - 1, hi + 1, lo + 1, hi - 1, 0, -1, 10 * hi, rng.range(lo, hi)])) + rng.choice(["", " ", "x"])
        add("numget", "numget %d 9 %s" % (w, hx(t)), "numget %d %d 9 %s" % (lo, hi, hx(t)), lo=lo, hi=hi, text=t)
    # ---- ring and field elements
    for name in sorted(RINGS):
        kind, reader, rng_lohi = RINGS[name]
        for p in ring_moduli(name, maxc[name]):
            for i in range(7 * S):
                r = rng.below(7)
                if r == 0:
                    z = rng.choice([0, 1, -1, p - 1, p, p + 1, p // 2, p // 2 + 1, -(p // 2), 999999, 1000000, 1000001])
                elif r < 4:
                    z = rng.below(p)
                elif r == 4:
                    z = -rng.below(p)
                else:
                    z = gen_int(rng)
                if i < 4:
                    z = [0, 1, p - 1, p // 2 + 1][i]
                z = z % p                  # the element is built by init(e, Integer z): other inputs are C04's subject
                tails = TAILS_DBL if reader == "dbl" else TAILS_ANY
                tail = rng.choice(tails)
                lo, hi = rng_lohi if rng_lohi else (0, 0)
                word = 0 if reader == "int" else 1
                bal = 1 if kind == "bal" else 0
                add("ring.rt", "ring.rt %s %d %d %s" % (name, p, z, hx(tail)),
                    "elt.rt %d %d %d %d %d %d %s" % (bal, word, lo, hi, p, z, hx(tail)),
                    ring=name, p=p, z=z, tail=tail)
                if i == 0:
                    add("ring.write", "ring.write %s %d %d" % (name, p, z), "elt.write %d %d %d" % (bal, p, z), ring=name, p=p, z=z)
            for i in range(3 * S):
                if reader == "dbl":
                    t = rng.choice(["", " ", "\n"]) + str(rng.range(-p, p)) + rng.choice(TAILS_DBL)
                elif i % 2:
                    t = adversarial(rng, " \n+-0123456789x", 7)
                else:
                    t = rng.choice(["", " ", "\n"]) + str(gen_int(rng) if reader == "int" else rng.range(-4 * p, 4 * p)) + rng.choice(TAILS_ANY)
                lo, hi = rng_lohi if rng_lohi else (0, 0)
                bal = 1 if kind == "bal" else 0
                m = ("elt.read %d %d %s" % (bal, p, hx(t))) if reader == "int" else ("elt.readw %d %d %d %d %s" % (bal, lo, hi, p, hx(t)))
                add("ring.read", "ring.read %s %d %s" % (name, p, hx(t)), m, ring=name, p=p, text=t)
    # ---- GFq (elements by their internal index; exhaustive over small fields)
    gf = [(32, 2, 1), (32, 2, 4), (32, 3, 3), (32, 5, 2), (32, 7, 1), (64, 3, 2), (64, 11, 2), (32, 101, 1), (64, 2, 8), (32, 251, 2 if big else 1)]
    for (w, p, k) in gf:
        q = p ** k
        es = list(range(q)) if q <= 130 else sorted(set([0, 1, 2, q - 1, q - 2] + [rng.below(q) for _ in range(40 * S)]))
        for e in es:
            tail = rng.choice(TAILS_ANY)
            add("gfq.rt", "gfq.rt %d %d %d %d %s" % (w, p, k, e, hx(tail)), None, w=w, p=p, k=k, e=e, tail=tail, q=q)
        for i in range(4 * S):
            t = rng.choice(["", " "]) + str(rng.range(-3 * q, 3 * q)) + rng.choice(TAILS_ANY)
            lo, hi = I32 if w == 32 else I64
            add("gfq.read", "gfq.read %d %d %d %s" % (w, p, k, hx(t)), "elt.readw 0 %d %d %d %s" % (lo, hi, q, hx(t)), q=q, lo=lo, hi=hi, text=t)
    # ---- RecInt
    for K in (6, 7, 8, 9, 10, 11, 12):      # every value at a boundary of the representation or of the digit count
        N = 1 << K
        D = len(str(2**N - 1))
        Ds = len(str(2**(N - 1)))
        ub = [0, 1, 9, 10, 2**N - 1, 2**N - 2, 2**(N - 1), 2**(N - 1) - 1, 2**(N - 1) + 1, 10**(D - 1), 10**(D - 1) - 1, 10**(D - 1) + 1,
              2**N - 2**(N - 64), 2**64 - 1 if N > 64 else 255, 2**64 if N > 64 else 256, 2**(N - 64) if N > 64 else 2**32, 16**(N // 4 - 1), 16**(N // 4 - 1) - 1]
        sb = [0, 1, -1, 9, -9, 10, -10, 2**(N - 1) - 1, 2**(N - 1) - 2, -2**(N - 1), -2**(N - 1) + 1, 10**(Ds - 1), -10**(Ds - 1), 10**(Ds - 1) - 1,
              -(10**(Ds - 1) - 1), 2**63 if N > 64 else 2**31, -(2**64) if N > 64 else -(2**32), -(2**(N - 2)), 2**(N - 2)]
        if not big and K >= 11:     # the extracted model needs 0.2 s (K=11) / 0.9 s (K=12) per value: quick keeps the sharpest ones
            keep = 7 if K == 11 else 4
            ub = [2**N - 1, 10**(D - 1), 10**(D - 1) - 1, 2**(N - 1), 0, 2**N - 2**(N - 64), 16**(N // 4 - 1) - 1][:keep]
            sb = [-2**(N - 1), 2**(N - 1) - 1, -10**(Ds - 1), 10**(Ds - 1) - 1, -1, -2**(N - 1) + 1, -(10**(Ds - 1) - 1)][:keep]
        for hexm in (0, 1):
            for (sg, vals) in (("ru", ub), ("ri", sb)):
                for a in vals:
                    tail = rng.choice(TAILS_ANY) if not hexm else rng.choice(["", " ", "\n", "x", " 1", ",", "-", "g"])
                    add(sg + ".rt", "%s.rt %d %d %d %s" % (sg, K, hexm, a, hx(tail)), "%s.rt %d %d %d %s" % (sg, K, hexm, a, hx(tail)),
                        K=K, hex=hexm, a=a, tail=tail, sg=sg)
    for K in (6, 7, 8, 9, 12):
        N = 1 << K
        cnt = (26 if K < 12 else 4) * S
        for i in range(cnt):
            for sg in ("ru", "ri"):
                hexm = 1 if i % 3 == 2 else 0
                r = rng.below(8)
                if r == 0:
                    a = rng.choice([0, 1, 9, 10, 2**N - 1, 2**(N - 1), 2**(N - 1) - 1, 2**64 - 1 if N > 64 else 255, 2**64 if N > 64 else 256])
                elif r < 5:
                    a = vf.limbs_value(rng, N // 64)
                else:
                    a = rng.bits(rng.range(1, N))
                if K == 12 and i < 3 and not hexm:
                    a = 10**1024 + rng.bits(3000) if i else 2**N - 1      # more than 1024 decimal digits
                if sg == "ri":
                    a = a % (2**N)
                    if a >= 2**(N - 1):
                        a -= 2**N
                    if i == 1:
                        a = -2**(N - 1)
                    elif K == 12 and i == 2 and not hexm:
                        a = -(10**1024 + 12345)
                tail = rng.choice(TAILS_ANY) if not hexm else rng.choice(["", " ", "\n", "x", " 1", ",", "-", "g"])
                add(sg + ".rt", "%s.rt %d %d %d %s" % (sg, K, hexm, a, hx(tail)), "%s.rt %d %d %d %s" % (sg, K, hexm, a, hx(tail)),
                    K=K, hex=hexm, a=a, tail=tail, sg=sg)
        for i in range(10 * S):
            for sg in ("ru", "ri"):
                hexm = i % 2
                t = adversarial(rng, " \n+-0123456789abcdefABCDEFx" if hexm else " \n+-0123456789x", 9)
                if i % 3 == 0:
                    t = rng.choice(["", " ", "-"]) + str(rng.bits(rng.range(1, 2 * N))) + rng.choice(["", " ", "z"])
                add(sg + ".read", "%s.read %d %d %s" % (sg, K, hexm, hx(t)), "%s.read %d %d %s" % (sg, K, hexm, hx(t)), K=K, hex=hexm, text=t, sg=sg)
    # ---- indeterminate names
    for var in VARS + ["a", "X_1", "lambda", "Z9"]:
        for tail in ["", " ", "\n", " +", "\tY"]:
            add("indet.rt", "indet.rt %s %s" % (hx(var), hx(tail)), None, var=var, tail=tail)
    # ---- polynomials
    for name in POLY_RINGS:
        kind, reader, _ = RINGS[name]
        bal = 1 if kind == "bal" else 0
        ps = ring_moduli(name, maxc[name])
        for i in range(22 * S):
            p = ps[i % len(ps)]
            var = VARS[rng.below(len(VARS))] if i % 3 else "X"
            dg = rng.choice([0, 0, 1, 1, 2, 2, 3, 4, 5, 8, 12])
            cs = []
            for j in range(dg + 1):
                r = rng.below(6)
                cs.append(0 if r == 0 else 1 if r == 1 else p - 1 if r == 2 else rng.below(p) if r < 5 else -rng.below(p))
            if i % 7 == 0:
                cs.append(0)                    # zero leading coefficient: the writer normalises
            if i % 11 == 5:
                cs = [0] * rng.range(0, 3)      # zero polynomial, also with size 0
            cstr = ",".join(str(c) for c in cs) if cs else "-"
            add("poly.write", "poly.rt %s %d %s %s" % (name, p, hx(var), cstr), "poly.write %s %d %d %s" % (hx(var), bal, p, cstr),
                ring=name, p=p, var=var, cs=cs, rkind=kind, fixed=POLY_FIXED)
            # the reader's own format: degree, then coefficients from the leading one down
            reps = [rep_of(kind, p, c) for c in cs]
            while reps and reps[-1] == 0:
                reps.pop()
            if reps and reader == "int":
                sep = rng.choice([" ", "\n", "  "])
                t = str(len(reps) - 1) + "".join(sep + str(c) for c in reversed(reps)) + rng.choice(["", " ", "\n", " 7", "x"])
                add("poly.read", "poly.read %s %d %s" % (name, p, hx(t)), "poly.read %d %d %s" % (bal, p, hx(t)), ring=name, p=p, text=t, reps=reps, fmt=True)
        for i in range(5 * S):
            if reader != "int":
                break
            p = ps[i % len(ps)]
            t = str(rng.range(0, 4)) + "".join(rng.choice([" ", "\n"]) + rng.choice([str(rng.below(p)), str(rng.below(min(p, 10))), "x", "-"]) for _ in range(rng.range(0, 5)))
            add("poly.read", "poly.read %s %d %s" % (name, p, hx(t)), "poly.read %d %d %s" % (bal, p, hx(t)), ring=name, p=p, text=t, fmt=False)

    # ---- destinations that are NOT fresh: n values read one after the other into ONE variable that holds a previous
    #      (larger / longer / negative / non-zero) value; value, eof/fail bits and next character after EACH read.
    #      Deterministic part first (every separator kind, shrinking and growing values), then random sequences.
    def add_seqd(kind, impl, model, **spec):
        add(kind, impl, model, **spec)

    int_olds = [2**200 + 12345, -(2**130), -7, 10**40, 0, 2**64]
    int_vals = [2**64, -5, 0, 12, -(10**30), 7, -(2**63), 1]
    for k, sep in enumerate(SEPS + [",", " ;"]):
        vals = int_vals[k % 3:] + int_vals[:k % 3]
        t = sep.join(str(v) for v in vals) + ["", sep, " "][k % 3]
        n = len(vals) + 1
        old = int_olds[k % len(int_olds)]
        v = ("op", "zring")[k % 2]
        add_seqd("int.seqd", "int.seqd.%s %d %d %s" % (v, old, n, hx(t)), "int.seqd %d %d %s" % (old, n, hx(t)), typ="int", old=old, n=n, text=t)
    for i in range(30 * S):
        n = rng.range(1, 5)
        t = "".join(str(gen_int(rng)) + rng.choice(SEPS + [",", "x"] if rng.chance(1, 6) else SEPS) for _ in range(n))
        if rng.chance(1, 3):
            t = t.rstrip(WS)
        old = rng.choice(int_olds + [gen_int(rng)])
        n += rng.below(2)
        v = rng.choice(["op", "zring"])
        add_seqd("int.seqd", "int.seqd.%s %d %d %s" % (v, old, n, hx(t)), "int.seqd %d %d %s" % (old, n, hx(t)), typ="int", old=old, n=n, text=t)
    rat_olds = [(-22, 7), (10**30, 1), (-(2**70), 2**64 + 1), (0, 1), (-3, 1)]
    rat_vals = [(3, 1), (-1, 2), (0, 1), (-(2**70), 1), (-7, 1), (-2, 3), (5, 1), (2**64, 3)]
    for k, sep in enumerate(SEPS):
        vals = rat_vals[k % 4:] + rat_vals[:k % 4]
        t = sep.join(str(a) if b == 1 else "%d/%d" % (a, b) for a, b in vals) + ["", sep, "  "][k % 3]
        if k == 3:
            t = t.replace("-7", "4/0", 1)        # Rational(4, 0) throws: the variable keeps the value read before
        n = len(vals) + 1
        on, od = rat_olds[k % len(rat_olds)]
        v = ("op", "qfield")[k % 2]
        add_seqd("rat.seqd", "rat.seqd.%s %d %d %d %s" % (v, on, od, n, hx(t)), "rat.seqd %d %d %d %s" % (on, od, n, hx(t)), typ="rat", n=n, text=t)
    for i in range(30 * S):
        n = rng.range(1, 5)
        t = ""
        for _ in range(n):
            a, b = gen_rat(rng)
            t += (str(a) if b == 1 else "%d/%d" % (a, b)) + rng.choice(SEPS)
        if rng.chance(1, 3):
            t = t.rstrip(WS)
        on, od = rng.choice(rat_olds)
        n += rng.below(2)
        v = rng.choice(["op", "qfield"])
        add_seqd("rat.seqd", "rat.seqd.%s %d %d %d %s" % (v, on, od, n, hx(t)), "rat.seqd %d %d %d %s" % (on, od, n, hx(t)), typ="rat", n=n, text=t)
    for ri_, name in enumerate(sorted(RINGS)):
        kind, reader, rng_lohi = RINGS[name]
        ms = ring_moduli(name, maxc[name])
        for pi_, p in enumerate([ms[0], ms[-1]] if len(ms) > 1 else ms):
            zs = [p - 1, 0, 1, p // 2 + 1, 2 % p, p - 2]
            reps = [rep_of(kind, p, z) for z in zs]
            sep = SEPS[(ri_ + pi_) % len(SEPS)]
            t = sep.join(str(r) for r in reps) + ["", sep][pi_ % 2]
            n = len(reps) + 1
            old = [p - 1, p // 2, 1][(ri_ + pi_) % 3]
            lo, hi = rng_lohi if rng_lohi else (0, 0)
            bal = 1 if kind == "bal" else 0
            add_seqd("ring.seqd", "ring.seqd %s %d %d %d %s" % (name, p, old, n, hx(t)),
                     "elt.seqd %d %d %d %d %d %d %s" % (bal, 0 if reader == "int" else 1, lo, hi, p, n, hx(t)),
                     typ="elt", ring=name, p=p, n=n, text=t, reader=reader, lo=lo, hi=hi, neg_ok=(kind == "bal"))
    for (w, p, k) in gf:
        q = p ** k
        zs = [q - 1, 0, 1, 2 % q, q // 2]
        sep = SEPS[(p + k) % len(SEPS)]
        t = sep.join(str(z) for z in zs) + sep
        lo, hi = I32 if w == 32 else I64
        add_seqd("gfq.seqd", "gfq.seqd %d %d %d %d %d %s" % (w, p, k, q - 1, len(zs) + 1, hx(t)),
                 "elt.seqd 0 1 %d %d %d %d %s" % (lo, hi, q, len(zs) + 1, hx(t)),
                 typ="gfq", p=q, n=len(zs) + 1, text=t, reader="word", lo=lo, hi=hi, neg_ok=True)
    for K in (6, 7, 8, 9, 12):
        N = 1 << K
        for hexm in (0, 1):
            if K == 12 and hexm:
                continue
            uv = [2**N - 1, 0, 2**64 if N > 64 else 256, 5, 2**(N - 1)]
            sv = [-2**(N - 1), -1, 0, 2**(N - 1) - 1, -(2**64) if N > 64 else -256, 7]
            if K == 12:
                uv, sv = uv[:2] + [5], sv[:2] + [7]
            sep = SEPS[(K + hexm) % len(SEPS)]
            for sg, vals, old in (("ru", uv, 2**N - 1), ("ri", sv, -1 if hexm else -2**(N - 1))):
                if hexm:
                    txs = [("%x" % v) if (K == 6 and sg == "ru") else ("%0*x" % (N // 4, v % 2**N)) for v in vals]
                else:
                    txs = [str(v) for v in vals]
                t = sep.join(txs) + ["", sep][hexm]
                n = len(vals) + (1 if K < 12 else 0)
                add_seqd(sg + ".seqd", "%s.seqd %d %d %d %d %s" % (sg, K, hexm, old, n, hx(t)), "%s.seqd %d %d %d %d %s" % (sg, K, hexm, old, n, hx(t)),
                         typ=sg, K=K, hex=hexm, n=n, text=t)
        for a in ([0, 9, 10**19, 2**N - 1] if K < 12 else [2**N - 1]):      # ruint<K>(const char*) of the text operator<< prints
            add("ru.cstr", "ru.cstr %d 0 %d" % (K, a), None, K=K, a=a)
    # display_dec with the buffer size the source declares (re-read above), against the model's buffered loop (C19_ruint_dec_buffer)
    bufinfo = chk.cov.get("source_constants", {}).get("recint.display_dec.buffer")
    for K in (6, 7, 8, 9, 10, 11, 12):
        N = 1 << K
        D = len(str(2**N - 1))
        buf = bufinfo["size_vs_digits"][K][0] if isinstance(bufinfo, dict) else N // 3 + 2
        for a in ([2**N - 1, 10**(D - 1), 10**(D - 1) - 1, 0] if K < 11 else [2**N - 1]):
            add("ru.wbuf", "ru.write %d 0 %d" % (K, a), "ru.wbuf %d %d" % (buf, a), K=K, a=a, buf=buf)
    poly_shapes = [[5, 3, 1, 0], [0, 1, 3, 5], [2, 2, 0, 1], [4, 0, 4], [1, 0]]

    def poly_text(rng_, p, kind_, degs, csep, psep, trail):
        out_ = []
        for dg in degs:
            cs = [rng_.below(p) for _ in range(dg)] + [1 + rng_.below(p - 1)]
            if dg >= 2:
                cs[rng_.below(dg)] = 0
            reps = [rep_of(kind_, p, c) for c in cs]
            out_.append(str(dg) + "".join(csep + str(c) for c in reversed(reps)))
        return psep.join(out_) + trail

    for ri_, name in enumerate(POLY_RINGS):
        kind, reader, _ = RINGS[name]
        bal = 1 if kind == "bal" else 0
        ps_ = ring_moduli(name, maxc[name])
        lohi = RINGS[name][2] or (0, 0)
        word = 0 if reader == "int" else 1

        def add_poly_seq(p, old, n, t, degs=None):
            ostr = ",".join(str(c) for c in old) or "-"
            add_seqd("poly.seqd", "poly.seqd %s %d %s %d %s" % (name, p, ostr, n, hx(t)),
                     "%s %d %d %d %d %d %s %d %s" % ("poly.seqd" if POLY_FIXED else "poly.seqd0", bal, word, lohi[0], lohi[1], p, ostr, n, hx(t)),
                     typ="poly", ring=name, p=p, n=n, text=t, degs=degs, oldcs=old, fixed=POLY_FIXED, reader=reader, lohi=lohi)
        for si, degs in enumerate(poly_shapes + [[rng.below(7) for _ in range(rng.range(2, 5))] for _ in range(2 * S)]):
            p = ps_[(si + ri_) % len(ps_)]
            psep = SEPS[(si + ri_) % len(SEPS)]
            t = poly_text(rng, p, kind, degs, [" ", "\n", "  "][si % 3], psep, ["", psep, "\n"][si % 3])
            old = [[p - 1] * 8, [], [1], [p - 1] * 3, [0, 0, 0, 0, 0, 0, 1]][(si + ri_) % 5]
            # one more read than there are polynomials: the read `while (D.read(in, P))` makes at the end of the input
            add_poly_seq(p, old, len(degs) + 1, t, degs)
        p = ps_[0]
        # reads that have no degree to extract (empty text, white space, end of file) and negative degrees, alone and inside a sequence
        for t, n in (("-1", 1), ("", 1), (" ", 1), ("\n", 2), ("-1\n0 1", 2), ("-5 3", 2), ("1 2 3\n-1\n0 1\n", 4), ("0 1", 3)):
            add_poly_seq(p, [p - 1] * 3, n, t)
        if reader == "int":         # a sequence cut short / with a bad coefficient / a bad degree: the reads after the failure
            for t in ["2 1 2 3\n1 4", "1 1 x\n0 5", "0 7 0", "x 1 2", "2 1 2 3\nx"]:
                add_poly_seq(p, [p - 1] * 4, 3, t)
    for (p, irr) in ((7, [1, 0, 1]), (101, [99, 0, 1]), (2, [1, 1, 0, 1]), (3, [1, 2, 0, 1, 1])):
        for si, degs in enumerate(poly_shapes[:3] + [None, None]):
            psep = SEPS[(si + p) % len(SEPS)]
            if degs is None:
                t, n = [("-1", 1), ("0 1\n", 3)][si - 3]
            else:
                t = poly_text(rng, p, "mod", degs, " ", psep, psep) if p > 2 else psep.join(str(d) + " 1" + " 1" * d for d in degs)
                n = len(degs) + 1
            old = [[p - 1] * 8, [], [1, 1, 1, 1]][si % 3]
            ostr = ",".join(str(c) for c in old) or "-"
            add_seqd("ext.seqd", "ext.seqd %d %s %s %d %s" % (p, ",".join(str(c) for c in irr), ostr, n, hx(t)), None,
                     typ="ext", p=p, irr=irr, n=n, text=t, oldcs=old, fixed=POLY_FIXED)
    # what Poly1Dom::write prints, read by Poly1Dom::read into a variable that holds another polynomial
    for c in [c for c in cases if c["kind"] == "poly.write"]:
        sp = c["spec"]
        name, p, var, cs = sp["ring"], sp["p"], sp["var"], sp["cs"]
        old = rng.choice([[], [p - 1] * 7, [1], [0, 0], [2 % p, 0, 0, 3 % p]])
        ostr = ",".join(str(x) for x in old) or "-"
        cstr = ",".join(str(x) for x in cs) if cs else "-"
        bal = 1 if sp["rkind"] == "bal" else 0
        lohi = RINGS[name][2] or (0, 0)
        add("poly.wr", "poly.wr %s %d %s %s %s" % (name, p, hx(var), cstr, ostr),
            "%s %s %d %d %d %d %d %s %s" % ("poly.wr" if POLY_FIXED else "poly.wr0", hx(var), bal, 0 if RINGS[name][1] == "int" else 1, lohi[0], lohi[1], p, cstr, ostr),
            ring=name, p=p, var=var, cs=cs, rkind=sp["rkind"], old=old, fixed=POLY_FIXED)

    # ---- several values written one after the other to ONE ostream (a writer must leave the stream's flags alone), read back
    #      from ONE istream into ONE variable
    def rat_txt(a, b):
        return str(a) if b == 1 else "%d/%d" % (a, b)

    for k, sep in enumerate(SEPS + [","]):
        vals = int_vals[k % 4:] + int_vals[:k % 4] + [gen_int(rng)]
        t = sep.join(str(v) for v in vals)
        old = int_olds[(k + 1) % len(int_olds)]
        v = ("op", "print", "zring")[k % 3]
        add("int.wseq", "int.wseq.%s %d %s %s %d" % (v, old, hx(sep), ",".join(str(x) for x in vals), len(vals) + 1),
            "int.seqd %d %d %s" % (old, len(vals) + 1, hx(t)), typ="int", old=old, n=len(vals) + 1, text=t, site="Integer::print")
    for k, sep in enumerate(SEPS[:6]):          # Integer on streams in hex / oct mode (GMP honours basefield on both sides)
        b = (16, 8)[k % 2]
        vals = int_vals[k % 4:] + int_vals[:k % 4] + [gen_int(rng)]
        t = sep.join(("-" if v < 0 else "") + (("%x" if b == 16 else "%o") % abs(v)) for v in vals)
        add("int.wseqb", "int.wseqb %d %d %s %s %d" % (b, -77, hx(sep), ",".join(str(x) for x in vals), len(vals) + 1), None,
            typ="int", old=-77, n=len(vals) + 1, text=t, base=b, site="Integer::print base %d" % b)
    for k, sep in enumerate(SEPS):
        vals = rat_vals[k % 5:] + rat_vals[:k % 5] + [gen_rat(rng)]
        t = sep.join(rat_txt(a, b) for a, b in vals)
        on, od = rat_olds[(k + 2) % len(rat_olds)]
        v = ("op", "print", "qfield")[k % 3]
        add("rat.wseq", "rat.wseq.%s %d %d %s %s %d" % (v, on, od, hx(sep), ",".join("%d/%d" % x for x in vals), len(vals) + 1),
            "rat.seqd %d %d %d %s" % (on, od, len(vals) + 1, hx(t)), typ="rat", n=len(vals) + 1, text=t, site="Rational::print")
    for ri_, name in enumerate(sorted(RINGS)):
        kind, reader, rng_lohi = RINGS[name]
        p = ring_moduli(name, maxc[name])[-1]
        zs = [1, p - 1, 0, p // 2 + 1, rng.below(p), p // 2, 2 % p]
        sep = SEPS[(ri_ + 3) % len(SEPS)]
        t = sep.join(str(rep_of(kind, p, z)) for z in zs)
        lo, hi = rng_lohi if rng_lohi else (0, 0)
        bal = 1 if kind == "bal" else 0
        add("ring.wseq", "ring.wseq %s %d %d %s %s %d" % (name, p, p - 1, hx(sep), ",".join(str(z) for z in zs), len(zs) + 1),
            "elt.seqd %d %d %d %d %d %d %s" % (bal, 0 if reader == "int" else 1, lo, hi, p, len(zs) + 1, hx(t)),
            typ="elt", ring=name, p=p, n=len(zs) + 1, text=t, reader=reader, lo=lo, hi=hi, neg_ok=(kind == "bal"),
            site=RING_CXX.get(name, "Modular<%s>" % name) + "::write")
    for K in (6, 7, 8, 9):
        N = 1 << K
        for hexm in (0, 1):
            sep = SEPS[(K + 2 * hexm) % len(SEPS)]
            for sg, vals, old in (("ru", [5, 2**N - 1, 0, 2**64 if N > 64 else 256, rng.bits(N), 10**19], 2**N - 1),
                                  ("ri", [7, -2**(N - 1), -1, 0, 2**(N - 1) - 1, -(rng.bits(N - 2)), 10**18], -1)):
                if hexm:
                    txs = [("%x" % v) if (K == 6 and sg == "ru") else ("%0*x" % (N // 4, v % 2**N)) for v in vals]
                else:
                    txs = [str(v) for v in vals]
                t = sep.join(txs)
                add(sg + ".wseq", "%s.wseq %d %d %d %s %s %d" % (sg, K, hexm, old, hx(sep), ",".join(str(v) for v in vals), len(vals) + 1),
                    "%s.seqd %d %d %d %d %s" % (sg, K, hexm, old, len(vals) + 1, hx(t)), typ=sg, K=K, hex=hexm, n=len(vals) + 1, text=t,
                    site="RecInt::operator<<(%s)" % ("ruint" if sg == "ru" else "rint"))
    for ri_, name in enumerate(POLY_RINGS):
        kind, reader, _ = RINGS[name]
        ps_ = ring_moduli(name, maxc[name])
        for j in range(2):
            p = ps_[(j + ri_) % len(ps_)]
            var = VARS[(ri_ + j) % len(VARS)]
            pols = [[1, p - 1, 0, 2 % p], [], [1], [0, 1], [rng.below(p) for _ in range(rng.range(1, 6))], [p - 1]][j:j + 5]
            sep = ["\n", " ; ", " ", "\t"][(ri_ + j) % 4]
            t = sep.join(py_poly_text(var, [rep_of(kind, p, c) for c in cs]) for cs in pols)
            add("poly.wseq", "poly.wseq %s %d %s %s %s" % (name, p, hx(var), hx(sep), ";".join(",".join(str(c) for c in cs) or "-" for cs in pols)), None,
                ring=name, p=p, var=var, text=t)
    for k in range(8 + 4 * S):
        sep = [" ", "\n", "\t", "  ", " \n", "\r\n"][k % 6]
        p = [101, 2147483629, 3, 65521][k % 4]
        z, z2 = (gen_int(rng), gen_int(rng)) if k >= 4 else [(-(2**64), 7), (0, -1), (10**30, 2**63), (-5, 0)][k]
        (n1, d1), (n2, d2) = (gen_rat(rng), gen_rat(rng)) if k >= 3 else [((3, 1), (-1, 2)), ((-7, 3), (5, 1)), ((0, 1), (0, 1))][k]
        e, bb = rng.below(p), rng.below(p)
        u, u8 = rng.bits(128) if k % 2 else 2**128 - 1, rng.bits(256) if k % 3 else 2**256 - 1
        s7 = -(2**127) if k == 0 else rng.bits(126) * (-1 if k % 2 else 1)
        g = k % 2
        cs = [[1, 2], [], [1], [0, 0, 1], [p - 1, 1]][k % 5] if k < 5 else [rng.below(p) for _ in range(rng.range(0, 4))]
        add("mix.rt", "mix.rt %s %d %d %d %d %d %d %d %d %d %s %d %d %d %d" % (hx(sep), z, n1, d1, p, e, u, s7, bb, g, ",".join(str(c) for c in cs) or "-", z2, u8, n2, d2),
            None, sep=sep, z=z, q=(n1, d1), p=p, e=e, u=u, s7=s7, bb=bb, g=g, cs=cs, z2=z2, u8=u8, q2=(n2, d2))

    # ---- Integer operator<< under stream flags (width, fill, showpos, showbase, uppercase, adjustment): GMP honours them; the text is
    #      compared with the documented format and read back in the same base (it reads back when it is padded with blanks on the left,
    #      without base prefix; the other outcomes are GMP's reader on that text)
    flag_combos = [(10, 8, "*", 1, 0, 0, "r"), (10, 12, " ", 0, 0, 0, "r"), (10, 12, " ", 1, 0, 0, "r"), (10, 8, " ", 0, 0, 0, "l"), (10, 8, " ", 0, 0, 0, "i"),
                   (16, 10, " ", 0, 1, 1, "r"), (16, 0, "", 0, 0, 1, "r"), (16, 20, " ", 1, 0, 0, "r"), (8, 0, "", 0, 1, 0, "r"), (8, 14, " ", 0, 0, 0, "r"),
                   (10, 0, "", 1, 0, 0, "r"), (16, 6, "0", 0, 0, 0, "r")]
    for k, combo in enumerate(flag_combos + [None] * (6 * S)):
        if combo is not None:
            b, w, fl_, sp_, sb_, up_, adj = combo
        else:
            b, w, fl_, sp_, up_, adj = rng.choice([10, 16, 8]), rng.choice([0, 5, 12, 30]), rng.choice([" ", " ", "*", "0"]), rng.below(2), rng.below(2), rng.choice(["r", "r", "l", "i"])
            sb_ = rng.below(2) if adj != "i" else 0
        for z in ([255, -255, 2**64, -(10**30)] if k < len(flag_combos) else [gen_int(rng) or 1]):
            if z == 0:
                z = 1
            first = gmp_fmt(z, b, w, fl_, sp_, sb_, up_, adj)
            t = first + "|" + gmp_fmt(z, b, 0, fl_, sp_, sb_, up_, adj)
            add("int.flags", "int.flags %d %d %s %d %d %d %s %d 7" % (b, w, hx(fl_), sp_, sb_, up_, adj, z), None, text=t, first=first, base=b, z=z, old=7)
    # ---- Extension elements are written by the polynomial writer of the extension's polynomial domain (model: poly_write)
    for (p, irr) in ((7, [1, 0, 1]), (101, [99, 0, 1]), (3, [1, 2, 0, 1, 1])):
        for cs in ([], [1], [0, 1], [p - 1, 0, 1], [rng.below(p) for _ in range(len(irr) - 1)], [2 % p] + [0] * (len(irr) - 3) + [1]):
            cstr = ",".join(str(c) for c in cs) or "-"
            add("ext.write", "ext.write %d %s %s" % (p, ",".join(str(c) for c in irr), cstr), "poly.write 58 0 %d %s" % (p, cstr), p=p, cs=cs)
    # ---- RecInt rmint<K, MG> (plain and Montgomery representation): operator<< prints the residue, operator>> reads and reduces
    for k, (mg, K, p) in enumerate([(1, 7, 101), (0, 7, 2**127 - 1), (1, 6, 2**64 - 59), (0, 6, 65521), (1, 7, 2**128 - 159), (0, 6, 3), (1, 6, 3)]):
        vals = [p - 1, 0, 1, p // 2, rng.below(p), 2 % p]
        sep = SEPS[(k + 1) % len(SEPS)]
        t = sep.join(str(v) for v in vals)
        add("rm.wseq", "rm.seqd %d %d %d %d %s %s %d" % (mg, K, p, p - 1, hx(sep), ",".join(str(v) for v in vals), len(vals) + 1),
            "elt.seqd 0 0 0 0 %d %d %s" % (p, len(vals) + 1, hx(t)), typ="elt", ring="rmint", p=p, n=len(vals) + 1, text=t, reader="int", lo=0, hi=0, neg_ok=False,
            site="RecInt::operator<<(rmint)")
    # ---- rationals stored unreduced (Rational(n, d, 0)): printed as they are, read back in lowest terms (C19_rational_unreduced_roundtrip)
    for i in range(30 * S):
        n, d = gen_rat(rng)
        kf = rng.choice([2, 3, 10, 2**64, -1, -3]) if i % 5 else 6
        n2, d2 = n * abs(kf), d * abs(kf)
        if n2 == 0 or d2 == 1:
            continue
        tail = rng.choice(TAILS_ANY)
        v = rng.choice(["op", "print", "qfield"])
        add("rat.rt", "rat.rt.%s %d %d %s" % (v, n2, d2, hx(tail)), "rat.rt %d %d %s" % (n2, d2, hx(tail)), n=n2, d=d2, tail=tail)

    # ---- preprocessor-selected I/O code.  Every conditional chain of the anchor files is listed from the current sources, the compiler
    #      says which branch it selects, and the alternative of the Integer I/O unit (no GMP C++ streams: own packet reader, mpz_get_str
    #      writer) is built next to the harness and driven: every decimal length 1..70 (leading digit 1 and 9, both signs), zero, word
    #      limits, every call form, sequences; the model of that reader runs with the table read from the source.
    chains = scan_pp_chains()
    sel, perr = probe_selected(chains)
    if sel is None:
        chk.cov.setdefault("inconclusive", []).append("the branch-selection probe did not compile: " + perr[-200:])
        sel = {}
    ppcov = []
    for cch in chains:
        classes = [PP_MACROS.get(mac) for mac in cch["macros"]]
        unknown = [mac for mac in cch["macros"] if mac not in PP_MACROS]
        entry = {"file": cch["file"], "line": cch["line"], "cond": cch["cond"], "alternatives": cch["branches"] + (0 if cch["branches"] > 1 else 1),
                 "first_branch_selected": sel.get(cch["cond"]), "class": sorted(set(x[0] for x in classes if x)), "note": "; ".join(sorted(set(x[1] for x in classes if x)))}
        if unknown or not cch["line"]:
            entry["class"] = ["UNCLASSIFIED"]
            chk.broke("preprocessor chain in an anchor file of C19 that the check does not know: %s:%d `#if %s` (macros %s): its alternative branches are not built / driven"
                      % (cch["file"], cch["line"], cch["cond"], ", ".join(unknown) or "?"))
        ppcov.append(entry)
    chk.cov["preprocessor_chains"] = ppcov
    # the alternative that needs <strstream>
    try:
        unit = os.path.join(vf.REPO, "src/kernel/rational/givratcstor.C")
        dpp = vf.mkdir(os.path.join(vf.CACHE, "c19-oldsstream-%s" % vf.file_hash([unit], "old-sstream")))
        resf = os.path.join(dpp, "result.txt")
        if not os.path.exists(resf):
            rc_, out_ = vf.sh([vf.CXX] + vf.BASE_FLAGS + ["-D__GIVARO_OLD_SSTREAM__"] + vf.inc_flags() + ["-c", unit, "-o", os.path.join(dpp, "u.o")], timeout=600)
            if rc_ != 124:
                open(resf, "w").write("builds" if rc_ == 0 else "does not build with this compiler: " + " ".join(out_.split("\n")[1:2])[:200])
        chk.cov["preprocessor_alternatives"] = {"__GIVARO_OLD_SSTREAM__ (givratcstor.C)": open(resf).read() if os.path.exists(resf) else "not tried (time-out)"}
        if chk.cov["preprocessor_alternatives"]["__GIVARO_OLD_SSTREAM__ (givratcstor.C)"] == "builds":
            chk.broke("givratcstor.C now builds with -D__GIVARO_OLD_SSTREAM__: that alternative of Rational(const char*) must be driven (not implemented)")
    except OSError:
        pass
    chk.cov.setdefault("preprocessor_alternatives", {})["__GIVARO_GMP_NO_CXX (gmp++_int_io.C)"] = "built and driven (alt.* streams)"
    chk.cov["preprocessor_alternatives"]["__GIVARO_SIZEOF_LONG < 8"] = "cannot be built here: the ABI fixes sizeof(long) = 8"
    table = nocxx_table()
    chk.cov["source_constants"]["integer.nocxx.table"] = table
    if table is None:
        chk.broke("source tie lost: the powers-of-ten table `base[] = {10, 100, ...}` of the packet reader not found in gmp++_int_io.C")
        table = [10**k for k in range(1, 10)]
    elif table[:9] != [10**k for k in range(1, 10)]:
        chk.broke("gmp++_int_io.C (branch __GIVARO_GMP_NO_CXX): the table of the packet reader is %s, C19_nocxx_packets needs base[k-1] = 10^k for k = 1..9" % table)
    tstr = ",".join(str(x) for x in table)
    alt_tails = ["", " ", "\n", "x", ",", " 5", "/3", "-"]
    alt_vals = [0, 2**63, -(2**63), 2**64 - 1, 2**64, -(2**64), 2**128 - 1, 2**128, -(2**128) - 1, 999999999, 1000000000, -999999999, 10**18 - 1]
    for L in range(1, 71):
        nine = int(("9753186420" * 8)[:L])
        alt_vals += [10**(L - 1), -(10**(L - 1)), nine, -nine]
    for k, z in enumerate(alt_vals):
        tail = alt_tails[k % len(alt_tails)]
        v = ("op", "zring", "print")[k % 3]
        add("alt.int.rt", "int.rt.%s %d 7 %s" % (v, z, hx(tail)), "int.read.nocxx %s 7 %s" % (tstr, hx(str(z) + tail)), z=z, old=7, tail=tail, variant=v)
        if k % 4 == 0:
            w = ("op", "print", "string", "zring", "abs")[(k // 4) % 5]
            add("alt.int.write", "int.write.%s %d" % (w, z), None, z=z, variant=w)
        if k % 9 == 0 and z != 0:
            n_, d_ = (z, 1) if k % 2 else (1, abs(z) + 1)
            add("alt.rat.rt", "rat.rt.op %d %d %s" % (n_, d_, hx(tail if tail[:1] not in ("/", " ") else "")), None, n=n_, d=d_)
        if k % 11 == 0:
            add("alt.int.rtb", "int.rtb %d %d 7 -" % ((16, 8)[k % 2], z), None, z=z)
    for k, sep in enumerate([" ", "\n", "\t", "  ", " \n ", "\r\n"]):
        vals = [v for j, v in enumerate(alt_vals) if j % 6 == k]
        t = sep.join(str(v) for v in vals) + ["", sep][k % 2]
        add("alt.int.seqd", "int.seqd.%s %d %d %s" % (("op", "zring")[k % 2], -77, len(vals) + 1, hx(t)),
            "int.seqd.nocxx %s %d %d %s" % (tstr, -77, len(vals) + 1, hx(t)), old=-77, n=len(vals) + 1, text=t)

    if replay:
        try:
            import json
            rj = json.load(open(replay))
            rc_ = [c["case"] for c in rj.get("failing_inputs", []) if isinstance(c.get("case"), dict) and "impl" in c["case"]]
            for c in rc_:       # integers of more than 40 digits were stored as text
                for k, v in list(c.get("spec", {}).items()):
                    if isinstance(v, str) and k not in ("text", "tail", "var", "sep", "typ", "reader", "site", "ring", "variant", "rkind", "sg") \
                            and re.fullmatch(r"-?[0-9]+", v):
                        c["spec"][k] = int(v)
                    elif isinstance(v, list) and k in ("q", "q2"):
                        c["spec"][k] = tuple(int(x) for x in v)
            cases = rc_ or cases
        except Exception as ex:
            vf.log("cannot read replay file: %s" % ex)

    # 4. run both sides
    impl_in = "".join(c["impl"] + "\n" for c in cases)
    idx_main = [i for i, c in enumerate(cases) if not c["kind"].startswith("alt.")]
    idx_alt = [i for i, c in enumerate(cases) if c["kind"].startswith("alt.")]
    out_main, problem = run_impl(himpl, [cases[i]["impl"] for i in idx_main], chk.notes)
    if out_main is None and problem == "time-out":   # our own tooling ran out of time (machine load): inconclusive, recorded, not a violation
        return inconclusive(chk, "implementation harness: wall-clock time-out, no comparison was made (%d cases)" % len(cases))
    if out_main is None:
        chk.broke("implementation harness failed: %s" % problem)
        return chk.finish()
    iout = ["NOT-RUN"] * len(cases)
    for i, l in zip(idx_main, out_main):
        iout[i] = l
    # 4a. the alternative preprocessor branch of the Integer I/O unit: gmp++_int_io.C compiled with -D__GIVARO_GMP_NO_CXX
    if idx_alt:
        halt, lalt = build_alt_nocxx()
        if halt is None and ("[timeout" in lalt or "vanished from the cache" in lalt):
            chk.cov.setdefault("inconclusive", []).append("the build without the GMP C++ streams could not be made (compiler time-out / cache race): its %d cases were not run" % len(idx_alt))
        elif halt is None:
            chk.broke("gmp++_int_io.C no longer builds with -D__GIVARO_GMP_NO_CXX (the alternative branch of Integer::print / operator>>)", lalt)
        else:
            out_alt, problem = run_impl(halt, [cases[i]["impl"] for i in idx_alt], chk.notes)
            if out_alt is None and problem == "time-out":
                chk.cov.setdefault("inconclusive", []).append("alt harness: wall-clock time-out, its %d cases were not compared" % len(idx_alt))
            elif out_alt is None:
                chk.broke("alt harness (build without the GMP C++ streams) failed: %s" % problem)
            else:
                for i, l in zip(idx_alt, out_alt):
                    iout[i] = l
    mout = None
    midx = [i for i, c in enumerate(cases) if c["model"]]
    if drv:
        rc, mo, merr = run_chunks(drv, [cases[i]["model"] for i in midx], 8 if big else 4)
        if rc == 124:
            chk.notes.append("INCONCLUSIVE: the extracted model driver did not finish within 1700 s; the implementation was compared with the python oracles only")
            chk.cov.setdefault("inconclusive", []).append("model driver: wall-clock time-out, no correspondence comparison was made")
        elif rc != 0 or len(mo) != len(midx):
            chk.broke("model driver failed (rc=%s, %d/%d lines)" % (rc, len(mo), len(midx)), merr)
        else:
            mout = dict(zip(midx, mo))

    # 4b. the proved reference parser (C19_poly_text_parse) applied to what the implementation wrote
    if drv:
        pidx = [i for i, c in enumerate(cases) if c["kind"] == "poly.write" and iout[i].split()]
        rc, po, perr = run_chunks(drv, ["poly.parse %s %s" % (hx(cases[i]["spec"]["var"]), iout[i].split()[0]) for i in pidx], 2)
        if rc == 124:
            chk.cov.setdefault("inconclusive", []).append("model driver time-out (poly.parse): the proved parser was not run on the written texts")
        elif rc != 0 or len(po) != len(pidx):
            chk.broke("model driver failed on poly.parse (rc=%s, %d/%d lines)" % (rc, len(po), len(pidx)), perr)
        else:
            for i, l in zip(pidx, po):
                cases[i]["spec"]["model_parse"] = l.strip()
    # 5. three-way comparison
    ncorr = 0
    dist = {}
    gfq_texts = {}
    for i, c in enumerate(cases):
        kind, sp, got = c["kind"], c["spec"], iout[i].split()
        dist[kind] = dist.get(kind, 0) + 1
        mline = mout.get(i) if mout is not None else None
        if kind.startswith("alt."):
            bad = False
            if got != ["NOT-RUN"]:
                judge_alt(chk, c, got, mline)
        else:
            bad = judge(chk, c, got, mline, gfq_texts)
        nontrivial = any(isinstance(v, int) and abs(v) > 9 for v in sp.values()) or len(sp.get("text", "")) > 2 or len(sp.get("cs", [])) > 1
        chk.count(c["impl"], nontrivial=nontrivial)
        if i % 401 == 0:
            chk.sample({"case": c["impl"], "impl": iout[i][:160], "model": (mline or "")[:160]})
        if mline is not None and iout[i] != "NOT-RUN":
            ncorr += 1
    # GFq: the written texts of one field are pairwise different (exhaustive fields)
    for key, d in gfq_texts.items():
        inv = {}
        for e, t in d.items():
            if t in inv and inv[t] != e:
                chk.fail_input("GFqDom::write", "two elements, same text", {"field": key, "e1": inv[t], "e2": e}, "different texts", t)
            inv[t] = e
    if len(chk.broken) > 20:
        chk.broken = chk.broken[:20] + [{"what": "... %d more" % (len(chk.broken) - 20), "detail": ""}]
    chk.cov["rule"] = ("values: structured integers (0, +-1, powers of 10 and 2 +-1, limbs from {0,1,2^63,2^64-1,random}, up to 5 limbs), canonical "
                       "rationals incl. denominator 1 and numerator 0, residues of %d ring types x moduli up to maxCardinality, all elements of "
                       "small GF(q), ruint/rint K=6..12 dec and hex (type min/max and maximal digit counts), Integer under hex/oct, polynomials of degree <= 12 over 8 rings x 6 indeterminate names; each written, "
                       "followed by one of %d tails (blanks, '/', sign, digit, letters, end of stream) and read back through every call form; "
                       "plus adversarial texts over ' \\t\\n+-/0-9x' and sequences of 1-5 values with separators.  non-trivial = a value of two or more "
                       "digits or a text longer than 2 characters; distinct = the input line" % (len(RINGS), len(TAILS_ANY)))
    forms = {}
    for c in cases:
        tk = c["impl"].split()
        key = tk[0] + (":" + tk[1] if tk[0].split(".")[0] in ("ring", "poly") else (":K=" + tk[1] + (",hex" if tk[2] == "1" else "") if tk[0][:3] in ("ru.", "ri.") else ""))
        forms[key] = forms.get(key, 0) + 1
    chk.cov["call_forms"] = forms
    # floors on what was actually compared: a run that falls below them because of tooling problems says so prominently
    floor = {"oracle_comparisons": 9000 if not big else 120000, "model_comparisons": 8500 if not big else 100000}
    not_run = sum(1 for l in iout if l == "NOT-RUN")
    done = {"oracle_comparisons": (len(cases) - not_run) if not replay else floor["oracle_comparisons"], "model_comparisons": ncorr if not replay else floor["model_comparisons"]}
    chk.cov["compared"] = dict(done, theorems_rechecked=chk.cov.get("discharged", 0), floor=floor)
    missed = ["%s: %d < %d" % (k, done[k], floor[k]) for k in floor if done[k] < floor[k]]
    if chk.cov.get("discharged", 0) < chk.cov.get("obligations", 0):
        missed.append("theorems: %d of %d re-checked" % (chk.cov.get("discharged", 0), chk.cov.get("obligations", 0)))
    if missed:
        chk.cov["floor_missed"] = missed
        chk.notes.append("FLOOR MISSED (fewer comparisons than a complete run makes: tooling time-out, or cases not run after calls that did not return): " + "; ".join(missed))
    chk.cov["hang_handling"] = {"cpu_budget_s": CPU_BUDGET, "confirm_budget_s": CONFIRM_BUDGET, "confirmations": HANG_CAPS["confirmations"], "overruns": HANG_CAPS["overruns"],
                                "forms_not_driven_any_more": sorted(HANG_CAPS["banned"]), "streams_stopped": HANG_CAPS["stopped"], "cases_not_run": sum(1 for l in iout if l == "NOT-RUN")}
    chk.cov["traces_validated_against_impl"] = ncorr
    chk.cov["distribution_by_kind"] = dist
    chk.cov["rings"] = sorted(RINGS)
    chk.cov["maxCardinality_from_impl"] = maxc
    return chk.finish()


def run_chunks(binary, lines, n):
    """run a line-by-line driver on `lines`, split round-robin over n processes; results in input order"""
    from concurrent.futures import ThreadPoolExecutor
    n = max(1, min(n, len(lines) // 200 or 1))
    parts = [lines[k::n] for k in range(n)]
    with ThreadPoolExecutor(max_workers=n) as ex:
        res = list(ex.map(lambda part: vf.run_lines(binary, "".join(l + "\n" for l in part), timeout=1700), parts))
    out = [None] * len(lines)
    err = ""
    for k, (rc, o, e) in enumerate(res):
        if rc != 0 or len(o) != len(parts[k]):
            return rc or 1, [], e
        out[k::n] = o
        err += e
    return 0, out, err


def build_harness_private(src):
    """vf.build_harness, except that the static library is copied next to the harness before linking: the shared
    lib-* cache keeps only the 6 newest libraries and concurrent checks of other properties prune it while this
    harness (30 s of template instantiation) is still compiling."""
    import shutil
    srcp = os.path.join(vf.ROOT, "harness", src)
    extra = []
    try:        # ruint<6>(const char*) is declared but not defined before frag/C19.fix-4: use it only when the tree defines it
        if re.search(r"ruint<__RECINT_LIMB_SIZE>::ruint\s*\(\s*const\s+char", open(os.path.join(vf.REPO, "src/kernel/recint/ruconvert.h"), errors="replace").read()):
            extra = ["-DC19_RUINT6_CSTR"]
    except OSError:
        pass
    key = vf.file_hash(vf.repo_sources() + [srcp], "private-lib" + "".join(extra))
    name = os.path.splitext(src)[0]
    d = vf.mkdir(os.path.join(vf.CACHE, "h-%s-%s" % (name, key)))
    b = os.path.join(d, name)
    if os.path.exists(b):
        return b, ""
    mylib = os.path.join(d, "libgivaro_verif.%d.a" % os.getpid())
    log = ""
    for _ in range(4):
        lib, log = vf.build_repo_lib()
        if lib is None:
            return None, "library build failed:\n" + log
        try:
            shutil.copyfile(lib, mylib)
            break
        except OSError as ex:
            log = "library vanished from the cache while copying: %s" % ex
    else:
        return None, log
    tmpb = "%s.tmp%d" % (b, os.getpid())
    cmd = [vf.CXX] + vf.BASE_FLAGS + extra + vf.inc_flags() + ["-I" + os.path.join(vf.ROOT, "harness"), srcp, "-o", tmpb, mylib,
                                                       "-lgmpxx", "-lgmp", "-lpthread"]
    rc, out = vf.sh(cmd, timeout=900)
    try:
        os.remove(mylib)
    except OSError:
        pass
    if rc != 0:
        try:
            os.remove(tmpb)
        except OSError:
            pass
        return None, out
    os.rename(tmpb, b)
    vf.prune_cache("h-%s-" % name, keep=4)
    return b, out


def st(e, f):
    return ("1" if e else "0") + ("1" if f else "0")


def judge(chk, c, got, mline, gfq_texts):
    """compare one case three ways.  got = tokens of the implementation's line."""
    kind, sp = c["kind"], c["spec"]
    case = {"impl": c["impl"], "model": c["model"], "kind": kind, "spec": {k: (v if not isinstance(v, int) or abs(v) < 10**40 else str(v)) for k, v in sp.items()}}
    raw = " ".join(got)
    failed = [False]

    def fail(site, klass, expected, detail=""):
        failed[0] = True
        chk.fail_input(site, klass, dict(case, kind=kind), expected, raw[:600], detail)

    def corr(model_tokens, impl_tokens, what=""):
        """correspondence; reported only when the oracle found nothing wrong on this case"""
        if mline is None or failed[0]:
            return
        if model_tokens != impl_tokens:
            chk.broke("correspondence model/implementation differs on `%s`%s: model=%s impl=%s" % (c["impl"][:300], what, " ".join(model_tokens)[:300], " ".join(impl_tokens)[:300]))

    def model_vs_spec(ok, what):
        if mline is not None and not ok:
            chk.broke("extracted model differs from the specification oracle on `%s`: model=%s spec=%s" % (c["model"][:300], mline[:300], what))

    mt = mline.split() if mline is not None else None

    def pair_failure(name, p, reps, text, g3, oldcs):
        """Poly1Dom::read did not give back what Poly1Dom::write printed.  g3 = [coefficients, rest, state] observed.
        The known keys cover ONLY the outcome the degree-prefixed reader must have on that text, coefficient by coefficient
        (for every coefficient reader; a coefficient whose temporary is never assigned is the only one not compared)."""
        knd_, reader_, lohi_ = RINGS[name]
        pred = py_poly_read(text, p, sp["fixed"], reader_, lohi_, [x % p for x in oldcs])
        as_predicted = False
        if pred not in (None, "UB") and g3 is not None and pred[3]:
            pcs, prest, pe, pf = pred
            as_predicted = g3[1:] == [hx(prest), st(pe, pf)] and coefs_match(pcs, g3[0])
        if as_predicted:
            nz = [x for x in reps if x != 0]
            fail("Poly1Dom::read(write)", "zero polynomial" if not nz else "nonzero polynomial", "the polynomial written, stream not failed",
                 "Poly1Dom::read does not parse what Poly1Dom::write prints (observed = what the degree-prefixed reader does with that text)")
        else:
            fail("Poly1Dom::read", "text written by Poly1Dom::write", "none" if pred in (None, "UB") else "%s %s %s" % (",".join("?" if x is None else str(x) for x in pred[0]) or "-", hx(pred[1]), st(pred[2], pred[3])),
                 "not what the degree-prefixed reader does with `%s`" % text[:120])
        return pred

    if got == ["NOT-RUN"]:
        return False
    DEGLESS = ("Poly1Dom::read", "no degree to read (end of input / negative degree)")
    if got[:1] in (["CRASHED"], ["DOES-NOT-RETURN"], ["CPU-TIMEOUT"]) or (got == ["EXCEPTION"] and kind in ("poly.seqd", "ext.seqd")):
        # the harness case crashed or did not return (per-case CPU watchdog; re-run alone with a 6x budget before it is reported)
        what = "crash (%s)" % raw if got[0] == "CRASHED" else "exception (a garbage size)" if got[0] == "EXCEPTION" else "does-not-return"
        if tmp_unassigned_case(kind, sp):
            fail(TMP_UNASSIGNED[0], TMP_UNASSIGNED[1], "failbit, the element = init(0)", what)
        elif kind in ("poly.seqd", "ext.seqd") and not sp["fixed"] and seq_expect(sp)[2]:
            # the unguarded Poly1Dom::read on a read that has no degree to extract: undefined behaviour of the code in /repo
            fail(DEGLESS[0], DEGLESS[1], "failbit, P left alone (or the zero polynomial for a negative degree)", what)
        else:
            fail("%s [%s]" % (kind, c["impl"].split()[0]), what, "a result line", "the call %s" % ("crashed" if got[0] == "CRASHED" else "did not return within %d CPU seconds" % (6 * CPU_BUDGET)))
    elif kind == "poly.wseq":
        if got != [hx(sp["text"])]:
            fail("Poly1Dom::write (several polynomials on one stream)", "text", hx(sp["text"]), "expected `%s`" % sp["text"][:200])
    elif kind == "mix.rt":
        p = sp["p"]
        items = [str(sp["z"]), "%d" % sp["q"][0] if sp["q"][1] == 1 else "%d/%d" % sp["q"], str(sp["e"] % p), str(sp["u"]), str(sp["s7"]),
                 str(rep_of("bal", p, sp["bb"])), str(sp["g"]), py_poly_text("X", [c % p for c in sp["cs"]]), str(sp["z2"]), str(sp["u8"]),
                 "%d" % sp["q2"][0] if sp["q2"][1] == 1 else "%d/%d" % sp["q2"]]
        text = sp["sep"].join(items)
        ps = PStream(text)
        exp = []

        def tok(v):
            exp.append("%s:%s:%s" % (v, st(ps.e, ps.f), nxc(ps.t)))
        tok(ps.read_int(-99))
        tok("%d/%d" % ps.read_rat())
        tok(ps.read_int(0) % p)
        tok(ps.read_int(0) % 2**128)
        tok(ps.read_int(0))
        v, r, e, f = py_numget(ps.t, I64[0], I64[1], 0)
        ps.t, ps.e, ps.f = r, e, f
        tok(rep_of("bal", p, v))
        v, r, e, f = py_numget(ps.t, 0, 1, 0)
        ps.t, ps.e, ps.f = r, e, f
        tok(v)
        ps.t = ps.t.lstrip(WS)[len(items[7]):]
        tok(ps.read_int(-99))
        tok(ps.read_int(0) % 2**256)
        tok("%d/%d" % ps.read_rat())
        expl = [hx(text)] + exp + [hx(ps.t)]
        if got[:1] != expl[:1]:
            fail("operator<< / write (values of several types on one stream)", "text", hx(text), "expected `%s`" % text[:300])
        elif got != expl:
            fail("operator>> / read (values of several types from one stream)", "seq", " ".join(expl))
    elif kind.endswith((".seqd", ".wseq", ".wseqb")):
        if not kind.endswith(".seqd"):
            if got[:1] != [hx(sp["text"])]:
                fail(sp["site"] + " (several values on one stream)", "text", hx(sp["text"]), "expected `%s`" % sp["text"][:200])
            got = got[1:]
            raw = " ".join(got)
        exp, erest, degless = seq_expect(sp)
        toks, grest = got[:-1], (got[-1] if got else "")
        typ = sp["typ"]
        site = {"int": "Integer::operator>> (same variable)", "rat": "Rational::operator>> (same variable)",
                "elt": RING_CXX.get(sp.get("ring"), "Modular<%s>" % sp.get("ring")) + "::read (same variable)", "gfq": "GFqDom::read (same variable)",
                "ru": "RecInt::operator>>(ruint) (same variable)", "ri": "RecInt::operator>>(rint) (same variable)",
                "poly": "Poly1Dom::read (same variable)", "ext": "Extension::read (same variable)"}[typ]

        def normv(v):
            if typ in ("poly", "ext"):
                cs = [] if v == "-" else v.split(",")
                if typ == "ext":
                    while cs and cs[-1] == "0":
                        cs.pop()
                return ",".join(cs) or "-"
            if typ == "rat" and v.startswith("EXC="):
                return "EXC"
            return v
        ok = len(toks) == len(exp) and (erest is None or grest == erest)
        if ok:
            for (ev, eef, enx), tk in zip(exp, toks):
                parts = tk.split(":")
                if len(parts) != 3 or (ev is not None and normv(parts[0]) != ev) or (eef is not None and parts[1] != eef) or (enx is not None and parts[2] != enx):
                    ok = False
                    break
        if not ok and degless and not sp.get("fixed", True):
            # unguarded Poly1Dom::read: everything before the first read without a degree must still be right
            d0 = degless[0]
            pre_ok = len(toks) >= d0
            for (ev, eef, enx), tk in zip(exp[:d0], toks[:d0]):
                parts = tk.split(":")
                if len(parts) != 3 or (ev is not None and normv(parts[0]) != ev) or (eef is not None and parts[1] != eef) or (enx is not None and parts[2] != enx):
                    pre_ok = False
            if pre_ok:
                fail(DEGLESS[0], DEGLESS[1], " ".join("%s:%s:%s" % tuple("?" if x is None else x for x in e) for e in exp) + " " + str(erest),
                     "read #%d of `%s` has no degree to extract" % (d0 + 1, sp["text"][:120]))
            else:
                fail(site, "seq", " ".join("%s:%s:%s" % tuple("?" if x is None else x for x in e) for e in exp) + " " + str(erest),
                     "%d reads into one variable from `%s`" % (sp["n"], sp["text"][:120]))
        elif not ok:
            klass = "seq"
            if typ == "rat" and re.search(r"(^|[\t\n\v\f\r ])[+-]?[0-9]+ +$", sp["text"]):
                klass = "integer, blanks, end of stream"
            fail(site, klass, " ".join("%s:%s:%s" % tuple("?" if x is None else x for x in e) for e in exp) + " " + str(erest),
                 "%d reads into one variable from `%s`" % (sp["n"], sp["text"][:120]))
        if mt is not None and not failed[0]:
            # correspondence: token by token; values of the ring readers modulo p; nothing after the harness stopped
            mtoks, mrest = mt[:-1], mt[-1]
            if mrest == "UB":            # historical model: the next read is undefined; the defined prefix must agree
                toks, grest = toks[:len(mtoks)], "UB"
                if len(toks) < len(mtoks):
                    chk.broke("correspondence model/implementation differs on `%s`: model=%s impl=%s" % (c["impl"][:300], mline[:300], raw[:300]))
            p_ = sp.get("p")
            good_entry = True
            bad = len(mtoks) < len(toks)
            for k_, tk in enumerate(toks):
                if bad:
                    break
                mp_, ip_ = mtoks[k_].split(":"), tk.split(":")
                mv, iv = mp_[0], ip_[0]
                if typ in ("elt", "gfq"):
                    mv = str(int(mv) % p_)
                    if sp["reader"] != "int" and (k_ >= len(exp) or exp[k_][0] is None):
                        mv = iv              # `T tmp; is >> tmp;` when the sentry fails (stream not good, or only white space left): tmp is not assigned
                if typ == "poly":
                    mv = ",".join(str(int(x) % p_) for x in mv.split(",")) if mv != "-" else "-"
                    if sp.get("reader") != "int" and not sp.get("tmp0") and (k_ >= len(exp) or exp[k_][0] is None):
                        mv = iv              # coefficients read through a temporary that is never assigned
                if [mv] + mp_[1:] != [iv] + ip_[1:]:
                    bad = True
                good_entry = ip_[1] == "00"
            if not bad and len(toks) == len(mtoks) and mrest != grest:
                bad = True
            if not bad and len(toks) < len(mtoks) and toks and toks[-1].split(":")[1] == "00":
                bad = True               # the harness stops only when the stream is not good
            if bad:
                chk.broke("correspondence model/implementation differs on `%s`: model=%s impl=%s" % (c["impl"][:300], mline[:300], raw[:300]))
    elif kind == "int.flags":
        v, r, e, f = py_int_read(sp["first"], sp["old"], sp["base"])
        exp = [hx(sp["text"]), str(v), hx(r), st(e, f)]
        if got[:1] != exp[:1]:
            fail("Integer::print under stream flags", "text", exp[0], "expected `%s`" % sp["text"][:200])
        elif got != exp:
            fail("Integer::operator>> base %d" % sp["base"], "text written under stream flags", " ".join(exp))
    elif kind == "ext.write":
        exp = [hx(py_poly_text("X", [c % sp["p"] for c in sp["cs"]]))]
        if got != exp:
            fail("Extension::write", "text", exp[0])
        corr(mt, got)
    elif kind == "ru.wbuf":
        exp = [hx(str(sp["a"]))]
        if got != exp:
            fail("RecInt::operator<<(ruint)", "K=%d,dec" % sp["K"], exp[0], "decimal text, buffer of %d characters" % sp["buf"])
        corr(mt, got)
        model_vs_spec(mt == exp, exp[0])
    elif kind == "ru.cstr":
        exp = [hx(str(sp["a"])), str(sp["a"])]
        if got != exp:
            fail("RecInt::ruint(const char*)(operator<<)", "K=%d" % sp["K"], " ".join(exp))
    elif kind == "poly.wr":
        # got = text coefficients rest state   (Poly1Dom::write, then Poly1Dom::read into a variable holding sp["old"])
        name, p, var, cs = sp["ring"], sp["p"], sp["var"], sp["cs"]
        reps = [rep_of(sp["rkind"], p, x) % p for x in cs]
        while reps and reps[-1] == 0:
            reps.pop()
        text = unhx(got[0]) if got else ""
        g3 = got[1:] if len(got) == 4 else None
        want = ",".join(str(x) for x in reps) or "-"
        pred = None
        if g3 is None or g3[0] != want or g3[2][1] == "1":
            pred = pair_failure(name, p, reps, text, g3, sp["old"])
        if mt is not None and len(mt) == 4 and g3 is not None:
            mc = [str(int(x) % p) for x in mt[1].split(",")] if mt[1] != "-" else []
            gc = g3[0].split(",") if g3[0] != "-" else []
            if pred not in (None, "UB") and len(mc) == len(gc) == len(pred[0]):
                mc = [g if q is None else m_ for m_, g, q in zip(mc, gc, pred[0])]     # a temporary that is never assigned
            corr(mt[:1] + [",".join(mc) or "-"] + mt[2:], got)
    elif kind in ("int.write", "int.abs"):
        exp = hx(str(abs(sp["z"]) if kind == "int.abs" else sp["z"]))
        if got != [exp]:
            fail("Integer::print" if kind == "int.write" else "absOutput", sp.get("variant", "abs"), exp, "text is not the decimal numeral")
        corr(mt, got)
        model_vs_spec(mt == [exp], exp)
    elif kind == "int.rt":
        t = str(sp["z"])
        v, r, e, f = py_int_read(t + sp["tail"], sp["old"])
        exp = [hx(t), str(v), hx(r), st(e, f)]
        if got != exp:
            fail("Integer::operator>>(operator<<)", sp["variant"] + ("/digit-tail" if sp["tail"][:1].isdigit() else ""), " ".join(exp), "write then read")
        corr(mt, got)
        model_vs_spec(mt == exp, " ".join(exp))
    elif kind == "int.rtb":
        z, b = sp["z"], sp["base"]
        t = ("-" if z < 0 else "") + (("%x" if b == 16 else "%o") % abs(z))
        v, r, e, f = py_int_read(t + sp["tail"], sp["old"], b)
        exp = [hx(t), str(v), hx(r), st(e, f)]
        if got != exp:
            cont = sp["tail"][:1] in ("0123456789abcdefABCDEF" if b == 16 else "01234567") and sp["tail"] != ""
            fail("Integer::operator>>(operator<<) base %d" % b, "digit-tail" if cont else "roundtrip", " ".join(exp), "stream in hex/oct mode")
        corr(mt, got)
        model_vs_spec(mt == exp, " ".join(exp))
    elif kind == "int.read":
        v, r, e, f = py_int_read(sp["text"], sp["old"])
        exp = [str(v), hx(r), st(e, f)]
        if got != exp:
            fail("Integer::operator>>", "text", " ".join(exp))
        corr(mt, got)
        model_vs_spec(mt == exp, " ".join(exp))
    elif kind == "int.strrt":
        exp = [hx(str(sp["z"])), str(sp["z"])]
        if got != exp:
            fail("Integer(const char*)(operator std::string)", "roundtrip", " ".join(exp))
        corr(mt, got[:1])
    elif kind == "int.cstr":
        exp = [str(py_set_str(sp["text"]))]
        if got != exp:
            fail("Integer(const char*)", "text", exp[0])
        corr(mt, got)
        model_vs_spec(mt == exp, exp[0])
    elif kind == "int.seq":
        ps = PStream(sp["text"])
        vs = [ps.read_int(0) for _ in range(sp["n"])]
        exp = [",".join(str(v) for v in vs) if vs else "-", hx(ps.t), st(ps.e, ps.f)]
        if got != exp:
            fail("Integer::operator>> (sequence)", "seq", " ".join(exp))
        corr(mt, got)
        model_vs_spec(mt == exp, " ".join(exp))
    elif kind == "rat.write":
        exp = hx(str(sp["n"]) if sp["d"] == 1 else "%d/%d" % (sp["n"], sp["d"]))
        if got != [exp]:
            fail("Rational::print", "text", exp)
        corr(mt, got)
        model_vs_spec(mt == [exp], exp)
    elif kind in ("rat.rt", "rat.read", "rat.strrt", "rat.cstr"):
        if kind in ("rat.rt", "rat.strrt"):
            t = str(sp["n"]) if sp["d"] == 1 else "%d/%d" % (sp["n"], sp["d"])
            text = t + sp.get("tail", "")
            pre = [hx(t)]
        else:
            text, pre = sp["text"], []
        q, r, e, f = py_rat_read(text)
        qs = None if q is None else q if q == "EXC" else "%d/%d" % q
        g = got[len(pre):]
        site = {"rat.rt": "Rational::operator>>(operator<<)", "rat.read": "Rational::operator>>", "rat.strrt": "Rational(const char*)(operator<<)",
                "rat.cstr": "Rational(const char*)"}[kind]
        if kind in ("rat.strrt", "rat.cstr"):
            ok = got[:len(pre)] == pre and (qs is None or (g[:1] == [qs]))
            exp = pre + [qs or "?"]
        else:
            ok = got[:len(pre)] == pre and len(g) == 3 and (qs is None or g[0] == qs) and (f or qs == "EXC" or g[1] == hx(r)) and \
                (g[2] == st(e, f) if qs != "EXC" else True) and (not f or g[2][1] == "1")
            exp = pre + [qs or "?", hx(r), st(e, f)]
        if not ok:
            klass = "text"
            body = text.lstrip(WS)
            m = re.match(r"^[+-]?[0-9]+( +)$", body)
            if m:
                klass = "integer, blanks, end of stream"
            fail(site, klass, " ".join(exp), "reading `%s`" % text[:80])
        if mt is not None:
            if kind in ("rat.strrt", "rat.cstr"):
                mv = mt[1:2] if kind == "rat.strrt" else mt[0:1]
                corr(mv, g[:1])
                model_vs_spec(qs is None or mv == [qs], str(qs))
            else:
                corr(mt, got)
                mg = mt[len(pre):]
                model_vs_spec(mt[:len(pre)] == pre and (qs is None or mg[0] == qs) and (f or qs == "EXC" or mg[1] == hx(r)) and (qs == "EXC" or mg[2] == st(e, f)), " ".join(exp))
    elif kind == "rat.norm":
        if sp["d"] == 0:
            exp = "EXC"
        else:
            q = Fraction(sp["n"], sp["d"])
            exp = "%d/%d" % (q.numerator, q.denominator)
        if got != [exp]:
            fail("Rational(n,d)", "text", exp)
        corr(mt, got)
    elif kind == "rat.seq":
        ps = PStream(sp["text"])
        vs = [ps.read_rat() for _ in range(sp["n"])]
        gv = got[0].split(",") if got and got[0] != "-" else []
        ok = len(got) == 3 and len(gv) == len(vs) and all(v is None or g == (v if v == "EXC" else "%d/%d" % v) for v, g in zip(vs, gv)) and \
            got[2] == st(ps.e, ps.f) and (ps.f or got[1] == hx(ps.t))
        if not ok:
            klass = "seq"
            if re.search(r"(^|[\t\n\v\f\r ])[+-]?[0-9]+ +$", sp["text"]):
                klass = "integer, blanks, end of stream"
            fail("Rational::operator>> (sequence)", klass, "%s %s %s" % (vs, hx(ps.t), st(ps.e, ps.f)))
        corr(mt, got)
    elif kind == "numget":
        v, r, e, f = py_numget(sp["text"], sp["lo"], sp["hi"], 9)
        exp = [str(v), hx(r), st(e, f)]
        if got != exp:       # libstdc++ against the standard's description: a broken assumption, not a givaro defect
            chk.broke("libstdc++ num_get differs from its specification on `%s`: %s vs %s" % (c["impl"], raw, exp))
        corr(mt, got)
        model_vs_spec(mt == exp, " ".join(exp))
    elif kind in ("ring.rt", "ring.write"):
        name, p, z = sp["ring"], sp["p"], sp["z"]
        knd, reader, lohi = RINGS[name]
        rep = rep_of(knd, p, z)
        t = str(rep)
        cxx = RING_CXX.get(name, "Modular<%s>" % name)
        if kind == "ring.write":
            if got != [hx(t)]:
                fail(cxx + "::write", "abs>=1e6" if abs(rep) >= 10**6 else "abs<1e6", hx(t), "element text is not the decimal representative")
            corr(mt, got)
            return
        if reader == "int":
            v, r, e, f = py_int_read(t + sp["tail"], 0)
        else:
            v, r, e, f = py_numget(t + sp["tail"], lohi[0], lohi[1], 0)
        exp = [hx(t), "1" if (v - rep) % p == 0 else "0", str(v % p), hx(r), st(e, f)]
        if abs(v) >= p or f:      # a digit tail made another, non-canonical numeral: what init makes of it is C04's subject
            exp[1] = exp[2] = None
            if len(got) == 5:
                got = [got[0], None, None] + got[3:]
        if got[:1] != exp[:1]:
            fail(cxx + "::write", "abs>=1e6" if abs(rep) >= 10**6 else "abs<1e6", " ".join(str(x) for x in exp), "element text is not the decimal representative")
        elif got != exp:
            fail(cxx + "::read(write)", "digit-tail" if sp["tail"][:1].isdigit() else "roundtrip", " ".join(str(x) for x in exp))
        if mt is not None:
            mm = [mt[0], got[1] if len(got) > 1 else "?", str(int(mt[1]) % p) if exp[2] is not None else None] + mt[2:]
            corr(mm, got)
            model_vs_spec(mm[:1] + mm[2:] == exp[:1] + exp[2:], " ".join(str(x) for x in exp))
    elif kind in ("ring.read", "gfq.read"):
        knd = "mod"
        if kind == "gfq.read":
            p, reader, lohi = sp["q"], "word", (sp["lo"], sp["hi"])
            cxx = "GFqDom"
        else:
            name, p = sp["ring"], sp["p"]
            knd, reader, lohi = RINGS[name]
            cxx = RING_CXX.get(name, "Modular<%s>" % name)
        if reader == "int":
            v, r, e, f = py_int_read(sp["text"], 0)
        else:
            v, r, e, f = py_numget(sp["text"], lohi[0], lohi[1], 0)
        # the value is asserted for numerals the writer can produce (|v| < p); what init makes of other integers is C04's subject
        # and when the read fails the element is whatever init makes of the temporary (not assigned at all when the sentry fails)
        canon = (abs(v) < p and (v >= 0 or kind == "gfq.read" or knd == "bal")) and not f
        exp = [str(v % p) if canon else None, hx(r), st(e, f)]
        if len(got) != 3 or any(x is not None and x != y for x, y in zip(exp, got)):
            fail(cxx + "::read", "text", " ".join(str(x) for x in exp))
        if mt is not None:
            mm = [str(int(mt[0]) % p) if canon else got[0]] + mt[1:]
            corr(mm, got)
            model_vs_spec(all(x is None or x == y for x, y in zip(exp, mm)), " ".join(str(x) for x in exp))
    elif kind == "gfq.rt":
        # the text must be a numeral in [0,q) that reads back to the same element; which numeral is the tables' business (C05)
        ok = len(got) == 5
        if ok:
            t = unhx(got[0])
            ok = re.match(r"^[0-9]+$", t) is not None and int(t) < sp["q"]
        if ok:
            lo, hi = I32 if sp["w"] == 32 else I64
            v, r, e, f = py_numget(t + sp["tail"], lo, hi, 0)
            exp = [got[0], "1" if v % sp["q"] == int(t) else "0", str(v % sp["q"]), hx(r), st(e, f)]
            ok = got == exp
            gfq_texts.setdefault((sp["w"], sp["p"], sp["k"]), {})[sp["e"]] = t
        if not ok:
            fail("GFqDom::read(write)", "digit-tail" if sp["tail"][:1].isdigit() else "roundtrip", "numeral < q, read back to the same element, rest = tail")
    elif kind == "indet.rt":
        exp = [hx(sp["var"]), "1", hx(sp["var"]), hx(sp["tail"]), st(sp["tail"] == "", False)]
        if got != exp:
            fail("operator>>(Indeter)(operator<<)", "name", " ".join(exp))
    elif kind in ("ru.rt", "ri.rt"):
        K, a, hexm = sp["K"], sp["a"], sp["hex"]
        N = 1 << K
        if hexm:
            u = a % 2**N
            # ruint<6> has its own operator<< (the limb, unpadded); everything else goes through display_hex (16 digits per limb)
            t = ("%x" % u) if (K == 6 and kind == "ru.rt") else ("%0*x" % (N // 4, u))
        else:
            t = str(a)
        g, r, e, f = py_int_read(t + sp["tail"], 0, 16 if hexm else 10)
        v = g % 2**N
        if kind == "ri.rt" and v >= 2**(N - 1):
            v -= 2**N
        exp = [hx(t), str(v) if (g >= 0 or kind == "ri.rt") else None, hx(r), st(e, f)]
        ok = len(got) == 4 and all(x is None or x == y for x, y in zip(exp, got))
        if not ok:
            site = "RecInt::operator<<(%s)" % ("ruint" if kind == "ru.rt" else "rint") if got[:1] != exp[:1] else "RecInt::operator>>(operator<<(%s))" % ("ruint" if kind == "ru.rt" else "rint")
            big = (not hexm) and abs(a) >= 10**1024
            fail(site, "K=%d,%s%s" % (K, "hex" if hexm else "dec", ",>=10^1024" if big else ""), " ".join(str(x) for x in exp))
        corr(mt, got)
        if mt is not None:
            model_vs_spec(len(mt) == 4 and all(x is None or x == y for x, y in zip(exp, mt)), " ".join(str(x) for x in exp))
    elif kind in ("ru.read", "ri.read"):
        K, hexm = sp["K"], sp["hex"]
        N = 1 << K
        g, r, e, f = py_int_read(sp["text"], 0, 16 if hexm else 10)
        v = g % 2**N
        if kind == "ri.read" and v >= 2**(N - 1):
            v -= 2**N
        exp = [str(v) if (g >= 0 or kind == "ri.read") else None, hx(r), st(e, f)]
        ok = len(got) == 3 and all(x is None or x == y for x, y in zip(exp, got))
        if not ok:
            fail("RecInt::operator>>(%s)" % ("ruint" if kind == "ru.read" else "rint"), "K=%d,%s" % (K, "hex" if hexm else "dec"), " ".join(str(x) for x in exp))
        corr(mt, got)
    elif kind == "poly.write":
        # got = text eq coefficients rest state   (Poly1Dom::write, then Poly1Dom::read on the text)
        name, p, var, cs = sp["ring"], sp["p"], sp["var"], sp["cs"]
        reps = [rep_of(sp["rkind"], p, x) for x in cs]
        exp_text = py_poly_text(var, reps)
        text = unhx(got[0]) if got else ""
        den = py_poly_parse(text, var)
        want = {i: x for i, x in enumerate(reps) if x != 0}
        if den is None or den != want:
            fail("Poly1Dom::write", "text does not denote the polynomial", exp_text, "written: `%s`" % text[:200])
        else:
            corr(mt[:1] if mt else None, got[:1], " (text)")
            model_vs_spec(mt is None or mt[:1] == [hx(exp_text)], exp_text)
            mp = sp.get("model_parse")
            wantl = ",".join("%d:%d" % (i, x) for i, x in sorted(want.items())) or "-"
            if mp is not None and mp != wantl:
                chk.broke("the extracted reference parser (C19_poly_text_parse) does not recover the polynomial from the implementation's text `%s`: %s, expected %s"
                          % (text[:200], mp, wantl))
            # is there a reader for it?  Poly1Dom::read expects "deg c_deg ... c_0".  The known finding covers exactly
            # what that reader does with the algebraic text (predicted here); anything else is a new failure.
            if len(got) < 2 or got[1] != "1" or (len(got) >= 5 and got[4][1] == "1"):
                pair_failure(name, p, reps, text, got[2:] if len(got) == 5 else None, [])
    elif kind == "poly.read":
        name, p = sp["ring"], sp["p"]
        if sp["fmt"]:
            reps = sp["reps"]
            # oracle: degree, then coefficients; rest and state as for the last integer
            body = sp["text"]
            ps = PStream(body)
            dg = ps.read_int(0)
            vs = [ps.read_int(0) for _ in range(dg + 1)]
            exp = [",".join(str(v % p) for v in reversed(vs)), hx(ps.t), st(ps.e, ps.f)]
            if got != exp or [v % p for v in reversed(vs)] != [x % p for x in reps]:
                fail("Poly1Dom::read", "degree-prefixed text", " ".join(exp))
        if mt is not None:
            mm = [",".join(str(int(x) % p) for x in mt[0].split(",")) if mt[0] != "-" else "-"] + mt[1:]
            corr(mm, got)
    return failed[0]
