# C20 — Random generators respect their ranges and are reproducible from the seed.   (DESIGN 5/C20)
# proof:  coq/C20 (GivRandom LCG with the constants read from givrandom.h on every run; Integer range constructions over
#         GMP's generator as an oracle; ring/field/polynomial draws; RecInt::rand)
# tie:    correspondence: extracted model vs /repo's current code.  For the GMP-based draws the harness records, through a
#         link-time wrap of mpz_urandomb/mpz_urandomm/gmp_randseed*, the requests the code makes and GMP's answers; the model
#         is run on that trace as its oracle and must make the same requests in the same order.
# search: python range predicates on every draw (independent of the model), same-seed runs compared element-wise,
#         per-case time limit for termination.
import os, re, sys
import vf

AREA = "C20"
WRAP = ["-Wl,--wrap=__gmpz_urandomb", "-Wl,--wrap=__gmpz_urandomm", "-Wl,--wrap=__gmp_randseed_ui", "-Wl,--wrap=__gmp_randseed"]
U64 = 1 << 64
LIMIT_MS = 80

# ------------------------------------------------------------------ source -> Params.v


def _strip(code):
    code = re.sub(r"#if\s+0\b.*?#endif", "", code, flags=re.S)
    return re.sub(r"//[^\n]*|/\*.*?\*/", "", code, flags=re.S)


def _body_after(code, sig_rx):
    """text between the braces that follow the first match of sig_rx (brace matching, no dependence on the layout)"""
    m = re.search(sig_rx, code, flags=re.S)
    if not m:
        return None
    i = code.find("{", m.end() - 1 if code[m.end() - 1] == "{" else m.end())
    if i < 0:
        return None
    depth, j = 0, i
    while j < len(code):
        if code[j] == "{":
            depth += 1
        elif code[j] == "}":
            depth -= 1
            if depth == 0:
                return code[i + 1:j]
        j += 1
    return None


def _norm(t):
    """token-level normal form: no white space, no integer casts, no redundant `const`"""
    t = re.sub(r"\s+", "", t)
    t = re.sub(r"static_cast<[^<>]*>", "", t)
    t = re.sub(r"\((?:size_t|uint64_t|int64_t|int|unsignedlong|Residu_t)\)", "", t)
    t = re.sub(r"\((\w+(?:\.\w+)*\(\))\)", r"\1", t)          # (d.value()) -> d.value()
    return t.replace("const", "")


def _stmts(body):
    """top-level statements of a body (split at ';' outside parentheses and braces; a braced block ends a statement)"""
    out, depth, cur = [], 0, ""
    for ch in body:
        cur += ch
        if ch in "({":
            depth += 1
        elif ch in ")}":
            depth -= 1
            if ch == "}" and depth == 0:
                out.append(cur); cur = ""
        elif ch == ";" and depth == 0:
            out.append(cur); cur = ""
    if cur.strip():
        out.append(cur)
    return [_norm(x) for x in out if x.strip()]


FLAG_THEOREMS = {
    "NORMALISES": ["C20_lcg_every_nonzero_seed", "C20_ring_nonzerorandom_every_nonzero_seed", "C20_modular_integer_randiter_seeding"],
    "CLAMP": ["C20_gfq_randiter"],
    "RESIZE": ["C20_poly_random_destination_independent", "C20_poly_random_gfq_destination_independent", "C20_poly_sequence_on_one_destination",
               "C20_poly_sequence_gfq_on_one_destination", "C20_poly_request_with_its_domain"],
    "ASSIGN": ["C20_randiter_assignment_continues_like_source"],
    "EXT_SEED_FIRST": ["C20_extension_randiter_constructor"],
    "EXT_BASECARD": ["C20_extension_randiter_constructor"],
}


def read_params():
    """constants of givrandom.h and the SHAPE of the bodies the theorems depend on, read from the tree under check by a token-level
    structural match (comments, layout, integer casts, helper variables do not matter).  Every flag is True / False / None
    (None = shape not recognised: reported as a broken obligation, never silently taken for the bad value)."""
    txt = open(os.path.join(vf.REPO, "src/kernel/system/givrandom.h")).read()
    vals = {}
    for name in ("MULTIPLYER", "MODULO", "HALFMOD"):
        m = re.search(r"#define\s+_GIVRAN_%s_\s+(\d+)(?:_ui64|ULL|UL|ull|ul)?\s*$" % name, txt, flags=re.M)
        vals[name] = int(m.group(1)) if m else None
    notes = []
    code = _strip(txt)
    # --- GivRandom constructor: timer loop, then (repair 2b982d4) the normalisation of the seed
    body = _body_after(code, r"GivRandom\s*\(\s*const\s+uint64_t\s+\w+\s*=\s*0\s*\)\s*:\s*_seed\s*\(\s*\w+\s*\)\s*\{")
    flag = None
    if body is not None:
        st = _stmts(body)
        loop = [k for k, x in enumerate(st) if x.startswith("while(!_seed)") and "BaseTimer::seed()" in x]
        norm = [k for k, x in enumerate(st) if re.fullmatch(r"_seed=\(?_seed-1\)?%\(?_GIVRAN_MODULO_-1\)?\+1;", x)]
        if len(loop) == 1 and len(st) == 1:
            flag = False
        elif len(loop) == 1 and norm and norm[-1] > loop[0] and len(st) == 2:
            flag = True
    if flag is None:
        notes.append("constructor body of GivRandom not recognised: %r" % (body and _stmts(body)))
    vals["NORMALISES"] = flag
    opb = _body_after(code, r"uint64_t\s+operator\(\)\s*\(\)\s*const\s*\{")
    if opb is None or _norm(opb).replace("(", "").replace(")", "") != "return_seed=_GIVRAN_MULTIPLYER_*_seed%_GIVRAN_MODULO_;":
        notes.append("GivRandom::operator()() body not recognised: %r" % (opb and _norm(opb)))
    # --- givranditer.h: clamp of the sampling size, assignment of the sampling size
    try:
        it = _strip(open(os.path.join(vf.REPO, "src/kernel/system/givranditer.h")).read())
    except OSError:
        it = ""
    m = re.search(r"GIV_randIter\s*\(\s*const\s+Ring&\s*F\s*,.*?:\s*_ring\(F\)\s*,\s*_size\((.*?)\)\s*,\s*_givrand\(seed\)", it, flags=re.S)
    init = re.sub(r"\s+", "", m.group(1)) if m else None
    if init == "size?size:std::max(F.cardinality(),Residu_t(1))":
        vals["CLAMP"] = False
    elif init == "(size&&(!F.cardinality()||size<F.cardinality()))?size:std::max(F.cardinality(),Residu_t(1))":
        vals["CLAMP"] = True
    else:
        vals["CLAMP"] = None
        notes.append("GIV_randIter constructor initialiser of _size not recognised: %r" % init)
    asg = []
    for cls in (r"GIV_randIter<Ring,Type>", r"ModularRandIter<Ring>"):
        b = _body_after(it, r"operator=\s*\(\s*const\s+%s\s*&\s*R\s*\)\s*\{" % cls)
        nb = _norm(b) if b is not None else ""
        asg.append(True if ("_givrand=R._givrand;" in nb and "_size=R._size;" in nb) else False if ("_givrand=R._givrand;" in nb and "_size" not in nb) else None)
    vals["ASSIGN"] = asg[0] if asg[0] == asg[1] else None
    if vals["ASSIGN"] is None:
        notes.append("operator= of GIV_randIter / ModularRandIter not recognised: %r" % asg)
    # --- Poly1Dom<Domain,Dense>::random(g, r, Degree d): unconditional resize to d+1 before the first indexed write; guard for d < 0 (fix-4)
    try:
        pm = _strip(open(os.path.join(vf.REPO, "src/library/poly1/givpoly1misc.inl")).read())
    except OSError:
        pm = ""
    body = _body_after(pm, r"Poly1Dom<Domain,Dense>::random\s*\(\s*RandomIterator\s*&\s*g\s*,[^)]*\bDegree\s+d\s*\)\s*const\s*\{")
    vals["RESIZE"], vals["POLYGUARD"] = None, None
    if body is not None:
        st = _stmts(body)
        first_write = next((k for k, x in enumerate(st) if "r[" in x), len(st))
        helpers = dict(re.findall(r"^(?:size_t|uint64_t|auto)?(\w+)=(d\.value\(\)\+1);$", x)[0] for x in st[:first_write] if re.findall(r"^(?:size_t|uint64_t|auto)?(\w+)=(d\.value\(\)\+1);$", x))
        res = [k for k, x in enumerate(st[:first_write]) if "r.resize(" in x]
        if not res:
            vals["RESIZE"] = False
        else:
            x = st[res[0]]
            mm = re.fullmatch(r"r\.resize\((.*)\);", x)
            if mm and (mm.group(1) == "d.value()+1" or mm.group(1) in helpers):
                vals["RESIZE"] = True
            elif x.startswith("if("):
                vals["RESIZE"] = False          # conditional: the destination is not always brought to d+1 coefficients
        ifs = [x for x in st[:(res[0] if res else first_write)] if x.startswith("if(")]
        if not ifs:
            vals["POLYGUARD"] = False
        elif len(ifs) == 1 and re.fullmatch(r"if\(d(?:\.value\(\))?(?:<0|<=-1|==Degree::deginfty|==-1)\)d=(?:0|Degree\(0\));", ifs[0]):
            vals["POLYGUARD"] = True
        if not (first_write < len(st) and "nonzerorandom(g,r[d.value()])" in st[first_write]):
            vals["RESIZE"] = None
    if vals["RESIZE"] is None or vals["POLYGUARD"] is None:
        notes.append("body of Poly1Dom::random(g, r, Degree) not recognised: %r" % (body and _stmts(body)))
    fronts = {"random(g,r)": (r"::random\s*\(\s*RandomIterator& g, Rep& r\s*\)\s*const\s*\{", "returnrandom(g,r,Degree(0));"),
              "random(g,r,size)": (r"::random\s*\(\s*RandomIterator& g, Rep& r, uint64_t s\s*\)\s*const\s*\{", "returnrandom(g,r,Degree(s-1));"),
              "random(g,r,b)": (r"::random\s*\(\s*RandomIterator& g, Rep& r, const Rep& b\s*\)\s*const\s*\{", "returnrandom(g,r,b.size());"),
              "nonzerorandom(g,r)": (r"::nonzerorandom\s*\(\s*RandomIterator& g, Rep& r\s*\)\s*const\s*\{", "returnrandom(g,r);"),
              "nonzerorandom(g,r,size)": (r"::nonzerorandom\s*\(\s*RandomIterator& g, Rep& r, uint64_t s\s*\)\s*const\s*\{", "returnrandom(g,r,s);"),
              "nonzerorandom(g,r,Degree)": (r"::nonzerorandom\s*\(\s*RandomIterator& g, Rep& r, Degree d\s*\)\s*const\s*\{", "returnrandom(g,r,d);"),
              "nonzerorandom(g,r,b)": (r"::nonzerorandom\s*\(\s*RandomIterator& g, Rep& r, const Rep& b\s*\)\s*const\s*\{", "returnrandom(g,r,b);")}
    for nm, (rx, want) in sorted(fronts.items()):
        b = _body_after(pm, rx)
        if b is None or _norm(b) != want:
            notes.append("Poly1Dom front end %s does not forward as modelled (preq_degree): %r" % (nm, b and _norm(b)))
    # --- sized draws of Modular<integral> and GFqDom: guards for sampling sizes 0 / 1 (fix-5)
    sized = []
    try:
        mi = _strip(open(os.path.join(vf.REPO, "src/kernel/ring/modular-integral.h")).read())
        gq = _strip(open(os.path.join(vf.REPO, "src/kernel/field/gfq.inl")).read())
    except OSError:
        mi = gq = ""
    b = _body_after(mi, r"Element&\s*random\s*\(\s*Random& g, Element& r, const Residu_t& size\s*\)\s*const\s*\{")
    nb = _norm(b) if b else ""
    sized.append(True if nb == "returninit(r,size?g()%size:g());" else False if nb == "returninit(r,g()%size);" else None)
    b = _body_after(mi, r"Element&\s*nonzerorandom\s*\(\s*Random& g, Element& a, const Residu_t& size\s*\)\s*const\s*\{")
    nb = _norm(b) if b else ""
    sized.append(True if "init(a,size>1?g()%size:g())" in nb else False if "init(a,g()%size)" in nb else None)
    b = _body_after(gq, r"GFqDom<Any>::random\s*\(\s*randIter& g, Rep& a, const Residu_t& s\s*\)\s*const\s*\{")
    nb = _norm(b) if b else ""
    sized.append(True if _norm("a=Rep((UTT)(g())%(s?s:_q));") in nb else False if _norm("a=Rep((UTT)(g())%s);") in nb else None)
    b = _body_after(gq, r"GFqDom<Any>::nonzerorandom\s*\(\s*randIter& g, Rep& a, const Residu_t& s\s*\)\s*const\s*\{")
    nb = _norm(b) if b else ""
    sized.append(True if _norm("a=Rep(((UTT)(g())%((s>1?s:_q)-1))+1);") in nb else False if _norm("a=Rep(((UTT)(g())%(s-1))+1);") in nb else None)
    vals["SIZED"] = sized[0] if len(set(sized)) == 1 else None
    if vals["SIZED"] is None:
        notes.append("sized random / nonzerorandom of Modular<integral> / GFqDom not recognised or not uniformly guarded: %r" % sized)
    # --- GIV_ExtensionrandIter constructor: (field, seed, size) and the bound of the sampling size (repair c502f80)
    try:
        ex = _strip(open(os.path.join(vf.REPO, "src/kernel/field/extension.h")).read())
    except OSError:
        ex = ""
    m = re.search(r"GIV_ExtensionrandIter\s*\(\s*const\s+ExtensionField\s*&\s*F\s*,\s*const\s+Type\s*&\s*(\w+)\s*=\s*0\s*,\s*const\s+Type\s*&\s*(\w+)\s*=\s*0\s*\)\s*:(.*?)\{", ex, flags=re.S)
    vals["EXT_SEED_FIRST"], vals["EXT_BASECARD"] = None, None
    if m:
        inits = _norm(m.group(3))
        if (m.group(1), m.group(2)) == ("seed", "size") and "_size(size)" in inits and "GivRandom(seed)" in inits:
            vals["EXT_SEED_FIRST"] = True
        elif (m.group(1), m.group(2)) == ("size", "seed") and "_size(size)" in inits and "GivRandom(seed)" in inits:
            vals["EXT_SEED_FIRST"] = False
        b = _body_after(ex, r"GIV_ExtensionrandIter\s*\(\s*const\s+ExtensionField\s*&\s*F\s*,\s*const\s+Type\s*&\s*\w+\s*=\s*0\s*,\s*const\s+Type\s*&\s*\w+\s*=\s*0\s*\)\s*:.*?\{")
        nb = _norm(b) if b else ""
        mm = re.fullmatch(r"Type(\w+)=Type\(?(F\.[\w\.\(\)]*?\(\))\)?;if\(\(_size>\1\)\|\|\(_size==0\)\)_size=\1;", nb)
        if mm:
            vals["EXT_BASECARD"] = True if mm.group(2) == "F.base_field().cardinality()" else False if mm.group(2) == "F.characteristic()" else None
    if vals["EXT_SEED_FIRST"] is None or vals["EXT_BASECARD"] is None:
        notes.append("GIV_ExtensionrandIter constructor not recognised: %r" % ((m and (m.group(1), m.group(2), _norm(m.group(3)))),))
    # --- the source documents the native-integer overloads of the Integer range constructions as BIT-SIZE draws
    doc = []
    try:
        lines = open(os.path.join(vf.REPO, "src/kernel/gmp++/gmp++_int_rand.inl")).read().splitlines()
    except OSError:
        lines = []
    for needle in ("synonyms CAREFULL: when m is integer, meaning is different", "random number in [[2^m,2^M-1]]",
                   "returns a random integer \\p r of at most \\p m bits", "of the size \\p m bits, exactly"):
        hit = [(k + 1, l.strip()) for k, l in enumerate(lines) if needle in l]
        doc.append("gmp++_int_rand.inl:%d: %s" % hit[0] if hit else None)
    vals["NATIVE_DOC"] = doc
    if None in doc:
        notes.append("gmp++_int_rand.inl no longer carries the comments that document native arguments as bit sizes: %r" % doc)
    return vals, flag, notes


def _b(v):
    return "true" if v else "false"


def write_params(vals, flag):
    text = ("(* GENERATED by checks/C20.py from the tree under check (givrandom.h: the three #defines and the shape of the constructor;\n"
            "   givranditer.h, givpoly1misc.inl, modular-integral.h, gfq.inl: the shape of the bodies named below).  Written only when the\n"
            "   content changes; the model and every proof below it are re-checked against these values. *)\n"
            "From Coq Require Import ZArith.\nLocal Open Scope Z_scope.\n"
            "Definition giv_multiplier : Z := %d.\nDefinition giv_modulo : Z := %d.\nDefinition giv_halfmod : Z := %d.\n"
            "(* the constructor ends with `_seed = (_seed - 1) %% (_GIVRAN_MODULO_ - 1) + 1;` (repair 2b982d4) *)\n"
            "Definition giv_ctor_normalises : bool := %s.\n"
            "(* GIV_randIter keeps min(size, cardinality) as its sampling size (givranditer.h) *)\n"
            "Definition giv_randiter_clamps : bool := %s.\n"
            "(* Poly1Dom<Domain,Dense>::random(g, r, Degree d) resizes r to d+1 coefficients unconditionally before its first write (givpoly1misc.inl) *)\n"
            "Definition poly_random_resizes : bool := %s.\n"
            "(* operator= of GIV_randIter / ModularRandIter assigns the sampling size too (givranditer.h, repair 7a77cad) *)\n"
            "Definition randiter_assign_copies_size : bool := %s.\n"
            "(* sized random / nonzerorandom of Modular<integral> and GFqDom treat sampling size 0 (and 1 for non-zero draws) as the entire ring (fix-5) *)\n"
            "Definition sized_draws_guard_small_sizes : bool := %s.\n"
            "(* Poly1Dom::random(g, r, Degree d) starts with `if (d < 0) d = 0;` (fix-4) *)\n"
            "Definition poly_random_guards_negative_degree : bool := %s.\n"
            "(* GIV_ExtensionrandIter(F, seed, size): argument order and bound of the sampling size (extension.h, repair c502f80) *)\n"
            "Definition ext_randiter_seed_first : bool := %s.\nDefinition ext_randiter_bounds_by_base_cardinality : bool := %s.\n"
            % (vals["MULTIPLYER"], vals["MODULO"], vals["HALFMOD"], _b(flag), _b(vals.get("CLAMP")), _b(vals.get("RESIZE")), _b(vals.get("ASSIGN")),
               _b(vals.get("SIZED")), _b(vals.get("POLYGUARD")), _b(vals.get("EXT_SEED_FIRST")), _b(vals.get("EXT_BASECARD"))))
    vf.write_if_changed(os.path.join(vf.coq_dir(AREA), "Params.v"), text)


# ------------------------------------------------------------------ ring types of the harness
# name -> (kind for the model, canonical-raw predicate kind, element bits (gfq), residu max, moduli, has sized forms)
def _t(kind, raw, bits, rmax, moduli, sized=False):
    return {"kind": kind, "raw": raw, "bits": bits, "rmax": rmax, "moduli": moduli, "sized": sized}


M31 = 2147483647
RINGS = {
    "i8": _t("mod", "mod", 8, 127, [2, 3, 13, 127], True), "u8": _t("mod", "mod", 8, 255, [2, 251, 255], True),
    "i16": _t("mod", "mod", 16, 32767, [2, 181, 32749], True), "u16": _t("mod", "mod", 16, 65535, [3, 65521], True),
    "i32": _t("mod", "mod", 32, 2**31 - 1, [2, 3, 101, 46337], True), "u32": _t("mod", "mod", 32, 2**32 - 1, [2, 65521], True),
    "i64": _t("mod", "mod", 64, 2**63 - 1, [2, 3037000493], True), "u64": _t("mod", "mod", 64, 2**64 - 1, [3, 4294967291], True),
    "i8_u16": _t("mod", "mod", 8, 127, [127], True), "i16_u32": _t("mod", "mod", 16, 32767, [32749], True),
    "i32_i64": _t("mod", "mod", 32, 2**31 - 1, [M31, 2147483629], True), "u32_u64": _t("mod", "mod", 32, 2**32 - 1, [M31, 4294967291], True),
    "i32_u64": _t("mod", "mod", 32, 2**31 - 1, [2, M31], True),
    "u64_u128": _t("mod", "mod", 64, 2**64 - 1, [18446744073709551557, M31 - 1], True),
    "i64_u128": _t("mod", "mod", 64, 2**63 - 1, [9223372036854775783, M31 + 1], True),
    "f": _t("mod", "mod", 0, 0, [2, 4093]), "d": _t("mod", "mod", 0, 0, [3, 94906249]), "f_d": _t("mod", "mod", 0, 0, [4093]),
    "bi32": _t("bal", "bal", 0, 0, [3, 101, 46337]), "bi64": _t("bal", "bal", 0, 0, [3, 3037000493]),
    "bf": _t("bal", "bal", 0, 0, [3, 2039]), "bd": _t("bal", "bal", 0, 0, [5, 9007199]),
    "ef": _t("mod", "mod", 0, 0, [4093]), "ed": _t("mod", "mod", 0, 0, [94906249]),
    "mg32": _t("mod", "mod", 0, 0, [3, 101, 40499]), "log16": _t("mod", "log16", 0, 0, [3, 101, 16381]),
    "gfq32": _t("gfq", "gfq", 32, 2**32 - 1, ["2", "3", "7^2", "2^8", "101", "3^9", "65521"], True),
    "gfq64": _t("gfq", "gfq", 64, 2**64 - 1, ["5^3", "1009"], True),
    "gf2": _t("gf2", "gf2", 8, 255, ["2"], True),
    "mI": _t("mod", "mod", 0, 0, [2, 3, M31, M31 + 1, 2**64 + 13, 2**127 - 1]),
    "zi64": _t("id", "any", 64, 0, ["0"]), "zu64": _t("id", "any", 64, 0, ["0"]), "zd": _t("id", "any", 0, 0, ["0"]),
}
POLYS = ["i32", "u64", "d", "bi32", "bd", "mg32", "gfq32", "gfq64", "i8", "log16"]
RURINGS = {"ru6": (6, [3, 2**61 - 1, 2**64 - 59]), "ru7": (7, [5, 2**127 - 1, 10**30 + 57]), "ru8": (8, [7, 2**255 - 19]),
           "ru6_7": (6, [2**64 - 59]), "ru7_8": (7, [2**128 - 159]),
           "mgru6": (6, [3, 1000003, 2**61 - 1]), "mgru7": (7, [2**89 - 1]), "mgru8": (8, [2**127 - 1])}
BITS = [1, 2, 31, 32, 33, 63, 64, 65, 127, 128, 129]


def card(ps):
    if "^" in str(ps):
        a, b = str(ps).split("^")
        return int(a) ** int(b)
    return int(ps)


def raw_ok(kind, p, raw):
    if kind == "mod":
        return 0 <= raw < p
    if kind == "bal":
        return -((p - 1) // 2) <= raw <= p // 2
    if kind == "log16":
        return 0 <= raw <= 2 * (p - 1)
    if kind == "gfq":
        return 0 <= raw < p
    if kind == "gf2":
        return raw in (0, 1)
    return True


# ------------------------------------------------------------------ seeds
def seed_pools(rng, vals, flag):
    A, M = vals["MULTIPLYER"], vals["MODULO"]
    smax = (2**63 - 1) // A
    good = [1, 2, 5, 42, 12345, M - 1, M - 2, M + 1, 2 * M - 1, 2 * M + 1, 2**32, 2**33, smax, smax - 1,
            rng.range(1, M - 1), rng.range(1, M - 1), rng.range(M + 1, smax)]
    good = [s for s in good if 0 < s <= smax and s % M != 0]
    stuck = [M, 2 * M, 4 * M, (smax // M) * M]
    big = [smax + 1, smax + 2, 2**34, 2**62 + 12345, 2**63 - 1, 2**63, 2**63 + M, U64 - 1, U64 - M, (U64 // M) * M,
           rng.range(smax + 1, U64 - 1), rng.range(2**63, U64 - 1)]
    return good, stuck, big, smax


def seed_class(seed, vals, smax):
    M = vals["MODULO"]
    if seed == 0:
        return "timer"
    if seed % M == 0:
        return "seed = 0 mod modulus"
    if seed > smax:
        return "seed > (2^63-1)/multiplier"
    return "good seed"


# ------------------------------------------------------------------ the int family: harness op -> (model op, args, predicate)
def uT(T, v):
    w = {"int": 32, "uint": 32, "long": 64, "ulong": 64, "short": 16}[T]
    return v % (1 << w)


def int_case_model(op, var, args):
    """returns (model op, model ap, model args, predicate(result int) -> bool, nonzero required)"""
    v = var[0]
    ap = (v != "f")
    apm = "t" if ap else "f"

    def rng_pred(b):
        return (lambda r: 0 <= r < b) if ap else (lambda r: -b < r < b)

    def bits_pred(n):
        return (lambda r: r.bit_length() == n and r > 0) if ap else (lambda r: abs(r).bit_length() == n)
    if op == "lt_I":
        m = int(args[0]); return "lt_I", apm, [m], rng_pred(m), False
    if op in ("lt_2e", "lt_2ev", "lt_u64"):
        n = int(args[0]); return "lt_2e", apm, [n], rng_pred(1 << n), False
    if op == "ex_2e" or op == "ex_u64":
        n = int(args[0]); return "ex_2e", apm, [n], bits_pred(n), False
    if op == "ex_I":
        s = int(args[0]); return "ex_I", apm, [s], bits_pred(max(1, abs(s).bit_length())), False
    if op in ("bt_I", "bt_Iv"):
        lo, hi = int(args[0]), int(args[1]); return "bt_I", "t", [lo, hi], (lambda r: lo <= r < hi), False
    if op in ("bt_2e", "bt_2ev", "bt_u64", "bt_u64v"):
        m, MM = int(args[0]), int(args[1]); return "bt_2e", "t", [m, MM], (lambda r: (1 << m) <= r < (1 << MM)), False
    if op == "rnd0":
        if v == "d":
            return "lt_2e", "t", [64], (lambda r: 0 <= r < U64), False
        return "word", apm, [], rng_pred(U64), False
    if op == "nz0":
        return "nzword", "t", [], (lambda r: 0 < r < U64), True
    if op == "rbool":
        return "rbool", "t", [], (lambda r: r in (0, 1)), False
    if op == "zr_rnd":
        n = int(args[0]) % U64; return "lt_2e", "t", [n], (lambda r: 0 <= r < (1 << n)), False
    if op == "zr_rndI":
        m = int(args[0]); return "lt_I", "t", [m], (lambda r: 0 <= r < m), False
    if op == "zr_nz":
        n = int(args[0]) % U64; return "nz_2e", "t", [n], (lambda r: 0 < r < (1 << n)), True
    if op == "zr_nzI":
        m = int(args[0]); return "nz_I", "t", [m], (lambda r: 0 < r < m), True
    T = args[0]
    if T == "Integer":
        m = int(args[1])
        if op == "rnd_T":
            return "lt_I", apm, [m], rng_pred(m), False
        return "nz_I", apm, [m], (lambda r: r != 0 and rng_pred(m)(r)), True
    if op in ("bt_R", "bt_Rv"):
        m, MM = uT("ulong", int(args[1])), uT("ulong", int(args[2]))
        return "bt_2e", "t", [m, MM], (lambda r: (1 << m) <= r < (1 << MM)), False
    n = uT(T, int(args[1]))
    if op in ("lt_Tv", "rnd_T", "rnd_Tv"):
        return "lt_2e", apm, [n], rng_pred(1 << n), False
    if op in ("ex_T", "ex_Tv"):
        return "ex_2e", apm, [int(args[1]) % U64], bits_pred(int(args[1]) % U64), False
    if op in ("nz_T", "nz_Tv"):
        return "nz_2e", apm, [n], (lambda r: r != 0 and rng_pred(1 << n)(r)), True
    raise KeyError(op)


WIDTH = {"int": 32, "uint": 32, "long": 64, "ulong": 64, "short": 16}


def int_native(op, args):
    """native-integer overloads: (model op of Model3 Part K, [width, raw argument(s)]) -- the MODEL resolves the overload (the argument is a
    number of bits); None for the Integer-typed forms"""
    if op in ("lt_u64",):
        return "lt", [64, int(args[0])]
    if op in ("bt_u64", "bt_u64v"):
        return "bt", [int(args[0]), int(args[1])]
    if not args or args[0] not in WIDTH:
        return None
    w = WIDTH[args[0]]
    if op in ("lt_Tv", "rnd_T", "rnd_Tv"):
        return "lt", [w, int(args[1])]
    if op in ("nz_T", "nz_Tv"):
        return "nz", [w, int(args[1])]
    if op in ("bt_R", "bt_Rv"):
        return "bt", [int(args[1]), int(args[2])]
    return None


def trace_ok(tok):
    k, rest = tok[0], tok[1:]
    arg, ans = rest.split("=")
    arg, ans = int(arg), int(ans)
    if k == "b":
        return 0 <= ans < (1 << arg)
    if k == "m":
        return 0 <= ans < arg
    return True


# ------------------------------------------------------------------ case generation
def gen_cases(rng, tier, vals, flag):
    good, stuck, big, smax = seed_pools(rng, vals, flag)
    M = vals["MODULO"]
    thorough = tier != "quick"
    cases = []       # dicts with "line" (harness) and what is needed to build the model line and the oracle

    # draws that never return cost the full time limit each: while the constructor does not normalise the seed only
    # a bounded number of retry-loop cases gets a seed that may lead to the all-zero stream
    budget = {"ring": 10**9 if flag else (40 if not thorough else 300), "poly": 10**9 if flag else (16 if not thorough else 100)}
    goodset = set(good)

    def add(**kw):
        retry = kw.get("op", kw.get("form", "")).startswith("nz") or kw.get("fam") == "poly"
        if retry and kw.get("fam") in ("ring", "poly") and kw["seed"] not in goodset:
            if budget[kw["fam"]] <= 0:
                return
            budget[kw["fam"]] -= 1
        cases.append(kw)
    # --- Part A
    forms = ["call", "brand", "u8", "u16", "u32", "u64", "i8", "i16", "i32", "i64", "copy", "assign"]
    for s in good + stuck + big:
        for f in forms:
            add(fam="lcg", form=f, seed=s, n=(40 if thorough else 12), line="lcg %s %d %d" % (f, s, 40 if thorough else 12))
    add(fam="lcg", form="maxrand", seed=7, n=0, line="lcg maxrand 7 0")
    for f in ("call", "brand", "u32"):
        add(fam="lcg", form=f, seed=0, n=6, line="lcg %s 0 6" % f)
    for s in [1, good[-1], good[-3]] + (good if thorough else []):
        n = 200000 if thorough else 20000
        add(fam="lcg", form="call", seed=s, n=n, line="lcg call %d %d" % (s, n))
    # --- Part B
    for name, t in sorted(RINGS.items()):
        for ps in t["moduli"]:
            q = card(ps)
            seeds = [rng.choice(good), rng.choice(good), rng.choice(stuck), rng.choice(big)]
            if thorough:
                seeds += good[:8] + stuck + big[:6]
            ops = ["random", "nzrandom", "iter", "nziter", "itercopy"]
            if name == "mI":
                ops = ["random", "nzrandom"]
            for s in seeds:
                n = 16 if thorough else 8
                for op in ops:
                    sizes = [0]
                    if op in ("iter", "nziter") and t["kind"] in ("gfq", "id"):
                        sizes = [0, (max(2, q // 2) if q else 1000), (q if q else 2**31 + 11)]
                        if t["kind"] == "id":   # sampling sizes above 2^32 (multiples of 2^32 included): the modulus of the draw is the WHOLE size, not its low word (seeded C20-m11)
                            sizes += [2**32, 2**32 + 5, 3 * 2**32]
                    if t["kind"] == "gfq" and q == 2 and op == "nziter":
                        sizes = [0]
                    for size in sizes:
                        add(fam="ring", ring=name, p=ps, op=op, seed=s, n=n, size=size,
                            line="ring %s %s %s %d %d %d" % (name, ps, op, s, n, size))
                if t["sized"]:
                    top = min(t["rmax"], 2**40)
                    szs = sorted(set(x for x in [2, 3, q, q - 1, q + 1, min(top, 2**31 - 1), min(top, 2**31), top] if 2 <= x <= t["rmax"]))
                    if t["kind"] == "gfq":
                        szs = sorted(set(x for x in [2, 3, q // 2, q - 1, q] if 2 <= x <= q))
                    if t["kind"] == "gf2":
                        szs = [0, 2]
                    for size in szs:
                        for op in ("random_sz", "nzrandom_sz"):
                            if op == "nzrandom_sz" and t["kind"] == "mod" and (size % q == 0 or size < 2):
                                pass
                            if op == "nzrandom_sz" and t["kind"] == "mod" and q >= size and size <= 1:
                                continue
                            add(fam="ring", ring=name, p=ps, op=op, seed=s, n=n, size=size,
                                line="ring %s %s %s %d %d %d" % (name, ps, op, s, n, size))
    # --- polynomials
    pforms = ["deg", "deg0", "size", "like", "nzdeg", "nzdeg0", "nzsize", "nzlike"]
    k_ = 0
    for name in POLYS:
        t = RINGS[name]
        for ps in t["moduli"][:3] + t["moduli"][-1:]:
            for s in [rng.choice(good), rng.choice(stuck), rng.choice(big)] + (good[:6] if thorough else []):
                for f in pforms:
                    for d in ([0, 1, 7, 64] if thorough else [rng.choice([0, 1]), rng.choice([2, 5, 33])]):
                        dd = 0 if f in ("deg0", "nzdeg0") else d
                        # destination: every form meets every preset (fresh / larger / one coefficient / same size / much larger, not normalised)
                        for how in ([0, 1, 4, 2 + k_ % 2] if thorough else [k_ % 5, (k_ + 1 + k_ // 5) % 5 if (k_ + 1 + k_ // 5) % 5 != k_ % 5 else (k_ + 2) % 5]):
                            add(fam="poly", ring=name, p=ps, form=f, seed=s, d=dd, how=how, line="poly %s %s %s %d %d %d" % (name, ps, f, s, dd, how))
                        k_ += 1
    # one destination, sequences of requests with degrees going down as well as up, every front end, every preset (deterministic)
    dseqs = [["D0", "D3", "D7", "D7", "D2", "D5", "D0", "D1", "D9", "D4", "D4", "D0"],
             ["D8", "L2", "S9", "S2", "Z", "d6", "l1", "s5", "z", "I3", "I0", "D2"],
             ["S12", "Z", "L12", "z", "l12", "d0", "I9", "I1", "s12", "s0", "D1"],
             ["I5", "D1", "I0", "L7", "I2", "z", "d30", "D29", "S28", "s1", "l0", "D31"],
             ["J4", "D1", "J0", "J9", "I2", "J2", "z", "J6"]]
    for name in POLYS:
        t = RINGS[name]
        for j, ps in enumerate(t["moduli"][:2] + t["moduli"][-1:]):
            for k, ops in enumerate(dseqs + [[rng.choice("DSLdsl") + str(rng.choice([0, 1, 2, 6, 11])) for _ in range(10)] for _ in range(2 if thorough else 1)]):
                s = (good + big)[(j * 7 + k * 3) % len(good + big)]
                how = (j + k) % 5
                add(fam="polyseq", ring=name, p=ps, seed=s, how=how, ops=ops, line="polyseq %s %s %d %d %s" % (name, ps, s, how, " ".join(ops)))
    # --- Part C
    edge = [1, 2, 3, 2**31 - 1, 2**31, 2**32 - 1, 2**32, 2**32 + 1, 2**63 - 1, 2**63, 2**64 - 1, 2**64, 2**64 + 1, 2**127, 2**128 - 1, 2**128,
            2**128 + 1, 2**192 + 5]
    reps = 3 if thorough else 1

    icount = [0]

    def iadd(op, var, args):
        seed = rng.choice([1, 42, rng.bits(32), rng.bits(64), 2**64 - 1, 2**63])
        var = (var + "u")[:2] + str(icount[0] % 4)       # variant, seeding form, preset of the destination (0: -77, 1: 2^200+12345, 2: -(2^130+7), 3: 0)
        icount[0] += 1
        add(fam="int", op=op, var=var, seed=seed, args=[str(a) for a in args],
            line="int %s %s %d %s" % (op, var, seed, " ".join(str(a) for a in args)))
    for _ in range(reps):
        for v in ("t", "f", "d", "tI", "fI"):
            for m in edge + [vf.structured_int(rng, 4, signed=False) + 1 for _ in range(3)]:
                iadd("lt_I", v, [m])
            for n in BITS + [0]:
                iadd("lt_2e", v, [n]); iadd("lt_2ev", v, [n]); iadd("lt_u64", v, [n])
            for n in BITS:
                iadd("ex_2e", v, [n]); iadd("ex_u64", v, [n])
                s = rng.bits(n - 1) | (1 << (n - 1))
                iadd("ex_I", v, [rng.choice([s, -s, (1 << n) - 1, 1 << (n - 1)])])
            iadd("ex_I", v, [0])
            iadd("rnd0", v, []); iadd("nz0", v, []); iadd("rbool", v, [])
            for T in ("int", "uint", "long", "ulong", "short"):
                for n in [1, 2, rng.choice([31, 32, 33]), rng.choice([63, 64, 65]), rng.choice([127, 128, 129])]:
                    for op in ("lt_Tv", "rnd_T", "rnd_Tv", "ex_T", "ex_Tv", "nz_T", "nz_Tv"):
                        iadd(op, v, [T, n])
            for m in [2, 3, 2**32, 2**64, 2**64 + 1, rng.bits(100) + 2]:
                for op in ("rnd_T", "nz_T", "nz_Tv"):
                    iadd(op, v, ["Integer", m])
        pairs = [(0, 1), (-1, 0), (-5, 5), (2**32 - 1, 2**32), (2**63, 2**64), (-2**64, 2**64), (2**64 - 1, 2**64 + 1), (-2**128, -2**127),
                 (10**30, 10**30 + 7)]
        for (lo, hi) in pairs + [(x, x + rng.range(1, 2**70)) for x in [vf.structured_int(rng, 3) for _ in range(4)]]:
            for v in ("d", "dI"):
                iadd("bt_I", v, [lo, hi]); iadd("bt_Iv", v, [lo, hi])
        for (m, MM) in [(0, 1), (1, 2), (0, 64), (63, 64), (64, 65), (31, 33), (32, 64), (64, 128), (127, 129), (1, 129), (128, 129), (3, 70)]:
            for op in ("bt_2e", "bt_2ev", "bt_u64", "bt_u64v"):
                iadd(op, "d", [m, MM])
            for T in ("int", "ulong", "short"):
                iadd("bt_R", "d", [T, m, MM]); iadd("bt_Rv", "d", [T, m, MM])
        for n in [1, 2, 31, 64, 65, 128]:
            iadd("zr_rnd", "d", [n]); iadd("zr_nz", "d", [n])
        for m in [2, 3, 2**64, 2**64 + 1, rng.bits(90) + 2]:
            iadd("zr_rndI", "d", [m]); iadd("zr_nzI", "d", [m])
    for u in (0, 1):
        for e in (0, 1):
            for ss in ["-", "1", "2", str(2**31), str(2**32 - 1), str(2**63), str(2**64), str(2**128 + 5), str(-(2**64))]:
                for s in [1, 42, 2**40 + 1, 0] + ([U64 - 1, 2**63] if thorough else []):
                    add(fam="rii", u=u, e=e, ss=ss, seed=s, n=(25 if thorough else 7), line="rii %d %d %d %s %d" % (u, e, s, ss, 25 if thorough else 7))
    # --- iterators as objects with state: sequences of operations, the documented set checked after EVERY step
    def rii_ops(k):
        ops = []
        for _ in range(k):
            r = rng.below(10)
            if r < 4:
                ops.append("b%d" % rng.choice(BITS + [3, 30]))
            elif r < 5:
                ops.append(rng.choice(["C", "A-", "A%d" % rng.choice([1, 2**31, 2**64 + 5])]))
            else:
                ops.append(rng.choice(["+", "*", "d", "r", "c", "v", "R"]))
            if rng.chance(1, 2):
                ops.append(rng.choice(["*", "d"]))
        return ops
    directed = [["b1", "*", "b2", "*", "b1", "*"], ["b64", "*", "b63", "*", "b64", "*", "b64", "*", "b65", "d"],
                ["*", "b30", "*", "b31", "*", "b29", "*"], ["b1", "b2", "*", "+", "*"], ["C", "b33", "*", "A-", "*", "b128", "*", "C", "*", "b127", "*"],
                ["r", "*", "b2", "r", "c", "v", "R", "*", "b129", "r", "*"], ["A2", "*", "b1", "*", "A%d" % (2**70), "*", "b64", "d"]]
    for u in (0, 1):
        for e in (0, 1):
            for ss in ["-", "1", "3", str(2**32 - 1), str(2**64)]:
                seqs = directed + [rii_ops(6) for _ in range(6 if thorough else 2)]
                for ops in seqs:
                    s = rng.choice([1, 42, 2**40 + 1, U64 - 1])
                    add(fam="riiseq", u=u, e=e, ss=ss, seed=s, ops=ops, line="riiseq %d %d %d %s %s" % (u, e, s, ss, " ".join(ops)))
    for name, t in sorted(RINGS.items()):
        for ps in t["moduli"]:
            q = card(ps)
            for kseq in range(5 if thorough else 3):
                alphabet = "rcvRnmC" + ("" if t["kind"] == "id" else "AS")
                if name == "mI":
                    continue        # its RandIter draws from GMP's generator: family mii
                if t["kind"] == "gfq" and q == 2:
                    alphabet = alphabet.replace("n", "").replace("m", "")
                ops = "".join(rng.choice(alphabet) for _ in range(12)) + "r"
                if kseq == 0:       # directed, on every run: used iterator copied, assigned over a different one (twice), self-assigned, then N draws
                    ops = "".join(ch for ch in "rcArcvSRnCrAmSrcvRnr" if ch in alphabet)
                sizes = [0]
                if t["kind"] == "gfq":
                    sizes = [0, rng.range(2, q), q, q + 1, 2 * q + 1] if q > 2 else [0, 2, 3, 5]
                if t["kind"] == "id":
                    sizes = [0, 1000, 2**32, 2**32 + 5]
                if t["kind"] in ("mod", "bal") and name != "mI":
                    top_ = t["rmax"] if t["rmax"] else (2**24 if name in ("f", "bf", "ef", "f_d") else 2**53)
                    sizes = sorted(set(x for x in [0, 1, 2, q - 1, q, q + 1, top_] if 0 <= x <= top_))
                if name == "mI":
                    sizes = [0, 1, q - 1, q, q + 1, 2**64 + 1]
                for size in sizes:
                    if size > t["rmax"] > 0:
                        continue
                    if size > q > 0 and ("n" in ops or "m" in ops) and not vals.get("CLAMP"):
                        ops2 = ops.replace("n", "r").replace("m", "c")
                    else:
                        ops2 = ops
                    s = rng.choice(good + big[:4])
                    # the iterator an A step assigns over: another ring object (modulus 3, or 5 when p = 3), seed + 17, and a sampling size
                    # chosen so that the size it keeps differs from the source's
                    q2 = 2 if t["kind"] == "gf2" else 0 if t["kind"] == "id" else (5 if str(ps) == "3" else 3)
                    if t["kind"] == "gfq":
                        eff = size if 0 < size < q else q
                        size2 = 2 if eff != 2 else 0
                    else:
                        size2 = size + 1 if not (size + 1 > t["rmax"] > 0) else size - 1
                    add(fam="ringseq", ring=name, p=ps, seed=s, size=size, size2=size2, q2=q2, ops=ops2,
                        line="ringseq %s %s %d %d %s %d" % (name, ps, s, size, ops2, size2))
    # --- QField<Rational>
    for _ in range(reps):
        for s_ in [1, 2, 5, 31, 64, 65, 128]:
            for f in ("rnd_s", "nz_s"):
                sd = rng.choice([1, 42, rng.bits(64)])
                add(fam="qf", form=f, seed=sd, args=[str(s_)], line="qf %s %d %d" % (f, sd, s_))
        for f in ("rnd_d", "nz_d"):
            sd = rng.choice([1, 42, rng.bits(64)])
            add(fam="qf", form=f, seed=sd, args=[], line="qf %s %d" % (f, sd))
        for (bn, bd) in [(2, 2), (100, 7), (2**64, 3), (3, 2**64 + 1), (rng.bits(90) + 2, rng.bits(70) + 2), (5, 2), (2, 5)]:
            from math import gcd
            g_ = gcd(bn, bd)
            bn_, bd_ = bn // g_, bd // g_
            if bn_ < 2 or bd_ < 2:
                continue
            for f in ("rnd_b", "nz_b"):
                sd = rng.choice([1, 42, rng.bits(64)])
                add(fam="qf", form=f, seed=sd, args=[str(bn_), str(bd_)], line="qf %s %d %d %d" % (f, sd, bn_, bd_))
    # --- GFqExtFast / GFqExt random, Extension<GFqDom<int64_t>> random forms and GIV_ExtensionrandIter
    for (w, pp, ee) in [(32, 3, 4), (32, 2, 8), (32, 5, 2), (64, 5, 3), (64, 2, 10), (64, 7, 2)]:
        for s in [rng.choice(good), rng.choice(good), rng.choice(big)]:
            add(fam="gfqx", w=w, p=pp, e=ee, seed=s, n=8, line="gfqx %d %d %d %d 8" % (w, pp, ee, s))
    for s in [rng.choice(good), rng.choice(stuck), rng.choice(big)]:
        for op in ("random", "random_sz", "nzrandom"):
            add(fam="gf2ref", op=op, seed=s, n=16, line="gf2ref %s %d 16" % (op, s))
    for (pp, ee) in [(5, 3), (2, 5), (1009, 2), (3, 7)]:
        for s in [rng.choice(good), rng.choice(big)]:
            for op, ss in [("random", [1]), ("nzrandom", [1]), ("random_s", [1, 2, ee - 1, ee, ee + 3]), ("nzrandom_s", [1, ee, ee + 1]),
                           ("random_b", [1, ee, ee + 2]), ("nzrandom_b", [2, ee + 1]),
                           ("iter", [0, 1, 2, pp - 1, pp, pp + 1, 100 * pp])]:
                for sv in ss:
                    add(fam="ext", p=pp, e=ee, op=op, seed=s, n=6, s=sv, line="ext %d %d %s %d 6 %d" % (pp, ee, op, s, sv))
    # GIV_ExtensionrandIter over a base field GF(p^k), k > 1 (base cardinality > characteristic): sampling sizes around both bounds; the seed
    # differs from every size, so that a constructor taking them in the other order is seen
    for (pp, ee, kk) in [(3, 2, 2), (2, 3, 3), (5, 2, 2)]:
        bc = pp ** kk
        for j, sv in enumerate([0, 1, 2, pp, pp + 1, bc - 1, bc, bc + 1, 100 * bc]):
            s = good[(j + kk) % len(good)] if good[(j + kk) % len(good)] != sv else good[0] + 12345
            add(fam="ext", p=pp, e=ee, op="iter", seed=s, n=6, s=sv, k=kk, line="ext %d %d iter %d 6 %d %d" % (pp, ee, s, sv, kk))
    for p in [2, 3, 11, 1000003, 2**64 + 13, 2**127 - 1]:
        for size in [0, 1, 2, p - 1, p, p + 1, 2 * p + 5, 2**64 + 1, p * 2**70 + 1]:
            for j, s in enumerate([rng.choice(good), rng.choice(stuck), rng.choice(big), 0]):
                for ctor in ((3, 2, 1) if (size == 0 and j == 0) else (3,)):
                    eff = p if (size == 0 or ctor != 3) else size
                    nzok = 0 if (eff == 1 or (p == 2 and eff == 1)) else 1
                    if ctor == 1 and s != 0:
                        pass
                    n_ = 21 if thorough else 9
                    add(fam="mii", seed=s, size=size, p=p, n=n_, ctor=ctor, nz=nzok, line="mii %d %d %d %d %d %d" % (s, size, p, n_, ctor, nzok))
    # --- sampling size 0 / 1, polynomial size 0: in forked children under a CPU-time limit (division by zero, write outside the vector, endless loop)
    for name, q_ in [("i32", 101), ("i8", 13), ("u64", 4294967291), ("u8", 251), ("i64_u128", 9223372036854775783), ("gfq32", "101"), ("gfq32", "7^2"), ("gfq64", "5^3")]:
        for what, szs in (("rnd", [0, 1]), ("nz", [0, 1, 2])):
            for size in szs:
                s = good[(size + len(name)) % len(good)]
                op = "random_sz" if what == "rnd" else "nzrandom_sz"
                add(fam="edge", what=what, ring=name, p=q_, seed=s, size=size, line="fork 400 ring %s %s %s %d 1 %d" % (name, q_, op, s, size))
    for name, q_ in [("i32", 101), ("d", 3), ("gfq32", "3^9"), ("u64", 3)]:
        for form in ("size", "like", "deg", "nzsize", "nzlike", "nzdeg"):
            for how in (0, 1):
                s = good[(how + len(form)) % len(good)]
                add(fam="edge", what="poly", ring=name, p=q_, seed=s, size=0, form=form, how=how, line="fork 400 poly %s %s %s %d -1 %d" % (name, q_, form, s, how))
    # --- two live GMP-based iterators share the process-wide generator
    for cls, parg in (("rii", 30), ("mii", 1000003), ("mii", 2**64 + 13)):
        for (s1, s2) in [(5, 9), (42, 5), (2**40 + 1, 7)]:
            add(fam="gmpshare", cls=cls, seed=s1, seed2=s2, k=4, parg=parg, line="gmpshare %s %d %d 4 %d" % (cls, s1, s2, parg))
    # --- Part D
    for K in range(6, 11):
        for s in [0, 1, 42, rng.bits(64), U64 - 1]:
            add(fam="ru", K=K, seed=s, n=(10 if thorough else 3), line="ru %d %d %d" % (K, s, 10 if thorough else 3))
    for K in (6, 7, 8):
        for s in [1, rng.bits(64)] + ([42, U64 - 1] if thorough else []):
            add(fam="rm", K=K, mg=2, p=0, seed=s, n=4, line="rm %d 2 0 %d 4" % (K, s))
            for p in [3, 1000003, (1 << (1 << K)) - rng.choice([59, 159, 189]) * 2 - 1, rng.bits(1 << K) | 1 | (1 << ((1 << K) - 1))]:
                for mg in (0, 1):
                    add(fam="rm", K=K, mg=mg, p=p, seed=s, n=(12 if thorough else 4), line="rm %d %d %d %d %d" % (K, mg, p, s, 12 if thorough else 4))
    for name, (K, ps) in sorted(RURINGS.items()):
        for p in ps:
            for s in [1, rng.bits(64)] + ([42, U64 - 1] if thorough else []):
                for op in ("random", "nzrandom", "iter"):
                    add(fam="modru", ring=name, K=K, p=p, op=op, seed=s, n=(12 if thorough else 4),
                        line="modru %s %d %s %d %d" % (name, p, op, s, 12 if thorough else 4))
    return cases, smax


# ------------------------------------------------------------------ model lines
def model_line(c, out, vals):
    """model input line for case c given the implementation output `out` (needed for traces / timer state); None = no model run"""
    fam = c["fam"]
    if out.startswith("SKIPPED"):
        return None
    if out == "TIMEOUT" or out.startswith("NONREPRO") or out.startswith("UN") or out.startswith("BAD"):
        if fam in ("lcg", "ring", "poly", "edge"):
            pass
        else:
            return None
    if fam == "lcg":
        st = out.split()[0] if (c["seed"] == 0 and out.split()) else ""
        return "lcg %s %d %d %s" % (c["form"], c["seed"], c["n"], st)
    if fam == "ring":
        t = RINGS[c["ring"]]
        return "ring %s %d %s %d %d %d %d" % (t["kind"], card(c["p"]), c["op"], c["seed"], c["n"], c["size"], t["bits"] or 32)
    if fam == "ringseq":
        t = RINGS[c["ring"]]
        return "ringseq %s %d %d %d %d %s %d %d" % (t["kind"], card(c["p"]), c["seed"], c["size"], t["bits"] or 32, c["ops"], c.get("size2", c["size"]), c.get("q2", card(c["p"])))
    if fam == "ext":
        if out == "TIMEOUT":
            return None
        if c["op"] == "iter":
            return "extiter %d %d %d %d %d %d" % (c["p"], c["e"], c["seed"], c["s"], c["n"], c["p"] ** c.get("k", 1))
        ops = []
        for i in range(c["n"]):
            si = ext_size_i(c["s"], i)
            ops.append("E%d" % c["e"] if c["op"] in ("random", "nzrandom") else "X%d,%d" % (c["e"], si) if c["op"].endswith("_s") else "B%d" % si)
        return "polyseq gfq %d %d 64 %d %s" % (c["p"], c["seed"], c["e"] + 4, " ".join(ops))
    if fam == "edge":
        t = RINGS[c["ring"]]
        if c["what"] == "poly":
            return "edge poly %s %d %d 0 %d %s" % (t["kind"] if t["kind"] != "gfq" else "gfq", card(c["p"]), c["seed"], t["bits"] or 32, c["form"])
        return "edge %s %s %d %d %d %d" % (c["what"], t["kind"], card(c["p"]), c["seed"], c["size"], t["bits"] or 32)
    if fam == "gmpshare":
        if " ;" not in out:
            return None
        return "gmpshare %s %d %d %d %d | %s" % (c["cls"], c["seed"], c["seed2"], c["k"], c["parg"], out.split(" ;", 1)[1].strip())
    if fam == "polyseq":
        t = RINGS[c["ring"]]
        r0len = {0: 0, 1: 12, 2: 1, 3: 8, 4: 61}[c["how"]]
        return "polyseq %s %d %d %d %d %s" % (t["kind"], card(c["p"]), c["seed"], t["bits"] or 32, r0len, " ".join(c["ops"]))
    if fam == "gfqx":
        try:
            head, draws, tail = [x.strip() for x in out.split("|")]
            qq, BITS, pceil, degree, pp, tabsize, noncanon, modout = [int(x) for x in head.split()]
            ds = []
            for tok in draws.split():
                x, r, quot = [int(v) for v in tok.split(":")]
                ds.append("%d:%d" % (x % modout, quot))
            return "gfqx %d %d %d %d %d %d %d | %s" % (c["w"], BITS, pceil, pp, degree, c["seed"], c["n"], " ".join(ds))
        except ValueError:
            return None
    if fam == "gf2ref":
        return "ring gf2 2 %s %d %d 0 8" % (c["op"], c["seed"], c["n"])
    if fam == "poly":
        t = RINGS[c["ring"]]
        d_ = c["d"]
        r0len = {0: 0, 1: d_ + 5, 2: 1, 3: d_ + 1, 4: 3 * d_ + 40}[c.get("how", 0)]
        return "poly %s %d %d %d %d %d" % (t["kind"], card(c["p"]), c["seed"], c["d"], t["bits"] or 32, r0len)
    if " ; " not in out and not out.endswith(" ;"):
        return None
    res, tr = out.split(" ;", 1)
    toks = tr.split()
    if fam == "int":
        mop, ap, margs, pred, nz = int_case_model(c["op"], c["var"], c["args"])
        toks = [t for t in toks if not t.startswith("s")]
        nat = int_native(c["op"], c["args"])
        if nat is not None:
            return "intN %s %s %s | %s" % (nat[0], ap, " ".join(str(a) for a in nat[1]), " ".join(toks))
        return "int %s %s %s | %s" % (mop, ap, " ".join(str(a) for a in margs), " ".join(toks))
    if fam == "riiseq":
        toks = [t for t in toks if not t.startswith("s")]
        return "riiseq %d %d %s %s | %s" % (c["u"], c["e"], c["ss"], " ".join(c["ops"]), " ".join(toks))
    if fam == "qf":
        toks = [t for t in toks if not t.startswith("s")]
        nz = 1 if c["form"].startswith("nz") else 0
        if c["form"].endswith("_b"):
            return "qf %d 1 %s %s | %s" % (nz, c["args"][0], c["args"][1], " ".join(toks))
        s_ = int(c["args"][0]) if c["args"] else 1
        return "qf %d 0 %d %d | %s" % (nz, s_, s_, " ".join(toks))
    if fam == "rii":
        toks = [t for t in toks if not t.startswith("s")]
        return "rii %d %d %s %d | %s" % (c["u"], c["e"], c["ss"], c["n"] + 1, " ".join(toks))
    if fam == "mii":
        sd = c["seed"] if c.get("ctor", 3) != 1 else 0
        return "mii %d %d %d %d %d %d | %s" % (c["size"], c["p"], c["n"], c.get("ctor", 3), c.get("nz", 0), sd, " ".join(toks))
    if fam == "ru":
        return "ru %d %d | %s" % (c["K"], c["n"], " ".join(toks))
    if fam == "rm":
        if c["mg"] == 2:
            return "ru %d %d | %s" % (c["K"], c["n"], " ".join(toks))
        if c["mg"] == 1 and c["p"] % 2 == 1 and c["p"] > 1:
            return "rmmga %d %d %d %d | %s" % (c["K"], c["p"], mg_p1(c["p"], c["K"]), c["n"], " ".join(toks))
        return "modru %d %d random %d | %s" % (c["K"], c["p"], c["n"], " ".join(toks))
    if fam == "modru":
        op = "nzrandom" if c["op"] == "nzrandom" else "random"
        if c["ring"].startswith("mgru") and c["p"] % 2 == 1 and c["p"] > 1:
            return "mgru %d %d %d %s %d | %s" % (c["K"], c["p"], mg_p1(c["p"], c["K"]), op, c["n"], " ".join(toks))
        return "modru %d %d %s %d | %s" % (c["K"], c["p"], op, c["n"], " ".join(toks))
    return None


def ext_size_i(s, i):
    """size asked for by the i-th draw of the sized Extension forms (harness ext_once)"""
    return s if i % 2 == 0 else (1 if i % 4 == 1 else s + 1)


def mg_p1(p, K):
    """-p^(-1) mod 2^(2^K): the constant Montgomery<ruint<K>> / rmint<K,MGA> keep as p1 (hypothesis of C20_montgomery_reduction)"""
    R = 1 << (1 << K)
    return (-pow(p, -1, R)) % R


def parse_elems(s):
    """'raw:value[z][=copy]' tokens -> list of (raw, value or None, zeroflag, copyraw or None)"""
    res = []
    for tok in s.split():
        cp = None
        if "=" in tok:
            tok, cp = tok.split("=")
        raw, val = tok.split(":")
        z = val.endswith("z")
        if z:
            val = val[:-1]
        res.append((int(raw), None if val == "x" else int(val), z, None if cp is None else int(cp)))
    return res


CALL_FORMS_LEGEND = {
    "lcg/<form>": "GivRandom: call = operator()(), brand, u8..i64 = operator()(XXX&), copy = copy constructor, assign = operator=, maxrand",
    "ring/<op>": "F.random(g,a) | random_sz = F.random(g,a,size) | nzrandom = F.nonzerorandom(g,a) | nzrandom_sz | iter = RandIter(F,seed,size) drawn through "
                 "random(a), operator()(a), operator()(), random() in turn | nziter = GeneralRingNonZeroRandIter random(a), (a), () | itercopy = copy in mid-stream; "
                 "x 33 ring types (distribution_by_family has the per-type counts); destinations preset to -1 / max / min / 0 / non-integral floats in rotation",
    "ringseq/<letter>": "on ONE iterator object: r random(a) c operator()(a) v operator()() R random() n/m NonZeroRandIter (and a copy of it) C copy-construct from the used iterator, A ASSIGNED over a used iterator on another ring object / sampling size / seed, S self-assignment; after C and A every draw is also made on the source and compared; sampling sizes 0,1,2,q-1,q,q+1,max",
    "poly/<form>/preset<k>": "Poly1Dom random/nonzerorandom (g,r,Degree) (g,r) (g,r,size) (g,r,b); destination preset 0 empty 1 larger 2 one coefficient 3 same size 4 much larger, not normalised",
    "polyseq/<letter>": "requests on ONE destination: D/d (Degree) Z/z () S/s (size) L/l (b) of random / nonzerorandom, I = Poly1Dom::RandIter (GIV_randIter<Poly1Dom>) random(r) / operator()(r), "
                        "J = a used RandIter of sampling size 1 ASSIGNED one of size d+1, then drawn (source draws the same)",
    "ext/<op>": "Extension<GFqDom<int64_t>>: random(g,r) random(g,r,s) random(g,r,b) and the nonzerorandom forms into one reused element, sizes s,1,s,s+1,..; iter = GIV_ExtensionrandIter random(e)/operator()(e) + copy",
    "int/<op>/<variant>": "Integer range constructions: variant t/f/d = template <true>/<false>/non-template; lt_I lt_2e lt_2ev lt_u64 ex_2e ex_I ex_u64 ex_T ex_Tv bt_I bt_Iv bt_2e bt_2ev bt_u64 bt_u64v "
                          "bt_R bt_Rv rnd0 nz0 rbool rnd_T rnd_Tv lt_Tv nz_T nz_Tv (v = value-returning; T in int,uint,long,ulong,short,Integer) zr_* = ZRing<Integer>::random/nonzerorandom; "
                          "both seeding forms; destination preset -77 / 2^200+12345 / -(2^130+7) / 0 in rotation",
    "rii, riiseq/<op>": "RandomIntegerIterator<U,E> 4 instantiations: constructor (2 forms), ++, *, randomInteger(), random(a), (a), (), random(), setBitsize, copy, assignment",
    "mii/ctor<k>": "ModularRandIter<Modular<Integer>>: constructors (F) (F,seed) (F,seed,size); random(a), (a), (), random(); NonZeroRandIter random(a), copy (a), ()",
    "qf/<form>": "QField<Rational>::random / nonzerorandom: (g,r,int64) (g,r) (g,r,const Rep&)",
    "gfqx/w<bits>": "GFqExtFast<int32_t>::random / GFqExt<int64_t>::random (+ table look-ups at the model's indices in the same process)",
    "edge/<what>/size<k>": "forked child, CPU-time limit: F.random(g,a,size) / F.nonzerorandom(g,a,size) with sampling size 0, 1, 2 (Modular<integral> 5 types, GFqDom 3 fields); "
                           "Poly1Dom random / nonzerorandom (g,r,uint64_t 0), (g,r,empty b), (g,r,Degree(-1)) with fresh and used destinations",
    "gmpshare/<class>": "two live RandomIntegerIterator / ModularRandIter<Modular<Integer>> objects on the process-wide GMP generator: A alone; A, then B built, then A again; A, B, then A",
    "ru, rm/<mg>, modru/<ring>/<op>": "RecInt::rand(ruint<K>) K=6..10, rand(rint<K>), rand(rmint<K,MGI|MGA>), a.random(); Modular<ruint<K>[,ruint<K+1>]> and Montgomery<ruint<K>> random / nonzerorandom / RandIter",
}


def form_keys(c):
    fam = c["fam"]
    if fam == "lcg":
        return ["lcg/" + c["form"]]
    if fam == "ring":
        return ["ring/" + c["op"]]
    if fam == "ringseq":
        return ["ringseq/" + ch for ch in sorted(set(c["ops"]))]
    if fam == "poly":
        return ["poly/%s/preset%d" % (c["form"], c.get("how", 0))]
    if fam == "polyseq":
        return ["polyseq/" + ch for ch in sorted(set(o[0] for o in c["ops"]))]
    if fam == "ext":
        return ["ext/" + c["op"]]
    if fam == "int":
        return ["int/%s/%s" % (c["op"], c["var"][0])]
    if fam == "riiseq":
        return ["riiseq/" + ch for ch in sorted(set(o[0] for o in c["ops"]))]
    if fam == "rii":
        return ["rii/<%d,%d>" % (c["u"], c["e"])]
    if fam == "mii":
        return ["mii/ctor%d" % c.get("ctor", 3)] + (["mii/nonzero"] if c.get("nz") else [])
    if fam == "qf":
        return ["qf/" + c["form"]]
    if fam == "gfqx":
        return ["gfqx/w%d" % c["w"]]
    if fam == "rm":
        return ["rm/%s" % {0: "MGI", 1: "MGA", 2: "rint"}[c["mg"]]]
    if fam == "modru":
        return ["modru/%s/%s" % (c["ring"], c["op"])]
    if fam == "ru":
        return ["ru/K%d" % c["K"]]
    if fam == "edge":
        return ["edge/%s/size%d" % (c["what"] if c["what"] != "poly" else "poly/" + c["form"], c["size"])]
    if fam == "gmpshare":
        return ["gmpshare/" + c["cls"]]
    return [fam]


def inconclusive(chk, what):
    """a stream our own tooling could not finish (wall-clock time-out, lost process): listed in the evidence, said aloud, never a pass of that stream"""
    chk.cov.setdefault("inconclusive", []).append(what)
    chk.cov.setdefault("floor_missed", []).append(what)
    chk.notes.append("INCONCLUSIVE: " + what)
    print("INCONCLUSIVE property=C20 %s" % what)


class GfqxSession:
    """one harness process kept alive for a dialogue (first pass: draws; second pass: table look-ups at the model's indices)"""
    WALL = 900

    def __init__(self, binary):
        import subprocess, threading
        self.p = subprocess.Popen([binary, "2000"], stdin=subprocess.PIPE, stdout=subprocess.PIPE, stderr=subprocess.DEVNULL, universal_newlines=True)
        self.timed_out = False
        self.t = threading.Timer(self.WALL, self._kill)
        self.t.daemon = True
        self.t.start()

    def _kill(self):
        self.timed_out = True
        try:
            self.p.kill()
        except OSError:
            pass

    def ask(self, line):
        try:
            self.p.stdin.write(line + "\n")
            self.p.stdin.flush()
            o = self.p.stdout.readline()
        except (OSError, ValueError):
            return None
        return o.rstrip("\n") if o else None

    def close(self):
        self.t.cancel()
        try:
            self.p.stdin.close()
            self.p.wait(timeout=30)
        except Exception:
            self._kill()


# ------------------------------------------------------------------ main
def main(tier, replay=None):
    chk = vf.Check("C20", tier, "proof")
    rng = vf.Rng(chk.seed)
    chk.cov["trusted_base"] = [
        "Coq 8.16.1 kernel + vm_compute (no native_compute)",
        "extraction: ExtrOcamlBasic only; Z/positive/nat kept as extracted inductives; OCaml 4.13.1; zarith only for text I/O in harness/zio.ml",
        "GMP's generator (mpz_urandomb, mpz_urandomm) is an oracle assumed to honour its documented range; every recorded answer is re-checked against that range",
        "std::mt19937_64 (RecInt::rand) is an oracle of 64-bit limbs; a twin generator with the same seed supplies the limbs to the model",
        "ring init/convert (C03/C04) enter the model as the canonical maps x mod p / balanced residue; values are compared after convert",
        "checks/C20.py reads the three #defines and the shape of the GivRandom constructor from givrandom.h (regular expressions); a wrong reading shows up as a correspondence failure",
        "harness/c20_random.C (link-time --wrap of the GMP entry points), checks/C20.py (generators, range predicates), g++/x86-64 for the implementation side (signed overflow wraps)",
    ]
    vals, flag, pnotes = read_params()
    chk.assumptions = ["GivRandom constants read from givrandom.h: %s; constructor normalises the seed: %s" % (vals, flag),
                       "model hand-written after the code; tie = correspondence on generated cases incl. GMP request traces"]
    if None in [vals[k] for k in ("MULTIPLYER", "MODULO", "HALFMOD")]:
        chk.broke("cannot read _GIVRAN_MULTIPLYER_/_GIVRAN_MODULO_/_GIVRAN_HALFMOD_ from givrandom.h: %s" % vals)
        vals = {"MULTIPLYER": 950706376, "MODULO": 2147483647, "HALFMOD": 1073741824, "CLAMP": vals.get("CLAMP"), "RESIZE": vals.get("RESIZE"), "ASSIGN": vals.get("ASSIGN"), "SIZED": vals.get("SIZED"), "POLYGUARD": vals.get("POLYGUARD"),
                "NORMALISES": flag, "NATIVE_DOC": vals.get("NATIVE_DOC"), "EXT_SEED_FIRST": vals.get("EXT_SEED_FIRST"), "EXT_BASECARD": vals.get("EXT_BASECARD")}
    else:
        write_params(vals, bool(flag))
    chk.notes += pnotes
    # the theorems about the bodies the tree HAS are stated as `flag = true -> P`: a flag with the bad value (or a shape that was
    # not recognised) is a broken obligation that names them; it is never a silently "proved" refutation
    for fk, thms in sorted(FLAG_THEOREMS.items()):
        if vals.get(fk) is not True:
            chk.broke("source flag %s is %s in the tree under check: %s %s stated under %s = true and do(es) not apply to it"
                      % (fk, {False: "false (the body lacks the statement)", None: "unknown (shape not recognised)"}[vals.get(fk)], ", ".join(thms),
                         "is" if len(thms) == 1 else "are", fk))
    for fk, what in (("SIZED", "the guards of repair ba8cf0e (sampling size 0 / 1 of the sized draws of Modular<integral> and GFqDom)"),
                     ("POLYGUARD", "the guard of repair 7ac0ca5 (`if (d < 0) d = 0;` in Poly1Dom::random(g, r, Degree))")):
        if vals.get(fk) is not True:
            chk.broke("source flag %s is %s: %s %s in the tree under check; C20_ring_random_sized / C20_ring_nonzerorandom_sized / C20_gfq_sized_draws / "
                      "C20_poly_request_with_its_domain then describe a call that crashes or does not return"
                      % (fk, vals.get(fk), what, "are not" if vals.get(fk) is False else "could not be recognised"))
    if None in (vals.get("NATIVE_DOC") or [None]):
        chk.broke("gmp++_int_rand.inl no longer documents native-integer arguments as bit sizes (level_claimed quotes these comments): %s" % vals.get("NATIVE_DOC"))
    chk.cov["source_flags"] = {k: vals.get(k) for k in ("NORMALISES", "CLAMP", "RESIZE", "ASSIGN", "SIZED", "POLYGUARD", "EXT_SEED_FIRST", "EXT_BASECARD")}
    chk.cov["native_overloads_documented_as_bit_sizes"] = vals.get("NATIVE_DOC")
    # 1. proofs (+ extraction)
    res = vf.coq_check_props(AREA, timeout=900)
    chk.proof_result(res, AREA)
    # 2. executables
    drv, l1 = vf.ocaml_build(AREA) if os.path.exists(os.path.join(vf.coq_dir(AREA), "ocaml", "model.ml")) else (None, "extraction did not run")
    if drv is None:
        chk.broke("extracted model driver does not build", l1)
    himpl, l2 = vf.build_harness("c20_random.C", extra_flags=WRAP)
    for _ in range(3):      # the library cache is shared and pruned by concurrent checks: rebuild when it vanished under us
        if himpl is not None or "libgivaro_verif.a" not in l2:
            break
        himpl, l2 = vf.build_harness("c20_random.C", extra_flags=WRAP)
    if himpl is None:
        if "libgivaro_verif.a" in l2 and ("No such file" in l2 or "cannot find" in l2):
            # the shared library cache was pruned under us four times in a row: a tooling problem, not a verdict about the property
            inconclusive(chk, "the cached static library vanished during four successive harness builds (cache shared with concurrent checks); nothing was executed")
        else:
            chk.broke("implementation harness does not compile against /repo", l2)
        return chk.finish()
    # 3. cases
    cases, smax = gen_cases(rng, tier, vals, flag)
    # boundary-directed cases for the limb oracle: moduli equal to (or one off) the value the generator is about to produce
    probes = [(K, s) for K in (6, 7, 8) for s in (1, 42, 2**64 - 1, 2, 3, 4, 5, 6, 7, 8, 9, 10, 11, 12)]
    rc, pout, _ = vf.run_lines(himpl, "".join("ru %d %d 1\n" % ks for ks in probes), timeout=300)
    if rc == 0 and len(pout) == len(probes):
        odd_seen = {}
        for (K, s), l in zip(probes, pout):
            import re as _re
            _m = _re.search(r"\d+", l.split(" ;")[0])      # "NONREPRO a || b": the two runs of the probe differ (a reseeded generator does not
            if _m is None:                                  # restart its sequence); the ru/modru/rm cases below report it with the input
                continue
            v = int(_m.group(0))
            extra = s not in (1, 42, 2**64 - 1)
            if extra and (v % 2 == 0 or odd_seen.get(K, 0) >= 2):
                continue            # the extra seeds only serve to find ODD draws: Montgomery moduli equal to the value about to be drawn
            if v % 2:
                odd_seen[K] = odd_seen.get(K, 0) + 1
            for p in ((v,) if extra else (v, v + 1, v - 1)):
                name = "ru%d" % K
                for op in ("random", "nzrandom"):
                    cases.append(dict(fam="modru", ring=name, K=K, p=p, op=op, seed=s, n=3, line="modru %s %d %s %d 3" % (name, p, op, s)))
                if p % 2:
                    for op in ("random", "nzrandom", "iter"):
                        cases.append(dict(fam="modru", ring="mg" + name, K=K, p=p, op=op, seed=s, n=3, line="modru mg%s %d %s %d 3" % (name, p, op, s)))
                    cases.append(dict(fam="rm", K=K, mg=1, p=p, seed=s, n=3, line="rm %d 1 %d %d 3" % (K, p, s)))
                cases.append(dict(fam="rm", K=K, mg=0, p=p, seed=s, n=3, line="rm %d 0 %d %d 3" % (K, p, s)))
        chk.cov["montgomery_moduli_equal_to_next_draw"] = odd_seen
        if any(odd_seen.get(K, 0) == 0 for K in (6, 7, 8)):
            chk.broke("no odd first draw found for some K: the boundary case modulus = value about to be drawn is not generated for the Montgomery rings: %s" % odd_seen)
    else:
        chk.broke("probe run of the harness failed")
    if replay:
        import json
        rp = json.load(open(replay))
        cases = [f["case"] for f in rp.get("failing_inputs", []) if isinstance(f.get("case"), dict) and "line" in f["case"]] or cases
    # the table fields of the gfqx family choose their irreducible polynomial when they are built (not reproducible from one process to
    # the next): these cases are put to ONE harness process that stays alive until the model has computed the table indices (second pass)
    cases = [c for c in cases if c["fam"] != "gfqx"] + [c for c in cases if c["fam"] == "gfqx"]
    nbatch = len([c for c in cases if c["fam"] != "gfqx"])
    gsess = GfqxSession(himpl) if nbatch < len(cases) else None
    impl_in = "".join(c["line"] + "\n" for c in cases[:nbatch])
    rc, iout, ierr = vf.run_lines(himpl, impl_in, timeout=1500, args=["%d" % LIMIT_MS])
    if rc == 0 and len(iout) == nbatch and gsess:
        for c in cases[nbatch:]:
            o_ = gsess.ask(c["line"])
            if o_ is None:
                rc = gsess.p.poll() if gsess.p.poll() not in (None, 0) else -1        # the dialogue process died on this case
                if gsess.timed_out:
                    rc = 124
                break
            iout.append(o_)
    if rc == 124:
        # our own tooling ran out of wall-clock time (machine load): inconclusive, recorded, not a verdict about the property
        inconclusive(chk, "implementation harness: %d of %d cases answered within 1500 s wall clock" % (len(iout), len(cases)))
        if gsess:
            gsess.close()
        return chk.finish()
    # the per-case limit is CPU time of the harness process (ITIMER_PROF), so it does not depend on the load of the machine; a
    # TIMEOUT is nevertheless confirmed by running the case again with 25 times the limit before it is reported
    # hang handling, bounded: the harness stops driving a call form after its FIRST overrun (SKIPPED-FORM) and the whole stream after 6
    # (SKIPPED-STREAM); at most 3 overruns are confirmed, each by running that case ALONE in a fresh process with 25 times the budget
    # (2 s CPU; 7 s for the long-sequence kinds); a confirmed one is a failing input `does-not-return`.  Skipped / unconfirmed cases are
    # listed as not executed: they are never a pass.
    if rc == 0 and len(iout) == len(cases):
        alltmo = [i for i, o in enumerate(iout) if o == "TIMEOUT"]
        came_back_forms = []
        for i in alltmo[:3]:
            ln = cases[i]["line"].replace("fork 400 ", "fork 2000 ", 1)
            rc2, o2, _ = vf.run_lines(himpl, ln + "\n", timeout=300, args=["%d" % (LIMIT_MS * 25), "solo"])
            if rc2 == 0 and len(o2) == 1 and o2[0] != "TIMEOUT":
                iout[i] = o2[0]
                came_back_forms.append(i)
        for i in alltmo[3:]:
            iout[i] = "UNCONFIRMED-TIMEOUT"
        if came_back_forms:
            # the first-stage budget was too short for these: give every case the harness skipped another chance with the long budget
            sk = [i for i, o in enumerate(iout) if o.startswith("SKIPPED") or o == "UNCONFIRMED-TIMEOUT"]
            rc2, o2, _ = vf.run_lines(himpl, "".join(cases[i]["line"] + "\n" for i in sk), timeout=900, args=["%d" % (LIMIT_MS * 25)])
            if rc2 == 0 and len(o2) == len(sk):
                for i, o in zip(sk, o2):
                    iout[i] = o if o != "TIMEOUT" else "UNCONFIRMED-TIMEOUT"
        nskip = sum(1 for o in iout if o.startswith("SKIPPED") or o == "UNCONFIRMED-TIMEOUT")
        if alltmo or nskip:
            chk.cov["hang_handling"] = {"first_stage_overruns": len(alltmo), "confirmed_alone_with_25x_budget": sum(1 for i in alltmo[:3] if iout[i] == "TIMEOUT"),
                                        "returned_with_25x_budget": len(came_back_forms), "cases_not_executed_after_an_overrun": nskip,
                                        "first_stage_budget_ms_cpu": LIMIT_MS, "long_sequence_kinds_budget_ms_cpu": LIMIT_MS + 5000}
        if nskip:
            inconclusive(chk, "%d cases were not executed: their call form (or the stream) was switched off after an overrun; they are not counted as passed" % nskip)
    if rc != 0 or len(iout) != len(cases):
        bad = cases[len(iout)]["line"] if len(iout) < len(cases) else ""
        chk.broke("implementation harness failed (rc=%s, %d/%d lines); next case: %s" % (rc, len(iout), len(cases), bad), ierr)
        if len(iout) < len(cases) and rc != 0:
            c = cases[len(iout)]
            chk.fail_input("harness crash", c["fam"], c, "a result line", "process died (rc=%s)" % rc)
        if gsess:
            gsess.close()
        return chk.finish()
    mout = [None] * len(cases)
    if drv:
        idx, lines = [], []
        for i, c in enumerate(cases):
            ml = model_line(c, iout[i], vals)
            if ml is not None:
                idx.append(i); lines.append(ml)
        rc, mo, merr = vf.run_lines(drv, "".join(l + "\n" for l in lines), timeout=1500)
        if rc == 124:
            inconclusive(chk, "model driver: %d of %d lines answered within 1500 s wall clock; correspondence not evaluated" % (len(mo), len(lines)))
        elif rc != 0 or len(mo) != len(lines):
            chk.broke("model driver failed (rc=%s, %d/%d lines)" % (rc, len(mo), len(lines)), merr)
        else:
            for j, i in enumerate(idx):
                mout[i] = mo[j]
        rc, po, _ = vf.run_lines(drv, "params\n")
        if rc == 0 and po and po[0].split()[:3] != [str(vals["MULTIPLYER"]), str(vals["MODULO"]), str(vals["HALFMOD"])]:
            chk.broke("extracted model was built from other constants than givrandom.h has now: %s" % po[0])
    # 4. verdicts
    M = vals["MODULO"]
    ncorr = 0
    dist = {}
    riiseed_cache = {}
    nskipped = 0
    forms = {}
    gfqx_second = []
    for i, c in enumerate(cases):
        out = iout[i]
        fam = c["fam"]
        key = fam + ("/" + str(c.get("ring", c.get("op", c.get("form", "")))) if fam not in ("ru", "riiseq", "gfqx") else "")
        dist[key] = dist.get(key, 0) + 1
        for fk in form_keys(c):
            forms[fk] = forms.get(fk, 0) + 1
        chk.count(c["line"], nontrivial=True)
        if i % 499 == 0:
            chk.sample({"case": c["line"], "impl": out[:300]})
        sc = seed_class(c.get("seed", 1), vals, smax)
        fails = []          # (site, klass, expected, detail)

        def fail(site, klass, expected, detail=""):
            fails.append((site, klass, expected, detail))
        mcmp = None         # (impl canonical text, model text) to compare
        if out.startswith("SKIPPED") or out == "UNCONFIRMED-TIMEOUT":
            nskipped += 1
            continue
        try:
            if fam == "edge":
                t = RINGS[c["ring"]]
                q = card(c["p"])
                gf = t["kind"] == "gfq"
                if c["what"] == "poly":
                    site, klass, inside = "Poly1Dom::random(g, r, size)", "size 0", False
                    want = "a constant polynomial (degree 0, non-zero, canonical) as the unsized overload draws"
                elif c["what"] == "rnd":
                    site, klass, inside = ("GFqDom" if gf else "Modular") + "::random(g, a, size)", "size 0", c["size"] >= 1
                    want = "a canonical element (size 0 = the entire ring, givranditer.h)"
                else:
                    site, klass, inside = ("GFqDom" if gf else "Modular") + "::nonzerorandom(g, a, size)", "size <= 1", c["size"] >= 2
                    want = "a non-zero canonical element"
                if inside:
                    klass = "size %d (inside the domain); %s" % (c["size"], c["ring"])
                canon = None
                if out.startswith("CRASH") or out == "TIMEOUT":
                    fail(site, klass, want, "the call %s" % ("does not return (CPU budget of the forked child used up)" if out == "TIMEOUT" else "dies: " + out))
                    canon = "NORETURN" if out == "TIMEOUT" else "CRASH"
                elif out.startswith("NONREPRO") or out.startswith("UN") or out.startswith("BAD"):
                    chk.broke("edge case not executed: %s -> %s" % (c["line"], out[:100]))
                elif c["what"] == "poly":
                    head, _, tail = out.partition(" | ")
                    dz, _, coefs = head.partition(" ;")
                    deg, size_ = [int(x) for x in dz.split()]
                    el = parse_elems(coefs)
                    if deg != 0 or size_ != 1 or el[-1][2] or (gf and el[-1][0] == 0) or not raw_ok(t["raw"], q, el[0][0]):
                        fail(site, klass, want, "degree %d size %d" % (deg, size_))
                    canon = "VAL %d ; %s | %s" % (size_, " ".join(str(e[0]) if gf else str(e[1] % q) for e in el), tail.strip())
                else:
                    head, _, tail = out.partition("| ")
                    el = parse_elems(head)
                    raw, val, z, _cp = el[0]
                    if not raw_ok(t["raw"], q, raw) or (c["what"] == "nz" and (z or (gf and raw == 0))):
                        fail(site, klass, want, "raw %d" % raw)
                    canon = "VAL %s | %s" % (raw if gf else val, tail.strip())
                mm = mout[i]
                if mm is not None and canon is not None:
                    if mm == "CRASH":
                        chk.cov["edge_outside_domain_undefined_behaviour"] = chk.cov.get("edge_outside_domain_undefined_behaviour", 0) + 1      # nothing to compare: any outcome
                    else:
                        mcmp = (canon, mm)
            elif fam == "gmpshare":
                resu, _, tr = out.partition(" ;")
                r1, r2, r3 = [x.split() for x in resu.split(" / ")]
                k = c["k"]
                bound_ok = (lambda x: 0 <= int(x) < (1 << 30)) if c["cls"] == "rii" else (lambda x: 0 <= int(x) < c["parg"])
                if not all(bound_ok(x) for x in r1 + r2 + r3):
                    fail("GMP-based iterators sharing the process-wide generator", c["cls"], "every draw in its documented set")
                # sequential part: the first k draws after constructing A are the same in run 1 and run 2 (nothing else happened in between)
                if r1[:k] != r2[:k]:
                    fail("GMP-based iterator, sequential use", c["cls"], "same seed, same first draws", "%s vs %s" % (r1[:k], r2[:k]))
                # documented global seeding (random-integer.h: 'the provided seed will be used, *** globally ***'): after B is built the draws
                # through A are those of B's seeding
                if r2[k:] != r3:
                    fail("GMP-based iterators sharing the process-wide generator", c["cls"] + "; stream after a second seeding",
                         "the draws through A after B(seed2) was built equal the draws after A(seed1); B(seed2) with nothing in between", "%s vs %s" % (r2[k:], r3))
                chk.cov["gmp_interleaved_changes_the_first_iterators_stream"] = chk.cov.get("gmp_interleaved_changes_the_first_iterators_stream", 0) + (1 if r1[k:] != r2[k:] else 0)
                if mout[i] is not None:
                    mcmp = (resu.strip(), mout[i])
            elif out.startswith("NONREPRO"):
                fail(fam + ": same seed, two runs", sc, "identical sequences", "two generators built with the same seed differ")
            elif out == "TIMEOUT":
                site = {"ring": "nonzerorandom(GivRandom)" if str(c.get("op", "")).startswith("nz") else "ring %s (GivRandom)" % c.get("op"),
                        "poly": "Poly1Dom::random(GivRandom)", "rm": "RecInt::rand(rmint<K,%s>)" % {0: "MGI", 1: "MGA", 2: "rint"}.get(c.get("mg"), "?")}.get(fam, fam + " draw")
                fail(site, "does-not-return; " + sc, "a value within %d ms of CPU time (confirmed alone with 25 times that budget)" % LIMIT_MS)
                if mout[i] is not None and mout[i] != "NONE":
                    mcmp = ("TIMEOUT", mout[i])
            elif out == "ASSIGNED-DIFFERS":
                fail("GIV_randIter / ModularRandIter operator=", "assigned iterator does not go on like its source",
                     "after dst = src (Poly1Dom::RandIter of sampling sizes 1 and d+1) both draw the same polynomial", "the two draws differ")
            elif out.startswith("UN") or out.startswith("BAD"):
                chk.broke("harness rejected its own case %s: %s" % (c["line"], out))
            elif fam == "lcg":
                head, _, tail = out.partition(" | ")
                toks = head.split()
                st0, draws = int(toks[0]), toks[1:]
                if c["form"] == "maxrand":
                    if int(draws[0]) != M:
                        fail("GivRandom::max_rand", sc, M)
                else:
                    if c["seed"] != 0 and flag is False and st0 != c["seed"]:
                        pass
                    for d in draws:
                        if c["form"] in ("copy", "assign"):
                            a, b = d.split(":")
                            if a != b:
                                fail("GivRandom copy/assignment", sc, "copies continue alike")
                            d = a
                        if c["form"] in ("call", "copy", "assign"):
                            if not (1 <= int(d) <= M - 1):
                                fail("GivRandom::operator()", sc, "draw in [1, modulus-1]", "draw %s" % d)
                                break
                        elif c["form"] == "brand":
                            if d not in ("0", "1"):
                                fail("GivRandom::brand", sc, "0/1")
                    if tail and not (1 <= int(tail) <= M - 1):
                        fail("GivRandom::operator()", sc, "state in [1, modulus-1]", "state %s" % tail)
                canon = " ".join(t.split(":")[0] if c["form"].startswith("u8") else t for t in toks) + ((" | " + tail) if tail else "")
                mm = mout[i]
                if mm is not None and c["form"] in ("copy", "assign", "u8"):
                    pass
                mcmp = (re.sub(r":1\b", "", out) if c["form"] == "u8" else out, mm)
            elif fam == "ring":
                t = RINGS[c["ring"]]
                q = card(c["p"])
                head, _, tail = out.partition("| ")
                el = parse_elems(head)
                nz = c["op"] in ("nzrandom", "nzrandom_sz", "nziter")
                site = "%s %s" % ("GFqDom" if t["kind"] == "gfq" else "GF2" if t["kind"] == "gf2" else "ZRing" if t["kind"] == "id" else "Modular", c["op"])
                for (raw, val, z, cp) in el:
                    if not raw_ok(t["raw"], q, raw):
                        fail(site, c["ring"] + "; " + sc, "canonical element", "raw %d" % raw); break
                    if t["kind"] in ("mod",) and val is not None and not (0 <= val < q):
                        fail(site, c["ring"] + "; " + sc, "value in [0,p)", "value %d" % val); break
                    if nz and (z or (t["kind"] in ("gfq", "gf2") and raw == 0)):
                        fail(site, c["ring"] + "; " + sc, "non-zero element", "zero drawn"); break
                    if t["kind"] == "gfq" and c["op"] in ("random_sz", "nzrandom_sz") and not (raw < max(c["size"], 1)):
                        fail(site, c["ring"] + "; " + sc, "exponent below the size", "raw %d" % raw); break
                    if cp is not None and cp != raw:
                        fail(site + " (copied iterator)", c["ring"] + "; " + sc, "copy continues alike"); break
                if t["kind"] in ("gfq", "gf2"):
                    vals_i = [str(e[0]) for e in el]
                elif t["kind"] == "bal":
                    vals_i = [str(e[1] % q) for e in el]
                elif t["kind"] == "id":
                    vals_i = [str(e[1] % U64) for e in el]
                else:
                    vals_i = [str(e[1]) for e in el]
                if c["ring"] == "bi64" and sc == "seed > (2^63-1)/multiplier" and flag is not True:
                    # only on a tree WITHOUT the normalising constructor (history): there
                    # draws >= 2^63 reach ModularBalanced<int64_t>::init(uint64_t), which C04 records as a known finding
                    # (values >= 2^63 wrap to negative numbers before the reduction): only the generator state is tied here
                    chk.cov["bi64_values_not_tied_for_overflowing_seeds"] = chk.cov.get("bi64_values_not_tied_for_overflowing_seeds", 0) + 1
                    if mout[i] is not None and tail:
                        mcmp = (tail.strip(), mout[i].partition(" | ")[2].strip())
                elif mout[i] is not None:
                    mh, _, mt = mout[i].partition(" | ")
                    mv = mh.split()
                    if t["kind"] == "bal":
                        mv = [str(int(x) % q) for x in mv]
                    if t["kind"] == "id":
                        mv = [str(int(x) % U64) for x in mv]
                    a = " ".join(vals_i) + ((" | " + tail.strip()) if tail else "")
                    b = " ".join(mv) + ((" | " + mt.strip()) if tail else "")
                    mcmp = (a, b)
            elif fam == "poly":
                t = RINGS[c["ring"]]
                q = card(c["p"])
                head, _, tail = out.partition(" | ")
                dz, _, coefs = head.partition(" ;")
                deg, size = [int(x) for x in dz.split()]
                el = parse_elems(coefs)
                site = "Poly1Dom::random(%s)" % c["form"]
                if size != c["d"] + 1 or deg != c["d"]:
                    fail(site, c["ring"] + "; " + sc, "degree %d" % c["d"], "degree %d size %d" % (deg, size))
                elif el[-1][2] or (t["kind"] == "gfq" and el[-1][0] == 0):
                    fail(site, c["ring"] + "; " + sc, "non-zero leading coefficient")
                for (raw, val, z, cp) in el:
                    if not raw_ok(t["raw"], q, raw):
                        fail(site, c["ring"] + "; " + sc, "canonical coefficients", "raw %d" % raw); break
                if mout[i] is not None:
                    if t["kind"] == "gfq":
                        a = " ".join(str(e[0]) for e in el)
                        b = mout[i]
                    else:
                        a = " ".join(str(e[1] % q) for e in el)
                        mh, _, mt = mout[i].partition(" | ")
                        b = " ".join(str(int(x) % q) for x in mh.split()) + " | " + mt
                    mcmp = (a + " | " + tail.strip(), b) if t["kind"] != "gfq" else (a + " | " + tail.strip(), b)
            elif fam == "polyseq":
                t = RINGS[c["ring"]]
                q = card(c["p"])
                head, _, tail = out.partition(" | ")
                steps = head.split(" / ")
                if len(steps) != len(c["ops"]):
                    chk.broke("polyseq: %d steps reported for %d requests: %s" % (len(steps), len(c["ops"]), c["line"]))
                canon = []
                for k, (stp, opn) in enumerate(zip(steps, c["ops"])):
                    want = 0 if opn[0] in "Zz" else int(opn[1:])
                    dz, _, coefs = stp.partition(" ;")
                    deg, size = [int(x) for x in dz.split()]
                    el = parse_elems(coefs)
                    site = "Poly1Dom::random into a used destination (%s)" % {"D": "Degree", "Z": "default", "S": "size", "L": "like b", "I": "RandIter", "J": "assigned RandIter"}[opn[0].upper()]
                    if opn[0] == "J":
                        site, klass = "GIV_randIter / ModularRandIter operator=", "assigned iterator does not go on like its source"
                    if opn[0] != "J":
                        klass = "%s; request %d of a sequence; %s" % (c["ring"], k, sc)
                    if size != want + 1 or deg != want:
                        fail(site, klass, "degree %d" % want, "step %d (%s): degree %d size %d" % (k, opn, deg, size)); break
                    if el[-1][2] or (t["kind"] == "gfq" and el[-1][0] == 0):
                        fail(site, klass, "non-zero leading coefficient", "step %d (%s)" % (k, opn)); break
                    if any(not raw_ok(t["raw"], q, e[0]) for e in el):
                        fail(site, klass, "canonical coefficients", "step %d (%s)" % (k, opn)); break
                    canon.append("%d ; %s" % (size, " ".join(str(e[0]) if t["kind"] == "gfq" else str(e[1] % q) for e in el)))
                if mout[i] is not None and not fails:
                    mh, _, mt = mout[i].partition(" | ")
                    msteps = []
                    for ms in mh.split(" / "):
                        ln, _, cf = ms.partition(" ; ")
                        msteps.append("%s ; %s" % (ln.strip(), " ".join(x if t["kind"] == "gfq" else str(int(x) % q) for x in cf.split())))
                    mcmp = (" / ".join(canon) + " | " + tail.strip(), " / ".join(msteps) + " | " + mt.strip())
            elif fam == "int":
                resu, _, tr = out.partition(" ;")
                r = int(resu)
                mop, ap, margs, pred, nz = int_case_model(c["op"], c["var"], c["args"])
                if not pred(r):
                    fail("Integer::%s" % c["op"], "variant %s" % c["var"][0], "draw in its documented set", "result %d" % r)
                for tok in tr.split():
                    if not trace_ok(tok):
                        chk.broke("GMP answered outside its documented range (oracle assumption): %s in %s" % (tok, c["line"]))
                if mout[i] is not None:
                    mm = mout[i].split(" ; ")
                    mres = {"true": "1", "false": "0"}.get(mm[0], mm[0])
                    mcmp = (resu.strip(), mres if len(mm) == 2 else mout[i])
            elif fam == "riiseq":
                resu, _, tr = out.partition(" ;")
                steps = resu.split()
                bits = 30 if c["ss"] == "-" else max(1, abs(int(c["ss"])).bit_length())
                names = ["constructor"] + c["ops"]

                def shape_ok(x, b):
                    ok = (abs(x).bit_length() == b) if c["e"] else (abs(x) < (1 << b))
                    return ok and not (c["u"] and x < 0)
                for k, (stp, opn) in enumerate(zip(steps, names)):
                    if opn.startswith("b"):
                        bits = int(opn[1:])
                    f3 = stp.split(":")
                    if int(f3[0]) != bits:
                        fail("RandomIntegerIterator<%d,%d> sequence" % (c["u"], c["e"]), "bit size after %s" % opn[0], bits, "step %d: getBitsize %s" % (k, f3[0])); break
                    if not shape_ok(int(f3[1]), bits):
                        fail("RandomIntegerIterator<%d,%d> sequence" % (c["u"], c["e"]), "current value after %s" % opn[0],
                             "stored value in the documented set of the current bit size %d" % bits, "step %d (%s): *it = %s" % (k, opn, f3[1])); break
                    if len(f3) > 2 and not shape_ok(int(f3[2]), bits):
                        fail("RandomIntegerIterator<%d,%d> sequence" % (c["u"], c["e"]), "value returned by %s" % opn[0],
                             "draw in the documented set of the current bit size %d" % bits, "step %d (%s): %s" % (k, opn, f3[2])); break
                if len(steps) != len(names):
                    chk.broke("riiseq: %d steps reported for %d operations: %s" % (len(steps), len(names), c["line"]))
                if mout[i] is not None:
                    mm = mout[i].split(" ; ")
                    mcmp = (resu.strip(), mm[0] if len(mm) == 2 else mout[i])
            elif fam == "ringseq":
                t = RINGS[c["ring"]]
                q = card(c["p"])
                el = parse_elems(out)
                draws = [ch for ch in c["ops"] if ch in "rcvRnm"]
                site = "%s RandIter sequence" % ("GFqDom" if t["kind"] == "gfq" else "GF2" if t["kind"] == "gf2" else "ZRing" if t["kind"] == "id" else "Modular")
                klass = c["ring"] + "; " + sc
                if t["kind"] == "gfq" and c["size"] > q:
                    site, klass = "GIV_randIter<GFqDom>(F, seed, size)", "size > cardinality"
                if len(el) != len(draws):
                    chk.broke("ringseq: %d values for %d draws: %s" % (len(el), len(draws), c["line"]))
                origin, origins = None, []
                for ch in c["ops"]:
                    if ch in "CA":
                        origin = ch
                    elif ch in "rcvRnm":
                        origins.append(origin)
                for k_, ((raw, val, z, cp), ch) in enumerate(zip(el, draws)):
                    assigned = (k_ < len(origins) and origins[k_] == "A")
                    if assigned and ((cp is not None and cp != raw) or not raw_ok(t["raw"], q, raw)):
                        fail("GIV_randIter / ModularRandIter operator=", "assigned iterator does not go on like its source",
                             "after a = b (a built on another ring, sampling size %s, other seed, used) the draws of a and b agree and are canonical" % c.get("size2"),
                             "draw %d: source %s, assigned %d" % (k_, cp, raw)); break
                    if not raw_ok(t["raw"], q, raw):
                        fail(site, klass, "canonical element", "raw %d" % raw); break
                    if ch in "nm" and (z or (t["kind"] in ("gfq", "gf2") and raw == 0)):
                        fail(site, klass, "non-zero element", "zero drawn"); break
                    if cp is not None and cp != raw:
                        fail(site + " (copied / assigned iterator)", klass, "the copy goes on like its source", "source %d, copy %d" % (cp, raw)); break
                if mout[i] is not None:
                    if t["kind"] in ("gfq", "gf2"):
                        a = [str(e[0]) for e in el]; b = mout[i].split()
                    elif t["kind"] == "id":
                        a = [str(e[1] % U64) for e in el]; b = [str(int(x) % U64) for x in mout[i].split()] if mout[i] != "NONE" else ["NONE"]
                    else:
                        a = [str(e[1] % q) for e in el]; b = [str(int(x) % q) for x in mout[i].split()] if mout[i] != "NONE" else ["NONE"]
                    if not (c["ring"] == "bi64" and sc != "good seed" and flag is not True):      # unconditional on a tree with the normalising constructor
                        mcmp = (" ".join(a), " ".join(b))
            elif fam == "qf":
                resu, _, tr = out.partition(" ;")
                n_, d_ = [int(x) for x in resu.split()]
                from math import gcd
                nzq = c["form"].startswith("nz")
                if c["form"].endswith("_b"):
                    bn, bd = int(c["args"][0]), int(c["args"][1])
                    okr = lambda rn, rd: 0 <= rn < bn and 0 < rd < bd
                else:
                    s_ = int(c["args"][0]) if c["args"] else 1
                    okr = lambda rn, rd: 0 <= rn < (1 << s_) and 0 < rd < (1 << s_)
                if d_ <= 0 or gcd(n_, d_) != 1:
                    fail("QField<Rational>::%s" % c["form"], "reduced form", "gcd 1 and positive denominator", "%d/%d" % (n_, d_))
                elif not okr(n_, d_) or (nzq and n_ == 0):
                    fail("QField<Rational>::%s" % c["form"], "range", "numerator and denominator below the bounds, non-zero where announced", "%d/%d" % (n_, d_))
                if mout[i] is not None:
                    alts = [x.split(" ; ") for x in mout[i].split(" || ")]
                    good_alt = [x[0] for x in alts if len(x) == 2]
                    mcmp = (resu.strip(), resu.strip() if resu.strip() in good_alt else mout[i])
            elif fam == "gf2ref":
                head, _, tail = out.partition("| ")
                bits_ = head.split()
                if any(b not in ("0", "1") for b in bits_) or (c["op"] == "nzrandom" and "0" in bits_):
                    fail("GF2::%s(BitReference)" % c["op"], sc, "0/1, non-zero where announced", head)
                if mout[i] is not None:
                    mcmp = (" ".join(out.split()), " ".join(mout[i].split()))
            elif fam == "gfqx":
                head, draws, tail = [x.strip() for x in out.split("|")]
                qq, BITS, pceil, degree, pp, tabsize, noncanon, modout = [int(x) for x in head.split()]
                site = "GFqExtFast::random" if c["w"] == 32 else "GFqExt::random"
                if qq != c["p"] ** c["e"] or pp != c["p"] or degree != c["e"] - 1:
                    chk.broke("gfqx: field parameters %s for %d^%d" % (head, c["p"], c["e"]))
                # hypotheses of C20_gfqext_random_canonical, checked on the field object of the tree under check
                if not (pceil > 0 and 2 <= pp <= 2 ** pceil and pceil * c["e"] <= c["w"] and tabsize == 2 ** (pceil * c["e"]) and modout == tabsize - 1):
                    fail(site, "table geometry; w=%d" % c["w"], "p <= 2^pceil, 2^(pceil*e) table entries, MODOUT = 2^(pceil*e)-1", head)
                if noncanon:
                    fail(site, "table entries; w=%d" % c["w"], "every entry of _low2log/_high2log an exponent below q", "%d entries >= q" % noncanon)
                gx = []
                for tok in draws.split():
                    x, r, quot = [int(v) for v in tok.split(":")]
                    d_ = x % modout
                    gx.append((x, r))
                    if not (0 <= r < qq):
                        fail(site, "w=%d; %s" % (c["w"], sc), "exponent in [0, q)", "generator value %d -> %d" % (x, r)); break
                    if not (quot == d_ // pp or (d_ % pp == 0 and quot == d_ // pp - 1)):
                        chk.broke("floating-point quotient (oracle assumption of C20_gfqext_random_canonical): (uint64_t)(%d.0/%d.0) = %d in %s" % (d_, pp, quot, c["line"]))
                if flag and not (1 <= int(tail) <= M - 1):
                    fail(site, "generator state", "state in [1, M-1]")
                if mout[i] is not None and not fails:
                    mh, _, mt = mout[i].partition(" | ")
                    mtoks = [t_.split(":") for t_ in mh.split()]
                    if [int(t_[0]) for t_ in mtoks] != [g_[0] for g_ in gx] or mt.strip() != tail:
                        chk.broke("correspondence: generator values of the model and of %s differ: model=%s impl=%s" % (c["line"], mout[i][:200], out[:200]))
                    else:
                        gfqx_second.append((c, [t_[1] for t_ in mtoks], [g_[1] for g_ in gx]))
                        ncorr += 1
            elif fam == "ext":
                head, _, tail = out.partition(" | ")
                m2 = re.match(r"(\d+) (\d+)(.*)$", head)
                order, ch = int(m2.group(1)), int(m2.group(2))
                elems = [[int(x) for x in e_.split()] for e_ in re.findall(r"\[([^\]]*)\]", m2.group(3))]
                site = "Extension<GFqDom>::%s" % c["op"]
                if "COPY-DIFFERS" in head:
                    fail("GIV_ExtensionrandIter copy", sc, "copy continues alike")
                if order != c["e"] or ch != c["p"] or len(elems) != c["n"]:
                    chk.broke("ext: unexpected header/element count in %s: %s" % (c["line"], out[:200]))
                bcard = c["p"] ** c.get("k", 1)
                for k_, e_ in enumerate(elems):
                    if any(not (0 <= x < bcard) for x in e_):
                        fail(site, sc, "coefficients canonical in the base field", str(e_)); break
                    if c["op"] == "iter" and any(x >= (c["s"] if 0 < c["s"] <= bcard else bcard) for x in e_):
                        fail("GIV_ExtensionrandIter(F, seed, size)", "sampling size %d, base field of %d elements" % (c["s"], bcard),
                             "coefficient indices below min(size, cardinality of the base field) (size 0 = the whole base field)", str(e_)); break
                    if c["op"] == "iter":
                        if len(e_) != c["e"]:
                            fail(site, sc, "%d coefficients" % c["e"], str(e_)); break
                    else:
                        si = ext_size_i(c["s"], k_)
                        d = c["e"] - 1 if c["op"] in ("random", "nzrandom") else (si - 1 if c["op"].endswith("_b") else (c["e"] - 1 if si >= c["e"] else si) - 1)
                        if len(e_) != d + 1 or e_[-1] == 0:
                            fail(site + " into a used destination", "draw %d; %s" % (k_, sc), "degree exactly %d" % d, str(e_)); break
                if mout[i] is not None and elems and c["op"] == "iter":
                    mcmp = (" ".join("[" + " ".join(str(x) for x in e_) + "]" for e_ in elems), mout[i])
                elif mout[i] is not None and elems and not fails:
                    mcmp = (" / ".join("%d ; %s" % (len(e_), " ".join(str(x) for x in e_)) for e_ in elems) + " | " + tail.strip(), mout[i])
            elif fam == "rii":
                resu, _, tr = out.partition(" ;")
                toks = resu.split()
                bits = int(toks[0])
                expb = 30 if c["ss"] == "-" else max(1, abs(int(c["ss"])).bit_length())
                if bits != expb:
                    fail("RandomIntegerIterator bit size", "samplesize %s" % c["ss"], expb, "getBitsize %d" % bits)
                for x in toks[1:]:
                    x = int(x)
                    ok = (abs(x).bit_length() == bits) if c["e"] else (abs(x) < (1 << bits))
                    if c["u"] and x < 0:
                        ok = False
                    if not ok:
                        fail("RandomIntegerIterator<%d,%d>" % (c["u"], c["e"]), "bits=%d" % bits, "draw in its documented set", "value %d" % x); break
                stoks = [t_ for t_ in tr.split() if t_.startswith("s")]
                if c["seed"] != 0 and drv:
                    if c["seed"] not in riiseed_cache:
                        rcs, so, _ = vf.run_lines(drv, "riiseed %d\n" % c["seed"], timeout=300)
                        riiseed_cache[c["seed"]] = so[0].strip() if (rcs == 0 and so) else None
                    ms = riiseed_cache[c["seed"]]
                    if ms is not None and stoks[:1] != ["s%s=0" % ms]:
                        if stoks[:1] != ["s%d=0" % c["seed"]]:
                            fail("RandomIntegerIterator constructor", "seeding of GMP's generator", "gmp_randseed_ui(%d)" % c["seed"], "trace starts %s" % stoks[:1])
                        else:
                            chk.broke("correspondence: model seeds GMP with %s, implementation with %s on %s" % (ms, stoks[:1], c["line"]))
                if mout[i] is not None:
                    mm = mout[i].split(" ; ")
                    mcmp = (resu.strip(), mm[0] if len(mm) == 2 else mout[i])
            elif fam == "mii":
                resu, _, tr = out.partition(" ;")
                ctorn = {3: "(F, seed, size)", 2: "(F, seed)", 1: "(F)"}[c.get("ctor", 3)]
                for k_, x in enumerate(resu.split()):
                    if not (0 <= int(x) < c["p"]):
                        fail("ModularRandIter<Modular<Integer>>" + ctorn, "p=%d" % c["p"], "canonical residue", "value %s" % x); break
                    if c.get("nz") and k_ % 7 >= 4 and int(x) == 0:
                        fail("NonZeroRandIter around ModularRandIter<Modular<Integer>>" + ctorn, "p=%d" % c["p"], "non-zero residue", "draw %d" % k_); break
                if mout[i] is not None:
                    mm = mout[i].split(" ; ")
                    mcmp = (resu.strip(), mm[0] if len(mm) == 2 else mout[i])
            elif fam == "ru":
                resu, _, tr = out.partition(" ;")
                for x in resu.split():
                    if not (0 <= int(x) < (1 << (1 << c["K"]))):
                        fail("RecInt::rand(ruint<K>)", "K=%d" % c["K"], "value below 2^(2^K)"); break
                if mout[i] is not None:
                    mcmp = (resu.strip(), mout[i].split(" ; ")[0])
            elif fam == "rm":
                resu, _, tr = out.partition(" ;")
                if c["mg"] == 2:
                    for x in resu.split():
                        if not (0 <= int(x) < (1 << (1 << c["K"]))):
                            fail("RecInt::rand(rint<K>)", "K=%d" % c["K"], "value below 2^(2^K)"); break
                    if mout[i] is not None:
                        mcmp = (resu.strip(), mout[i].split(" ; ")[0])
                else:
                    el = parse_elems(resu)
                    for (raw, val, z, cp) in el:
                        if not (0 <= raw < c["p"]) or not (0 <= val < c["p"]):
                            fail("RecInt::rand(rmint<K,%s>)" % ("MGI" if c["mg"] == 0 else "MGA"), "K=%d" % c["K"], "residue below the module", "raw %d" % raw); break
                    if mout[i] is not None:
                        if c["mg"] == 1 and c["p"] % 2 == 1 and c["p"] > 1:
                            mcmp = (" ".join("%d:%d" % (e[0], e[1]) for e in el), mout[i].split(" ; ")[0])     # stored Montgomery form : value
                        else:
                            mcmp = (" ".join(str(e[1]) for e in el), mout[i].split(" ; ")[0])
            elif fam == "modru":
                resu, _, tr = out.partition(" ;")
                el = parse_elems(resu)
                for (raw, val, z, cp) in el:
                    if not (0 <= raw < c["p"]) or not (0 <= val < c["p"]):
                        fail("Modular<ruint<K>>::%s" % c["op"], c["ring"], "canonical element", "raw %d" % raw); break
                    if c["op"] == "nzrandom" and (z or raw == 0 or val == 0):
                        fail("Modular<ruint<K>>::%s" % c["op"], c["ring"], "non-zero element"); break
                    if (raw == 0) != (val == 0):
                        fail("Modular<ruint<K>>::%s" % c["op"], c["ring"], "stored form zero exactly when the value is zero", "raw %d value %d" % (raw, val)); break
                if mout[i] is not None:      # (a RandIter built per draw does not reseed the limb generator: same stream as random)
                    if c["ring"].startswith("mgru") and c["p"] % 2 == 1 and c["p"] > 1:
                        a = " ".join("%d:%d" % (e[0], e[1]) for e in el) + " ; " + str(len(tr.split()))      # stored Montgomery form : value
                    else:
                        a = " ".join(str(e[0]) for e in el) + " ; " + str(len(tr.split()))
                    mcmp = (a, mout[i])
        except (ValueError, IndexError) as ex:
            chk.broke("cannot interpret the harness output for %s: %r (%s)" % (c["line"], out[:200], ex))
            continue
        for (site, klass, expected, detail) in fails[:1]:
            chk.fail_input(site, klass, c, expected, out[:400], detail)
        if mcmp is not None and mcmp[1] is not None:
            ncorr += 1
            a, b = mcmp
            if out == "TIMEOUT":
                if b != "NONE":
                    chk.broke("correspondence: implementation does not return, model does, on %s: model=%s" % (c["line"], b[:200]))
            elif " ".join(a.split()) != " ".join(b.split()) and not fails:
                chk.broke("correspondence model/implementation differs on %s: model=%s impl=%s" % (c["line"], b[:300], a[:300]))
    # GFqExtFast::random: the model computed, for every draw, the two table indices; the implementation now evaluates
    # add(_high2log[ih], _low2log[il]) for them and must find the exponent it returned in the first pass
    if gfqx_second and gsess:
        o2 = []
        for (c, idx, _) in gfqx_second:
            o_ = gsess.ask("gfqxchk %d %d %d %s" % (c["w"], c["p"], c["e"], " ".join(idx)))
            if o_ is None:
                break
            o2.append(o_)
        if gsess.timed_out:
            inconclusive(chk, "second pass for GFqExtFast::random did not finish within %d s wall clock" % GfqxSession.WALL)
        elif len(o2) != len(gfqx_second):
            chk.broke("second harness pass (gfqxchk) failed: %d/%d lines" % (len(o2), len(gfqx_second)))
        else:
            for (c, idx, want), got in zip(gfqx_second, o2):
                if got.split() != [str(w_) for w_ in want]:
                    if "OOB" in got:
                        chk.fail_input("GFqExtFast::random", "table index out of bounds", c, "indices inside the tables", got[:300], "model indices %s" % " ".join(idx))
                    else:
                        chk.broke("correspondence: GFqExtFast::random returned %s, add(_high2log[ih], _low2log[il]) at the model's indices %s gives %s (%s)"
                                  % (want, idx, got[:200], c["line"]))
        chk.cov["gfqext_draws_tied_through_model_indices"] = sum(len(x[1]) for x in gfqx_second)
    if gsess:
        gsess.close()
    # floor on what was actually compared: a run that stays below it (tooling trouble) says so; it is not a pass of those streams
    nthm = len(res.get("theorems", []))
    floor = {"cases_judged_by_the_oracle": len(cases) - nskipped, "cases_not_executed": nskipped, "correspondence_comparisons": ncorr, "correspondence_floor": int(0.97 * len(cases)),
             "theorems_in_Properties": nthm, "print_assumptions_reports": len(res.get("assumptions", {})), "theorems_floor": 70}
    missed = []
    if ncorr < floor["correspondence_floor"]:
        missed.append("only %d of %d cases were compared with the extracted model (floor %d)" % (ncorr, len(cases), floor["correspondence_floor"]))
    if nthm < floor["theorems_floor"] or len(res.get("assumptions", {})) < nthm:
        missed.append("%d theorems, %d Print Assumptions reports (floor %d)" % (nthm, len(res.get("assumptions", {})), floor["theorems_floor"]))
    chk.cov["floor"] = floor
    for m_ in missed:
        inconclusive(chk, "floor missed: " + m_)
    if len(chk.broken) > 20:
        chk.broken = chk.broken[:20] + [{"what": "... %d more" % (len(chk.broken) - 20), "detail": ""}]
    chk.cov["rule"] = ("every call form of GivRandom, of the Integer range constructions (template <true>/<false>/default, by-reference and "
                       "value-returning, integral T and Integer T, both seeding forms), of the random members and RandIter / NonZeroRandIter of "
                       "every ring type x moduli at the type's boundaries, Poly1Dom random/nonzerorandom forms, RandomIntegerIterator<U,E>, "
                       "RecInt::rand K=6..10; bit sizes {1,2,31,32,33,63,64,65,127,128,129}; seeds: good, = 0 mod modulus, above the "
                       "no-overflow bound, >= 2^63, 0 (timer); distinct = input line")
    chk.cov["traces_validated_against_impl"] = ncorr
    chk.cov["distribution_by_family"] = dist
    chk.cov["call_forms"] = {"legend": CALL_FORMS_LEGEND, "cases_per_form": dict(sorted(forms.items()))}
    chk.cov["givrandom_constants_from_source"] = vals
    chk.cov["constructor_normalises_seed"] = flag
    return chk.finish()
