(* Extraction of the executable model for the correspondence run (ExtrOcamlBasic only). *)
From Coq Require Import ZArith String.
From Coq Require Extraction.
From Coq Require Import ExtrOcamlBasic.
From C01 Require Import Model Table Table2.
Extraction Language OCaml.
Cd "ocaml".
Extraction "model.ml" run run_o.
Cd "..".
