(* C01 model, part 1: C integer layer (CInt), GMP primitive meanings (GmpSpec), constructors,
   and the add / sub / mul / fused families.  One definition PER OVERLOAD BODY, written after
   src/kernel/gmp++/gmp++_int_{cstor,add,sub,mul}.C and the inline bodies of gmp++_int.h
   (configuration of this tree: __GIVARO_SIZEOF_LONG = 8, so `unsigned long` = uint64_t, `long` = int64_t).
   Values of Integer objects are elements of Z; aliasing of objects is C15's business, except for the
   explicit `&res == &b` tests of the fused forms, which are a boolean parameter here.
   No proofs in this file.
   Lines `(*@ name | file | signature | sha *)` tie a definition to the source text of the body it was
   written after: checks/C01.py re-extracts that body on every run and compares the hash. *)
From Coq Require Import ZArith Bool List.
Local Open Scope Z_scope.

(* ------------------------------------------------------------------ CInt *)
Definition W8  : Z := 256.
Definition W16 : Z := 65536.
Definition W32 : Z := 4294967296.
Definition W64 : Z := 18446744073709551616.
Definition H8  : Z := 128.
Definition H16 : Z := 32768.
Definition H32 : Z := 2147483648.
Definition H64 : Z := 9223372036854775808.

Definition wrap_u (w z : Z) : Z := z mod w.
Definition wrap_s (w h z : Z) : Z := (z + h) mod w - h.
(* conversion of any integer value TO the named type (C++: modular) *)
Definition to_u64 (z : Z) : Z := wrap_u W64 z.
Definition to_u32 (z : Z) : Z := wrap_u W32 z.
Definition to_u16 (z : Z) : Z := wrap_u W16 z.
Definition to_u8  (z : Z) : Z := wrap_u W8 z.
Definition to_i64 (z : Z) : Z := wrap_s W64 H64 z.
Definition to_i32 (z : Z) : Z := wrap_s W32 H32 z.
Definition to_i16 (z : Z) : Z := wrap_s W16 H16 z.
Definition to_i8  (z : Z) : Z := wrap_s W8 H8 z.
(* value-preserving widenings, kept visible *)
Definition i32_to_i64 (n : Z) : Z := n.
Definition u32_to_u64 (n : Z) : Z := n.
(* unary minus on uint64_t; on int64_t (UB at INT64_MIN: two's-complement wrap, what g++ emits) *)
Definition neg_u64 (u : Z) : Z := to_u64 (- u).
Definition neg_i64 (n : Z) : Z := to_i64 (- n).
(* std::abs(long) / std::abs(int): UB at the minimum, modelled as wrap *)
Definition abs_i64 (n : Z) : Z := to_i64 (Z.abs n).
Definition abs_i32 (n : Z) : Z := to_i32 (Z.abs n).
(* Givaro::sign<T>(a) = (a>0)-(a<0) *)
Definition sign_w (n : Z) : Z := (if 0 <? n then 1 else 0) - (if n <? 0 then 1 else 0).

Definition in_i8  (n : Z) : Prop := - H8 <= n < H8.
Definition in_u8  (n : Z) : Prop := 0 <= n < W8.
Definition in_i16 (n : Z) : Prop := - H16 <= n < H16.
Definition in_u16 (n : Z) : Prop := 0 <= n < W16.
Definition in_i32 (n : Z) : Prop := - H32 <= n < H32.
Definition in_u32 (n : Z) : Prop := 0 <= n < W32.
Definition in_i64 (n : Z) : Prop := - H64 <= n < H64.
Definition in_u64 (n : Z) : Prop := 0 <= n < W64.

Definition b2z (b : bool) : Z := if b then 1 else 0.

(* ------------------------------------------------------------------ GmpSpec (trusted: GMP manual) *)
(* `_ui` arguments are unsigned long values (0 <= u < 2^64), `_si` arguments long values: the caller
   has already converted; the conversion is written at the call site in the model. *)
Definition mpz_set_si (s : Z) : Z := s.
Definition mpz_set_ui (u : Z) : Z := u.
Definition mpz_add (a b : Z) : Z := a + b.
Definition mpz_add_ui (a u : Z) : Z := a + u.
Definition mpz_sub (a b : Z) : Z := a - b.
Definition mpz_sub_ui (a u : Z) : Z := a - u.
Definition mpz_mul (a b : Z) : Z := a * b.
Definition mpz_mul_si (a s : Z) : Z := a * s.
Definition mpz_mul_ui (a u : Z) : Z := a * u.
Definition mpz_addmul (r a b : Z) : Z := r + a * b.
Definition mpz_addmul_ui (r a u : Z) : Z := r + a * u.
Definition mpz_submul (r a b : Z) : Z := r - a * b.
Definition mpz_submul_ui (r a u : Z) : Z := r - a * u.
Definition mpz_neg (a : Z) : Z := - a.
Definition mpz_sgn (a : Z) : Z := Z.sgn a.
(* comparisons: GMP specifies the SIGN of the result only *)
Definition mpz_cmp (a b : Z) : Z := Z.sgn (a - b).
Definition mpz_cmp_si (a s : Z) : Z := Z.sgn (a - s).
Definition mpz_cmp_ui (a u : Z) : Z := Z.sgn (a - u).
Definition mpz_cmpabs (a b : Z) : Z := Z.sgn (Z.abs a - Z.abs b).
Definition mpz_cmpabs_ui (a u : Z) : Z := Z.sgn (Z.abs a - u).

(* ------------------------------------------------------------------ gmp++_int_cstor.C *)
(*@ ctor_i32 | src/kernel/gmp++/gmp++_int_cstor.C | Integer::Integer(int32_t n) | b77417dd5380 *)
Definition ctor_i32 (n : Z) : Z := mpz_set_si (i32_to_i64 n).
(*@ ctor_u8 | src/kernel/gmp++/gmp++_int_cstor.C | Integer::Integer(unsigned char n) | c89585f85c48 *)
Definition ctor_u8 (n : Z) : Z := mpz_set_ui n.
(*@ ctor_u32 | src/kernel/gmp++/gmp++_int_cstor.C | Integer::Integer(uint32_t n) | c89585f85c48 *)
Definition ctor_u32 (n : Z) : Z := mpz_set_ui (u32_to_u64 n).
(*@ ctor_i64 | src/kernel/gmp++/gmp++_int_cstor.C | Integer::Integer(int64_t n) | 9d23a78b0200 *)
Definition ctor_i64 (n : Z) : Z := mpz_set_si n.
(*@ ctor_u64 | src/kernel/gmp++/gmp++_int_cstor.C | Integer::Integer(uint64_t n) | 9998574d2a24 *)
Definition ctor_u64 (n : Z) : Z := mpz_set_ui n.
(*@ ctor_copy | src/kernel/gmp++/gmp++_int_cstor.C | Integer::Integer(const Integer &n) | 4fc555b42e87 *)
Definition ctor_copy (n : Z) : Z := n.
(*@ logcpy | src/kernel/gmp++/gmp++_int_cstor.C | Integer& Integer::logcpy(const Integer &n) | 35254d4769e4 *)
Definition logcpy (this n : Z) : Z := n.
(*@ assign | src/kernel/gmp++/gmp++_int_cstor.C | Integer& Integer::operator = (const Integer &n) | 0a7c053c8883 *)
Definition assign (this n : Z) : Z := logcpy this n.
(*@ copy | src/kernel/gmp++/gmp++_int_cstor.C | Integer& Integer::copy(const Integer &n) | 35254d4769e4 *)
Definition copy (this n : Z) : Z := n.

(* ------------------------------------------------------------------ zero tests (gmp++_int_compare.C) *)
(*@ isZero_I | src/kernel/gmp++/gmp++_int_compare.C | int32_t isZero(const Integer& a) | 1cdce0019f59 *)
Definition isZero_I (a : Z) : bool := mpz_cmp_ui a 0 =? 0.
(*@ isZero_i64 | src/kernel/gmp++/gmp++_int_compare.C | int32_t isZero(const int64_t a) | f38a81861e5e *)
Definition isZero_i64 (a : Z) : bool := a =? 0.
(*@ isZero_u64 | src/kernel/gmp++/gmp++_int_compare.C | int32_t isZero(const uint64_t a) | 30c497637889 *)
Definition isZero_u64 (a : Z) : bool := a =? 0.

(* ------------------------------------------------------------------ gmp++_int_sub.C: neg (used below) *)
(*@ neg | src/kernel/gmp++/gmp++_int_sub.C | Integer& Integer::neg(Integer& res, const Integer& n) | 9a6f3e54864d *)
Definition neg (n : Z) : Z := mpz_neg n.
(*@ negin | src/kernel/gmp++/gmp++_int_sub.C | Integer& Integer::negin(Integer& res) | e87704e2c7db *)
Definition negin (res : Z) : Z := mpz_neg res.
(*@ opNeg | src/kernel/gmp++/gmp++_int_add.C | Integer Integer::operator - () const | 0688cd465c5b *)
Definition opNeg (x : Z) : Z := mpz_neg x.

(* ------------------------------------------------------------------ gmp++_int_add.C *)
(*@ addin_I | src/kernel/gmp++/gmp++_int_add.C | Integer& Integer::addin(Integer& res, const Integer& n) | b69158d96368 *)
Definition addin_I (res n : Z) : Z :=
  if isZero_I n then res else if isZero_I res then assign res n else mpz_add res n.
(*@ addin_i64 | src/kernel/gmp++/gmp++_int_add.C | Integer& Integer::addin(Integer& res, const int64_t n) | aebbf175e020 *)
Definition addin_i64 (res n : Z) : Z :=
  if isZero_i64 n then res else if isZero_I res then assign res (ctor_i64 n) else
  let sgn := sign_w n in
  if 0 <? sgn then mpz_add_ui res (to_u64 n) else mpz_sub_ui res (neg_u64 (to_u64 n)).
(*@ addin_u64 | src/kernel/gmp++/gmp++_int_add.C | Integer& Integer::addin(Integer& res, const uint64_t n) | 962b02926d1d *)
Definition addin_u64 (res n : Z) : Z :=
  if isZero_u64 n then res else if isZero_I res then assign res (ctor_u64 n) else mpz_add_ui res n.
(*@ addin_i32 | src/kernel/gmp++/gmp++_int.h | static giv_all_inlined Integer& addin (Integer& res, const int32_t n) | 6443386c589a *)
Definition addin_i32 (res n : Z) : Z := addin_i64 res (i32_to_i64 n).
(*@ addin_u32 | src/kernel/gmp++/gmp++_int.h | static giv_all_inlined Integer& addin (Integer& res, const uint32_t n) | 26e16ac13530 *)
Definition addin_u32 (res n : Z) : Z := addin_u64 res (u32_to_u64 n).

(*@ add_I | src/kernel/gmp++/gmp++_int_add.C | Integer& Integer::add(Integer& res, const Integer& n1, const Integer& n2) | 9fd45f983d2d *)
Definition add_I (n1 n2 : Z) : Z :=
  if isZero_I n1 then n2 else if isZero_I n2 then n1 else mpz_add n1 n2.
(*@ add_i64 | src/kernel/gmp++/gmp++_int_add.C | Integer& Integer::add(Integer& res, const Integer& n1, const int64_t n2) | c0621e0a2a80 *)
Definition add_i64 (n1 n2 : Z) : Z :=
  if isZero_I n1 then ctor_i64 n2 else if isZero_i64 n2 then n1 else
  let sgn := sign_w n2 in
  if 0 <? sgn then mpz_add_ui n1 (to_u64 n2) else mpz_sub_ui n1 (neg_u64 (to_u64 n2)).
(*@ add_u64 | src/kernel/gmp++/gmp++_int_add.C | Integer& Integer::add(Integer& res, const Integer& n1, const uint64_t n2) | 29f1ba162de8 *)
Definition add_u64 (n1 n2 : Z) : Z :=
  if isZero_I n1 then ctor_u64 n2 else if isZero_u64 n2 then n1 else mpz_add_ui n1 n2.
(*@ add_i32 | src/kernel/gmp++/gmp++_int.h | static giv_all_inlined Integer& add (Integer& res, const Integer& n1, const int32_t n2) | d8f0c8ca219c *)
Definition add_i32 (n1 n2 : Z) : Z := add_i64 n1 (i32_to_i64 n2).
(*@ add_u32 | src/kernel/gmp++/gmp++_int.h | static giv_all_inlined Integer& add (Integer& res, const Integer& n1, const uint32_t n2) | 1067cf467821 *)
Definition add_u32 (n1 n2 : Z) : Z := add_u64 n1 (u32_to_u64 n2).

(*@ opPlusEq_I | src/kernel/gmp++/gmp++_int_add.C | Integer& Integer::operator += (const Integer& n) | 2bddecb64600 *)
Definition opPlusEq_I (x n : Z) : Z :=
  if isZero_I n then x else if isZero_I x then logcpy x n else mpz_add x n.
(*@ opPlusEq_u64 | src/kernel/gmp++/gmp++_int_add.C | Integer& Integer::operator += (const uint64_t l) | b931a18df179 *)
Definition opPlusEq_u64 (x l : Z) : Z :=
  if l =? 0 then x else if isZero_I x then logcpy x (ctor_u64 l) else mpz_add_ui x l.
(*@ opPlusEq_i64 | src/kernel/gmp++/gmp++_int_add.C | Integer& Integer::operator += (const int64_t l) | 24273887442a *)
Definition opPlusEq_i64 (x l : Z) : Z :=
  if l =? 0 then x else if isZero_I x then logcpy x (ctor_i64 l) else
  let sgn := sign_w l in
  if 0 <? sgn then mpz_add_ui x (to_u64 l) else mpz_sub_ui x (neg_u64 (to_u64 l)).
(*@ opPlusEq_u32 | src/kernel/gmp++/gmp++_int.h | giv_all_inlined Integer& operator += (const uint32_t n) | 491105615d0f *)
Definition opPlusEq_u32 (x n : Z) : Z := opPlusEq_u64 x (u32_to_u64 n).
(*@ opPlusEq_i32 | src/kernel/gmp++/gmp++_int.h | giv_all_inlined Integer& operator += (const int32_t n) | d76d57ff689f *)
Definition opPlusEq_i32 (x n : Z) : Z := opPlusEq_i64 x (i32_to_i64 n).
(* template<class XXX> operator+=(const XXX&) : Caster<Integer>(n), here for XXX = int16_t / uint16_t *)
(*@ opPlusEq_T | src/kernel/gmp++/gmp++_int.h | Integer& operator +=(const XXX& n) | c0ad6e1bba75 *)
Definition opPlusEq_T (x n : Z) : Z := opPlusEq_I x (ctor_i32 n).

(*@ opPlus_I | src/kernel/gmp++/gmp++_int_add.C | Integer Integer::operator + (const Integer& n) const | 7981d11d962a *)
Definition opPlus_I (x n : Z) : Z :=
  if isZero_I n then x else if isZero_I x then n else mpz_add x n.
(*@ opPlus_u64 | src/kernel/gmp++/gmp++_int_add.C | Integer Integer::operator + (const uint64_t l) const | 8980b4fca2f8 *)
Definition opPlus_u64 (x l : Z) : Z :=
  if l =? 0 then x else if isZero_I x then ctor_u64 l else mpz_add_ui x l.
(* note: this body negates the SIGNED l (`-l`), then converts to unsigned long *)
(*@ opPlus_i64 | src/kernel/gmp++/gmp++_int_add.C | Integer Integer::operator + (const int64_t l) const | b4c441a82812 *)
Definition opPlus_i64 (x l : Z) : Z :=
  if l =? 0 then x else if isZero_I x then ctor_i64 l else
  let sgn := sign_w l in
  if 0 <? sgn then mpz_add_ui x (to_u64 l) else mpz_sub_ui x (to_u64 (neg_i64 l)).
(*@ opPlus_u32 | src/kernel/gmp++/gmp++_int.h | giv_all_inlined Integer operator + (const uint32_t n) const | 8a408cdc2d37 *)
Definition opPlus_u32 (x n : Z) : Z := opPlus_u64 x (u32_to_u64 n).
(*@ opPlus_i32 | src/kernel/gmp++/gmp++_int.h | giv_all_inlined Integer operator + (const int32_t n) const | 1cc96fe3139e *)
Definition opPlus_i32 (x n : Z) : Z := opPlus_i64 x (i32_to_i64 n).
(*@ fr_plus_i32 | src/kernel/gmp++/gmp++_int_add.C | Integer operator + (const int32_t l, const Integer& n) | efc839cb45c7 *)
Definition fr_plus_i32 (l n : Z) : Z := opPlus_i64 n (i32_to_i64 l).
(*@ fr_plus_u32 | src/kernel/gmp++/gmp++_int_add.C | Integer operator + (const uint32_t l, const Integer& n) | 230149fec961 *)
Definition fr_plus_u32 (l n : Z) : Z := opPlus_u64 n (u32_to_u64 l).
(*@ fr_plus_i64 | src/kernel/gmp++/gmp++_int_add.C | Integer operator + (const int64_t l, const Integer& n) | 450de660b074 *)
Definition fr_plus_i64 (l n : Z) : Z := opPlus_i64 n l.
(*@ fr_plus_u64 | src/kernel/gmp++/gmp++_int_add.C | Integer operator + (const uint64_t l, const Integer& n) | 450de660b074 *)
Definition fr_plus_u64 (l n : Z) : Z := opPlus_u64 n l.
(*@ preinc | src/kernel/gmp++/gmp++_int.h | Integer& operator++() | f6ab7b77cc0a *)
Definition preinc (x : Z) : Z := opPlusEq_u32 x 1.
(*@ postinc | src/kernel/gmp++/gmp++_int.h | Integer operator++(int) | 6a2c46a6e7ec *)
Definition postinc (x : Z) : Z * Z := let tmp := ctor_copy x in (tmp, preinc x).

(* ------------------------------------------------------------------ gmp++_int_sub.C *)
(*@ subin_I | src/kernel/gmp++/gmp++_int_sub.C | Integer& Integer::subin(Integer& res, const Integer& n) | 04c6e371f214 *)
Definition subin_I (res n : Z) : Z :=
  if isZero_I n then res else if isZero_I res then assign res (opNeg n) else mpz_sub res n.
(*@ subin_i64 | src/kernel/gmp++/gmp++_int_sub.C | Integer& Integer::subin(Integer& res, const int64_t n) | e1161c5f686f *)
Definition subin_i64 (res n : Z) : Z :=
  if isZero_i64 n then res else if isZero_I res then negin (assign res (ctor_i64 n)) else
  let sgn := sign_w n in
  if 0 <? sgn then mpz_sub_ui res (to_u64 n) else mpz_add_ui res (neg_u64 (to_u64 n)).
(*@ subin_u64 | src/kernel/gmp++/gmp++_int_sub.C | Integer& Integer::subin(Integer& res, const uint64_t n) | d2600d7fa166 *)
Definition subin_u64 (res n : Z) : Z :=
  if isZero_u64 n then res else if isZero_I res then negin (assign res (ctor_u64 n)) else mpz_sub_ui res n.
(*@ subin_i32 | src/kernel/gmp++/gmp++_int.h | static giv_all_inlined Integer& subin (Integer& res, const int32_t n) | b88d2bde66b6 *)
Definition subin_i32 (res n : Z) : Z := subin_i64 res (i32_to_i64 n).
(*@ subin_u32 | src/kernel/gmp++/gmp++_int.h | static giv_all_inlined Integer& subin (Integer& res, const uint32_t n) | bda91c2438a4 *)
Definition subin_u32 (res n : Z) : Z := subin_u64 res (u32_to_u64 n).

(*@ sub_I | src/kernel/gmp++/gmp++_int_sub.C | Integer& Integer::sub(Integer& res, const Integer& n1, const Integer& n2) | d72e48a217ff *)
Definition sub_I (n1 n2 : Z) : Z :=
  if isZero_I n1 then opNeg n2 else if isZero_I n2 then n1 else mpz_sub n1 n2.
(*@ sub_i64 | src/kernel/gmp++/gmp++_int_sub.C | Integer& Integer::sub(Integer& res, const Integer& n1, const int64_t n2) | 9fc0671e9f48 *)
Definition sub_i64 (n1 n2 : Z) : Z :=
  if isZero_I n1 then negin (ctor_i64 n2) else if isZero_i64 n2 then n1 else
  let sgn := sign_w n2 in
  if 0 <? sgn then mpz_sub_ui n1 (to_u64 n2) else mpz_add_ui n1 (neg_u64 (to_u64 n2)).
(*@ sub_u64 | src/kernel/gmp++/gmp++_int_sub.C | Integer& Integer::sub(Integer& res, const Integer& n1, const uint64_t n2) | d2a4b0f371c5 *)
Definition sub_u64 (n1 n2 : Z) : Z :=
  if isZero_I n1 then negin (ctor_u64 n2) else if isZero_u64 n2 then n1 else mpz_sub_ui n1 n2.
(*@ sub_i32 | src/kernel/gmp++/gmp++_int.h | static giv_all_inlined Integer& sub (Integer& res, const Integer& n1, const int32_t n2) | 3963d04520ec *)
Definition sub_i32 (n1 n2 : Z) : Z := sub_i64 n1 (i32_to_i64 n2).
(*@ sub_u32 | src/kernel/gmp++/gmp++_int.h | static giv_all_inlined Integer& sub (Integer& res, const Integer& n1, const uint32_t n2) | 2286dae7aba8 *)
Definition sub_u32 (n1 n2 : Z) : Z := sub_u64 n1 (u32_to_u64 n2).

(*@ opMinusEq_I | src/kernel/gmp++/gmp++_int_sub.C | Integer& Integer::operator -= (const Integer& n) | 7469123ce744 *)
Definition opMinusEq_I (x n : Z) : Z :=
  if isZero_I n then x else if isZero_I x then logcpy x (opNeg n) else mpz_sub x n.
(*@ opMinusEq_u64 | src/kernel/gmp++/gmp++_int_sub.C | Integer& Integer::operator -= (const uint64_t l) | 92d3f14f0adf *)
Definition opMinusEq_u64 (x l : Z) : Z :=
  if l =? 0 then x else if isZero_I x then logcpy x (opNeg (ctor_u64 l)) else mpz_sub_ui x l.
(*@ opMinusEq_i64 | src/kernel/gmp++/gmp++_int_sub.C | Integer& Integer::operator -= (const int64_t l) | 35d6577a472b *)
Definition opMinusEq_i64 (x l : Z) : Z :=
  if l =? 0 then x else if isZero_I x then logcpy x (opNeg (ctor_i64 l)) else
  let sgn := sign_w l in
  if 0 <? sgn then mpz_sub_ui x (to_u64 l) else mpz_add_ui x (neg_u64 (to_u64 l)).
(*@ opMinusEq_u32 | src/kernel/gmp++/gmp++_int.h | giv_all_inlined Integer& operator -= (const uint32_t n) | 0e1a043d22d0 *)
Definition opMinusEq_u32 (x n : Z) : Z := opMinusEq_u64 x (u32_to_u64 n).
(*@ opMinusEq_i32 | src/kernel/gmp++/gmp++_int.h | giv_all_inlined Integer& operator -= (const int32_t n) | 071055d4be47 *)
Definition opMinusEq_i32 (x n : Z) : Z := opMinusEq_i64 x (i32_to_i64 n).
(*@ opMinusEq_T | src/kernel/gmp++/gmp++_int.h | Integer& operator -=(const XXX& n) | 2e06a7673913 *)
Definition opMinusEq_T (x n : Z) : Z := opMinusEq_I x (ctor_i32 n).

(*@ opMinus_I | src/kernel/gmp++/gmp++_int_sub.C | Integer Integer::operator - (const Integer& n) const | f506aa71b454 *)
Definition opMinus_I (x n : Z) : Z :=
  if isZero_I n then x else if isZero_I x then opNeg n else mpz_sub x n.
(*@ opMinus_u64 | src/kernel/gmp++/gmp++_int_sub.C | Integer Integer::operator - (const uint64_t l) const | 507c02a5cdaa *)
Definition opMinus_u64 (x l : Z) : Z :=
  if l =? 0 then x else if isZero_I x then opNeg (ctor_u64 l) else mpz_sub_ui x l.
(*@ opMinus_i64 | src/kernel/gmp++/gmp++_int_sub.C | Integer Integer::operator - (const int64_t l) const | 807f826bb57f *)
Definition opMinus_i64 (x l : Z) : Z :=
  if l =? 0 then x else if isZero_I x then opNeg (ctor_i64 l) else
  let sgn := sign_w l in
  if 0 <? sgn then mpz_sub_ui x (to_u64 l) else mpz_add_ui x (neg_u64 (to_u64 l)).
(*@ opMinus_u32 | src/kernel/gmp++/gmp++_int.h | giv_all_inlined Integer operator - (const uint32_t n) const | 521f1dfd8ad2 *)
Definition opMinus_u32 (x n : Z) : Z := opMinus_u64 x (u32_to_u64 n).
(*@ opMinus_i32 | src/kernel/gmp++/gmp++_int.h | giv_all_inlined Integer operator - (const int32_t n) const | 84ba3958590c *)
Definition opMinus_i32 (x n : Z) : Z := opMinus_i64 x (i32_to_i64 n).
(*@ fr_minus_i32 | src/kernel/gmp++/gmp++_int_sub.C | Integer operator - (const int32_t l, const Integer& n) | 3ca638a1b5a1 *)
Definition fr_minus_i32 (l n : Z) : Z := opNeg (opMinus_i64 n (i32_to_i64 l)).
(*@ fr_minus_u32 | src/kernel/gmp++/gmp++_int_sub.C | Integer operator - (const uint32_t l, const Integer& n) | 08146d2b36f9 *)
Definition fr_minus_u32 (l n : Z) : Z := opNeg (opMinus_u64 n (u32_to_u64 l)).
(*@ fr_minus_i64 | src/kernel/gmp++/gmp++_int_sub.C | Integer operator - (const int64_t l, const Integer& n) | 0aea29c25ed6 *)
Definition fr_minus_i64 (l n : Z) : Z := opNeg (opMinus_i64 n l).
(*@ fr_minus_u64 | src/kernel/gmp++/gmp++_int_sub.C | Integer operator - (const uint64_t l, const Integer& n) | 0aea29c25ed6 *)
Definition fr_minus_u64 (l n : Z) : Z := opNeg (opMinus_u64 n l).
(*@ predec | src/kernel/gmp++/gmp++_int.h | Integer& operator--() | fed3bebea4bd *)
Definition predec (x : Z) : Z := opMinusEq_u32 x 1.
(*@ postdec | src/kernel/gmp++/gmp++_int.h | Integer operator--(int) | fb8fc394fca9 *)
Definition postdec (x : Z) : Z * Z := let tmp := ctor_copy x in (tmp, predec x).

(* ------------------------------------------------------------------ gmp++_int_mul.C *)
Definition Integer_zero : Z := 0.
(*@ mulin_I | src/kernel/gmp++/gmp++_int_mul.C | Integer& Integer::mulin(Integer& res, const Integer& n) | f6f011b6dd27 *)
Definition mulin_I (res n : Z) : Z :=
  if isZero_I n then assign res Integer_zero else if isZero_I res then res else mpz_mul res n.
(*@ mulin_i64 | src/kernel/gmp++/gmp++_int_mul.C | Integer& Integer::mulin(Integer& res, const int64_t n) | f8d3592508df *)
Definition mulin_i64 (res n : Z) : Z :=
  if isZero_i64 n then assign res Integer_zero else if isZero_I res then res else mpz_mul_si res n.
(*@ mulin_u64 | src/kernel/gmp++/gmp++_int_mul.C | Integer& Integer::mulin(Integer& res, const uint64_t n) | 94a236a0f09f *)
Definition mulin_u64 (res n : Z) : Z :=
  if isZero_u64 n then assign res Integer_zero else if isZero_I res then res else mpz_mul_ui res n.
(*@ mulin_i32 | src/kernel/gmp++/gmp++_int.h | static giv_all_inlined Integer& mulin (Integer& res, const int32_t n) | 242f3d8d8737 *)
Definition mulin_i32 (res n : Z) : Z := mulin_i64 res (i32_to_i64 n).
(*@ mulin_u32 | src/kernel/gmp++/gmp++_int.h | static giv_all_inlined Integer& mulin (Integer& res, const uint32_t n) | 00f93def80a8 *)
Definition mulin_u32 (res n : Z) : Z := mulin_u64 res (u32_to_u64 n).

(*@ mul_I | src/kernel/gmp++/gmp++_int_mul.C | Integer& Integer::mul(Integer& res, const Integer& n1, const Integer& n2) | e6ab11216ab2 *)
Definition mul_I (n1 n2 : Z) : Z :=
  if isZero_I n1 then Integer_zero else if isZero_I n2 then Integer_zero else mpz_mul n1 n2.
(*@ mul_i64 | src/kernel/gmp++/gmp++_int_mul.C | Integer& Integer::mul(Integer& res, const Integer& n1, const int64_t n2) | 008cd2a29b93 *)
Definition mul_i64 (n1 n2 : Z) : Z :=
  if isZero_I n1 then Integer_zero else if isZero_i64 n2 then Integer_zero else mpz_mul_si n1 n2.
(*@ mul_u64 | src/kernel/gmp++/gmp++_int_mul.C | Integer& Integer::mul(Integer& res, const Integer& n1, const uint64_t n2) | 2aa5c011e5fa *)
Definition mul_u64 (n1 n2 : Z) : Z :=
  if isZero_I n1 then Integer_zero else if isZero_u64 n2 then Integer_zero else mpz_mul_ui n1 n2.
(*@ mul_i32 | src/kernel/gmp++/gmp++_int.h | static giv_all_inlined Integer& mul (Integer& res, const Integer& n1, const int32_t n2) | b71eeccc2007 *)
Definition mul_i32 (n1 n2 : Z) : Z := mul_i64 n1 (i32_to_i64 n2).
(*@ mul_u32 | src/kernel/gmp++/gmp++_int.h | static giv_all_inlined Integer& mul (Integer& res, const Integer& n1, const uint32_t n2) | 3dba53c19063 *)
Definition mul_u32 (n1 n2 : Z) : Z := mul_u64 n1 (u32_to_u64 n2).

(*@ opMulEq_I | src/kernel/gmp++/gmp++_int_mul.C | Integer& Integer::operator *= (const Integer& n) | e94493c8b0b8 *)
Definition opMulEq_I (x n : Z) : Z :=
  if isZero_I n then assign x Integer_zero else if isZero_I x then x else
  let res := mpz_mul x n in assign x res.
(*@ opMulEq_u64 | src/kernel/gmp++/gmp++_int_mul.C | Integer& Integer::operator *= (const uint64_t l) | 3cd03f8d0c8f *)
Definition opMulEq_u64 (x l : Z) : Z :=
  if l =? 0 then assign x Integer_zero else if isZero_I x then x else mpz_mul_ui x l.
(*@ opMulEq_i64 | src/kernel/gmp++/gmp++_int_mul.C | Integer& Integer::operator *= (const int64_t l) | ad117f6e6699 *)
Definition opMulEq_i64 (x l : Z) : Z :=
  if l =? 0 then assign x Integer_zero else if isZero_I x then x else mpz_mul_si x l.
(*@ opMulEq_u32 | src/kernel/gmp++/gmp++_int.h | giv_all_inlined Integer& operator *= (const uint32_t n) | 118b9c11db1c *)
Definition opMulEq_u32 (x n : Z) : Z := opMulEq_u64 x (u32_to_u64 n).
(*@ opMulEq_i32 | src/kernel/gmp++/gmp++_int.h | giv_all_inlined Integer& operator *= (const int32_t n) | 84081ada2d21 *)
Definition opMulEq_i32 (x n : Z) : Z := opMulEq_i64 x (i32_to_i64 n).
(*@ opMulEq_T | src/kernel/gmp++/gmp++_int.h | Integer& operator *=(const XXX& n) | df917e9b2643 *)
Definition opMulEq_T (x n : Z) : Z := opMulEq_I x (ctor_i32 n).

(*@ opMul_I | src/kernel/gmp++/gmp++_int_mul.C | Integer Integer::operator * (const Integer& n) const | 1393ab8b69ec *)
Definition opMul_I (x n : Z) : Z :=
  if isZero_I n then Integer_zero else if isZero_I x then Integer_zero else mpz_mul x n.
(*@ opMul_u64 | src/kernel/gmp++/gmp++_int_mul.C | Integer Integer::operator * (const uint64_t l) const | 698aa4ddba40 *)
Definition opMul_u64 (x l : Z) : Z :=
  if l =? 0 then Integer_zero else if isZero_I x then Integer_zero else mpz_mul_ui x l.
(*@ opMul_i64 | src/kernel/gmp++/gmp++_int_mul.C | Integer Integer::operator * (const int64_t l) const | 19f048af5a80 *)
Definition opMul_i64 (x l : Z) : Z :=
  if l =? 0 then Integer_zero else if isZero_I x then Integer_zero else mpz_mul_si x l.
(*@ opMul_u32 | src/kernel/gmp++/gmp++_int.h | giv_all_inlined Integer operator * (const uint32_t n) const | 0b47113ef9ab *)
Definition opMul_u32 (x n : Z) : Z := opMul_u64 x (u32_to_u64 n).
(*@ opMul_i32 | src/kernel/gmp++/gmp++_int.h | giv_all_inlined Integer operator * (const int32_t n) const | edc236be2458 *)
Definition opMul_i32 (x n : Z) : Z := opMul_i64 x (i32_to_i64 n).
(*@ fr_mul_i32 | src/kernel/gmp++/gmp++_int_mul.C | Integer operator * (const int32_t l, const Integer& n) | 775f5ea948b2 *)
Definition fr_mul_i32 (l n : Z) : Z := opMul_i64 n (i32_to_i64 l).
(*@ fr_mul_u32 | src/kernel/gmp++/gmp++_int_mul.C | Integer operator * (const uint32_t l, const Integer& n) | 95a844eca811 *)
Definition fr_mul_u32 (l n : Z) : Z := opMul_u64 n (u32_to_u64 l).
(*@ fr_mul_i64 | src/kernel/gmp++/gmp++_int_mul.C | Integer operator * (const int64_t l, const Integer& n) | 22789e5fb93a *)
Definition fr_mul_i64 (l n : Z) : Z := opMul_i64 n l.
(*@ fr_mul_u64 | src/kernel/gmp++/gmp++_int_mul.C | Integer operator * (const uint64_t l, const Integer& n) | 22789e5fb93a *)
Definition fr_mul_u64 (l n : Z) : Z := opMul_u64 n l.

(* ---- fused forms.  `alias` is the outcome of the code's `&res == &b` test; when it is true the
   caller's res and b are one object, so the model is called with res = b. *)
(*@ axpyin_I | src/kernel/gmp++/gmp++_int_mul.C | Integer& Integer::axpyin(Integer& res, const Integer& a, const Integer& x) | 84186913dd91 *)
Definition axpyin_I (res a x : Z) : Z :=
  if isZero_I a || isZero_I x then res else mpz_addmul res a x.
(*@ axpyin_u64 | src/kernel/gmp++/gmp++_int_mul.C | Integer& Integer::axpyin(Integer& res, const Integer& a, const uint64_t x) | ed12ae2ab85a *)
Definition axpyin_u64 (res a x : Z) : Z :=
  if isZero_I a || isZero_u64 x then res else mpz_addmul_ui res a x.
(*@ axpy_I | src/kernel/gmp++/gmp++_int_mul.C | Integer& Integer::axpy(Integer& res, const Integer& a, const Integer& x, const Integer& b) | 1136a190385d *)
Definition axpy_I (alias : bool) (res a x b : Z) : Z :=
  if alias then axpyin_I res a x else
  if isZero_I a || isZero_I x then b else
  let res1 := mpz_mul a x in mpz_add res1 b.
(*@ axpy_u64 | src/kernel/gmp++/gmp++_int_mul.C | Integer& Integer::axpy(Integer& res, const Integer& a, const uint64_t x, const Integer& b) | bb71359c3b58 *)
Definition axpy_u64 (alias : bool) (res a x b : Z) : Z :=
  if alias then axpyin_u64 res a x else
  if isZero_I a || isZero_u64 x then b else
  let res1 := mpz_mul_ui a x in mpz_add res1 b.
(*@ maxpyin_I | src/kernel/gmp++/gmp++_int_mul.C | Integer& Integer::maxpyin(Integer& res, const Integer& a, const Integer& x) | 04b86a52b6ef *)
Definition maxpyin_I (res a x : Z) : Z :=
  if isZero_I a || isZero_I x then res else mpz_submul res a x.
(*@ maxpyin_u64 | src/kernel/gmp++/gmp++_int_mul.C | Integer& Integer::maxpyin(Integer& res, const Integer& a, const uint64_t x) | b5f2fcd0194e *)
Definition maxpyin_u64 (res a x : Z) : Z :=
  if isZero_I a || isZero_u64 x then res else mpz_submul_ui res a x.
(*@ maxpy_I | src/kernel/gmp++/gmp++_int_mul.C | Integer& Integer::maxpy(Integer& res, const Integer& a, const Integer& x, const Integer& b) | fc53fc4ca84f *)
Definition maxpy_I (alias : bool) (res a x b : Z) : Z :=
  if isZero_I a || isZero_I x then b else
  if alias then maxpyin_I res a x else
  let res1 := mpz_mul a x in mpz_sub b res1.
(*@ maxpy_u64 | src/kernel/gmp++/gmp++_int_mul.C | Integer& Integer::maxpy(Integer& res, const Integer& a, const uint64_t x, const Integer& b) | 37b736984e08 *)
Definition maxpy_u64 (alias : bool) (res a x b : Z) : Z :=
  if isZero_I a || isZero_u64 x then b else
  if alias then maxpyin_u64 res a x else
  let res1 := mpz_mul_ui a x in mpz_sub b res1.
(*@ axmyin_I | src/kernel/gmp++/gmp++_int_mul.C | Integer& Integer::axmyin(Integer& res, const Integer& a, const Integer& x) | fcce8f5a2c49 *)
Definition axmyin_I (res a x : Z) : Z := negin (maxpyin_I res a x).
(*@ axmyin_u64 | src/kernel/gmp++/gmp++_int_mul.C | Integer& Integer::axmyin(Integer& res, const Integer& a, const uint64_t x) | fcce8f5a2c49 *)
Definition axmyin_u64 (res a x : Z) : Z := negin (maxpyin_u64 res a x).
(*@ axmy_I | src/kernel/gmp++/gmp++_int_mul.C | Integer& Integer::axmy(Integer& res, const Integer& a, const Integer& x, const Integer& b) | b67d30962d5a *)
Definition axmy_I (alias : bool) (res a x b : Z) : Z :=
  if alias then axmyin_I res a x else
  if isZero_I a || isZero_I x then neg b else
  let res1 := mpz_mul a x in mpz_sub res1 b.
(*@ axmy_u64 | src/kernel/gmp++/gmp++_int_mul.C | Integer& Integer::axmy(Integer& res, const Integer& a, const uint64_t x, const Integer & b) | 4ed8eee5f204 *)
Definition axmy_u64 (alias : bool) (res a x b : Z) : Z :=
  if alias then axmyin_u64 res a x else
  if isZero_I a || isZero_u64 x then neg b else
  let res1 := mpz_mul_ui a x in mpz_sub res1 b.
