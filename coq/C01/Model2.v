(* C01 model, part 2: comparisons, zero/one tests, bit logic, shifts, conversions to and from native types,
   size queries.  One definition PER OVERLOAD BODY, written after gmp++_int_compare.C, gmp++_int_misc.C,
   gmp++_int_cstor.C and the inline bodies of gmp++_int.h / givinteger.h (LP64: long = int64_t).
   A double/float operand d is passed as two integers m e with d = m * 2^e exactly (finite d).
   A double/float RESULT is represented by the integer it holds (all results here are integral).
   No proofs in this file. *)
From Coq Require Import ZArith Bool List.
From C01 Require Import Model.
Local Open Scope Z_scope.

(* ------------------------------------------------------------------ GmpSpec, part 2 (trusted: GMP manual) *)
Definition mpz_cmp_d (a m e : Z) : Z := if 0 <=? e then Z.sgn (a - m * 2 ^ e) else Z.sgn (a * 2 ^ (- e) - m).
Definition mpz_cmpabs_d (a m e : Z) : Z := mpz_cmp_d (Z.abs a) (Z.abs m) e.
(* mpz_get_ui: the least significant limb of |a|.  mpz_get_si: as mpz/get_si.c (exact when a fits a long) *)
Definition mpz_get_ui (a : Z) : Z := Z.abs a mod W64.
Definition mpz_get_si (a : Z) : Z :=
  let l := Z.abs a mod W64 in
  if 0 <? a then l mod H64 else if a <? 0 then - 1 - ((l - 1) mod W64) mod H64 else 0.
(* mpz_set_d truncates; mpz_get_d truncates to 53 significant bits (finite range) *)
Definition mpz_set_d (m e : Z) : Z := if 0 <=? e then m * 2 ^ e else Z.quot m (2 ^ (- e)).
Definition trunc_bits (p a : Z) : Z :=
  let s := Z.log2 (Z.abs a) + 1 - p in if 0 <? s then Z.quot a (2 ^ s) * 2 ^ s else a.
Definition mpz_get_d (a : Z) : Z := trunc_bits 53 a.
(* (float) of a double holding the integer a, |a| < 2^128: round to nearest, ties to even, 24 significant bits *)
Definition rne_bits (p a : Z) : Z :=
  let s := Z.log2 (Z.abs a) + 1 - p in
  if 0 <? s then
    let q := Z.abs a / 2 ^ s in let r := Z.abs a mod 2 ^ s in let h := 2 ^ (s - 1) in
    let q' := if (h <? r) || ((r =? h) && Z.odd q) then q + 1 else q in
    Z.sgn a * (q' * 2 ^ s)
  else a.
Definition d_to_f (a : Z) : Z := rne_bits 24 a.
Definition mpz_and (a b : Z) : Z := Z.land a b.
Definition mpz_ior (a b : Z) : Z := Z.lor a b.
Definition mpz_xor (a b : Z) : Z := Z.lxor a b.
Definition mpz_com (a : Z) : Z := Z.lnot a.
Definition mpz_mul_2exp (a l : Z) : Z := a * 2 ^ l.
Definition mpz_tdiv_q_2exp (a l : Z) : Z := Z.quot a (2 ^ l).
Definition mpz_tstbit0 (a : Z) : bool := Z.odd a.
Definition mpz_size (a : Z) : Z := if a =? 0 then 0 else Z.log2 (Z.abs a) / 64 + 1.
Definition mpz_sizeinbase2 (a : Z) : Z := if a =? 0 then 1 else Z.log2 (Z.abs a) + 1.
Definition mpz_getlimbn (a i : Z) : Z := (Z.abs a / 2 ^ (64 * i)) mod W64.
Definition mpz_abs (a : Z) : Z := Z.abs a.
(* machine `&` on two uint64_t values *)
Definition and_u64 (a b : Z) : Z := Z.land a b.

(* ------------------------------------------------------------------ gmp++_int_compare.C: compare / absCompare *)
(*@ compare_I | src/kernel/gmp++/gmp++_int_compare.C | int32_t compare(const Integer &a, const Integer& b) | bb53f249368f *)
Definition compare_I (a b : Z) : Z := mpz_cmp a b.
(*@ absCompare_I | src/kernel/gmp++/gmp++_int_compare.C | int32_t absCompare(const Integer &a, const Integer &b) | d804cb7b3bdb *)
Definition absCompare_I (a b : Z) : Z := mpz_cmpabs a b.
(*@ absCompare_d | src/kernel/gmp++/gmp++_int_compare.C | int32_t absCompare(const Integer &a, const double b) | b772fe400dd3 *)
Definition absCompare_d (a m e : Z) : Z := mpz_cmpabs_d a m e.
(*@ absCompare_f | src/kernel/gmp++/gmp++_int_compare.C | int32_t absCompare(const Integer &a, const float b) | 5224a9c4b70b *)
Definition absCompare_f (a m e : Z) : Z := mpz_cmpabs_d a m e.
(*@ absCompare_u64 | src/kernel/gmp++/gmp++_int_compare.C | int32_t absCompare(const Integer &a, const uint64_t b) | f5c9eeb8e1ca *)
Definition absCompare_u64 (a b : Z) : Z := mpz_cmpabs_ui a b.
(*@ absCompare_u32 | src/kernel/gmp++/gmp++_int_compare.C | int32_t absCompare(const Integer &a, const uint32_t b) | a01381283b05 *)
Definition absCompare_u32 (a b : Z) : Z := mpz_cmpabs_ui a (u32_to_u64 b).
(*@ absCompare_i64 | src/kernel/gmp++/gmp++_int_compare.C | int32_t absCompare(const Integer &a, const int64_t b) | 17b3f3080ba9 *)
Definition absCompare_i64 (a b : Z) : Z := mpz_cmpabs_ui a (to_u64 (abs_i64 b)).
(* repaired body (frag/C01.fix-2.diff): widen to int64_t first, then std::abs *)
(*@ absCompare_i32 | src/kernel/gmp++/gmp++_int_compare.C | int32_t absCompare(const Integer &a, const int32_t b) | 7467ea1c6333 *)
Definition absCompare_i32 (a b : Z) : Z := mpz_cmpabs_ui a (to_u64 (abs_i64 (i32_to_i64 b))).
(* the body before the repair: std::abs on the int (wraps at INT32_MIN), THEN the cast to uint64_t (sign-extends) *)
Definition absCompare_i32_tree (a b : Z) : Z := mpz_cmpabs_ui a (to_u64 (abs_i32 b)).
(* template<class T> absCompare(const T a, const Integer& b) { return absCompare(b,a); }  per instantiated T *)
(*@ absCompareT_u64 | src/kernel/gmp++/gmp++_int.h | int32_t absCompare( const T a, const Integer & b) | 7c80a3880539 *)
Definition absCompareT_u64 (a b : Z) : Z := absCompare_u64 b a.
Definition absCompareT_i64 (a b : Z) : Z := absCompare_i64 b a.
Definition absCompareT_u32 (a b : Z) : Z := absCompare_u32 b a.
Definition absCompareT_i32 (a b : Z) : Z := absCompare_i32 b a.
Definition absCompareT_d (m e b : Z) : Z := absCompare_d b m e.

(* ------------------------------------------------------------------ comparison operators (GENERATED by harness/c01_gen.py) *)
(*@ opNe_I | src/kernel/gmp++/gmp++_int_compare.C | int32_t Integer::operator != (const Integer & l) const | ea8673817582 *)
Definition opNe_I (x l : Z) : bool := negb (mpz_cmp x l =? 0).
(*@ opNe_d | src/kernel/gmp++/gmp++_int_compare.C | int32_t Integer::operator != (const double l) const | d04202f54836 *)
Definition opNe_d (x m e : Z) : bool := negb (mpz_cmp_d x m e =? 0).
(*@ opNe_f | src/kernel/gmp++/gmp++_int_compare.C | int32_t Integer::operator != (const float l) const | f5a44120b19d *)
Definition opNe_f (x m e : Z) : bool := negb (mpz_cmp_d x m e =? 0).
(*@ opNe_i32 | src/kernel/gmp++/gmp++_int_compare.C | int32_t Integer::operator != (const int32_t l) const | 4511dd28f39d *)
Definition opNe_i32 (x l : Z) : bool := negb (mpz_cmp_si x (i32_to_i64 l) =? 0).
(*@ opNe_u32 | src/kernel/gmp++/gmp++_int_compare.C | int32_t Integer::operator != (const uint32_t l) const | 7d609337b43b *)
Definition opNe_u32 (x l : Z) : bool := negb (mpz_cmp_ui x (u32_to_u64 l) =? 0).
(*@ opNe_i64 | src/kernel/gmp++/gmp++_int_compare.C | int32_t Integer::operator != (const int64_t l) const | 547bbdabe61e *)
Definition opNe_i64 (x l : Z) : bool := negb (mpz_cmp_si x l =? 0).
(*@ opNe_u64 | src/kernel/gmp++/gmp++_int_compare.C | int32_t Integer::operator != (const uint64_t l) const | 38b81540d888 *)
Definition opNe_u64 (x l : Z) : bool := negb (mpz_cmp_ui x l =? 0).
(*@ opEq_I | src/kernel/gmp++/gmp++_int_compare.C | int32_t Integer::operator == (const Integer & l) const | f21df7704f2a *)
Definition opEq_I (x l : Z) : bool := negb (opNe_I x l).
(*@ opEq_d | src/kernel/gmp++/gmp++_int_compare.C | int32_t Integer::operator == (const double l) const | f21df7704f2a *)
Definition opEq_d (x m e : Z) : bool := negb (opNe_d x m e).
(*@ opEq_f | src/kernel/gmp++/gmp++_int_compare.C | int32_t Integer::operator == (const float l) const | f21df7704f2a *)
Definition opEq_f (x m e : Z) : bool := negb (opNe_f x m e).
(*@ opEq_i32 | src/kernel/gmp++/gmp++_int_compare.C | int32_t Integer::operator == (const int32_t l) const | f21df7704f2a *)
Definition opEq_i32 (x l : Z) : bool := negb (opNe_i32 x l).
(*@ opEq_u32 | src/kernel/gmp++/gmp++_int_compare.C | int32_t Integer::operator == (const uint32_t l) const | f21df7704f2a *)
Definition opEq_u32 (x l : Z) : bool := negb (opNe_u32 x l).
(*@ opEq_i64 | src/kernel/gmp++/gmp++_int_compare.C | int32_t Integer::operator == (const int64_t l) const | f21df7704f2a *)
Definition opEq_i64 (x l : Z) : bool := negb (opNe_i64 x l).
(*@ opEq_u64 | src/kernel/gmp++/gmp++_int_compare.C | int32_t Integer::operator == (const uint64_t l) const | f21df7704f2a *)
Definition opEq_u64 (x l : Z) : bool := negb (opNe_u64 x l).
(*@ opGt_I | src/kernel/gmp++/gmp++_int_compare.C | int32_t Integer::operator > (const Integer & l) const | 7c70a60380ef *)
Definition opGt_I (x l : Z) : bool := 0 <? mpz_cmp x l.
(*@ opGt_d | src/kernel/gmp++/gmp++_int_compare.C | int32_t Integer::operator > (const double l) const | 0e82c0f15fea *)
Definition opGt_d (x m e : Z) : bool := 0 <? mpz_cmp_d x m e.
(*@ opGt_f | src/kernel/gmp++/gmp++_int_compare.C | int32_t Integer::operator > (const float l) const | cc0129d5a327 *)
Definition opGt_f (x m e : Z) : bool := 0 <? mpz_cmp_d x m e.
(*@ opGt_i32 | src/kernel/gmp++/gmp++_int_compare.C | int32_t Integer::operator > (const int32_t l) const | f1892d0f4087 *)
Definition opGt_i32 (x l : Z) : bool := 0 <? mpz_cmp_si x (i32_to_i64 l).
(*@ opGt_u32 | src/kernel/gmp++/gmp++_int_compare.C | int32_t Integer::operator > (const uint32_t l) const | 42cb7814c68f *)
Definition opGt_u32 (x l : Z) : bool := 0 <? mpz_cmp_ui x (u32_to_u64 l).
(*@ opGt_i64 | src/kernel/gmp++/gmp++_int_compare.C | int32_t Integer::operator > (const int64_t l) const | d85c846775f8 *)
Definition opGt_i64 (x l : Z) : bool := 0 <? mpz_cmp_si x l.
(*@ opGt_u64 | src/kernel/gmp++/gmp++_int_compare.C | int32_t Integer::operator > (const uint64_t l) const | 609ab4e2096c *)
Definition opGt_u64 (x l : Z) : bool := 0 <? mpz_cmp_ui x l.
(*@ opLt_I | src/kernel/gmp++/gmp++_int_compare.C | int32_t Integer::operator < (const Integer & l) const | 31d7f843b073 *)
Definition opLt_I (x l : Z) : bool := mpz_cmp x l <? 0.
(*@ opLt_d | src/kernel/gmp++/gmp++_int_compare.C | int32_t Integer::operator < (const double l) const | 2c066d7f3142 *)
Definition opLt_d (x m e : Z) : bool := mpz_cmp_d x m e <? 0.
(*@ opLt_f | src/kernel/gmp++/gmp++_int_compare.C | int32_t Integer::operator < (const float l) const | d3e50c81f31b *)
Definition opLt_f (x m e : Z) : bool := mpz_cmp_d x m e <? 0.
(*@ opLt_i32 | src/kernel/gmp++/gmp++_int_compare.C | int32_t Integer::operator < (const int32_t l) const | da1823b2d286 *)
Definition opLt_i32 (x l : Z) : bool := mpz_cmp_si x (i32_to_i64 l) <? 0.
(*@ opLt_u32 | src/kernel/gmp++/gmp++_int_compare.C | int32_t Integer::operator < (const uint32_t l) const | 7a9e00a9b8a6 *)
Definition opLt_u32 (x l : Z) : bool := mpz_cmp_ui x (u32_to_u64 l) <? 0.
(*@ opLt_i64 | src/kernel/gmp++/gmp++_int_compare.C | int32_t Integer::operator < (const int64_t l) const | 3a22048117f0 *)
Definition opLt_i64 (x l : Z) : bool := mpz_cmp_si x l <? 0.
(*@ opLt_u64 | src/kernel/gmp++/gmp++_int_compare.C | int32_t Integer::operator < (const uint64_t l) const | c09a12793d89 *)
Definition opLt_u64 (x l : Z) : bool := mpz_cmp_ui x l <? 0.
(*@ opGe_I | src/kernel/gmp++/gmp++_int_compare.C | int32_t Integer::operator >= (const Integer & l) const | 59e9d1be668d *)
Definition opGe_I (x l : Z) : bool := negb (opLt_I x l).
(*@ opGe_d | src/kernel/gmp++/gmp++_int_compare.C | int32_t Integer::operator >= (const double l) const | 59e9d1be668d *)
Definition opGe_d (x m e : Z) : bool := negb (opLt_d x m e).
(*@ opGe_f | src/kernel/gmp++/gmp++_int_compare.C | int32_t Integer::operator >= (const float l) const | 59e9d1be668d *)
Definition opGe_f (x m e : Z) : bool := negb (opLt_f x m e).
(*@ opGe_i32 | src/kernel/gmp++/gmp++_int_compare.C | int32_t Integer::operator >= (const int32_t l) const | 59e9d1be668d *)
Definition opGe_i32 (x l : Z) : bool := negb (opLt_i32 x l).
(*@ opGe_u32 | src/kernel/gmp++/gmp++_int_compare.C | int32_t Integer::operator >= (const uint32_t l) const | 59e9d1be668d *)
Definition opGe_u32 (x l : Z) : bool := negb (opLt_u32 x l).
(*@ opGe_i64 | src/kernel/gmp++/gmp++_int_compare.C | int32_t Integer::operator >= (const int64_t l) const | 59e9d1be668d *)
Definition opGe_i64 (x l : Z) : bool := negb (opLt_i64 x l).
(*@ opGe_u64 | src/kernel/gmp++/gmp++_int_compare.C | int32_t Integer::operator >= (const uint64_t l) const | 59e9d1be668d *)
Definition opGe_u64 (x l : Z) : bool := negb (opLt_u64 x l).
(*@ opLe_I | src/kernel/gmp++/gmp++_int_compare.C | int32_t Integer::operator <= (const Integer & l) const | 01d69ecb2711 *)
Definition opLe_I (x l : Z) : bool := negb (opGt_I x l).
(*@ opLe_d | src/kernel/gmp++/gmp++_int_compare.C | int32_t Integer::operator <= (const double l) const | 01d69ecb2711 *)
Definition opLe_d (x m e : Z) : bool := negb (opGt_d x m e).
(*@ opLe_f | src/kernel/gmp++/gmp++_int_compare.C | int32_t Integer::operator <= (const float l) const | 01d69ecb2711 *)
Definition opLe_f (x m e : Z) : bool := negb (opGt_f x m e).
(*@ opLe_i32 | src/kernel/gmp++/gmp++_int_compare.C | int32_t Integer::operator <= (const int32_t l) const | 01d69ecb2711 *)
Definition opLe_i32 (x l : Z) : bool := negb (opGt_i32 x l).
(*@ opLe_u32 | src/kernel/gmp++/gmp++_int_compare.C | int32_t Integer::operator <= (const uint32_t l) const | 01d69ecb2711 *)
Definition opLe_u32 (x l : Z) : bool := negb (opGt_u32 x l).
(*@ opLe_i64 | src/kernel/gmp++/gmp++_int_compare.C | int32_t Integer::operator <= (const int64_t l) const | 01d69ecb2711 *)
Definition opLe_i64 (x l : Z) : bool := negb (opGt_i64 x l).
(*@ opLe_u64 | src/kernel/gmp++/gmp++_int_compare.C | int32_t Integer::operator <= (const uint64_t l) const | 01d69ecb2711 *)
Definition opLe_u64 (x l : Z) : bool := negb (opGt_u64 x l).
(*@ fr_ne_d | src/kernel/gmp++/gmp++_int_compare.C | int32_t operator != (double l, const Integer& n) | 27633491ad11 *)
Definition fr_ne_d (m e n : Z) : bool := opNe_d n m e.
(*@ fr_ne_f | src/kernel/gmp++/gmp++_int_compare.C | int32_t operator != (float l, const Integer& n) | 27633491ad11 *)
Definition fr_ne_f (m e n : Z) : bool := opNe_f n m e.
(*@ fr_ne_i32 | src/kernel/gmp++/gmp++_int_compare.C | int32_t operator != (int32_t l, const Integer& n) | 27633491ad11 *)
Definition fr_ne_i32 (l n : Z) : bool := opNe_i32 n l.
(*@ fr_ne_i64 | src/kernel/gmp++/gmp++_int_compare.C | int32_t operator != (int64_t l, const Integer& n) | 27633491ad11 *)
Definition fr_ne_i64 (l n : Z) : bool := opNe_i64 n l.
(*@ fr_ne_u64 | src/kernel/gmp++/gmp++_int_compare.C | int32_t operator != (uint64_t l, const Integer& n) | 27633491ad11 *)
Definition fr_ne_u64 (l n : Z) : bool := opNe_u64 n l.
(*@ fr_ne_u32 | src/kernel/gmp++/gmp++_int_compare.C | int32_t operator != (uint32_t l, const Integer& n) | 27633491ad11 *)
Definition fr_ne_u32 (l n : Z) : bool := opNe_u32 n l.
(*@ fr_eq_d | src/kernel/gmp++/gmp++_int_compare.C | int32_t operator == (double l, const Integer& n) | 1aac87ca0735 *)
Definition fr_eq_d (m e n : Z) : bool := opEq_d n m e.
(*@ fr_eq_f | src/kernel/gmp++/gmp++_int_compare.C | int32_t operator == (float l, const Integer& n) | 1aac87ca0735 *)
Definition fr_eq_f (m e n : Z) : bool := opEq_f n m e.
(*@ fr_eq_i32 | src/kernel/gmp++/gmp++_int_compare.C | int32_t operator == (int32_t l, const Integer& n) | 1aac87ca0735 *)
Definition fr_eq_i32 (l n : Z) : bool := opEq_i32 n l.
(*@ fr_eq_i64 | src/kernel/gmp++/gmp++_int_compare.C | int32_t operator == (int64_t l, const Integer& n) | 1aac87ca0735 *)
Definition fr_eq_i64 (l n : Z) : bool := opEq_i64 n l.
(*@ fr_eq_u64 | src/kernel/gmp++/gmp++_int_compare.C | int32_t operator == (uint64_t l, const Integer& n) | 1aac87ca0735 *)
Definition fr_eq_u64 (l n : Z) : bool := opEq_u64 n l.
(*@ fr_eq_u32 | src/kernel/gmp++/gmp++_int_compare.C | int32_t operator == (uint32_t l, const Integer& n) | 1aac87ca0735 *)
Definition fr_eq_u32 (l n : Z) : bool := opEq_u32 n l.
(*@ fr_gt_d | src/kernel/gmp++/gmp++_int_compare.C | int32_t operator > (double l, const Integer& n) | 691fdec67b75 *)
Definition fr_gt_d (m e n : Z) : bool := opLt_d n m e.
(*@ fr_gt_f | src/kernel/gmp++/gmp++_int_compare.C | int32_t operator > (float l, const Integer& n) | 691fdec67b75 *)
Definition fr_gt_f (m e n : Z) : bool := opLt_f n m e.
(*@ fr_gt_i32 | src/kernel/gmp++/gmp++_int_compare.C | int32_t operator > (int32_t l, const Integer& n) | 691fdec67b75 *)
Definition fr_gt_i32 (l n : Z) : bool := opLt_i32 n l.
(*@ fr_gt_i64 | src/kernel/gmp++/gmp++_int_compare.C | int32_t operator > (int64_t l, const Integer& n) | 691fdec67b75 *)
Definition fr_gt_i64 (l n : Z) : bool := opLt_i64 n l.
(*@ fr_gt_u64 | src/kernel/gmp++/gmp++_int_compare.C | int32_t operator > (uint64_t l, const Integer& n) | 691fdec67b75 *)
Definition fr_gt_u64 (l n : Z) : bool := opLt_u64 n l.
(*@ fr_gt_u32 | src/kernel/gmp++/gmp++_int_compare.C | int32_t operator > (uint32_t l, const Integer& n) | 691fdec67b75 *)
Definition fr_gt_u32 (l n : Z) : bool := opLt_u32 n l.
(*@ fr_lt_d | src/kernel/gmp++/gmp++_int_compare.C | int32_t operator < (double l, const Integer& n) | d141be900f8a *)
Definition fr_lt_d (m e n : Z) : bool := opGt_d n m e.
(*@ fr_lt_f | src/kernel/gmp++/gmp++_int_compare.C | int32_t operator < (float l, const Integer& n) | d141be900f8a *)
Definition fr_lt_f (m e n : Z) : bool := opGt_f n m e.
(*@ fr_lt_i32 | src/kernel/gmp++/gmp++_int_compare.C | int32_t operator < (int32_t l, const Integer& n) | d141be900f8a *)
Definition fr_lt_i32 (l n : Z) : bool := opGt_i32 n l.
(*@ fr_lt_i64 | src/kernel/gmp++/gmp++_int_compare.C | int32_t operator < (int64_t l, const Integer& n) | d141be900f8a *)
Definition fr_lt_i64 (l n : Z) : bool := opGt_i64 n l.
(*@ fr_lt_u64 | src/kernel/gmp++/gmp++_int_compare.C | int32_t operator < (uint64_t l, const Integer& n) | d141be900f8a *)
Definition fr_lt_u64 (l n : Z) : bool := opGt_u64 n l.
(*@ fr_lt_u32 | src/kernel/gmp++/gmp++_int_compare.C | int32_t operator < (uint32_t l, const Integer& n) | d141be900f8a *)
Definition fr_lt_u32 (l n : Z) : bool := opGt_u32 n l.
(*@ fr_ge_d | src/kernel/gmp++/gmp++_int_compare.C | int32_t operator >= (double l, const Integer& n) | 64a2fae3fc0f *)
Definition fr_ge_d (m e n : Z) : bool := opLe_d n m e.
(*@ fr_ge_f | src/kernel/gmp++/gmp++_int_compare.C | int32_t operator >= (float l, const Integer& n) | 64a2fae3fc0f *)
Definition fr_ge_f (m e n : Z) : bool := opLe_f n m e.
(*@ fr_ge_i32 | src/kernel/gmp++/gmp++_int_compare.C | int32_t operator >= (int32_t l, const Integer& n) | 64a2fae3fc0f *)
Definition fr_ge_i32 (l n : Z) : bool := opLe_i32 n l.
(*@ fr_ge_i64 | src/kernel/gmp++/gmp++_int_compare.C | int32_t operator >= (int64_t l, const Integer& n) | 64a2fae3fc0f *)
Definition fr_ge_i64 (l n : Z) : bool := opLe_i64 n l.
(*@ fr_ge_u64 | src/kernel/gmp++/gmp++_int_compare.C | int32_t operator >= (uint64_t l, const Integer& n) | 64a2fae3fc0f *)
Definition fr_ge_u64 (l n : Z) : bool := opLe_u64 n l.
(*@ fr_ge_u32 | src/kernel/gmp++/gmp++_int_compare.C | int32_t operator >= (uint32_t l, const Integer& n) | 64a2fae3fc0f *)
Definition fr_ge_u32 (l n : Z) : bool := opLe_u32 n l.
(*@ fr_le_d | src/kernel/gmp++/gmp++_int_compare.C | int32_t operator <= (double l, const Integer& n) | 5280bfa7138d *)
Definition fr_le_d (m e n : Z) : bool := opGe_d n m e.
(*@ fr_le_f | src/kernel/gmp++/gmp++_int_compare.C | int32_t operator <= (float l, const Integer& n) | 5280bfa7138d *)
Definition fr_le_f (m e n : Z) : bool := opGe_f n m e.
(*@ fr_le_i32 | src/kernel/gmp++/gmp++_int_compare.C | int32_t operator <= (int32_t l, const Integer& n) | 5280bfa7138d *)
Definition fr_le_i32 (l n : Z) : bool := opGe_i32 n l.
(*@ fr_le_i64 | src/kernel/gmp++/gmp++_int_compare.C | int32_t operator <= (int64_t l, const Integer& n) | 5280bfa7138d *)
Definition fr_le_i64 (l n : Z) : bool := opGe_i64 n l.
(*@ fr_le_u64 | src/kernel/gmp++/gmp++_int_compare.C | int32_t operator <= (uint64_t l, const Integer& n) | 5280bfa7138d *)
Definition fr_le_u64 (l n : Z) : bool := opGe_u64 n l.
(*@ fr_le_u32 | src/kernel/gmp++/gmp++_int_compare.C | int32_t operator <= (uint32_t l, const Integer& n) | 5280bfa7138d *)
Definition fr_le_u32 (l n : Z) : bool := opGe_u32 n l.
(* ------------------------------------------------------------------ END GENERATED *)

(* ------------------------------------------------------------------ tests against 0, 1, -1; sign *)
(*@ isOne | src/kernel/gmp++/gmp++_int_compare.C | int32_t isOne(const Integer& a) | 2eaa51895f5f *)
Definition isOne (a : Z) : bool := mpz_cmp_ui a 1 =? 0.
(*@ isMOne | src/kernel/gmp++/gmp++_int_compare.C | int32_t isMOne(const Integer& a) | 040a77daa003 *)
Definition isMOne (a : Z) : bool := mpz_cmp_si a (- 1) =? 0.
(*@ nonZero | src/kernel/gmp++/gmp++_int_compare.C | int32_t nonZero(const Integer& a) | f9b5ff724a5f *)
Definition nonZero (a : Z) : Z := mpz_cmp_ui a 0.
(*@ isZero_i16 | src/kernel/gmp++/gmp++_int_compare.C | int32_t isZero(const int16_t a) | f38a81861e5e *)
Definition isZero_i16 (a : Z) : bool := a =? 0.
(*@ isZero_i32 | src/kernel/gmp++/gmp++_int_compare.C | int32_t isZero(const int32_t a) | f38a81861e5e *)
Definition isZero_i32 (a : Z) : bool := a =? 0.
(*@ isZero_u16 | src/kernel/gmp++/gmp++_int_compare.C | int32_t isZero(const uint16_t a) | 30c497637889 *)
Definition isZero_u16 (a : Z) : bool := a =? 0.
(*@ isZero_u32 | src/kernel/gmp++/gmp++_int_compare.C | int32_t isZero(const uint32_t a) | 30c497637889 *)
Definition isZero_u32 (a : Z) : bool := a =? 0.
(*@ priv_sign | src/kernel/gmp++/gmp++_int.h | int32_t priv_sign() const | 1c92a994f64f *)
Definition priv_sign (a : Z) : Z := mpz_sgn a.
(*@ sign_m | src/kernel/gmp++/gmp++_int.h | int32_t sign() const | 31b6c67d08c1 *)
Definition sign_m (a : Z) : Z := priv_sign a.
(*@ sign_f | src/kernel/gmp++/gmp++_int.h | friend inline int32_t sign (const Integer& a) | d57a13c1034f *)
Definition sign_f (a : Z) : Z := priv_sign a.
(*@ isleq_T | src/kernel/gmp++/gmp++_int.h | static giv_all_inlined bool isleq(const A&a,const B&b) | 2626a9c0e35b *)
Definition isleq_T (a b : Z) : bool := opLe_I a b.
(*@ abs_v | src/kernel/gmp++/gmp++_int_misc.C | Integer abs(const Integer &n) | b396b1ce7de3 *)
Definition abs_v (n : Z) : Z := if 0 <=? sign_f n then n else opNeg n.
(*@ isOdd | src/kernel/gmp++/gmp++_int_misc.C | bool isOdd(const Integer &a) | cabb867a1f0e *)
Definition isOdd (a : Z) : bool := mpz_tstbit0 a.

(* ------------------------------------------------------------------ gmp++_int_misc.C: shifts *)
(*@ opShl_u64 | src/kernel/gmp++/gmp++_int_misc.C | Integer Integer::operator << (uint64_t l) const | 38ceb2ee3ccf *)
Definition opShl_u64 (x l : Z) : Z := mpz_mul_2exp x l.
(*@ opShl_i32 | src/kernel/gmp++/gmp++_int_misc.C | Integer Integer::operator << (int32_t l) const | f839031d6f58 *)
Definition opShl_i32 (x l : Z) : Z := opShl_u64 x (to_u64 l).
(*@ opShl_u32 | src/kernel/gmp++/gmp++_int_misc.C | Integer Integer::operator << (uint32_t l) const | f839031d6f58 *)
Definition opShl_u32 (x l : Z) : Z := opShl_u64 x (to_u64 l).
(*@ opShl_i64 | src/kernel/gmp++/gmp++_int_misc.C | Integer Integer::operator << (int64_t l) const | f839031d6f58 *)
Definition opShl_i64 (x l : Z) : Z := opShl_u64 x (to_u64 l).
(*@ opShr_u64 | src/kernel/gmp++/gmp++_int_misc.C | Integer Integer::operator >> (uint64_t l) const | ed07b5eef8f2 *)
Definition opShr_u64 (x l : Z) : Z := mpz_tdiv_q_2exp x l.
(*@ opShr_i32 | src/kernel/gmp++/gmp++_int_misc.C | Integer Integer::operator >> (int32_t l) const | e22df3fb0f9b *)
Definition opShr_i32 (x l : Z) : Z := opShr_u64 x (to_u64 l).
(*@ opShr_i64 | src/kernel/gmp++/gmp++_int_misc.C | Integer Integer::operator >> (int64_t l) const | e22df3fb0f9b *)
Definition opShr_i64 (x l : Z) : Z := opShr_u64 x (to_u64 l).
(*@ opShr_u32 | src/kernel/gmp++/gmp++_int_misc.C | Integer Integer::operator >> (uint32_t l) const | e22df3fb0f9b *)
Definition opShr_u32 (x l : Z) : Z := opShr_u64 x (to_u64 l).
(*@ opShlEq_u64 | src/kernel/gmp++/gmp++_int_misc.C | Integer& Integer::operator <<= (uint64_t l) | 52a32f6c5f41 *)
Definition opShlEq_u64 (x l : Z) : Z := mpz_mul_2exp x l.
(*@ opShlEq_i32 | src/kernel/gmp++/gmp++_int_misc.C | Integer& Integer::operator <<= (int32_t l) | 98d7911728b4 *)
Definition opShlEq_i32 (x l : Z) : Z := opShlEq_u64 x (to_u64 l).
(*@ opShlEq_u32 | src/kernel/gmp++/gmp++_int_misc.C | Integer& Integer::operator <<= (uint32_t l) | 98d7911728b4 *)
Definition opShlEq_u32 (x l : Z) : Z := opShlEq_u64 x (to_u64 l).
(*@ opShlEq_i64 | src/kernel/gmp++/gmp++_int_misc.C | Integer& Integer::operator <<= (int64_t l) | 98d7911728b4 *)
Definition opShlEq_i64 (x l : Z) : Z := opShlEq_u64 x (to_u64 l).
(*@ opShrEq_u64 | src/kernel/gmp++/gmp++_int_misc.C | Integer& Integer::operator >>= (uint64_t l) | 0d7b1e2d8158 *)
Definition opShrEq_u64 (x l : Z) : Z := mpz_tdiv_q_2exp x l.
(*@ opShrEq_i32 | src/kernel/gmp++/gmp++_int_misc.C | Integer& Integer::operator >>= (int32_t l) | 842e92f3855e *)
Definition opShrEq_i32 (x l : Z) : Z := opShrEq_u64 x (to_u64 l).
(*@ opShrEq_i64 | src/kernel/gmp++/gmp++_int_misc.C | Integer& Integer::operator >>= (int64_t l) | 842e92f3855e *)
Definition opShrEq_i64 (x l : Z) : Z := opShrEq_u64 x (to_u64 l).
(*@ opShrEq_u32 | src/kernel/gmp++/gmp++_int_misc.C | Integer& Integer::operator >>= (uint32_t l) | 842e92f3855e *)
Definition opShrEq_u32 (x l : Z) : Z := opShrEq_u64 x (to_u64 l).

(* ------------------------------------------------------------------ gmp++_int_misc.C: bit logic *)
(*@ opXorEq_I | src/kernel/gmp++/gmp++_int_misc.C | Integer& Integer::operator^= (const Integer& a) | 71000e1d5393 *)
Definition opXorEq_I (x a : Z) : Z := mpz_xor x a.
(*@ opOrEq_I | src/kernel/gmp++/gmp++_int_misc.C | Integer& Integer::operator|= (const Integer& a) | 470a3bc5872e *)
Definition opOrEq_I (x a : Z) : Z := mpz_ior x a.
(*@ opAndEq_I | src/kernel/gmp++/gmp++_int_misc.C | Integer& Integer::operator&= (const Integer& a) | 374f68a206a4 *)
Definition opAndEq_I (x a : Z) : Z := mpz_and x a.
(*@ opXorEq_u64 | src/kernel/gmp++/gmp++_int_misc.C | Integer& Integer::operator^= (const uint64_t & a) | 8a0cc7b86c67 *)
Definition opXorEq_u64 (x a : Z) : Z := let au := ctor_u64 a in mpz_xor x au.
(*@ opOrEq_u64 | src/kernel/gmp++/gmp++_int_misc.C | Integer& Integer::operator|= (const uint64_t & a) | 2572d542e842 *)
Definition opOrEq_u64 (x a : Z) : Z := let au := ctor_u64 a in mpz_ior x au.
(*@ opAndEq_u64 | src/kernel/gmp++/gmp++_int_misc.C | Integer& Integer::operator&= (const uint64_t & a) | 04b7d65d14c2 *)
Definition opAndEq_u64 (x a : Z) : Z := let au := ctor_u64 a in mpz_and x au.
(*@ opXorEq_u32 | src/kernel/gmp++/gmp++_int_misc.C | Integer& Integer::operator^= (const uint32_t& a) | 8a0cc7b86c67 *)
Definition opXorEq_u32 (x a : Z) : Z := let au := ctor_u32 a in mpz_xor x au.
(*@ opOrEq_u32 | src/kernel/gmp++/gmp++_int_misc.C | Integer& Integer::operator|= (const uint32_t& a) | 2572d542e842 *)
Definition opOrEq_u32 (x a : Z) : Z := let au := ctor_u32 a in mpz_ior x au.
(*@ opAndEq_u32 | src/kernel/gmp++/gmp++_int_misc.C | Integer& Integer::operator&= (const uint32_t& a) | 04b7d65d14c2 *)
Definition opAndEq_u32 (x a : Z) : Z := let au := ctor_u32 a in mpz_and x au.
(*@ opXor_I | src/kernel/gmp++/gmp++_int_misc.C | Integer Integer::operator^ (const Integer& a) const | 15abbf5f2a44 *)
Definition opXor_I (x a : Z) : Z := let res := ctor_copy x in opXorEq_I res a.
(*@ opOr_I | src/kernel/gmp++/gmp++_int_misc.C | Integer Integer::operator| (const Integer& a) const | c02b1fbdb1b1 *)
Definition opOr_I (x a : Z) : Z := let res := ctor_copy x in opOrEq_I res a.
(*@ opAnd_I | src/kernel/gmp++/gmp++_int_misc.C | Integer Integer::operator& (const Integer& a) const | f2bb80414ed4 *)
Definition opAnd_I (x a : Z) : Z := let res := ctor_copy x in opAndEq_I res a.
(*@ opXor_u64 | src/kernel/gmp++/gmp++_int_misc.C | Integer Integer::operator^ (const uint64_t & a) const | 15abbf5f2a44 *)
Definition opXor_u64 (x a : Z) : Z := let res := ctor_copy x in opXorEq_u64 res a.
(*@ opOr_u64 | src/kernel/gmp++/gmp++_int_misc.C | Integer Integer::operator| (const uint64_t & a) const | c02b1fbdb1b1 *)
Definition opOr_u64 (x a : Z) : Z := let res := ctor_copy x in opOrEq_u64 res a.
(*@ opXor_u32 | src/kernel/gmp++/gmp++_int_misc.C | Integer Integer::operator^ (const uint32_t& a) const | 15abbf5f2a44 *)
Definition opXor_u32 (x a : Z) : Z := let res := ctor_copy x in opXorEq_u32 res a.
(*@ opOr_u32 | src/kernel/gmp++/gmp++_int_misc.C | Integer Integer::operator| (const uint32_t& a) const | c02b1fbdb1b1 *)
Definition opOr_u32 (x a : Z) : Z := let res := ctor_copy x in opOrEq_u32 res a.
(* repaired bodies (frag/C01.fix-3.diff): the low limb of |x|, negated mod 2^64 for a negative x, is and-ed with a *)
(*@ opAnd_u64 | src/kernel/gmp++/gmp++_int_misc.C | uint64_t Integer::operator& (const uint64_t & a) const | 75fd9b22fe44 *)
Definition opAnd_u64 (x a : Z) : Z :=
  let low := mpz_get_ui x in and_u64 (if priv_sign x <? 0 then neg_u64 low else low) a.
(*@ opAnd_u32 | src/kernel/gmp++/gmp++_int_misc.C | uint32_t Integer::operator& (const uint32_t& a) const | 7260f4d55f77 *)
Definition opAnd_u32 (x a : Z) : Z :=
  let low := mpz_get_ui x in to_u32 (and_u64 (if priv_sign x <? 0 then neg_u64 low else low) (u32_to_u64 a)).
(* the bodies before the repair: the low limb of |x| is and-ed with a (for x < 0 not the two's-complement AND that
   operator&(const Integer&) and operator&=(uint64_t) compute) *)
Definition opAnd_u64_tree (x a : Z) : Z := and_u64 (mpz_get_ui x) a.
Definition opAnd_u32_tree (x a : Z) : Z := to_u32 (and_u64 (mpz_get_ui x) (u32_to_u64 a)).
(*@ opNot | src/kernel/gmp++/gmp++_int_misc.C | Integer Integer::operator~ () const | 5bdec9596729 *)
Definition opNot (x : Z) : Z := mpz_com x.

(* ------------------------------------------------------------------ gmp++_int_misc.C / gmp++_int.h: casts to native types *)
(*@ cast_i32 | src/kernel/gmp++/gmp++_int_misc.C | Integer::operator int32_t() const | c8c00c2e31df *)
Definition cast_i32 (x : Z) : Z := to_i32 (mpz_get_si x).
(*@ cast_u32 | src/kernel/gmp++/gmp++_int_misc.C | Integer::operator uint32_t() const | 90a1d2a13845 *)
Definition cast_u32 (x : Z) : Z := to_u32 (mpz_get_ui x).
(*@ cast_i64 | src/kernel/gmp++/gmp++_int_misc.C | Integer::operator int64_t() const | 5e9a0f950e99 *)
Definition cast_i64 (x : Z) : Z := mpz_get_si x.
(*@ cast_u64 | src/kernel/gmp++/gmp++_int_misc.C | Integer::operator uint64_t() const | e5505a3268e8 *)
Definition cast_u64 (x : Z) : Z := mpz_get_ui x.
(*@ cast_d | src/kernel/gmp++/gmp++_int_misc.C | Integer::operator double() const | b987ea11d478 *)
Definition cast_d (x : Z) : Z := mpz_get_d x.
(*@ cast_f | src/kernel/gmp++/gmp++_int_misc.C | Integer::operator float() const | 146fec468c4e *)
Definition cast_f (x : Z) : Z := d_to_f (mpz_get_d x).
(*@ cast_b | src/kernel/gmp++/gmp++_int.h | operator bool() const | 97ae4065db00 *)
Definition cast_b (x : Z) : bool := opNe_u32 x 0.
(*@ cast_i16 | src/kernel/gmp++/gmp++_int.h | operator int16_t() const | 936ee14962af *)
Definition cast_i16 (x : Z) : Z := to_i16 (cast_i32 x).
(*@ cast_u16 | src/kernel/gmp++/gmp++_int.h | operator uint16_t() const | b74a05500295 *)
Definition cast_u16 (x : Z) : Z := to_u16 (cast_u32 x).
(*@ cast_u8 | src/kernel/gmp++/gmp++_int.h | operator unsigned char() const | feccfc9a588e *)
Definition cast_u8 (x : Z) : Z := to_u8 (cast_u32 x).
(*@ cast_i8 | src/kernel/gmp++/gmp++_int.h | operator signed char() const | 58b695493528 *)
Definition cast_i8 (x : Z) : Z := to_i8 (cast_i32 x).
(*@ ctor_d | src/kernel/gmp++/gmp++_int_cstor.C | Integer::Integer(double d) | c87c9b1fbf70 *)
Definition ctor_d (m e : Z) : Z := mpz_set_d m e.

(* ------------------------------------------------------------------ size queries, limbs *)
(*@ size | src/kernel/gmp++/gmp++_int_misc.C | size_t Integer::size() const | 08e1e38dbc2c *)
Definition size (x : Z) : Z := mpz_size x.
(*@ bitsize | src/kernel/gmp++/gmp++_int_misc.C | size_t Integer::bitsize() const | 91cd126c7d2c *)
Definition bitsize (x : Z) : Z := mpz_sizeinbase2 x.
(*@ length | src/kernel/gmp++/gmp++_int_misc.C | uint64_t length(const Integer& a) | c98a8934016b *)
Definition length (a : Z) : Z := mpz_size a * 8.
(*@ limb | src/kernel/gmp++/gmp++_int_misc.C | uint64_t Integer::operator[](size_t i) const | 4a26178519da *)
Definition limb (x i : Z) : Z := if i <? mpz_size x then mpz_getlimbn x i else 0.
(* Integer(const vect_t&): v[0] + sum_{i>=1} v[i] * (256^8)^i, accumulated as the loop does *)
Fixpoint ctor_vect_loop (vs : list Z) (this prod base : Z) : Z :=
  match vs with
  | nil => this
  | vi :: r => let tmp := mpz_mul_ui prod vi in ctor_vect_loop r (opPlusEq_I this tmp) (opMulEq_I prod base) base
  end.
(*@ ctor_vect | src/kernel/gmp++/gmp++_int_cstor.C | Integer::Integer(const vect_t & v) | 5d327f750558 *)
Definition ctor_vect (v : list Z) : Z :=
  match v with
  | nil => 0
  | v0 :: r => let base := 256 ^ 8 in ctor_vect_loop r (mpz_set_ui v0) base base
  end.
(* operator vect_t: the limbs of |x|, least significant first *)
Fixpoint limbs_from (n : nat) (x i : Z) : list Z :=
  match n with O => nil | S k => mpz_getlimbn x i :: limbs_from k x (i + 1) end.
(*@ cast_vect | src/kernel/gmp++/gmp++_int_misc.C | Integer::operator Integer::vect_t () const | 9d197b38c703 *)
Definition cast_vect (x : Z) : list Z := limbs_from (Z.to_nat (mpz_size x)) x 0.

(* ------------------------------------------------------------------ givinteger.h: ZRing<Integer> wrappers with a body of their own *)
(*@ dom_logtwo | src/kernel/integer/givinteger.h | Element& logtwo(Element& z, const Element& x) const | 1f24957ff6a0 *)
Definition dom_logtwo (x : Z) : Z := ctor_u64 (to_u64 (bitsize x - 1)).
(*@ dom_isUnit | src/kernel/integer/givinteger.h | inline bool isUnit (const Rep& x) const | cf2b87df9cb9 *)
Definition dom_isUnit (x : Z) : bool := isOne x || isMOne x.
(*@ dom_areEqual | src/kernel/integer/givinteger.h | bool areEqual (const Rep& a, const Rep& b) const | 98d92472cdf5 *)
Definition dom_areEqual (a b : Z) : bool := compare_I a b =? 0.
(*@ dom_areNEqual | src/kernel/integer/givinteger.h | bool areNEqual(const Rep& a, const Rep& b) const | c134cba796c5 *)
Definition dom_areNEqual (a b : Z) : bool := negb (compare_I a b =? 0).
(*@ dom_areAssociates | src/kernel/integer/givinteger.h | bool areAssociates(const Element &x, const Element &y) const | 041051191024 *)
Definition dom_areAssociates (x y : Z) : bool := opEq_I (abs_v x) (abs_v y).
(*@ dom_isgeq | src/kernel/integer/givinteger.h | bool isgeq(const Rep& a, const Rep& b) const | 145bbbbd1bcc *)
Definition dom_isgeq (a b : Z) : bool := 0 <=? compare_I a b.
(*@ dom_isleq | src/kernel/integer/givinteger.h | bool isleq(const Rep& a, const Rep& b) const | d7c8ca6a3087 *)
Definition dom_isleq (a b : Z) : bool := compare_I a b <=? 0.
(*@ dom_isgt | src/kernel/integer/givinteger.h | bool isgt(const Rep& a, const Rep& b) const | 98a06960c2f2 *)
Definition dom_isgt (a b : Z) : bool := 0 <? compare_I a b.
(*@ dom_islt | src/kernel/integer/givinteger.h | bool islt(const Rep& a, const Rep& b) const | 0874b54145d5 *)
Definition dom_islt (a b : Z) : bool := compare_I a b <? 0.
(*@ dom_isgeq_iI | src/kernel/integer/givinteger.h | bool isgeq(const int64_t b,const Rep& a ) const | ec575503f08d *)
Definition dom_isgeq_iI (b a : Z) : bool := dom_isgeq (ctor_i64 b) a.
(*@ dom_isleq_iI | src/kernel/integer/givinteger.h | bool isleq(const int64_t b,const Rep& a ) const | 21ec2c6a7e8a *)
Definition dom_isleq_iI (b a : Z) : bool := dom_isleq (ctor_i64 b) a.
(*@ dom_isgeq_Ii | src/kernel/integer/givinteger.h | bool isgeq(const Rep& a, const int64_t b) const | 995702e94fff *)
Definition dom_isgeq_Ii (a b : Z) : bool := dom_isgeq a (ctor_i64 b).
(*@ dom_isleq_Ii | src/kernel/integer/givinteger.h | bool isleq(const Rep& a, const int64_t b) const | 3901566553bc *)
Definition dom_isleq_Ii (a b : Z) : bool := dom_isleq a (ctor_i64 b).
(*@ dom_isgt_iI | src/kernel/integer/givinteger.h | bool isgt(const int64_t b,const Rep& a ) const | daf3914c7cd5 *)
Definition dom_isgt_iI (b a : Z) : bool := dom_isgt (ctor_i64 b) a.
(*@ dom_islt_iI | src/kernel/integer/givinteger.h | bool islt(const int64_t b,const Rep& a ) const | 2494834b35e1 *)
Definition dom_islt_iI (b a : Z) : bool := dom_islt (ctor_i64 b) a.
(*@ dom_isgt_Ii | src/kernel/integer/givinteger.h | bool isgt(const Rep& a, const int64_t b) const | b50021285bd6 *)
Definition dom_isgt_Ii (a b : Z) : bool := dom_isgt a (ctor_i64 b).
(*@ dom_islt_Ii | src/kernel/integer/givinteger.h | bool islt(const Rep& a, const int64_t b) const | 18539d1d460c *)
Definition dom_islt_Ii (a b : Z) : bool := dom_islt a (ctor_i64 b).
