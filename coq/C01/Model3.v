(* C01 model, part 3: powers, modular powers, gcd / lcm / Bezout, modular inverse, square and n-th roots,
   and the ZRing<Integer> wrappers of givinteger.h that have a body of their own.
   One definition PER OVERLOAD BODY, written after gmp++_int_pow.C, gmp++_int_gcd.C, gmp++_int_misc.C, the inline
   friends of gmp++_int.h and givinteger.h.   No proofs in this file. *)
From Coq Require Import ZArith Bool List Zpow_facts.
From C01 Require Import Model Model2.
Local Open Scope Z_scope.

(* ------------------------------------------------------------------ GmpSpec, part 3 (trusted: GMP manual) *)
Definition mpz_pow_ui (n p : Z) : Z := n ^ p.
Definition mpz_ui_pow_ui (n p : Z) : Z := n ^ p.
(* mpz_powm / mpz_powm_ui: result in [0, |m|) (m <> 0); exponent >= 0 here (a negative Integer exponent makes
   mpz_powm invert the base; that case is outside the modelled domain and returns 0) *)
Definition mpz_powm (n e m : Z) : Z := Zpow_mod n e (Z.abs m).
Definition mpz_powm_ui (n p m : Z) : Z := Zpow_mod n p (Z.abs m).
Definition mpz_gcd (a b : Z) : Z := Z.gcd a b.
Definition mpz_lcm (a b : Z) : Z := Z.lcm a b.
(* extended Euclid on non-negative operands; fuel = bit length of 2ab, enough by the halving argument (ProofsGcd.v) *)
Fixpoint egcd (fuel : nat) (a b : Z) : Z * Z * Z :=
  match fuel with
  | O => (a, 1, 0)
  | S f => if b =? 0 then (a, 1, 0) else
           match egcd f b (a mod b) with (g, s, t) => (g, t, s - (a / b) * t) end
  end.
Definition egcd_fuel (a b : Z) : nat := S (Z.to_nat (Z.log2 (2 * a * b) + 1)).
(* mpz_gcdext: g >= 0, g = a s + b t, the cofactors of the classical algorithm on |a|, |b| carried back by the signs
   (GMP documents exactly these minimal cofactors; (0,0) gives s = t = 0) *)
Definition mpz_gcdext (a b : Z) : Z * Z * Z :=
  if (a =? 0) && (b =? 0) then (0, 0, 0) else
  match egcd (egcd_fuel (Z.abs a) (Z.abs b)) (Z.abs a) (Z.abs b) with
  | (g, s, t) => (g, Z.sgn a * s, Z.sgn b * t)
  end.
(* mpz_invert: (true, the inverse in [0,|m|)) when gcd(a,m) = 1; (false, rop unchanged) otherwise *)
Definition mpz_invert (rop a m : Z) : bool * Z :=
  match egcd (egcd_fuel (Z.abs a) (Z.abs m)) (Z.abs a) (Z.abs m) with
  | (g, s, _) => if g =? 1 then (true, (Z.sgn a * s) mod Z.abs m) else (false, rop)
  end.
Definition mpz_sqrt (a : Z) : Z := Z.sqrt a.
Definition mpz_sqrtrem (a : Z) : Z * Z := Z.sqrtrem a.
(* truncated n-th root of a >= 0, bit by bit from the top *)
Fixpoint iroot_loop (i : nat) (a n q : Z) : Z :=
  match i with
  | O => q
  | S k => let c := q + 2 ^ (Z.of_nat k) in iroot_loop k a n (if c ^ n <=? a then c else q)
  end.
Definition iroot (a n : Z) : Z := iroot_loop (Z.to_nat (Z.log2 a / n + 1)) a n 0.
(* mpz_root: truncated root (towards 0; a < 0 needs n odd), and whether it is exact *)
Definition mpz_root (a n : Z) : Z * bool :=
  let q := Z.sgn a * iroot (Z.abs a) n in (q, q ^ n =? a).

Definition Integer_one : Z := 1.

(* what a call does: returns a value, raises a C++ exception, or does not return (a loop of givaro's own that never meets its exit
   condition; in the model: the fuel of the loop runs out).  Only the loops of givaro's own (logp, pp) need it. *)
Inductive outcome : Type := Ret (z : Z) | Throws | NoReturn.

(* ------------------------------------------------------------------ gmp++_int_pow.C *)
(*@ pow3_u64 | src/kernel/gmp++/gmp++_int_pow.C | Integer& pow(Integer& Res, const Integer& n, const uint64_t p) | f7c33e9fac0a *)
Definition pow3_u64 (n p : Z) : Z := mpz_pow_ui n p.
(*@ pow3_uu | src/kernel/gmp++/gmp++_int_pow.C | Integer& pow(Integer& Res, const uint64_t n, const uint64_t p) | 49b85fc4f159 *)
Definition pow3_uu (n p : Z) : Z := mpz_ui_pow_ui n p.
(*@ pow_u64 | src/kernel/gmp++/gmp++_int_pow.C | Integer pow(const Integer& n, const uint64_t p) | f122fa862d48 *)
Definition pow_u64 (n p : Z) : Z := if p =? 0 then Integer_one else pow3_u64 n p.
(*@ pow3_i64 | src/kernel/gmp++/gmp++_int_pow.C | Integer& pow(Integer& Res, const Integer& n, const int64_t l) | 75f506319c30 *)
Definition pow3_i64 (n l : Z) : Z := pow3_u64 n (to_u64 (abs_i64 l)).
(*@ pow_i64 | src/kernel/gmp++/gmp++_int_pow.C | Integer pow(const Integer& n, const int64_t l) | d62258141634 *)
Definition pow_i64 (n l : Z) : Z := pow3_i64 n l.
(*@ pow3_i32 | src/kernel/gmp++/gmp++_int.h | friend giv_all_inlined Integer& pow(Integer& Res, const Integer& n, const int32_t l) | 5b04e3204170 *)
Definition pow3_i32 (n l : Z) : Z := pow3_i64 n (i32_to_i64 l).
(*@ pow3_u32 | src/kernel/gmp++/gmp++_int.h | friend giv_all_inlined Integer& pow(Integer& Res, const Integer& n, const uint32_t l) | bd658f289191 *)
Definition pow3_u32 (n l : Z) : Z := pow3_u64 n (u32_to_u64 l).
(*@ pow_i32 | src/kernel/gmp++/gmp++_int.h | friend giv_all_inlined Integer pow(const Integer& n, const int32_t l) | 89f0b31f2441 *)
Definition pow_i32 (n l : Z) : Z := pow_i64 n (i32_to_i64 l).
(*@ pow_u32 | src/kernel/gmp++/gmp++_int.h | friend giv_all_inlined Integer pow(const Integer& n, const uint32_t l) | 5622e093e998 *)
Definition pow_u32 (n l : Z) : Z := pow_u64 n (u32_to_u64 l).

(* ------------------------------------------------------------------ gmp++_int_gcd.C: inverse (used by powmod) *)
(*@ inv3 | src/kernel/gmp++/gmp++_int_gcd.C | Integer& inv(Integer& u, const Integer& a, const Integer& b) | 5cd4c0f033bd *)
Definition inv3 (u a b : Z) : Z := snd (mpz_invert u a b).
(*@ invin | src/kernel/gmp++/gmp++_int_gcd.C | Integer& invin(Integer& u, const Integer& b) | d13cfc9988f1 *)
Definition invin (u b : Z) : Z := inv3 u u b.

(*@ powmod3_I | src/kernel/gmp++/gmp++_int_pow.C | Integer& powmod(Integer& Res, const Integer& n, const Integer& e, const Integer& m) | ca9e08717607 *)
Definition powmod3_I (n e m : Z) : Z := mpz_powm n e m.
(* repaired body (frag/C01.fix-4.diff): no exponent-zero shortcut (it returned 1 also when |m| = 1) *)
(*@ powmod_I | src/kernel/gmp++/gmp++_int_pow.C | Integer powmod(const Integer& n, const Integer& e, const Integer& m) | 6e4cc9d8d0b3 *)
Definition powmod_I (n e m : Z) : Z :=
  if opLt_i32 e 0 then Integer_zero else powmod3_I n e m.
Definition powmod_I_tree (n e m : Z) : Z :=
  if opEq_i32 e 0 then Integer_one else if opLt_i32 e 0 then Integer_zero else powmod3_I n e m.
(*@ powmod3_u64 | src/kernel/gmp++/gmp++_int_pow.C | Integer& powmod(Integer& Res, const Integer& n, const uint64_t p, const Integer& m) | 829d430e0439 *)
Definition powmod3_u64 (n p m : Z) : Z := mpz_powm_ui n p m.
(*@ powmod_u64 | src/kernel/gmp++/gmp++_int_pow.C | Integer powmod(const Integer& n, const uint64_t p, const Integer& m) | d80de3d10ada *)
Definition powmod_u64 (n p m : Z) : Z := powmod3_u64 n p m.
Definition powmod_u64_tree (n p m : Z) : Z := if p =? 0 then Integer_one else powmod3_u64 n p m.
(* the inverse is kept in a local Integer (initial value 0, only observable when n is not invertible modulo m) *)
(*@ powmod3_i64 | src/kernel/gmp++/gmp++_int_pow.C | Integer& powmod(Integer& Res, const Integer& n, const int64_t e, const Integer& m) | f70ca9c5b856 *)
Definition powmod3_i64 (n e m : Z) : Z :=
  if e <? 0 then let ninv := inv3 (ctor_i32 0) n m in powmod3_u64 ninv (to_u64 (abs_i64 e)) m
  else powmod3_u64 n (to_u64 e) m.
(*@ powmod_i64 | src/kernel/gmp++/gmp++_int_pow.C | Integer powmod(const Integer& n, const int64_t e, const Integer& m) | 4436b6e3d966 *)
Definition powmod_i64 (n e m : Z) : Z := powmod3_i64 n e m.
(*@ powmod3_u32 | src/kernel/gmp++/gmp++_int.h | friend giv_all_inlined Integer& powmod(Integer& Res, const Integer& n, const uint32_t e, const Integer& m) | b0022df91f7d *)
Definition powmod3_u32 (n e m : Z) : Z := powmod3_u64 n (u32_to_u64 e) m.
(*@ powmod3_i32 | src/kernel/gmp++/gmp++_int.h | friend giv_all_inlined Integer& powmod(Integer& Res, const Integer& n, const int32_t e, const Integer& m) | 4c161b16ea2b *)
Definition powmod3_i32 (n e m : Z) : Z := powmod3_i64 n (i32_to_i64 e) m.
(*@ powmod_u32 | src/kernel/gmp++/gmp++_int.h | friend giv_all_inlined Integer powmod(const Integer& n, const uint32_t e, const Integer& m) | 6ac8eaea60f1 *)
Definition powmod_u32 (n e m : Z) : Z := powmod_u64 n (u32_to_u64 e) m.
(*@ powmod_i32 | src/kernel/gmp++/gmp++_int.h | friend giv_all_inlined Integer powmod(const Integer& n, const int32_t e, const Integer& m) | 4aa7942959c7 *)
Definition powmod_i32 (n e m : Z) : Z := powmod_i64 n (i32_to_i64 e) m.

(* ------------------------------------------------------------------ gmp++_int_gcd.C *)
(*@ lcm_v | src/kernel/gmp++/gmp++_int_gcd.C | Integer lcm(const Integer& a, const Integer& b) | 13301d86c2f1 *)
Definition lcm_v (a b : Z) : Z := let Res := mpz_lcm a b in if priv_sign Res <? 0 then opNeg Res else Res.
(*@ lcm3 | src/kernel/gmp++/gmp++_int_gcd.C | Integer& lcm(Integer& g, const Integer& a, const Integer& b) | ac7ae18eb930 *)
Definition lcm3 (a b : Z) : Z := let g := mpz_lcm a b in if priv_sign g <? 0 then negin g else g.
(*@ gcd_v | src/kernel/gmp++/gmp++_int_gcd.C | Integer gcd(const Integer& a, const Integer& b) | 9233469cd50f *)
Definition gcd_v (a b : Z) : Z := let Res := mpz_gcd a b in if priv_sign Res <? 0 then opNeg Res else Res.
(*@ gcd3 | src/kernel/gmp++/gmp++_int_gcd.C | Integer& gcd(Integer& g, const Integer& a, const Integer& b) | b065d83ea1a8 *)
Definition gcd3 (a b : Z) : Z := let g := mpz_gcd a b in if priv_sign g <? 0 then negin g else g.
(*@ gcdext_v | src/kernel/gmp++/gmp++_int_gcd.C | Integer gcd (Integer& u, Integer& v, const Integer& a, const Integer& b ) | a9b80979b77c *)
Definition gcdext_v (a b : Z) : Z * Z * Z :=
  match mpz_gcdext a b with
  | (Res, u, v) => if priv_sign Res <? 0 then (negin Res, negin u, negin v) else (Res, u, v)
  end.
(*@ gcdext5 | src/kernel/gmp++/gmp++_int_gcd.C | Integer& gcd (Integer& g, Integer& u, Integer& v, const Integer& a, const Integer& b) | 241d535e63f3 *)
Definition gcdext5 (a b : Z) : Z * Z * Z :=
  match mpz_gcdext a b with
  | (g, u, v) => if priv_sign g <? 0 then (negin g, negin u, negin v) else (g, u, v)
  end.

(* ------------------------------------------------------------------ gmp++_int_misc.C: roots *)
(*@ sqrt2 | src/kernel/gmp++/gmp++_int_misc.C | Integer& sqrt(Integer& q, const Integer &a) | 6e57615e004f *)
Definition sqrt2 (a : Z) : Z := mpz_sqrt a.
(*@ sqrtrem3 | src/kernel/gmp++/gmp++_int_misc.C | Integer& sqrtrem(Integer& q, const Integer &a, Integer& r) | f3da665c0c7b *)
Definition sqrtrem3 (a : Z) : Z * Z := mpz_sqrtrem a.
(*@ sqrt_v | src/kernel/gmp++/gmp++_int_misc.C | Integer sqrt(const Integer &a) | eb705c328c01 *)
Definition sqrt_v (a : Z) : Z := sqrt2 a.
(*@ sqrtrem_v | src/kernel/gmp++/gmp++_int_misc.C | Integer sqrtrem(const Integer &a, Integer& r) | 6ff1d6317ff7 *)
Definition sqrtrem_v (a : Z) : Z * Z := sqrtrem3 a.
(*@ root | src/kernel/gmp++/gmp++_int_misc.C | bool root(Integer& q, const Integer &a, uint32_t n) | 4aa1c447cf9e *)
Definition root (a n : Z) : Z * bool := mpz_root a (u32_to_u64 n).

(* ------------------------------------------------------------------ gmp++_int_misc.C: logp, a loop of givaro's own.
   The std::list `pows` is a Gallina list whose HEAD is the list's back().  First loop (do ... while): push puiss, square it,
   go on while the square is <= a; fuel = bit length of a (enough: ProofsLogp.v).  Second loop: walk the saved powers downwards.
   `1 << pows.size()` is an int shift; the model computes 2^size in Z (size < 31 whenever a < p^(2^31)). *)
Fixpoint logp_up (fuel : nat) (a puiss : Z) (pows : list Z) : list Z :=
  let pows1 := puiss :: pows in
  let puiss1 := opMulEq_I puiss puiss in
  match fuel with
  | O => pows1
  | S f => if opLe_I puiss1 a then logp_up f a puiss1 pows1 else pows1
  end.
Fixpoint logp_down (a puiss : Z) (pows : list Z) (res : Z) : Z :=
  match pows with
  | nil => res
  | q :: rest => let sq := opMul_I puiss q in
                 if opLe_I sq a then logp_down a sq rest (res + 2 ^ Z.of_nat (List.length rest)) else logp_down a puiss rest res
  end.
(* the do-while loop as it is: the exit test after every squaring; NoReturn (None) when the fuel is used up with the test still true *)
Fixpoint logp_up_o (fuel : nat) (a puiss : Z) (pows : list Z) : option (list Z) :=
  let pows1 := puiss :: pows in
  let puiss1 := opMulEq_I puiss puiss in
  if opLe_I puiss1 a then match fuel with O => None | S f => logp_up_o f a puiss1 pows1 end else Some pows1.
(* HISTORY: the body before /repo 2291e98 (frag/C01.fix-6.diff): no test of the base *)
Definition logp_o (a p : Z) : outcome :=
  if opLt_I a p then Ret 0 else
  match logp_up_o (Z.to_nat (Z.log2 a)) a (ctor_copy p) nil with
  | None => NoReturn
  | Some nil => Ret 0
  | Some (puiss :: pows) => Ret (logp_down a puiss pows (2 ^ Z.of_nat (List.length pows)))
  end.
(* total companion used in the proofs (= logp_o wherever that returns: ProofsLoops.logp_o_ret) *)
Definition logp (a p : Z) : Z :=
  if opLt_I a p then 0 else
  match logp_up (Z.to_nat (Z.log2 a)) a (ctor_copy p) nil with
  | nil => 0
  | puiss :: pows => logp_down a puiss pows (2 ^ Z.of_nat (List.length pows))
  end.
(* the body in the tree (since /repo 2291e98): a base below 2 is rejected (`p < 2` is Integer::operator<(int32_t)) *)
(*@ logp | src/kernel/gmp++/gmp++_int_misc.C | int64_t logp(const Integer& a, const Integer& p) | 3ed29b452ccb *)
Definition logp_fixed_o (a p : Z) : outcome := if opLt_i32 p 2 then Throws else logp_o a p.

(* ------------------------------------------------------------------ gmp++_int_gcd.C: pp(P,Q), the part of P prime to Q (a loop of givaro's own).
   operator/ (C02's subject) is the truncated quotient; every division here is exact.  fuel = bit length of P. *)
Fixpoint pp_loop (fuel : nat) (U V : Z) : Z :=
  match fuel with
  | O => U
  | S f => if opNe_I V Integer_one then let U1 := Z.quot U V in pp_loop f U1 (gcd_v U1 V) else U
  end.
(* the while loop as it is: NoReturn when the fuel is used up with `V != 1` still true *)
Fixpoint pp_loop_o (fuel : nat) (U V : Z) : outcome :=
  match fuel with
  | O => NoReturn
  | S f => if opNe_I V Integer_one then let U1 := Z.quot U V in pp_loop_o f U1 (gcd_v U1 V) else Ret U
  end.
Definition pp_fuel (P : Z) : nat := S (S (Z.to_nat (Z.log2 (Z.abs P)))).
(* HISTORY: the body before /repo 348f995 (frag/C01.fix-5.diff): no test of P = 0 *)
Definition pp_o (P Q : Z) : outcome := pp_loop_o (pp_fuel P) (ctor_copy P) (gcd_v P Q).
(* total companion used in the proofs (= pp_o for P <> 0: ProofsLoops.pp_o_ret) *)
Definition pp (P Q : Z) : Z := pp_loop (S (Z.to_nat (Z.log2 (Z.abs P)))) (ctor_copy P) (gcd_v P Q).
(* the body in the tree (since /repo 348f995): P = 0 returns 0 before the loop *)
(*@ pp | src/kernel/gmp++/gmp++_int_gcd.C | Integer pp( const Integer& P, const Integer& Q ) | 0c8bebf2665f *)
Definition pp_fixed_o (P Q : Z) : outcome :=
  let U := ctor_copy P in let V := gcd_v P Q in if isZero_I U then Ret U else pp_loop_o (pp_fuel P) U V.

(* ------------------------------------------------------------------ givinteger.h: ZRing<Integer> wrappers with a body of their own *)
(*@ dom_pow_i64 | src/kernel/integer/givinteger.h | Rep& pow(Rep& r, const Rep& n, const int64_t l) const | a7c9a23f4f70 *)
Definition dom_pow_i64 (r n l : Z) : Z := assign r (pow_i64 n l).
(*@ dom_pow_u64 | src/kernel/integer/givinteger.h | Rep& pow(Rep& r, const Rep& n, const uint64_t l) const | a7c9a23f4f70 *)
Definition dom_pow_u64 (r n l : Z) : Z := assign r (pow_u64 n l).
(*@ dom_pow_i32 | src/kernel/integer/givinteger.h | Rep& pow(Rep& r, const Rep& n, const int32_t l) const | 2cb0c47745a6 *)
Definition dom_pow_i32 (r n l : Z) : Z := assign r (pow_i64 n (i32_to_i64 l)).
(*@ dom_pow_u32 | src/kernel/integer/givinteger.h | Rep& pow(Rep& r, const Rep& n, const uint32_t l) const | 447d5b9a72b4 *)
Definition dom_pow_u32 (r n l : Z) : Z := assign r (pow_u64 n (u32_to_u64 l)).
(*@ dom_powmod_i64 | src/kernel/integer/givinteger.h | Rep& powmod(Rep& r, const Rep& n, const int64_t e, const Rep& m) const | f2bd8923c176 *)
Definition dom_powmod_i64 (r n e m : Z) : Z := assign r (powmod_i64 n e m).
(*@ dom_powmod_I | src/kernel/integer/givinteger.h | Rep& powmod(Rep& r, const Rep& n, const Rep& e, const Rep& m) const | f2bd8923c176 *)
Definition dom_powmod_I (r n e m : Z) : Z := assign r (powmod_I n e m).
(*@ dom_gcdin | src/kernel/integer/givinteger.h | Rep& gcdin( Rep& g, const Rep& a) const | 317eed8f0cf6 *)
Definition dom_gcdin (g a : Z) : Z := let tmp := ctor_copy g in gcd3 tmp a.
(*@ dom_lcmin | src/kernel/integer/givinteger.h | Rep& lcmin( Rep& l, const Rep& a) const | 4ead2aa3ec75 *)
Definition dom_lcmin (l a : Z) : Z := let tmp := ctor_copy l in lcm3 tmp a.
(* Integer::div(q,a,g) is C02's subject: the truncated quotient *)
(*@ dom_dxgcd | src/kernel/integer/givinteger.h | Element &dxgcd(Element &g, Element &s, Element &t, Element &u, Element &v, const Element &a, const Element &b) const | 9d60e4b97012 *)
Definition dom_dxgcd (a b : Z) : Z * Z * Z * Z * Z :=
  let aa := ctor_copy a in let bb := ctor_copy b in      (* /repo 1b66770: the outputs may be the same objects as a or b *)
  match gcdext5 aa bb with (g, s, t) => (g, s, t, Z.quot aa g, Z.quot bb g) end.
(* inv / invin in Z: defined on the units only (throws otherwise) *)
(*@ dom_inv_unit | src/kernel/integer/givinteger.h | Rep& inv(Rep& u, const Rep& a) const | c4829a9d778e *)
Definition dom_inv_unit (u a : Z) : option Z := if dom_isUnit a then Some (assign u a) else None.
(*@ dom_invin_unit | src/kernel/integer/givinteger.h | Rep& invin(Rep& u) const | 8a8c96a03c07 *)
Definition dom_invin_unit (u : Z) : option Z := if dom_isUnit u then Some u else None.
(*@ dom_abs2 | src/kernel/integer/givinteger.h | Element& abs(Element& x, const Element& a) const | ecb1150ab431 *)
Definition dom_abs2 (x a : Z) : Z := assign x (abs_v a).

(* ------------------------------------------------------------------ single GMP calls of gmp++_int_misc.C / gmp++_int_pow.C (phase 3; oracle-only before) *)
(* mpz_fac_ui: l! *)
Fixpoint fac_nat (n : nat) : Z := match n with O => 1 | S k => Z.of_nat (S k) * fac_nat k end.
Definition mpz_fac_ui (l : Z) : Z := fac_nat (Z.to_nat l).
(*@ fact | src/kernel/gmp++/gmp++_int_misc.C | Integer fact ( uint64_t l) | 3c3c8ca4d98d *)
Definition fact (l : Z) : Z := mpz_fac_ui l.
Definition mpz_swap (a b : Z) : Z * Z := (b, a).
(*@ swap | src/kernel/gmp++/gmp++_int_misc.C | void swap(Integer& a, Integer& b) | 029877d26c31 *)
Definition swap (a b : Z) : Z * Z := mpz_swap a b.
(* mpz_sizeinbase for a base that is a power of two (GMP: "if base is a power of 2, the result is always exact"; 1 for op = 0) *)
Definition mpz_sizeinbase (a base : Z) : Z := if a =? 0 then 1 else Z.log2 (Z.abs a) / Z.log2 base + 1.
(*@ size_in_base | src/kernel/gmp++/gmp++_int_misc.C | size_t Integer::size_in_base(int32_t BASE) const | 87f45548927f *)
Definition size_in_base (x base : Z) : Z := mpz_sizeinbase x (i32_to_i64 base).
(* mpz_perfect_power_p: op = a^b for some a and some b > 1 (0, 1 and -1 are perfect powers; a negative op needs an odd b):
   search of the exponents 2 .. log2|op| + 1 with the truncated root *)
Definition ppow_at (n e : Z) : bool :=
  let q := iroot (Z.abs n) e in (q ^ e =? Z.abs n) && (if n <? 0 then Z.odd e else true).
Definition mpz_perfect_power_p (n : Z) : bool :=
  if Z.abs n <=? 1 then true
  else existsb (ppow_at n) (map Z.of_nat (seq 2 (Z.to_nat (Z.log2 (Z.abs n))))).
(*@ isperfectpower | src/kernel/gmp++/gmp++_int_pow.C | int32_t isperfectpower(const Integer& n) | ac9accafa289 *)
Definition isperfectpower (n : Z) : Z := b2z (mpz_perfect_power_p n).

(* ------------------------------------------------------------------ sequences of operations on ONE object (no body of their own: compositions of
   the bodies above, driven by the harness as consecutive calls on the same Integer) *)
Definition seq_acc_u64 (x a b : Z) : Z := opPlusEq_u64 (opPlusEq_u64 (opPlusEq_u64 x a) b) a.
Definition seq_addsub_u64 (x a : Z) : Z := opPlusEq_u64 (opMinusEq_u64 (opMinusEq_u64 (opPlusEq_u64 x a) a) a) a.
Definition seq_addsub_i64 (x a : Z) : Z := opPlusEq_i64 (opMinusEq_i64 (opMinusEq_i64 (opPlusEq_i64 x a) a) a) a.
Definition seq_mixed (x a b c : Z) : Z :=
  let r := opPlusEq_i64 x a in let r := opMulEq_i32 r c in let r := opMinusEq_u64 r b in let r := negin r in
  let r := opPlusEq_u64 r 1 in subin_u64 (addin_i64 r a) b.
Definition seq_mul_u64 (x a : Z) : Z := opPlusEq_u64 (opMulEq_u64 (opMulEq_u64 x a) a) a.

(* ------------------------------------------------------------------ template<class XXX> operator op=(const XXX& n) instantiated at double and at
   unsigned char: Caster<Integer>(n) / (Integer)n is the constructor for that type (the int16_t / uint16_t instances are opPlusEq_T ... in Model.v) *)
Definition opPlusEq_Td (x m e : Z) : Z := opPlusEq_I x (ctor_d m e).
Definition opMinusEq_Td (x m e : Z) : Z := opMinusEq_I x (ctor_d m e).
Definition opMulEq_Td (x m e : Z) : Z := opMulEq_I x (ctor_d m e).
Definition opPlusEq_Tu8 (x n : Z) : Z := opPlusEq_I x (ctor_u8 n).
Definition opMinusEq_Tu8 (x n : Z) : Z := opMinusEq_I x (ctor_u8 n).
Definition opMulEq_Tu8 (x n : Z) : Z := opMulEq_I x (ctor_u8 n).

(* ------------------------------------------------------------------ the build configuration the C-integer layer and the limb functions are written for:
   bits of long, uint64_t, mp_limb_t, int; __GIVARO_SIZEOF_LONG; GMP_NUMB_BITS; sizeof(mp_limb_t) (the exponent of Integer(vect_t)'s base 256);
   unsigned long = uint64_t, long = int64_t; the constants Integer::zero, one, mOne.  The harness prints the same list from the compiled tree on every run. *)
Definition Integer_mOne : Z := -1.
Definition config : list Z :=
  Z.log2 W64 :: Z.log2 W64 :: Z.log2 W64 :: Z.log2 W32 :: Z.log2 W64 / 8 :: Z.log2 W64 :: Z.log2 (256 ^ 8) / 8 :: 1 :: 1 :: Integer_zero :: Integer_one :: Integer_mOne :: nil.
