(* C01 proofs: addition family *)
From Coq Require Import ZArith Bool Lia.
From C01 Require Import Model ProofsBase.
Local Open Scope Z_scope.
Ltac Zify.zify_post_hook ::= Z.div_mod_to_equations.

(* ---------------------------------------------------------------- addition *)
Lemma addin_I_ok x n : addin_I x n = x + n. Proof. c01_solve. Qed.
Lemma addin_i64_ok x n : in_i64 n -> addin_i64 x n = x + n. Proof. c01_solve. Qed.
Lemma addin_u64_ok x n : in_u64 n -> addin_u64 x n = x + n. Proof. c01_solve. Qed.
Lemma addin_i32_ok x n : in_i32 n -> addin_i32 x n = x + n. Proof. c01_solve. Qed.
Lemma addin_u32_ok x n : in_u32 n -> addin_u32 x n = x + n. Proof. c01_solve. Qed.
Lemma add_I_ok x n : add_I x n = x + n. Proof. c01_solve. Qed.
Lemma add_i64_ok x n : in_i64 n -> add_i64 x n = x + n. Proof. c01_solve. Qed.
Lemma add_u64_ok x n : in_u64 n -> add_u64 x n = x + n. Proof. c01_solve. Qed.
Lemma add_i32_ok x n : in_i32 n -> add_i32 x n = x + n. Proof. c01_solve. Qed.
Lemma add_u32_ok x n : in_u32 n -> add_u32 x n = x + n. Proof. c01_solve. Qed.
Lemma opPlusEq_I_ok x n : opPlusEq_I x n = x + n. Proof. c01_solve. Qed.
Lemma opPlusEq_u64_ok x n : in_u64 n -> opPlusEq_u64 x n = x + n. Proof. c01_solve. Qed.
Lemma opPlusEq_i64_ok x n : in_i64 n -> opPlusEq_i64 x n = x + n. Proof. c01_solve. Qed.
Lemma opPlusEq_u32_ok x n : in_u32 n -> opPlusEq_u32 x n = x + n. Proof. c01_solve. Qed.
Lemma opPlusEq_T_ok x n : in_i32 n -> opPlusEq_T x n = x + n. Proof. c01_solve. Qed.
Lemma opPlus_I_ok x n : opPlus_I x n = x + n. Proof. c01_solve. Qed.
Lemma opPlus_u64_ok x n : in_u64 n -> opPlus_u64 x n = x + n. Proof. c01_solve. Qed.
Lemma opPlus_i64_ok x n : in_i64 n -> opPlus_i64 x n = x + n. Proof. c01_solve. Qed.
Lemma opPlus_u32_ok x n : in_u32 n -> opPlus_u32 x n = x + n. Proof. c01_solve. Qed.
Lemma opPlus_i32_ok x n : in_i32 n -> opPlus_i32 x n = x + n. Proof. c01_solve. Qed.
Lemma fr_plus_i32_ok l n : in_i32 l -> fr_plus_i32 l n = l + n. Proof. c01_solve. Qed.
Lemma fr_plus_u32_ok l n : in_u32 l -> fr_plus_u32 l n = l + n. Proof. c01_solve. Qed.
Lemma fr_plus_i64_ok l n : in_i64 l -> fr_plus_i64 l n = l + n. Proof. c01_solve. Qed.
Lemma fr_plus_u64_ok l n : in_u64 l -> fr_plus_u64 l n = l + n. Proof. c01_solve. Qed.
Lemma preinc_ok x : preinc x = x + 1. Proof. c01_solve. Qed.
Lemma postinc_ok x : postinc x = (x, x + 1). Proof. unfold postinc. rewrite preinc_ok. reflexivity. Qed.

Lemma opPlusEq_i32_ok x n : in_i32 n -> opPlusEq_i32 x n = x + n. Proof. c01_solve. Qed.

Definition Add_family_exact : Prop :=
  (forall x n, addin_I x n = x + n) /\
  (forall x n, in_i64 n -> addin_i64 x n = x + n) /\ (forall x n, in_u64 n -> addin_u64 x n = x + n) /\
  (forall x n, in_i32 n -> addin_i32 x n = x + n) /\ (forall x n, in_u32 n -> addin_u32 x n = x + n) /\
  (forall x n, add_I x n = x + n) /\
  (forall x n, in_i64 n -> add_i64 x n = x + n) /\ (forall x n, in_u64 n -> add_u64 x n = x + n) /\
  (forall x n, in_i32 n -> add_i32 x n = x + n) /\ (forall x n, in_u32 n -> add_u32 x n = x + n) /\
  (forall x n, opPlusEq_I x n = x + n) /\
  (forall x n, in_u64 n -> opPlusEq_u64 x n = x + n) /\ (forall x n, in_i64 n -> opPlusEq_i64 x n = x + n) /\
  (forall x n, in_u32 n -> opPlusEq_u32 x n = x + n) /\ (forall x n, in_i32 n -> opPlusEq_T x n = x + n) /\
  (forall x n, opPlus_I x n = x + n) /\
  (forall x n, in_u64 n -> opPlus_u64 x n = x + n) /\ (forall x n, in_i64 n -> opPlus_i64 x n = x + n) /\
  (forall x n, in_u32 n -> opPlus_u32 x n = x + n) /\ (forall x n, in_i32 n -> opPlus_i32 x n = x + n) /\
  (forall l n, in_i32 l -> fr_plus_i32 l n = l + n) /\ (forall l n, in_u32 l -> fr_plus_u32 l n = l + n) /\
  (forall l n, in_i64 l -> fr_plus_i64 l n = l + n) /\ (forall l n, in_u64 l -> fr_plus_u64 l n = l + n) /\
  (forall x, preinc x = x + 1) /\ (forall x, postinc x = (x, x + 1)) /\
  (forall x n, in_i32 n -> opPlusEq_i32 x n = x + n).
Lemma add_family_exact : Add_family_exact.
Proof. repeat split; c01_solve. Qed.

(* all addition call forms agree on their common domain (n a value every word type can carry) *)
Definition Add_family_agree : Prop := forall x n, 0 <= n < H32 ->
  let r := x + n in
  addin_I x n = r /\ addin_i64 x n = r /\ addin_u64 x n = r /\ addin_i32 x n = r /\ addin_u32 x n = r /\
  add_I x n = r /\ add_i64 x n = r /\ add_u64 x n = r /\ add_i32 x n = r /\ add_u32 x n = r /\
  opPlusEq_I x n = r /\ opPlusEq_u64 x n = r /\ opPlusEq_i64 x n = r /\ opPlusEq_u32 x n = r /\ opPlusEq_i32 x n = r /\
  opPlus_I x n = r /\ opPlus_u64 x n = r /\ opPlus_i64 x n = r /\ opPlus_u32 x n = r /\ opPlus_i32 x n = r /\
  fr_plus_i32 n x = r /\ fr_plus_u32 n x = r /\ fr_plus_i64 n x = r /\ fr_plus_u64 n x = r.
Lemma add_family_agree : Add_family_agree.
Proof.
  intros x n Hn r; subst r.
  assert (in_i32 n) by (unfold in_i32, H32 in *; lia). assert (in_u32 n) by (unfold in_u32, W32, H32 in *; lia).
  assert (in_i64 n) by (unfold in_i64, H64, H32 in *; lia). assert (in_u64 n) by (unfold in_u64, W64, H32 in *; lia).
  rewrite addin_I_ok, addin_i64_ok, addin_u64_ok, addin_i32_ok, addin_u32_ok, add_I_ok, add_i64_ok, add_u64_ok, add_i32_ok,
    add_u32_ok, opPlusEq_I_ok, opPlusEq_u64_ok, opPlusEq_i64_ok, opPlusEq_u32_ok, opPlusEq_i32_ok, opPlus_I_ok, opPlus_u64_ok,
    opPlus_i64_ok, opPlus_u32_ok, opPlus_i32_ok, fr_plus_i32_ok, fr_plus_u32_ok, fr_plus_i64_ok, fr_plus_u64_ok by assumption.
  repeat split; lia.
Qed.

