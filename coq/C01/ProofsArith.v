(* C01 proofs, part 1: constructors, negation, add / sub / mul / fused families.
   Every overload body of Model.v equals the Z operation for ALL big-integer operands and ALL word
   operands in the C type's range. *)
From Coq Require Import ZArith Bool Lia.
From C01 Require Import Model.
Local Open Scope Z_scope.

Ltac Zify.zify_post_hook ::= Z.div_mod_to_equations.

Create HintDb c01.
#[export] Hint Unfold
  ctor_i32 ctor_u8 ctor_u32 ctor_i64 ctor_u64 ctor_copy logcpy assign copy isZero_I isZero_i64 isZero_u64
  neg negin opNeg Integer_zero
  addin_I addin_i64 addin_u64 addin_i32 addin_u32 add_I add_i64 add_u64 add_i32 add_u32
  opPlusEq_I opPlusEq_u64 opPlusEq_i64 opPlusEq_u32 opPlusEq_i32 opPlusEq_T
  opPlus_I opPlus_u64 opPlus_i64 opPlus_u32 opPlus_i32 fr_plus_i32 fr_plus_u32 fr_plus_i64 fr_plus_u64 preinc postinc
  subin_I subin_i64 subin_u64 subin_i32 subin_u32 sub_I sub_i64 sub_u64 sub_i32 sub_u32
  opMinusEq_I opMinusEq_u64 opMinusEq_i64 opMinusEq_u32 opMinusEq_i32 opMinusEq_T
  opMinus_I opMinus_u64 opMinus_i64 opMinus_u32 opMinus_i32 fr_minus_i32 fr_minus_u32 fr_minus_i64 fr_minus_u64 predec postdec
  mulin_I mulin_i64 mulin_u64 mulin_i32 mulin_u32 mul_I mul_i64 mul_u64 mul_i32 mul_u32
  opMulEq_I opMulEq_u64 opMulEq_i64 opMulEq_u32 opMulEq_i32 opMulEq_T
  opMul_I opMul_u64 opMul_i64 opMul_u32 opMul_i32 fr_mul_i32 fr_mul_u32 fr_mul_i64 fr_mul_u64
  axpyin_I axpyin_u64 axpy_I axpy_u64 maxpyin_I maxpyin_u64 maxpy_I maxpy_u64 axmyin_I axmyin_u64 axmy_I axmy_u64 : c01.

#[export] Hint Unfold
  mpz_set_si mpz_set_ui mpz_add mpz_add_ui mpz_sub mpz_sub_ui mpz_mul mpz_mul_si mpz_mul_ui mpz_addmul mpz_addmul_ui
  mpz_submul mpz_submul_ui mpz_neg mpz_sgn mpz_cmp mpz_cmp_si mpz_cmp_ui mpz_cmpabs mpz_cmpabs_ui : gmpspec.

#[export] Hint Unfold
  to_u64 to_u32 to_u16 to_u8 to_i64 to_i32 to_i16 to_i8 wrap_u wrap_s i32_to_i64 u32_to_u64 neg_u64 neg_i64 abs_i64 abs_i32 sign_w
  in_i8 in_u8 in_i16 in_u16 in_i32 in_u32 in_i64 in_u64 W8 W16 W32 W64 H8 H16 H32 H64 b2z : cint.

Ltac split_ifs :=
  repeat match goal with
  | |- context[?a =? ?b] => destruct (Z.eqb_spec a b)
  | |- context[?a <? ?b] => destruct (Z.ltb_spec a b)
  | |- context[?a <=? ?b] => destruct (Z.leb_spec a b)
  | H : context[?a =? ?b] |- _ => destruct (Z.eqb_spec a b)
  | H : context[?a <? ?b] |- _ => destruct (Z.ltb_spec a b)
  | H : context[?a <=? ?b] |- _ => destruct (Z.leb_spec a b)
  end; cbn [orb andb negb] in *.

Ltac c01_unfold := repeat autounfold with c01 in *; repeat autounfold with gmpspec in *; repeat autounfold with cint in *; cbv beta zeta in *.
Ltac c01_solve := intros; c01_unfold; split_ifs; try lia; try nia.

(* ---------------------------------------------------------------- constructors, negation *)
Definition Ctor_exact : Prop :=
  (forall n, in_i32 n -> ctor_i32 n = n) /\ (forall n, in_u8 n -> ctor_u8 n = n) /\
  (forall n, in_u32 n -> ctor_u32 n = n) /\ (forall n, in_i64 n -> ctor_i64 n = n) /\
  (forall n, in_u64 n -> ctor_u64 n = n) /\ (forall n, ctor_copy n = n) /\
  (forall x n, logcpy x n = n) /\ (forall x n, assign x n = n) /\ (forall x n, copy x n = n).
Lemma ctor_exact : Ctor_exact.
Proof. repeat split; c01_solve. Qed.

Definition Neg_exact : Prop :=
  (forall n, neg n = - n) /\ (forall n, negin n = - n) /\ (forall n, opNeg n = - n).
Lemma neg_exact : Neg_exact.
Proof. repeat split; c01_solve. Qed.

(* ---------------------------------------------------------------- addition *)
Lemma addin_I_ok x n : addin_I x n = x + n. Proof. c01_solve. Qed.
Lemma addin_i64_ok x n : in_i64 n -> addin_i64 x n = x + n. Proof. c01_solve. Qed.
Lemma addin_u64_ok x n : in_u64 n -> addin_u64 x n = x + n. Proof. c01_solve. Qed.
Lemma addin_i32_ok x n : in_i32 n -> addin_i32 x n = x + n. Proof. c01_solve. Qed.
Lemma addin_u32_ok x n : in_u32 n -> addin_u32 x n = x + n. Proof. c01_solve. Qed.
Lemma add_I_ok x n : add_I x n = x + n. Proof. c01_solve. Qed.
Lemma add_i64_ok x n : in_i64 n -> add_i64 x n = x + n. Proof. c01_solve. Qed.
Lemma add_u64_ok x n : in_u64 n -> add_u64 x n = x + n. Proof. c01_solve. Qed.
Lemma add_i32_ok x n : in_i32 n -> add_i32 x n = x + n. Proof. c01_solve. Qed.
Lemma add_u32_ok x n : in_u32 n -> add_u32 x n = x + n. Proof. c01_solve. Qed.
Lemma opPlusEq_I_ok x n : opPlusEq_I x n = x + n. Proof. c01_solve. Qed.
Lemma opPlusEq_u64_ok x n : in_u64 n -> opPlusEq_u64 x n = x + n. Proof. c01_solve. Qed.
Lemma opPlusEq_i64_ok x n : in_i64 n -> opPlusEq_i64 x n = x + n. Proof. c01_solve. Qed.
Lemma opPlusEq_u32_ok x n : in_u32 n -> opPlusEq_u32 x n = x + n. Proof. c01_solve. Qed.
Lemma opPlusEq_T_ok x n : in_i32 n -> opPlusEq_T x n = x + n. Proof. c01_solve. Qed.
Lemma opPlus_I_ok x n : opPlus_I x n = x + n. Proof. c01_solve. Qed.
Lemma opPlus_u64_ok x n : in_u64 n -> opPlus_u64 x n = x + n. Proof. c01_solve. Qed.
Lemma opPlus_i64_ok x n : in_i64 n -> opPlus_i64 x n = x + n. Proof. c01_solve. Qed.
Lemma opPlus_u32_ok x n : in_u32 n -> opPlus_u32 x n = x + n. Proof. c01_solve. Qed.
Lemma opPlus_i32_ok x n : in_i32 n -> opPlus_i32 x n = x + n. Proof. c01_solve. Qed.
Lemma fr_plus_i32_ok l n : in_i32 l -> fr_plus_i32 l n = l + n. Proof. c01_solve. Qed.
Lemma fr_plus_u32_ok l n : in_u32 l -> fr_plus_u32 l n = l + n. Proof. c01_solve. Qed.
Lemma fr_plus_i64_ok l n : in_i64 l -> fr_plus_i64 l n = l + n. Proof. c01_solve. Qed.
Lemma fr_plus_u64_ok l n : in_u64 l -> fr_plus_u64 l n = l + n. Proof. c01_solve. Qed.
Lemma preinc_ok x : preinc x = x + 1. Proof. c01_solve. Qed.
Lemma postinc_ok x : postinc x = (x, x + 1). Proof. unfold postinc. rewrite preinc_ok. reflexivity. Qed.

Lemma opPlusEq_i32_ok x n : in_i32 n -> opPlusEq_i32 x n = x + n. Proof. c01_solve. Qed.

Definition Add_family_exact : Prop :=
  (forall x n, addin_I x n = x + n) /\
  (forall x n, in_i64 n -> addin_i64 x n = x + n) /\ (forall x n, in_u64 n -> addin_u64 x n = x + n) /\
  (forall x n, in_i32 n -> addin_i32 x n = x + n) /\ (forall x n, in_u32 n -> addin_u32 x n = x + n) /\
  (forall x n, add_I x n = x + n) /\
  (forall x n, in_i64 n -> add_i64 x n = x + n) /\ (forall x n, in_u64 n -> add_u64 x n = x + n) /\
  (forall x n, in_i32 n -> add_i32 x n = x + n) /\ (forall x n, in_u32 n -> add_u32 x n = x + n) /\
  (forall x n, opPlusEq_I x n = x + n) /\
  (forall x n, in_u64 n -> opPlusEq_u64 x n = x + n) /\ (forall x n, in_i64 n -> opPlusEq_i64 x n = x + n) /\
  (forall x n, in_u32 n -> opPlusEq_u32 x n = x + n) /\ (forall x n, in_i32 n -> opPlusEq_T x n = x + n) /\
  (forall x n, opPlus_I x n = x + n) /\
  (forall x n, in_u64 n -> opPlus_u64 x n = x + n) /\ (forall x n, in_i64 n -> opPlus_i64 x n = x + n) /\
  (forall x n, in_u32 n -> opPlus_u32 x n = x + n) /\ (forall x n, in_i32 n -> opPlus_i32 x n = x + n) /\
  (forall l n, in_i32 l -> fr_plus_i32 l n = l + n) /\ (forall l n, in_u32 l -> fr_plus_u32 l n = l + n) /\
  (forall l n, in_i64 l -> fr_plus_i64 l n = l + n) /\ (forall l n, in_u64 l -> fr_plus_u64 l n = l + n) /\
  (forall x, preinc x = x + 1) /\ (forall x, postinc x = (x, x + 1)) /\
  (forall x n, in_i32 n -> opPlusEq_i32 x n = x + n).
Lemma add_family_exact : Add_family_exact.
Proof.
  repeat split; intros;
  first [ apply addin_I_ok | apply addin_i64_ok | apply addin_u64_ok | apply addin_i32_ok | apply addin_u32_ok
        | apply add_I_ok | apply add_i64_ok | apply add_u64_ok | apply add_i32_ok | apply add_u32_ok
        | apply opPlusEq_I_ok | apply opPlusEq_u64_ok | apply opPlusEq_i64_ok | apply opPlusEq_u32_ok | apply opPlusEq_T_ok
        | apply opPlus_I_ok | apply opPlus_u64_ok | apply opPlus_i64_ok | apply opPlus_u32_ok | apply opPlus_i32_ok
        | apply fr_plus_i32_ok | apply fr_plus_u32_ok | apply fr_plus_i64_ok | apply fr_plus_u64_ok
        | apply preinc_ok | apply postinc_ok | apply opPlusEq_i32_ok ]; try assumption.
Qed.

(* all addition call forms agree on their common domain (n a value every word type can carry) *)
Definition Add_family_agree : Prop := forall x n, 0 <= n < H32 ->
  let r := x + n in
  addin_I x n = r /\ addin_i64 x n = r /\ addin_u64 x n = r /\ addin_i32 x n = r /\ addin_u32 x n = r /\
  add_I x n = r /\ add_i64 x n = r /\ add_u64 x n = r /\ add_i32 x n = r /\ add_u32 x n = r /\
  opPlusEq_I x n = r /\ opPlusEq_u64 x n = r /\ opPlusEq_i64 x n = r /\ opPlusEq_u32 x n = r /\ opPlusEq_i32 x n = r /\
  opPlus_I x n = r /\ opPlus_u64 x n = r /\ opPlus_i64 x n = r /\ opPlus_u32 x n = r /\ opPlus_i32 x n = r /\
  fr_plus_i32 n x = r /\ fr_plus_u32 n x = r /\ fr_plus_i64 n x = r /\ fr_plus_u64 n x = r.
Lemma add_family_agree : Add_family_agree.
Proof.
  intros x n Hn r; subst r.
  assert (in_i32 n) by (unfold in_i32, H32 in *; lia). assert (in_u32 n) by (unfold in_u32, W32, H32 in *; lia).
  assert (in_i64 n) by (unfold in_i64, H64, H32 in *; lia). assert (in_u64 n) by (unfold in_u64, W64, H32 in *; lia).
  rewrite addin_I_ok, addin_i64_ok, addin_u64_ok, addin_i32_ok, addin_u32_ok, add_I_ok, add_i64_ok, add_u64_ok, add_i32_ok,
    add_u32_ok, opPlusEq_I_ok, opPlusEq_u64_ok, opPlusEq_i64_ok, opPlusEq_u32_ok, opPlusEq_i32_ok, opPlus_I_ok, opPlus_u64_ok,
    opPlus_i64_ok, opPlus_u32_ok, opPlus_i32_ok, fr_plus_i32_ok, fr_plus_u32_ok, fr_plus_i64_ok, fr_plus_u64_ok by assumption.
  repeat split; lia.
Qed.

(* ---------------------------------------------------------------- subtraction *)
Lemma subin_I_ok x n : subin_I x n = x - n. Proof. c01_solve. Qed.
Lemma subin_i64_ok x n : in_i64 n -> subin_i64 x n = x - n. Proof. c01_solve. Qed.
Lemma subin_u64_ok x n : in_u64 n -> subin_u64 x n = x - n. Proof. c01_solve. Qed.
Lemma subin_i32_ok x n : in_i32 n -> subin_i32 x n = x - n. Proof. c01_solve. Qed.
Lemma subin_u32_ok x n : in_u32 n -> subin_u32 x n = x - n. Proof. c01_solve. Qed.
Lemma sub_I_ok x n : sub_I x n = x - n. Proof. c01_solve. Qed.
Lemma sub_i64_ok x n : in_i64 n -> sub_i64 x n = x - n. Proof. c01_solve. Qed.
Lemma sub_u64_ok x n : in_u64 n -> sub_u64 x n = x - n. Proof. c01_solve. Qed.
Lemma sub_u32_ok x n : in_u32 n -> sub_u32 x n = x - n. Proof. c01_solve. Qed.
Lemma opMinusEq_I_ok x n : opMinusEq_I x n = x - n. Proof. c01_solve. Qed.
Lemma opMinusEq_u64_ok x n : in_u64 n -> opMinusEq_u64 x n = x - n. Proof. c01_solve. Qed.
Lemma opMinusEq_i64_ok x n : in_i64 n -> opMinusEq_i64 x n = x - n. Proof. c01_solve. Qed.
Lemma opMinusEq_u32_ok x n : in_u32 n -> opMinusEq_u32 x n = x - n. Proof. c01_solve. Qed.
Lemma opMinusEq_i32_ok x n : in_i32 n -> opMinusEq_i32 x n = x - n. Proof. c01_solve. Qed.
Lemma opMinusEq_T_ok x n : in_i32 n -> opMinusEq_T x n = x - n. Proof. c01_solve. Qed.
Lemma opMinus_I_ok x n : opMinus_I x n = x - n. Proof. c01_solve. Qed.
Lemma opMinus_u64_ok x n : in_u64 n -> opMinus_u64 x n = x - n. Proof. c01_solve. Qed.
Lemma opMinus_i64_ok x n : in_i64 n -> opMinus_i64 x n = x - n. Proof. c01_solve. Qed.
Lemma opMinus_u32_ok x n : in_u32 n -> opMinus_u32 x n = x - n. Proof. c01_solve. Qed.
Lemma opMinus_i32_ok x n : in_i32 n -> opMinus_i32 x n = x - n. Proof. c01_solve. Qed.
Lemma fr_minus_i32_ok l n : in_i32 l -> fr_minus_i32 l n = l - n. Proof. c01_solve. Qed.
Lemma fr_minus_u32_ok l n : in_u32 l -> fr_minus_u32 l n = l - n. Proof. c01_solve. Qed.
Lemma fr_minus_i64_ok l n : in_i64 l -> fr_minus_i64 l n = l - n. Proof. c01_solve. Qed.
Lemma fr_minus_u64_ok l n : in_u64 l -> fr_minus_u64 l n = l - n. Proof. c01_solve. Qed.
Lemma predec_ok x : predec x = x - 1. Proof. c01_solve. Qed.
Lemma postdec_ok x : postdec x = (x, x - 1). Proof. unfold postdec. rewrite predec_ok. reflexivity. Qed.

Lemma sub_i32_ok x n : in_i32 n -> sub_i32 x n = x - n. Proof. c01_solve. Qed.

Definition Sub_family_exact : Prop :=
  (forall x n, subin_I x n = x - n) /\
  (forall x n, in_i64 n -> subin_i64 x n = x - n) /\ (forall x n, in_u64 n -> subin_u64 x n = x - n) /\
  (forall x n, in_i32 n -> subin_i32 x n = x - n) /\ (forall x n, in_u32 n -> subin_u32 x n = x - n) /\
  (forall x n, sub_I x n = x - n) /\
  (forall x n, in_i64 n -> sub_i64 x n = x - n) /\ (forall x n, in_u64 n -> sub_u64 x n = x - n) /\
  (forall x n, in_u32 n -> sub_u32 x n = x - n) /\
  (forall x n, opMinusEq_I x n = x - n) /\
  (forall x n, in_u64 n -> opMinusEq_u64 x n = x - n) /\ (forall x n, in_i64 n -> opMinusEq_i64 x n = x - n) /\
  (forall x n, in_u32 n -> opMinusEq_u32 x n = x - n) /\ (forall x n, in_i32 n -> opMinusEq_i32 x n = x - n) /\
  (forall x n, in_i32 n -> opMinusEq_T x n = x - n) /\
  (forall x n, opMinus_I x n = x - n) /\
  (forall x n, in_u64 n -> opMinus_u64 x n = x - n) /\ (forall x n, in_i64 n -> opMinus_i64 x n = x - n) /\
  (forall x n, in_u32 n -> opMinus_u32 x n = x - n) /\ (forall x n, in_i32 n -> opMinus_i32 x n = x - n) /\
  (forall l n, in_i32 l -> fr_minus_i32 l n = l - n) /\ (forall l n, in_u32 l -> fr_minus_u32 l n = l - n) /\
  (forall l n, in_i64 l -> fr_minus_i64 l n = l - n) /\ (forall l n, in_u64 l -> fr_minus_u64 l n = l - n) /\
  (forall x, predec x = x - 1) /\ (forall x, postdec x = (x, x - 1)) /\
  (forall x n, in_i32 n -> sub_i32 x n = x - n).
Lemma sub_family_exact : Sub_family_exact.
Proof.
  repeat split; intros;
  first [ apply subin_I_ok | apply subin_i64_ok | apply subin_u64_ok | apply subin_i32_ok | apply subin_u32_ok
        | apply sub_I_ok | apply sub_i64_ok | apply sub_u64_ok | apply sub_u32_ok
        | apply opMinusEq_I_ok | apply opMinusEq_u64_ok | apply opMinusEq_i64_ok | apply opMinusEq_u32_ok | apply opMinusEq_i32_ok
        | apply opMinusEq_T_ok | apply opMinus_I_ok | apply opMinus_u64_ok | apply opMinus_i64_ok | apply opMinus_u32_ok
        | apply opMinus_i32_ok | apply fr_minus_i32_ok | apply fr_minus_u32_ok | apply fr_minus_i64_ok | apply fr_minus_u64_ok
        | apply predec_ok | apply postdec_ok | apply sub_i32_ok ]; try assumption.
Qed.

Definition Sub_family_agree : Prop := forall x n, 0 <= n < H32 ->
  let r := x - n in
  subin_I x n = r /\ subin_i64 x n = r /\ subin_u64 x n = r /\ subin_i32 x n = r /\ subin_u32 x n = r /\
  sub_I x n = r /\ sub_i64 x n = r /\ sub_u64 x n = r /\ sub_i32 x n = r /\ sub_u32 x n = r /\
  opMinusEq_I x n = r /\ opMinusEq_u64 x n = r /\ opMinusEq_i64 x n = r /\ opMinusEq_u32 x n = r /\ opMinusEq_i32 x n = r /\
  opMinus_I x n = r /\ opMinus_u64 x n = r /\ opMinus_i64 x n = r /\ opMinus_u32 x n = r /\ opMinus_i32 x n = r /\
  fr_minus_i32 n x = - r /\ fr_minus_u32 n x = - r /\ fr_minus_i64 n x = - r /\ fr_minus_u64 n x = - r.
Lemma sub_family_agree : Sub_family_agree.
Proof.
  intros x n Hn r; subst r.
  assert (in_i32 n) by (unfold in_i32, H32 in *; lia). assert (in_u32 n) by (unfold in_u32, W32, H32 in *; lia).
  assert (in_i64 n) by (unfold in_i64, H64, H32 in *; lia). assert (in_u64 n) by (unfold in_u64, W64, H32 in *; lia).
  rewrite subin_I_ok, subin_i64_ok, subin_u64_ok, subin_i32_ok, subin_u32_ok, sub_I_ok, sub_i64_ok, sub_u64_ok, sub_i32_ok,
    sub_u32_ok, opMinusEq_I_ok, opMinusEq_u64_ok, opMinusEq_i64_ok, opMinusEq_u32_ok, opMinusEq_i32_ok, opMinus_I_ok, opMinus_u64_ok,
    opMinus_i64_ok, opMinus_u32_ok, opMinus_i32_ok, fr_minus_i32_ok, fr_minus_u32_ok, fr_minus_i64_ok, fr_minus_u64_ok by assumption.
  repeat split; lia.
Qed.

(* ---------------------------------------------------------------- multiplication *)
Lemma mulin_I_ok x n : mulin_I x n = x * n. Proof. c01_solve. Qed.
Lemma mulin_i64_ok x n : in_i64 n -> mulin_i64 x n = x * n. Proof. c01_solve. Qed.
Lemma mulin_u64_ok x n : in_u64 n -> mulin_u64 x n = x * n. Proof. c01_solve. Qed.
Lemma mulin_i32_ok x n : in_i32 n -> mulin_i32 x n = x * n. Proof. c01_solve. Qed.
Lemma mulin_u32_ok x n : in_u32 n -> mulin_u32 x n = x * n. Proof. c01_solve. Qed.
Lemma mul_I_ok x n : mul_I x n = x * n. Proof. c01_solve. Qed.
Lemma mul_i64_ok x n : in_i64 n -> mul_i64 x n = x * n. Proof. c01_solve. Qed.
Lemma mul_u64_ok x n : in_u64 n -> mul_u64 x n = x * n. Proof. c01_solve. Qed.
Lemma mul_i32_ok x n : in_i32 n -> mul_i32 x n = x * n. Proof. c01_solve. Qed.
Lemma mul_u32_ok x n : in_u32 n -> mul_u32 x n = x * n. Proof. c01_solve. Qed.
Lemma opMulEq_I_ok x n : opMulEq_I x n = x * n. Proof. c01_solve. Qed.
Lemma opMulEq_u64_ok x n : in_u64 n -> opMulEq_u64 x n = x * n. Proof. c01_solve. Qed.
Lemma opMulEq_i64_ok x n : in_i64 n -> opMulEq_i64 x n = x * n. Proof. c01_solve. Qed.
Lemma opMulEq_u32_ok x n : in_u32 n -> opMulEq_u32 x n = x * n. Proof. c01_solve. Qed.
Lemma opMulEq_i32_ok x n : in_i32 n -> opMulEq_i32 x n = x * n. Proof. c01_solve. Qed.
Lemma opMulEq_T_ok x n : in_i32 n -> opMulEq_T x n = x * n. Proof. c01_solve. Qed.
Lemma opMul_I_ok x n : opMul_I x n = x * n. Proof. c01_solve. Qed.
Lemma opMul_u64_ok x n : in_u64 n -> opMul_u64 x n = x * n. Proof. c01_solve. Qed.
Lemma opMul_i64_ok x n : in_i64 n -> opMul_i64 x n = x * n. Proof. c01_solve. Qed.
Lemma opMul_u32_ok x n : in_u32 n -> opMul_u32 x n = x * n. Proof. c01_solve. Qed.
Lemma opMul_i32_ok x n : in_i32 n -> opMul_i32 x n = x * n. Proof. c01_solve. Qed.
Lemma fr_mul_i32_ok l n : in_i32 l -> fr_mul_i32 l n = l * n. Proof. c01_solve. Qed.
Lemma fr_mul_u32_ok l n : in_u32 l -> fr_mul_u32 l n = l * n. Proof. c01_solve. Qed.
Lemma fr_mul_i64_ok l n : in_i64 l -> fr_mul_i64 l n = l * n. Proof. c01_solve. Qed.
Lemma fr_mul_u64_ok l n : in_u64 l -> fr_mul_u64 l n = l * n. Proof. c01_solve. Qed.

Definition Mul_family_exact : Prop :=
  (forall x n, mulin_I x n = x * n) /\
  (forall x n, in_i64 n -> mulin_i64 x n = x * n) /\ (forall x n, in_u64 n -> mulin_u64 x n = x * n) /\
  (forall x n, in_i32 n -> mulin_i32 x n = x * n) /\ (forall x n, in_u32 n -> mulin_u32 x n = x * n) /\
  (forall x n, mul_I x n = x * n) /\
  (forall x n, in_i64 n -> mul_i64 x n = x * n) /\ (forall x n, in_u64 n -> mul_u64 x n = x * n) /\
  (forall x n, in_i32 n -> mul_i32 x n = x * n) /\ (forall x n, in_u32 n -> mul_u32 x n = x * n) /\
  (forall x n, opMulEq_I x n = x * n) /\
  (forall x n, in_u64 n -> opMulEq_u64 x n = x * n) /\ (forall x n, in_i64 n -> opMulEq_i64 x n = x * n) /\
  (forall x n, in_u32 n -> opMulEq_u32 x n = x * n) /\ (forall x n, in_i32 n -> opMulEq_i32 x n = x * n) /\
  (forall x n, in_i32 n -> opMulEq_T x n = x * n) /\
  (forall x n, opMul_I x n = x * n) /\
  (forall x n, in_u64 n -> opMul_u64 x n = x * n) /\ (forall x n, in_i64 n -> opMul_i64 x n = x * n) /\
  (forall x n, in_u32 n -> opMul_u32 x n = x * n) /\ (forall x n, in_i32 n -> opMul_i32 x n = x * n) /\
  (forall l n, in_i32 l -> fr_mul_i32 l n = l * n) /\ (forall l n, in_u32 l -> fr_mul_u32 l n = l * n) /\
  (forall l n, in_i64 l -> fr_mul_i64 l n = l * n) /\ (forall l n, in_u64 l -> fr_mul_u64 l n = l * n).
Lemma mul_family_exact : Mul_family_exact.
Proof.
  repeat split; intros;
  first [ apply mulin_I_ok | apply mulin_i64_ok | apply mulin_u64_ok | apply mulin_i32_ok | apply mulin_u32_ok
        | apply mul_I_ok | apply mul_i64_ok | apply mul_u64_ok | apply mul_i32_ok | apply mul_u32_ok
        | apply opMulEq_I_ok | apply opMulEq_u64_ok | apply opMulEq_i64_ok | apply opMulEq_u32_ok | apply opMulEq_i32_ok
        | apply opMulEq_T_ok | apply opMul_I_ok | apply opMul_u64_ok | apply opMul_i64_ok | apply opMul_u32_ok | apply opMul_i32_ok
        | apply fr_mul_i32_ok | apply fr_mul_u32_ok | apply fr_mul_i64_ok | apply fr_mul_u64_ok ]; try assumption.
Qed.

Definition Mul_family_agree : Prop := forall x n, 0 <= n < H32 ->
  let r := x * n in
  mulin_I x n = r /\ mulin_i64 x n = r /\ mulin_u64 x n = r /\ mulin_i32 x n = r /\ mulin_u32 x n = r /\
  mul_I x n = r /\ mul_i64 x n = r /\ mul_u64 x n = r /\ mul_i32 x n = r /\ mul_u32 x n = r /\
  opMulEq_I x n = r /\ opMulEq_u64 x n = r /\ opMulEq_i64 x n = r /\ opMulEq_u32 x n = r /\ opMulEq_i32 x n = r /\
  opMul_I x n = r /\ opMul_u64 x n = r /\ opMul_i64 x n = r /\ opMul_u32 x n = r /\ opMul_i32 x n = r /\
  fr_mul_i32 n x = r /\ fr_mul_u32 n x = r /\ fr_mul_i64 n x = r /\ fr_mul_u64 n x = r.
Lemma mul_family_agree : Mul_family_agree.
Proof.
  intros x n Hn r; subst r.
  assert (in_i32 n) by (unfold in_i32, H32 in *; lia). assert (in_u32 n) by (unfold in_u32, W32, H32 in *; lia).
  assert (in_i64 n) by (unfold in_i64, H64, H32 in *; lia). assert (in_u64 n) by (unfold in_u64, W64, H32 in *; lia).
  rewrite mulin_I_ok, mulin_i64_ok, mulin_u64_ok, mulin_i32_ok, mulin_u32_ok, mul_I_ok, mul_i64_ok, mul_u64_ok, mul_i32_ok,
    mul_u32_ok, opMulEq_I_ok, opMulEq_u64_ok, opMulEq_i64_ok, opMulEq_u32_ok, opMulEq_i32_ok, opMul_I_ok, opMul_u64_ok,
    opMul_i64_ok, opMul_u32_ok, opMul_i32_ok, fr_mul_i32_ok, fr_mul_u32_ok, fr_mul_i64_ok, fr_mul_u64_ok by assumption.
  repeat split; lia.
Qed.

(* ---------------------------------------------------------------- fused forms *)
(* `alias = true` means the call passed one object as res and b, so res = b as values *)
Definition Fused_exact : Prop :=
  (forall res a x, axpyin_I res a x = res + a * x) /\
  (forall res a x, in_u64 x -> axpyin_u64 res a x = res + a * x) /\
  (forall res a x, maxpyin_I res a x = res - a * x) /\
  (forall res a x, in_u64 x -> maxpyin_u64 res a x = res - a * x) /\
  (forall res a x, axmyin_I res a x = a * x - res) /\
  (forall res a x, in_u64 x -> axmyin_u64 res a x = a * x - res) /\
  (forall alias res a x b, (alias = true -> res = b) -> axpy_I alias res a x b = a * x + b) /\
  (forall alias res a x b, in_u64 x -> (alias = true -> res = b) -> axpy_u64 alias res a x b = a * x + b) /\
  (forall alias res a x b, (alias = true -> res = b) -> maxpy_I alias res a x b = b - a * x) /\
  (forall alias res a x b, in_u64 x -> (alias = true -> res = b) -> maxpy_u64 alias res a x b = b - a * x) /\
  (forall alias res a x b, (alias = true -> res = b) -> axmy_I alias res a x b = a * x - b) /\
  (forall alias res a x b, in_u64 x -> (alias = true -> res = b) -> axmy_u64 alias res a x b = a * x - b).
Lemma fused_exact : Fused_exact.
Proof.
  repeat split; intros;
  try match goal with al : bool |- _ => destruct al; [ match goal with H : true = true -> _ |- _ => specialize (H eq_refl); subst end
                                                   | match goal with H : false = true -> _ |- _ => clear H end ] end;
  c01_solve.
Qed.
