(* C01 proofs, base: tactics, unfolding hints; constructors and negation.
   Every overload body of Model.v equals the Z operation for ALL big-integer operands and ALL word
   operands in the C type's range. *)
From Coq Require Import ZArith Bool Lia.
From C01 Require Import Model.
Local Open Scope Z_scope.

Ltac Zify.zify_post_hook ::= Z.div_mod_to_equations.

Create HintDb c01.
#[export] Hint Unfold
  ctor_i32 ctor_u8 ctor_u32 ctor_i64 ctor_u64 ctor_copy logcpy assign copy isZero_I isZero_i64 isZero_u64
  neg negin opNeg Integer_zero
  addin_I addin_i64 addin_u64 addin_i32 addin_u32 add_I add_i64 add_u64 add_i32 add_u32
  opPlusEq_I opPlusEq_u64 opPlusEq_i64 opPlusEq_u32 opPlusEq_i32 opPlusEq_T
  opPlus_I opPlus_u64 opPlus_i64 opPlus_u32 opPlus_i32 fr_plus_i32 fr_plus_u32 fr_plus_i64 fr_plus_u64 preinc postinc
  subin_I subin_i64 subin_u64 subin_i32 subin_u32 sub_I sub_i64 sub_u64 sub_i32 sub_u32
  opMinusEq_I opMinusEq_u64 opMinusEq_i64 opMinusEq_u32 opMinusEq_i32 opMinusEq_T
  opMinus_I opMinus_u64 opMinus_i64 opMinus_u32 opMinus_i32 fr_minus_i32 fr_minus_u32 fr_minus_i64 fr_minus_u64 predec postdec
  mulin_I mulin_i64 mulin_u64 mulin_i32 mulin_u32 mul_I mul_i64 mul_u64 mul_i32 mul_u32
  opMulEq_I opMulEq_u64 opMulEq_i64 opMulEq_u32 opMulEq_i32 opMulEq_T
  opMul_I opMul_u64 opMul_i64 opMul_u32 opMul_i32 fr_mul_i32 fr_mul_u32 fr_mul_i64 fr_mul_u64
  axpyin_I axpyin_u64 axpy_I axpy_u64 maxpyin_I maxpyin_u64 maxpy_I maxpy_u64 axmyin_I axmyin_u64 axmy_I axmy_u64 : c01.

#[export] Hint Unfold
  mpz_set_si mpz_set_ui mpz_add mpz_add_ui mpz_sub mpz_sub_ui mpz_mul mpz_mul_si mpz_mul_ui mpz_addmul mpz_addmul_ui
  mpz_submul mpz_submul_ui mpz_neg mpz_sgn mpz_cmp mpz_cmp_si mpz_cmp_ui mpz_cmpabs mpz_cmpabs_ui : gmpspec.

#[export] Hint Unfold
  to_u64 to_u32 to_u16 to_u8 to_i64 to_i32 to_i16 to_i8 wrap_u wrap_s i32_to_i64 u32_to_u64 neg_u64 neg_i64 abs_i64 abs_i32 sign_w
  in_i8 in_u8 in_i16 in_u16 in_i32 in_u32 in_i64 in_u64 W8 W16 W32 W64 H8 H16 H32 H64 b2z : cint.
(* the part of cint that does not touch the modular wraps *)
#[export] Hint Unfold
  i32_to_i64 u32_to_u64 sign_w in_i8 in_u8 in_i16 in_u16 in_i32 in_u32 in_i64 in_u64 W8 W16 W32 W64 H8 H16 H32 H64 b2z : cint_nowrap.

Ltac split_ifs :=
  repeat match goal with
  | |- context[?a =? ?b] => destruct (Z.eqb_spec a b)
  | |- context[?a <? ?b] => destruct (Z.ltb_spec a b)
  | |- context[?a <=? ?b] => destruct (Z.leb_spec a b)
  | H : context[?a =? ?b] |- _ => destruct (Z.eqb_spec a b)
  | H : context[?a <? ?b] |- _ => destruct (Z.ltb_spec a b)
  | H : context[?a <=? ?b] |- _ => destruct (Z.leb_spec a b)
  end; cbn [orb andb negb] in *.

(* the wraps that occur in the sign dispatches, proved once *)
Lemma to_u64_id n : 0 <= n < 18446744073709551616 -> to_u64 n = n.
Proof. intros; unfold to_u64, wrap_u, W64; lia. Qed.
Lemma to_u32_id n : 0 <= n < 4294967296 -> to_u32 n = n.
Proof. intros; unfold to_u32, wrap_u, W32; lia. Qed.
Lemma to_i64_id n : - 9223372036854775808 <= n < 9223372036854775808 -> to_i64 n = n.
Proof. intros; unfold to_i64, wrap_s, W64, H64; lia. Qed.
Lemma to_i32_id n : - 2147483648 <= n < 2147483648 -> to_i32 n = n.
Proof. intros; unfold to_i32, wrap_s, W32, H32; lia. Qed.
Lemma to_u64_of_neg n : - 18446744073709551616 <= n < 0 -> to_u64 n = n + 18446744073709551616.
Proof. intros; unfold to_u64, wrap_u, W64; lia. Qed.
Lemma neg_u64_of_neg n : - 18446744073709551616 < n < 0 -> neg_u64 (to_u64 n) = - n.
Proof. intros; unfold neg_u64, to_u64, wrap_u, W64; lia. Qed.
Lemma to_u64_neg_i64 n : - 9223372036854775808 <= n < 0 -> to_u64 (neg_i64 n) = - n.
Proof. intros; unfold neg_i64, to_i64, to_u64, wrap_u, wrap_s, W64, H64; lia. Qed.
Lemma to_u64_abs_i64 n : - 9223372036854775808 <= n < 9223372036854775808 -> to_u64 (abs_i64 n) = Z.abs n.
Proof. intros; unfold abs_i64, to_i64, to_u64, wrap_u, wrap_s, W64, H64; lia. Qed.

Ltac c01_wraps :=
  repeat first [ rewrite to_u64_id by lia | rewrite neg_u64_of_neg by lia | rewrite to_u64_neg_i64 by lia
               | rewrite to_u64_abs_i64 by lia | rewrite to_u32_id by lia | rewrite to_i64_id by lia | rewrite to_i32_id by lia ].

Ltac c01_unfold := repeat autounfold with c01 in *; repeat autounfold with gmpspec in *; repeat autounfold with cint in *; cbv beta zeta in *.
Ltac c01_unfold_nowrap := repeat autounfold with c01 in *; repeat autounfold with gmpspec in *; repeat autounfold with cint_nowrap in *; cbv beta zeta in *.
(* fast path: wraps by the lemmas above; fallback: unfold the wraps and let lia see the div/mod equations *)
Ltac c01_fin := try lia; try nia; try (f_equal; lia).
Ltac c01_solve := intros; c01_unfold_nowrap; split_ifs; c01_wraps; c01_fin; c01_unfold; c01_fin.

(* ---------------------------------------------------------------- constructors, negation *)
Definition Ctor_exact : Prop :=
  (forall n, in_i32 n -> ctor_i32 n = n) /\ (forall n, in_u8 n -> ctor_u8 n = n) /\
  (forall n, in_u32 n -> ctor_u32 n = n) /\ (forall n, in_i64 n -> ctor_i64 n = n) /\
  (forall n, in_u64 n -> ctor_u64 n = n) /\ (forall n, ctor_copy n = n) /\
  (forall x n, logcpy x n = n) /\ (forall x n, assign x n = n) /\ (forall x n, copy x n = n).
Lemma ctor_exact : Ctor_exact.
Proof. repeat split; c01_solve. Qed.

Definition Neg_exact : Prop :=
  (forall n, neg n = - n) /\ (forall n, negin n = - n) /\ (forall n, opNeg n = - n).
Lemma neg_exact : Neg_exact.
Proof. repeat split; c01_solve. Qed.

