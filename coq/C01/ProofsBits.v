(* C01 proofs: shifts, bit logic, conversions to and from native types, size queries. *)
From Coq Require Import ZArith Bool Lia.
From C01 Require Import Model Model2 ProofsBase ProofsCmp.
Local Open Scope Z_scope.
Ltac Zify.zify_post_hook ::= Z.div_mod_to_equations.

#[export] Hint Unfold
  opShl_u64 opShl_i32 opShl_u32 opShl_i64 opShr_u64 opShr_i32 opShr_i64 opShr_u32
  opShlEq_u64 opShlEq_i32 opShlEq_u32 opShlEq_i64 opShrEq_u64 opShrEq_i32 opShrEq_i64 opShrEq_u32
  opXorEq_I opOrEq_I opAndEq_I opXorEq_u64 opOrEq_u64 opAndEq_u64 opXorEq_u32 opOrEq_u32 opAndEq_u32
  opXor_I opOr_I opAnd_I opXor_u64 opOr_u64 opXor_u32 opOr_u32 opNot
  cast_i32 cast_u32 cast_i64 cast_u64 cast_b cast_i16 cast_u16 cast_u8 cast_i8 ctor_d
  size bitsize length limb dom_logtwo : c01.
#[export] Hint Unfold mpz_and mpz_ior mpz_xor mpz_com mpz_mul_2exp mpz_tdiv_q_2exp mpz_set_d and_u64 : gmpspec.

(* ---------------------------------------------------------------- shifts (amount l >= 0 carried by any word type) *)
Definition Shift_exact : Prop :=
  (forall x l, in_u64 l -> opShl_u64 x l = x * 2 ^ l) /\ (forall x l, in_u32 l -> opShl_u32 x l = x * 2 ^ l) /\
  (forall x l, in_i64 l -> 0 <= l -> opShl_i64 x l = x * 2 ^ l) /\ (forall x l, in_i32 l -> 0 <= l -> opShl_i32 x l = x * 2 ^ l) /\
  (forall x l, in_u64 l -> opShlEq_u64 x l = x * 2 ^ l) /\ (forall x l, in_u32 l -> opShlEq_u32 x l = x * 2 ^ l) /\
  (forall x l, in_i64 l -> 0 <= l -> opShlEq_i64 x l = x * 2 ^ l) /\ (forall x l, in_i32 l -> 0 <= l -> opShlEq_i32 x l = x * 2 ^ l) /\
  (forall x l, in_u64 l -> opShr_u64 x l = Z.quot x (2 ^ l)) /\ (forall x l, in_u32 l -> opShr_u32 x l = Z.quot x (2 ^ l)) /\
  (forall x l, in_i64 l -> 0 <= l -> opShr_i64 x l = Z.quot x (2 ^ l)) /\ (forall x l, in_i32 l -> 0 <= l -> opShr_i32 x l = Z.quot x (2 ^ l)) /\
  (forall x l, in_u64 l -> opShrEq_u64 x l = Z.quot x (2 ^ l)) /\ (forall x l, in_u32 l -> opShrEq_u32 x l = Z.quot x (2 ^ l)) /\
  (forall x l, in_i64 l -> 0 <= l -> opShrEq_i64 x l = Z.quot x (2 ^ l)) /\ (forall x l, in_i32 l -> 0 <= l -> opShrEq_i32 x l = Z.quot x (2 ^ l)) /\
  (* the truncated quotient by 2^l: the arithmetic shift of |x|, with the sign of x *)
  (forall x l, 0 <= l -> Z.quot x (2 ^ l) = Z.sgn x * Z.shiftr (Z.abs x) l).
Lemma quot_pow2_shiftr x l : 0 <= l -> Z.quot x (2 ^ l) = Z.sgn x * Z.shiftr (Z.abs x) l.
Proof.
  intros Hl. rewrite Z.shiftr_div_pow2 by assumption. assert (0 < 2 ^ l) by (apply Z.pow_pos_nonneg; lia).
  destruct (Z.lt_trichotomy x 0) as [Hx | [Hx | Hx]].
  - rewrite (Z.sgn_neg x Hx), (Z.abs_neq x) by lia. replace x with (- (- x)) at 1 by lia.
    rewrite Z.quot_opp_l by lia. rewrite Z.quot_div_nonneg by lia. lia.
  - subst x. rewrite Z.quot_0_l by lia. reflexivity.
  - rewrite (Z.sgn_pos x Hx), (Z.abs_eq x) by lia. rewrite Z.quot_div_nonneg by lia. lia.
Qed.
Lemma shift_exact : Shift_exact.
Proof.
  unfold Shift_exact; repeat apply conj; intros; try (apply quot_pow2_shiftr; assumption);
  c01_unfold_nowrap; c01_wraps; reflexivity.
Qed.

(* ---------------------------------------------------------------- bit logic: two's complement on Z (Z.land / Z.lor / Z.lxor) *)
Lemma mod_pow2_land x a : 0 <= a < 2 ^ 64 -> Z.land x a = Z.land (x mod 2 ^ 64) a.
Proof.
  intros Ha. rewrite <- (Z.land_ones x 64) by lia.
  rewrite <- Z.land_assoc. f_equal. rewrite Z.land_comm, Z.land_ones by lia. symmetry; apply Z.mod_small; exact Ha.
Qed.
Lemma low_word x : (if Z.sgn x <? 0 then neg_u64 (Z.abs x mod W64) else Z.abs x mod W64) = x mod 2 ^ 64.
Proof.
  change (2 ^ 64) with 18446744073709551616. unfold neg_u64, to_u64, wrap_u, W64.
  destruct (Z.ltb_spec (Z.sgn x) 0); lia.
Qed.
Lemma land_small x a n : 0 <= n -> 0 <= a < 2 ^ n -> (Z.land x a) mod 2 ^ n = Z.land x a.
Proof.
  intros Hn Ha. rewrite <- Z.land_ones by assumption. rewrite <- Z.land_assoc. f_equal.
  rewrite Z.land_ones by assumption. apply Z.mod_small; exact Ha.
Qed.
Lemma opAnd_u64_ok x a : in_u64 a -> opAnd_u64 x a = Z.land x a.
Proof.
  intros Ha. unfold opAnd_u64, and_u64, mpz_get_ui, priv_sign, mpz_sgn. cbv zeta. rewrite low_word.
  symmetry; apply mod_pow2_land. unfold in_u64, W64 in Ha. change (2 ^ 64) with 18446744073709551616. exact Ha.
Qed.
Lemma opAnd_u32_ok x a : in_u32 a -> opAnd_u32 x a = Z.land x a.
Proof.
  intros Ha. unfold opAnd_u32, and_u64, mpz_get_ui, priv_sign, mpz_sgn, u32_to_u64. cbv zeta. rewrite low_word.
  unfold in_u32, W32 in Ha.
  assert (Hr : 0 <= a < 2 ^ 64) by (change (2 ^ 64) with 18446744073709551616; lia).
  rewrite <- (mod_pow2_land x a Hr). unfold to_u32, wrap_u, W32. change 4294967296 with (2 ^ 32).
  apply land_small; [lia | change (2 ^ 32) with 4294967296; lia].
Qed.
(* the bodies before frag/C01.fix-3.diff: wrong for a negative x *)
Lemma opAnd_u64_tree_refuted : exists x a, in_u64 a /\ opAnd_u64_tree x a <> Z.land x a.
Proof. exists (-5), 3. split; [unfold in_u64, W64; lia | vm_compute; discriminate]. Qed.
Lemma opAnd_u32_tree_refuted : exists x a, in_u32 a /\ opAnd_u32_tree x a <> Z.land x a.
Proof. exists (-5), 3. split; [unfold in_u32, W32; lia | vm_compute; discriminate]. Qed.

Definition Bitlogic_exact : Prop :=
  (forall x a, opXor_I x a = Z.lxor x a) /\ (forall x a, opOr_I x a = Z.lor x a) /\ (forall x a, opAnd_I x a = Z.land x a) /\
  (forall x a, opXorEq_I x a = Z.lxor x a) /\ (forall x a, opOrEq_I x a = Z.lor x a) /\ (forall x a, opAndEq_I x a = Z.land x a) /\
  (forall x a, in_u64 a -> opXor_u64 x a = Z.lxor x a) /\ (forall x a, in_u64 a -> opOr_u64 x a = Z.lor x a) /\
  (forall x a, in_u64 a -> opAnd_u64 x a = Z.land x a) /\
  (forall x a, in_u64 a -> opXorEq_u64 x a = Z.lxor x a) /\ (forall x a, in_u64 a -> opOrEq_u64 x a = Z.lor x a) /\
  (forall x a, in_u64 a -> opAndEq_u64 x a = Z.land x a) /\
  (forall x a, in_u32 a -> opXor_u32 x a = Z.lxor x a) /\ (forall x a, in_u32 a -> opOr_u32 x a = Z.lor x a) /\
  (forall x a, in_u32 a -> opAnd_u32 x a = Z.land x a) /\
  (forall x a, in_u32 a -> opXorEq_u32 x a = Z.lxor x a) /\ (forall x a, in_u32 a -> opOrEq_u32 x a = Z.lor x a) /\
  (forall x a, in_u32 a -> opAndEq_u32 x a = Z.land x a) /\
  (forall x, opNot x = - x - 1).
Lemma bitlogic_exact : Bitlogic_exact.
Proof.
  unfold Bitlogic_exact; repeat apply conj; intros;
  first [ apply opAnd_u64_ok; assumption | apply opAnd_u32_ok; assumption
        | c01_unfold_nowrap; first [ reflexivity | unfold Z.lnot; lia ] ].
Qed.

(* ---------------------------------------------------------------- conversions *)
Lemma get_si_in_range x : in_i64 x -> mpz_get_si x = x.
Proof. unfold in_i64, mpz_get_si, H64, W64. intros. cbv zeta. split_ifs; lia. Qed.
Lemma get_ui_in_range x : in_u64 x -> mpz_get_ui x = x.
Proof. unfold in_u64, mpz_get_ui, W64. intros. lia. Qed.
Lemma log2_abs_lt x p : 0 < p -> Z.abs x < 2 ^ p -> Z.log2 (Z.abs x) < p.
Proof.
  intros Hp H. destruct (Z.eq_dec (Z.abs x) 0) as [-> | Hn]; [cbn; lia |].
  apply Z.log2_lt_pow2; lia.
Qed.
Lemma trunc_bits_small p x : 0 < p -> Z.abs x < 2 ^ p -> trunc_bits p x = x.
Proof.
  intros Hp H. unfold trunc_bits. pose proof (log2_abs_lt x p Hp H). cbv zeta.
  destruct (Z.ltb_spec 0 (Z.log2 (Z.abs x) + 1 - p)); [lia | reflexivity].
Qed.
Lemma rne_bits_small p x : 0 < p -> Z.abs x < 2 ^ p -> rne_bits p x = x.
Proof.
  intros Hp H. unfold rne_bits. pose proof (log2_abs_lt x p Hp H). cbv zeta.
  destruct (Z.ltb_spec 0 (Z.log2 (Z.abs x) + 1 - p)); [lia | reflexivity].
Qed.
Lemma trunc_bits_le p x : Z.abs (trunc_bits p x) <= Z.abs x.
Proof.
  unfold trunc_bits. cbv zeta. destruct (Z.ltb_spec 0 (Z.log2 (Z.abs x) + 1 - p)); [| lia].
  assert (HP : 0 < 2 ^ (Z.log2 (Z.abs x) + 1 - p)) by (apply Z.pow_pos_nonneg; lia).
  remember (2 ^ (Z.log2 (Z.abs x) + 1 - p)) as P.
  pose proof (Z.quot_rem' x P) as E. pose proof (Z.rem_bound_abs x P ltac:(lia)) as Bd.
  destruct (Z.eq_dec (Z.rem x P) 0) as [R0 | Rn]; [rewrite R0 in E; nia |].
  pose proof (Z.rem_sign_nz x P ltac:(lia) Rn) as Sg.
  remember (Z.quot x P) as q. remember (Z.rem x P) as r.
  destruct (Z.lt_trichotomy x 0) as [Hx | [Hx | Hx]].
  - rewrite (Z.sgn_neg x Hx) in Sg. assert (r < 0) by (destruct r; cbn in Sg; lia).
    assert (q <= 0) by nia. assert (q * P <= 0) by nia. lia.
  - subst x. lia.
  - rewrite (Z.sgn_pos x Hx) in Sg. assert (0 < r) by (destruct r; cbn in Sg; lia).
    assert (0 <= q) by nia. assert (0 <= q * P) by nia. lia.
Qed.

Definition Casts_exact : Prop :=
  (forall x, in_i64 x -> cast_i64 x = x) /\ (forall x, in_u64 x -> cast_u64 x = x) /\
  (forall x, in_i32 x -> cast_i32 x = x) /\ (forall x, in_u32 x -> cast_u32 x = x) /\
  (forall x, in_i16 x -> cast_i16 x = x) /\ (forall x, in_u16 x -> cast_u16 x = x) /\
  (forall x, in_i8 x -> cast_i8 x = x) /\ (forall x, in_u8 x -> cast_u8 x = x) /\
  (forall x, cast_b x = negb (x =? 0)) /\
  (* the unsigned casts consider the absolute value (documented in the header), reduced to the width *)
  (forall x, cast_u64 x = Z.abs x mod W64) /\ (forall x, cast_u32 x = Z.abs x mod W32) /\
  (* double: exact up to 53 significant bits, float: up to 24; beyond: truncation (double), then round-to-nearest-even (float) *)
  (forall x, Z.abs x < 2 ^ 53 -> cast_d x = x) /\ (forall x, Z.abs x < 2 ^ 24 -> cast_f x = x) /\
  (forall x, Z.abs (cast_d x) <= Z.abs x) /\
  (* Integer(double): the integer part (truncation towards 0) of d = m * 2^e *)
  (forall m e, 0 <= e -> ctor_d m e = m * 2 ^ e) /\ (forall m e, e < 0 -> ctor_d m e = Z.quot m (2 ^ (- e))).
Lemma casts_exact : Casts_exact.
Proof.
  unfold Casts_exact; repeat apply conj; intros.
  - unfold cast_i64. apply get_si_in_range; assumption.
  - unfold cast_u64. apply get_ui_in_range; assumption.
  - unfold cast_i32. rewrite get_si_in_range by (c01_unfold; lia). c01_unfold; lia.
  - unfold cast_u32. rewrite get_ui_in_range by (c01_unfold; lia). c01_unfold; lia.
  - unfold cast_i16, cast_i32. rewrite get_si_in_range by (c01_unfold; lia). c01_unfold; lia.
  - unfold cast_u16, cast_u32. rewrite get_ui_in_range by (c01_unfold; lia). c01_unfold; lia.
  - unfold cast_i8, cast_i32. rewrite get_si_in_range by (c01_unfold; lia). c01_unfold; lia.
  - unfold cast_u8, cast_u32. rewrite get_ui_in_range by (c01_unfold; lia). c01_unfold; lia.
  - c01_bool.
  - reflexivity.
  - unfold cast_u32, mpz_get_ui, to_u32, wrap_u, W64, W32. lia.
  - unfold cast_d, mpz_get_d. apply trunc_bits_small; [lia | assumption].
  - unfold cast_f, mpz_get_d, d_to_f. rewrite trunc_bits_small; [| lia |].
    + apply rne_bits_small; [lia | assumption].
    + eapply Z.lt_trans; [eassumption | reflexivity].
  - unfold cast_d, mpz_get_d. apply trunc_bits_le.
  - unfold ctor_d, mpz_set_d. destruct (Z.leb_spec 0 e); [reflexivity | lia].
  - unfold ctor_d, mpz_set_d. destruct (Z.leb_spec 0 e); [lia | reflexivity].
Qed.

(* ---------------------------------------------------------------- size queries *)
Lemma bitsize_spec x : x <> 0 -> 2 ^ (bitsize x - 1) <= Z.abs x < 2 ^ bitsize x.
Proof.
  intros Hx. unfold bitsize, mpz_sizeinbase2. destruct (Z.eqb_spec x 0); [contradiction |].
  replace (Z.log2 (Z.abs x) + 1 - 1) with (Z.log2 (Z.abs x)) by lia.
  replace (Z.log2 (Z.abs x) + 1) with (Z.succ (Z.log2 (Z.abs x))) by lia. apply Z.log2_spec. lia.
Qed.
Lemma dom_logtwo_spec x : x <> 0 -> Z.log2 (Z.abs x) < W64 -> dom_logtwo x = Z.log2 (Z.abs x).
Proof.
  intros Hx Hb. unfold dom_logtwo, bitsize, mpz_sizeinbase2, ctor_u64, mpz_set_ui. destruct (Z.eqb_spec x 0); [contradiction |].
  pose proof (Z.log2_nonneg (Z.abs x)). unfold W64 in Hb. rewrite to_u64_id by lia. lia.
Qed.
Definition Size_exact : Prop :=
  (forall x, x <> 0 -> 2 ^ (bitsize x - 1) <= Z.abs x < 2 ^ bitsize x) /\ (bitsize 0 = 1) /\
  (forall x, size x = if x =? 0 then 0 else Z.log2 (Z.abs x) / 64 + 1) /\ (forall x, length x = size x * 8) /\
  (forall x i, limb x i = if i <? size x then (Z.abs x / 2 ^ (64 * i)) mod 2 ^ 64 else 0) /\
  (forall x, x <> 0 -> Z.log2 (Z.abs x) < W64 -> dom_logtwo x = Z.log2 (Z.abs x)).
Lemma size_exact : Size_exact.
Proof.
  unfold Size_exact; repeat apply conj; intros; try reflexivity.
  - apply bitsize_spec; assumption.
  - apply dom_logtwo_spec; assumption.
Qed.
